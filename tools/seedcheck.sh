#!/bin/bash
# seedcheck.sh <ID> [extra check ids...] — validate a sub-agent's property-breaking change from
# /tmp/seeded-out/<ID>/ in a fresh scratch worktree (outside /repo and /verif) and run the
# check(s) against it. Prints a summary; never touches /repo.
set -u
ID=$1; shift
CHECKS="$*"
[ -z "$CHECKS" ] && CHECKS=$(echo $ID | sed 's/[a-z]*$//')
export GOFLAGS=-mod=mod GOPROXY=off GOSUMDB=off GOTOOLCHAIN=local GODEBUG=goindex=0
SRC=/tmp/seeded-out/$ID
WT=/tmp/sv-$ID
[ -f $SRC/patch.diff ] || { echo "no patch for $ID"; exit 2; }
git -C /repo worktree remove --force $WT 2>/dev/null
git -C /repo worktree add --detach $WT HEAD -q || exit 2
cd $WT
DEMO=$(python3 -c "import json;print(json.load(open('$SRC/meta.json'))['demo_path_in_repo'])")
CMD=$(python3 -c "import json;print(json.load(open('$SRC/meta.json'))['demo_cmd'])")
python3 - "$SRC" "$WT" "$DEMO" <<'PY'
import os,sys,shutil
src,wt,demo=sys.argv[1:4]
demo=demo.split()[0].strip('(),')
d=os.path.join(src,'demo')
for root,_,files in os.walk(d):
    for f in files:
        rel=os.path.relpath(os.path.join(root,f),d)
        if os.sep in rel:
            dst=os.path.join(wt,rel)
        elif demo.endswith('.go'):
            dst=os.path.join(wt,os.path.dirname(demo),f)
        else:
            dst=os.path.join(wt,demo,f)
        os.makedirs(os.path.dirname(dst),exist_ok=True)
        shutil.copy(os.path.join(root,f),dst)
PY
echo "== demo WITHOUT change: $CMD"
( timeout 1200 bash -c "$CMD" ) > /tmp/sv-$ID.without.log 2>&1; W=$?
echo "exit=$W"
git apply $SRC/patch.diff || { echo "PATCH DOES NOT APPLY"; exit 2; }
echo "== demo WITH change"
( timeout 1200 bash -c "$CMD" ) > /tmp/sv-$ID.with.log 2>&1; C=$?
echo "exit=$C"
echo "== build"
go build -overlay /tmp/sandbox-hints/base-overlay.json ./... 2>&1 | grep -v "ld:\|^#" | tail -3
# remove demo files first: the package's own tests are judged without the demonstration
git status --short | grep '^??' | awk '{print $2}' | xargs -r rm -rf
echo "== tests of touched packages"
for d in $(git diff --name-only | xargs -n1 dirname | sort -u); do
  timeout 900 go test -count=1 -vet=off -ldflags=-checklinkname=0 -overlay /tmp/sandbox-hints/base-overlay.json ./$d/ 2>&1 | grep -v "ld:\|^#" | tail -2
done
rm -rf $(dirname $DEMO)/zz_demo 2>/dev/null
# remove demo files so the checks see only the source change
git status --short | grep '^??' | awk '{print $2}' | xargs -r rm -rf
for c in $CHECKS; do
  echo "== verif check $c against the change"
  VERIF_REPO=$WT /verif/bin/verif check $c 2>&1 | grep -v "ld:\|^#" | grep "VIOLATION\|signature\|what:\|quick:\|ENGINE" | cut -c1-300 | head -12
done
git -C /repo worktree remove --force $WT; rm -rf /verif/.build/alt_tmp_sv-$ID
echo "== summary $ID: demo without=$W with=$C (want 0 / non-zero)"
