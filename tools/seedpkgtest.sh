#!/bin/bash
# seedpkgtest.sh <ID>: existing tests of the packages a recorded change touches (scratch worktree)
ID=$1
export GOFLAGS=-mod=mod GOPROXY=off GOSUMDB=off GOTOOLCHAIN=local GODEBUG=goindex=0
WT=/tmp/sp-$ID
git -C /repo worktree add --detach $WT HEAD -q || exit 2
cd $WT && git apply /verif/seeded/$ID/patch.diff || exit 2
for d in $(git diff --name-only | xargs -n1 dirname | sort -u); do
  timeout 900 go test -count=1 -vet=off -ldflags=-checklinkname=0 -overlay /tmp/sandbox-hints/base-overlay.json ./$d/ 2>&1 | grep -E "^(--- FAIL|FAIL|ok)" | head -6
done
cd /; git -C /repo worktree remove --force $WT
