#!/usr/bin/env python3
"""Regenerates /verif/MANIFEST.json from /verif/checks.json (claimed checks) and properties.jsonl."""
import json
V='/verif'
props=[json.loads(l) for l in open(V+'/properties.jsonl')]
import glob,os
claimed={'checks':{},'not_applicable':{},'notes':'All checks: bin/verif check <ID> --tier quick|thorough (rebuilds from /repo working tree through go build -overlay). See DESIGN.md.'}
accepted=set(open(V+'/checks.d/ACCEPTED').read().split())
for f in sorted(glob.glob(V+'/checks.d/C*.json')):
    if os.path.basename(f)[:-5] in accepted:
        claimed['checks'][os.path.basename(f)[:-5]]=json.load(open(f))
if os.path.exists(V+'/checks.d/not_applicable.json'):
    claimed['not_applicable']=json.load(open(V+'/checks.d/not_applicable.json'))
engines={}
for pid,c in claimed['checks'].items():
    for e in c['engine'].split('+'):
        engines.setdefault(e,[]).append(pid)
ENG={'xstate':('harness/lib + harness/cmd/*','explicit-state search over real handler calls (one transition = one real call), canonical state hashing, reference-model oracles, deviation-bounded mode'),
 'vsched':('overlay/pkgs/vsched + tools/ovgen/instr.go','hand-rolled cooperative scheduler + source instrumenter: stateless preemption-bounded DFS over goroutine interleavings of the real code, virtual time'),
 'faults':('harness/lib/faults','crash/error point enumeration through recording proxies of Database/Txn/KeyManager/ethclient, restart on surviving DB'),
 'enum':('harness/lib/enum','bounded-exhaustive enumeration of a finite input alphabet after every prefix history, independent reference predicate')}
claimed['engines']=[{"name":e,"path":ENG.get(e,('harness',''))[0],"serves_properties":sorted(v),"kind_free_text":ENG.get(e,('',''))[1]} for e,v in sorted(engines.items())]

base=json.load(open('/root/.vp/BASELINE.json'))['cmd']
checks=[]
for p in props:
    c=claimed['checks'].get(p['id'])
    if not c: continue
    checks.append({
      "property_id":p['id'],
      "quick_cmd":f"bin/verif check {p['id']} --tier quick",
      "thorough_cmd":f"bin/verif check {p['id']} --tier thorough",
      "evidence_file":f"/verif/evidence/{p['id']}.json",
      "replay_cmd_template":f"bin/verif replay {p['id']} {{path}}",
      "engine":c['engine'],
      "level_claimed":{"category":c['level'],"text":c['text'],"design_ref":c.get('design_ref','DESIGN.md §3 '+p['id'])},
      "level_note":c['note'],
      "technique":c['technique'],
    })
na=[{"property_id":p['id'],"reason":claimed.get('not_applicable',{}).get(p['id'],"not claimed yet: harness under construction (DESIGN §3 describes the planned check)")} for p in props if p['id'] not in claimed['checks']]
m={"version":1,"setup_cmd":"bin/verif setup",
 "hooks":{"guard":"verif","enable":"no source hooks: every instrumented or accessor file is generated from /repo's working tree at check time and supplied with `go build -overlay` (DESIGN §1); the build tag `verif` is reserved and unused, so guard-off == the plain tree","baseline_off_cmd":base,"source_commits":[],"add_only":True},
 "engines":claimed['engines'],"checks":checks,"not_applicable":na,"notes":claimed.get('notes','')}
json.dump(m,open(V+'/MANIFEST.json','w'),indent=1)
import jsonschema
jsonschema.validate(m,json.load(open('/root/.vp/MANIFEST.schema.json')))
print("MANIFEST ok:",len(checks),"checks,",len(na),"not claimed")
