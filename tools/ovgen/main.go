// ovgen generates the -overlay JSON (and the generated files it points to) for one check.
// Everything is derived from /repo's current working tree at check time; /repo is never written.
package main

import (
	"encoding/json"
	"flag"
	"fmt"
	"go/ast"
	"go/parser"
	"go/printer"
	"go/token"
	"os"
	"os/exec"
	"path/filepath"
	"regexp"
	"sort"
	"strconv"
	"strings"
)

type ImportRewrite struct {
	File string `json:"file"` // path relative to repo root, or absolute
	From string `json:"from"` // import path to replace
	To   string `json:"to"`   // new import path
}

type Config struct {
	BLSMemo bool `json:"bls_memo"`
	// Virtual packages: import path suffix under github.com/bloxapp/ssv/ -> source dir under /verif
	Virtual map[string]string `json:"virtual"`
	// Files added to existing packages of /repo: repo-relative target -> source under /verif
	AddFiles map[string]string `json:"add_files"`
	// Import redirections
	RewriteImports []ImportRewrite `json:"rewrite_imports"`
	// Packages instrumented for the cooperative scheduler (repo-relative dirs or absolute dirs)
	Instrument []InstrumentSpec `json:"instrument"`
}

type InstrumentSpec struct {
	Dir     string            `json:"dir"`
	Files   []string          `json:"files"`   // optional subset (base names); empty = every non-test .go file
	Imports map[string]string `json:"imports"` // import redirections (default: sync, sync/atomic, time)
	// MapAccess: report every read / write of a map reached as x.field[...] (and delete, range) to
	// vsched.Access, the scheduler's happens-before race check
	MapAccess bool `json:"map_access"`
}

var (
	repo, verif, out string
	overlay          = map[string]string{}
)

func die(f string, a ...interface{}) { fmt.Fprintf(os.Stderr, "ovgen: "+f+"\n", a...); os.Exit(2) }

func modCache() string {
	if v := os.Getenv("GOMODCACHE"); v != "" {
		return v
	}
	b, err := exec.Command("go", "env", "GOMODCACHE").Output()
	if err != nil {
		die("go env: %v", err)
	}
	return strings.TrimSpace(string(b))
}

func modVersion(mod string) string {
	b, err := os.ReadFile(filepath.Join(repo, "go.mod"))
	if err != nil {
		die("%v", err)
	}
	re := regexp.MustCompile(`(?m)^\s*` + regexp.QuoteMeta(mod) + `\s+(v\S+)`)
	m := re.FindSubmatch(b)
	if m == nil {
		die("module %s not in go.mod", mod)
	}
	return string(m[1])
}

func writeGen(name string, content []byte) string {
	p := filepath.Join(out, name)
	os.MkdirAll(filepath.Dir(p), 0o755)
	if old, err := os.ReadFile(p); err == nil && string(old) == string(content) {
		return p
	}
	if err := os.WriteFile(p, content, 0o644); err != nil {
		die("%v", err)
	}
	return p
}

func abs(p string) string {
	if filepath.IsAbs(p) {
		return p
	}
	return filepath.Join(repo, p)
}

func main() {
	check := flag.String("check", "", "check id")
	flag.StringVar(&out, "out", "", "output dir")
	flag.StringVar(&verif, "verif", "/verif", "")
	flag.StringVar(&repo, "repo", "/repo", "")
	flag.Parse()
	if *check == "" || out == "" {
		die("usage")
	}
	os.MkdirAll(out, 0o755)
	var cfg Config
	if b, err := os.ReadFile(filepath.Join(verif, "overlay/checks", *check+".json")); err == nil {
		if err := json.Unmarshal(b, &cfg); err != nil {
			die("config %s: %v", *check, err)
		}
	}
	mc := modCache()
	// base overlay: quic-go refuses go >= 1.21 (see DESIGN §1)
	overlay[filepath.Join(mc, "github.com/quic-go/quic-go@v0.33.0/internal/qtls/go121.go")] = filepath.Join(verif, "overlay/static/qtls_go121.go")
	overlay[filepath.Join(mc, "github.com/quic-go/qtls-go1-20@v0.2.3/unsafe.go")] = filepath.Join(verif, "overlay/static/qtls_unsafe.go")

	if cfg.BLSMemo {
		blsMemo(mc)
	}
	for imp, dir := range cfg.Virtual {
		ents, err := os.ReadDir(filepath.Join(verif, dir))
		if err != nil {
			die("virtual %s: %v", imp, err)
		}
		for _, e := range ents {
			if strings.HasSuffix(e.Name(), ".go") && !strings.HasSuffix(e.Name(), "_test.go") {
				overlay[filepath.Join(repo, imp, e.Name())] = filepath.Join(verif, dir, e.Name())
			}
		}
	}
	for tgt, src := range cfg.AddFiles {
		overlay[abs(tgt)] = filepath.Join(verif, src)
	}
	// instrumentation first (it may also redirect imports), then plain import rewrites
	done := map[string]bool{}
	for _, sp := range cfg.Instrument {
		instrumentDir(sp, done)
	}
	byFile := map[string][]ImportRewrite{}
	for _, rw := range cfg.RewriteImports {
		byFile[abs(rw.File)] = append(byFile[abs(rw.File)], rw)
	}
	files := make([]string, 0, len(byFile))
	for f := range byFile {
		files = append(files, f)
	}
	sort.Strings(files)
	for _, f := range files {
		if done[f] {
			die("file %s both instrumented and import-rewritten", f)
		}
		rewriteImports(f, byFile[f])
	}
	b, _ := json.MarshalIndent(map[string]interface{}{"Replace": overlay}, "", " ")
	writeGen("overlay.json", b)
}

func genName(src string) string {
	s := strings.TrimPrefix(src, "/")
	s = strings.ReplaceAll(s, "/", "__")
	return s
}

func rewriteImports(file string, rws []ImportRewrite) {
	fset := token.NewFileSet()
	f, err := parser.ParseFile(fset, file, nil, parser.ParseComments)
	if err != nil {
		die("parse %s: %v", file, err)
	}
	for _, rw := range rws {
		found := false
		for _, im := range f.Imports {
			p, _ := strconv.Unquote(im.Path.Value)
			if p == rw.From {
				found = true
				if im.Name == nil {
					// keep the local name the file already uses
					im.Name = ast.NewIdent(filepath.Base(rw.From))
				}
				im.Path.Value = strconv.Quote(rw.To)
			}
		}
		if !found {
			die("%s does not import %q (the seam moved; update the check config)", file, rw.From)
		}
	}
	var sb strings.Builder
	if err := printer.Fprint(&sb, fset, f); err != nil {
		die("print: %v", err)
	}
	overlay[file] = writeGen(genName(file), []byte(sb.String()))
}

func blsMemo(mc string) {
	ver := modVersion("github.com/herumi/bls-eth-go-binary")
	src := filepath.Join(mc, "github.com/herumi/bls-eth-go-binary@"+ver, "bls/bls.go")
	b, err := os.ReadFile(src)
	if err != nil {
		die("%v", err)
	}
	s := string(b)
	rep := func(old, new string) {
		if strings.Count(s, old) != 1 {
			die("bls.go: expected exactly one %q", old)
		}
		s = strings.Replace(s, old, new, 1)
	}
	rep("func (sig *Sign) VerifyByte(", "func (sig *Sign) verifyByteRaw(")
	rep("func (sig *Sign) FastAggregateVerify(", "func (sig *Sign) fastAggregateVerifyRaw(")
	rep("func (sec *SecretKey) SignByte(", "func (sec *SecretKey) signByteRaw(")
	rep("func (sig *Sign) Deserialize(", "func (sig *Sign) deserializeRaw(")
	rep("func (pub *PublicKey) Deserialize(", "func (pub *PublicKey) deserializeRaw(")
	rep("\t\"io\"\n", "\t\"io\"\n\t\"sync\"\n")
	s += `
// ---- verif overlay: pure-function memoisation of signing and verification ----
// The cache key is the raw representation of every input, so a hit implies identical inputs
// and therefore the identical result of the deterministic C function.

var verifMemo sync.Map
var VerifMemoHits, VerifMemoMisses uint64

func verifRawSig(s *Sign) string    { return string((*[unsafe.Sizeof(s.v)]byte)(unsafe.Pointer(&s.v))[:]) }
func verifRawPub(p *PublicKey) string { return string((*[unsafe.Sizeof(p.v)]byte)(unsafe.Pointer(&p.v))[:]) }
func verifRawSec(p *SecretKey) string { return string((*[unsafe.Sizeof(p.v)]byte)(unsafe.Pointer(&p.v))[:]) }

// VerifyByte --
func (sig *Sign) VerifyByte(pub *PublicKey, msg []byte) bool {
	if sig == nil || pub == nil {
		return false
	}
	k := "V" + verifRawSig(sig) + verifRawPub(pub) + string(msg)
	if v, ok := verifMemo.Load(k); ok {
		return v.(bool)
	}
	r := sig.verifyByteRaw(pub, msg)
	verifMemo.Store(k, r)
	return r
}

// FastAggregateVerify --
func (sig *Sign) FastAggregateVerify(pubVec []PublicKey, msg []byte) bool {
	if pubVec == nil || len(pubVec) == 0 {
		return false
	}
	k := "F" + verifRawSig(sig)
	for i := range pubVec {
		k += verifRawPub(&pubVec[i])
	}
	k += string(msg)
	if v, ok := verifMemo.Load(k); ok {
		return v.(bool)
	}
	r := sig.fastAggregateVerifyRaw(pubVec, msg)
	verifMemo.Store(k, r)
	return r
}

type verifDeser struct {
	raw string
	err error
}

// Deserialize -- (memoised: point decompression + subgroup check is a pure function of buf)
func (sig *Sign) Deserialize(buf []byte) error {
	k := "DS" + string(buf)
	if v, ok := verifMemo.Load(k); ok {
		d := v.(verifDeser)
		if d.err == nil {
			copy((*[unsafe.Sizeof(sig.v)]byte)(unsafe.Pointer(&sig.v))[:], d.raw)
		}
		return d.err
	}
	err := sig.deserializeRaw(buf)
	verifMemo.Store(k, verifDeser{verifRawSig(sig), err})
	return err
}

// Deserialize --
func (pub *PublicKey) Deserialize(buf []byte) error {
	k := "DP" + string(buf)
	if v, ok := verifMemo.Load(k); ok {
		d := v.(verifDeser)
		if d.err == nil {
			copy((*[unsafe.Sizeof(pub.v)]byte)(unsafe.Pointer(&pub.v))[:], d.raw)
		}
		return d.err
	}
	err := pub.deserializeRaw(buf)
	verifMemo.Store(k, verifDeser{verifRawPub(pub), err})
	return err
}

// SignByte --
func (sec *SecretKey) SignByte(msg []byte) (sig *Sign) {
	k := "S" + verifRawSec(sec) + string(msg)
	if v, ok := verifMemo.Load(k); ok {
		c := *(v.(*Sign))
		return &c
	}
	r := sec.signByteRaw(msg)
	c := *r
	verifMemo.Store(k, &c)
	return r
}
`
	overlay[src] = writeGen("bls_memo.go", []byte(s))
}
