package main

// Source instrumenter for the cooperative scheduler (DESIGN §2.2). Purely syntactic:
//   - import redirection (sync -> vsync, sync/atomic -> vatomic, time -> vtime), local name kept;
//   - go f(a, b)        -> args evaluated in place, then vsched.Go(func() { f(a0, b0) });
//   - ch <- v           -> vsched.Send(ch); ch <- v
//   - <-ch / x := <-ch  -> vsched.Recv(ch, done); ...          (statement level only)
//   - select { ... }    -> switch vsched.Select(hasDefault, cases...) { case i: <op>; body ... }
// Anything it does not understand (receive inside a larger expression, range over a channel field)
// is a loud error, never a silently wrong schedule.

import (
	"fmt"
	"go/ast"
	"go/parser"
	"go/printer"
	"go/token"
	"os"
	"path/filepath"
	"strconv"
	"strings"
)

const vpkg = "github.com/bloxapp/ssv/zzverif/"

var defaultImports = map[string]string{
	"sync":        vpkg + "vsync",
	"sync/atomic": vpkg + "vatomic",
	"time":        vpkg + "vtime",
}

func instrumentDir(sp InstrumentSpec, done map[string]bool) {
	dir := abs(sp.Dir)
	var files []string
	if len(sp.Files) > 0 {
		for _, f := range sp.Files {
			files = append(files, filepath.Join(dir, f))
		}
	} else {
		ents, err := os.ReadDir(dir)
		if err != nil {
			die("instrument %s: %v", dir, err)
		}
		for _, e := range ents {
			if strings.HasSuffix(e.Name(), ".go") && !strings.HasSuffix(e.Name(), "_test.go") {
				files = append(files, filepath.Join(dir, e.Name()))
			}
		}
	}
	imports := defaultImports
	if sp.Imports != nil {
		imports = sp.Imports
	}
	for _, f := range files {
		instrumentFile(f, imports, sp.MapAccess)
		done[f] = true
	}
}

type instr struct {
	fset      *token.FileSet
	file      string
	usedSch   bool
	tmpCount  int
	mapAccess bool
	pkgNames  map[string]bool // local names of the file's imports
}

func (in *instr) fail(n ast.Node, format string, a ...interface{}) {
	die("%s: %s: "+format, append([]interface{}{in.file, in.fset.Position(n.Pos())}, a...)...)
}

func sel(pkg, name string) ast.Expr {
	return &ast.SelectorExpr{X: ast.NewIdent(pkg), Sel: ast.NewIdent(name)}
}

func call(fun ast.Expr, args ...ast.Expr) *ast.CallExpr { return &ast.CallExpr{Fun: fun, Args: args} }

// doneFunc returns `func() bool { return X.Err() != nil }` if ch is the expression X.Done().
func doneFunc(ch ast.Expr) ast.Expr {
	if c, ok := ch.(*ast.CallExpr); ok && len(c.Args) == 0 {
		if s, ok := c.Fun.(*ast.SelectorExpr); ok && s.Sel.Name == "Done" {
			return &ast.FuncLit{
				Type: &ast.FuncType{Params: &ast.FieldList{}, Results: &ast.FieldList{List: []*ast.Field{{Type: ast.NewIdent("bool")}}}},
				Body: &ast.BlockStmt{List: []ast.Stmt{&ast.ReturnStmt{Results: []ast.Expr{
					&ast.BinaryExpr{X: call(&ast.SelectorExpr{X: s.X, Sel: ast.NewIdent("Err")}), Op: token.NEQ, Y: ast.NewIdent("nil")}}}}},
			}
		}
	}
	return ast.NewIdent("nil")
}

func recvOf(e ast.Expr) (ast.Expr, bool) {
	if u, ok := e.(*ast.UnaryExpr); ok && u.Op == token.ARROW {
		return u.X, true
	}
	return nil, false
}

// rewriteStmt returns the replacement statements for s (or nil = keep).
func (in *instr) rewriteStmt(s ast.Stmt) []ast.Stmt {
	switch st := s.(type) {
	case *ast.GoStmt:
		in.usedSch = true
		var pre []ast.Stmt
		c := st.Call
		newArgs := make([]ast.Expr, len(c.Args))
		for i, a := range c.Args {
			in.tmpCount++
			name := ast.NewIdent(fmt.Sprintf("verifArg%d", in.tmpCount))
			pre = append(pre, &ast.AssignStmt{Lhs: []ast.Expr{name}, Tok: token.DEFINE, Rhs: []ast.Expr{a}})
			newArgs[i] = name
		}
		var body ast.Stmt = &ast.ExprStmt{X: &ast.CallExpr{Fun: c.Fun, Args: newArgs, Ellipsis: c.Ellipsis}}
		fl := &ast.FuncLit{Type: &ast.FuncType{Params: &ast.FieldList{}}, Body: &ast.BlockStmt{List: []ast.Stmt{body}}}
		if f, ok := c.Fun.(*ast.FuncLit); ok && len(c.Args) == 0 {
			fl = f
		}
		return []ast.Stmt{&ast.BlockStmt{List: append(pre, &ast.ExprStmt{X: call(sel("vsched", "Go"), fl)})}}
	case *ast.SendStmt:
		in.usedSch = true
		return []ast.Stmt{&ast.ExprStmt{X: call(sel("vsched", "Send"), st.Chan)}, st}
	case *ast.ExprStmt:
		if ch, ok := recvOf(st.X); ok {
			in.usedSch = true
			return []ast.Stmt{&ast.ExprStmt{X: call(sel("vsched", "Recv"), ch, doneFunc(ch))}, st}
		}
	case *ast.AssignStmt:
		if len(st.Rhs) == 1 {
			if ch, ok := recvOf(st.Rhs[0]); ok {
				in.usedSch = true
				return []ast.Stmt{&ast.ExprStmt{X: call(sel("vsched", "Recv"), ch, doneFunc(ch))}, st}
			}
		}
	case *ast.SelectStmt:
		in.usedSch = true
		hasDefault := "false"
		var cases []ast.Expr
		var clauses []ast.Stmt
		idx := 0
		for _, cl := range st.Body.List {
			cc := cl.(*ast.CommClause)
			if cc.Comm == nil {
				hasDefault = "true"
				clauses = append(clauses, &ast.CaseClause{Body: cc.Body})
				continue
			}
			var op ast.Stmt = cc.Comm
			switch cm := cc.Comm.(type) {
			case *ast.SendStmt:
				cases = append(cases, call(sel("vsched", "SendCase"), cm.Chan))
			case *ast.ExprStmt:
				ch, ok := recvOf(cm.X)
				if !ok {
					in.fail(cm, "unsupported select communication")
				}
				cases = append(cases, call(sel("vsched", "RecvCase"), chOrNil(ch), doneFunc(ch)))
			case *ast.AssignStmt:
				ch, ok := recvOf(cm.Rhs[0])
				if !ok || len(cm.Rhs) != 1 {
					in.fail(cm, "unsupported select communication")
				}
				cases = append(cases, call(sel("vsched", "RecvCase"), chOrNil(ch), doneFunc(ch)))
			default:
				in.fail(cc, "unsupported select communication")
			}
			body := append([]ast.Stmt{op}, cc.Body...)
			// a declared-but-unused receive variable would not compile any more than before
			clauses = append(clauses, &ast.CaseClause{List: []ast.Expr{&ast.BasicLit{Kind: token.INT, Value: strconv.Itoa(idx)}}, Body: body})
			idx++
		}
		args := append([]ast.Expr{ast.NewIdent(hasDefault)}, cases...)
		return []ast.Stmt{&ast.SwitchStmt{Tag: call(sel("vsched", "Select"), args...), Body: &ast.BlockStmt{List: clauses}}}
	}
	return nil
}

// chOrNil: for X.Done() the readiness comes from the done function; the channel itself is only
// evaluated in the chosen case.
func chOrNil(ch ast.Expr) ast.Expr {
	if id, ok := doneFunc(ch).(*ast.Ident); ok && id.Name == "nil" {
		return ch
	}
	return ast.NewIdent("nil")
}

// ---- map accesses (vsched.Access) ----

type mapAcc struct {
	x     ast.Expr
	write bool
}

// watched: x.field where x is an identifier that is not an imported package.
func (in *instr) watched(e ast.Expr) bool {
	s, ok := e.(*ast.SelectorExpr)
	if !ok {
		return false
	}
	id, ok := s.X.(*ast.Ident)
	return ok && !in.pkgNames[id.Name]
}

// accessesOf lists the map-like accesses a statement performs itself: simple statements entirely,
// compound statements in their header only (bodies are statement lists of their own; the header of
// an else-if is left out rather than reported when it may not run).
func (in *instr) accessesOf(s ast.Stmt) []mapAcc {
	var out []mapAcc
	writes := map[ast.Expr]bool{}
	var scan func(n ast.Node)
	scan = func(n ast.Node) {
		if n == nil {
			return
		}
		ast.Inspect(n, func(x ast.Node) bool {
			switch e := x.(type) {
			case *ast.FuncLit:
				return false
			case *ast.AssignStmt:
				for _, l := range e.Lhs {
					if ix, ok := l.(*ast.IndexExpr); ok {
						writes[ix] = true
					}
				}
			case *ast.IncDecStmt:
				if ix, ok := e.X.(*ast.IndexExpr); ok {
					writes[ix] = true
				}
			case *ast.CallExpr:
				if id, ok := e.Fun.(*ast.Ident); ok && id.Name == "delete" && len(e.Args) == 2 && in.watched(e.Args[0]) {
					out = append(out, mapAcc{e.Args[0], true})
				}
				if ix, ok := e.Fun.(*ast.IndexExpr); ok { // generic instantiation f[T](...)
					writes[ix] = false
					for _, a := range e.Args {
						scan(a)
					}
					return false
				}
			case *ast.IndexExpr:
				if in.watched(e.X) {
					out = append(out, mapAcc{e.X, writes[e]})
				}
			}
			return true
		})
	}
	switch st := s.(type) {
	case *ast.IfStmt:
		scan(st.Init)
		scan(st.Cond)
	case *ast.ForStmt:
		scan(st.Init)
		scan(st.Cond)
	case *ast.RangeStmt:
		if in.watched(st.X) {
			out = append(out, mapAcc{st.X, false})
		}
		scan(st.X)
	case *ast.SwitchStmt:
		scan(st.Init)
		scan(st.Tag)
	case *ast.TypeSwitchStmt:
		scan(st.Init)
	case *ast.BlockStmt, *ast.SelectStmt, *ast.LabeledStmt, *ast.GoStmt, *ast.DeferStmt:
		// bodies are handled as their own lists; go/defer run later
	default:
		scan(s)
	}
	return out
}

func (in *instr) accessCalls(s ast.Stmt) []ast.Stmt {
	if !in.mapAccess {
		return nil
	}
	var out []ast.Stmt
	seen := map[string]bool{}
	for _, a := range in.accessesOf(s) {
		var sb strings.Builder
		_ = printer.Fprint(&sb, in.fset, a.x)
		w := "false"
		if a.write {
			w = "true"
		}
		if seen[sb.String()+w] {
			continue
		}
		seen[sb.String()+w] = true
		in.usedSch = true
		get := &ast.FuncLit{
			Type: &ast.FuncType{Params: &ast.FieldList{}, Results: &ast.FieldList{List: []*ast.Field{{Type: &ast.InterfaceType{Methods: &ast.FieldList{}}}}}},
			Body: &ast.BlockStmt{List: []ast.Stmt{&ast.ReturnStmt{Results: []ast.Expr{a.x}}}},
		}
		what := fmt.Sprintf("%s:%d %s", filepath.Base(in.file), in.fset.Position(s.Pos()).Line, sb.String())
		out = append(out, &ast.ExprStmt{X: call(sel("vsched", "Access"), get, &ast.BasicLit{Kind: token.STRING, Value: strconv.Quote(what)}, ast.NewIdent(w))})
	}
	return out
}

func (in *instr) rewriteList(list []ast.Stmt) []ast.Stmt {
	var out []ast.Stmt
	for _, s := range list {
		out = append(out, in.accessCalls(s)...)
		// labelled statements: rewrite the inner statement, keep the label on the first result
		if ls, ok := s.(*ast.LabeledStmt); ok {
			if r := in.rewriteStmt(ls.Stmt); r != nil {
				ls.Stmt = r[0]
				out = append(out, ls)
				out = append(out, r[1:]...)
				continue
			}
		}
		if r := in.rewriteStmt(s); r != nil {
			out = append(out, r...)
		} else {
			out = append(out, s)
		}
	}
	return out
}

func (in *instr) walk(n ast.Node) {
	// post-order: inner blocks first
	ast.Inspect(n, func(x ast.Node) bool {
		switch b := x.(type) {
		case *ast.BlockStmt:
			for _, s := range b.List {
				in.walk(s)
			}
			b.List = in.rewriteList(b.List)
			return false
		case *ast.CaseClause:
			for _, s := range b.Body {
				in.walk(s)
			}
			b.Body = in.rewriteList(b.Body)
			return false
		case *ast.CommClause:
			for _, s := range b.Body {
				in.walk(s)
			}
			b.Body = in.rewriteList(b.Body)
			return false
		case *ast.RangeStmt:
			if s, ok := b.X.(*ast.SelectorExpr); ok {
				n := strings.ToLower(s.Sel.Name)
				if strings.Contains(n, "chan") || n == "inbox" || n == "c" {
					in.fail(b, "range over what looks like a channel is not supported")
				}
			}
		case *ast.UnaryExpr:
			// receives that are not at statement level were not rewritten above
			_ = b
		}
		return true
	})
}

func instrumentFile(file string, imports map[string]string, mapAccess bool) {
	fset := token.NewFileSet()
	// comments are dropped (new nodes have no positions and would attract them); build
	// constraints are carried over verbatim
	raw, err := os.ReadFile(file)
	if err != nil {
		die("%v", err)
	}
	constraint := ""
	for _, line := range strings.Split(string(raw), "\n") {
		if strings.HasPrefix(line, "//go:build") || strings.HasPrefix(line, "// +build") {
			constraint += line + "\n"
		}
		if strings.HasPrefix(line, "package ") {
			break
		}
	}
	f, err := parser.ParseFile(fset, file, raw, 0)
	if err != nil {
		die("parse %s: %v", file, err)
	}
	in := &instr{fset: fset, file: file, mapAccess: mapAccess, pkgNames: map[string]bool{}}
	for _, im := range f.Imports {
		p, _ := strconv.Unquote(im.Path.Value)
		if im.Name != nil {
			in.pkgNames[im.Name.Name] = true
		} else {
			in.pkgNames[filepath.Base(p)] = true
		}
	}
	for _, d := range f.Decls {
		if fd, ok := d.(*ast.FuncDecl); ok && fd.Body != nil {
			in.walk(fd.Body)
		}
	}
	// a receive expression left anywhere else than directly after a vsched gate is unsupported
	checkStrayReceives(in, f)
	for _, im := range f.Imports {
		p, _ := strconv.Unquote(im.Path.Value)
		if to, ok := imports[p]; ok {
			if im.Name == nil {
				im.Name = ast.NewIdent(filepath.Base(p))
			}
			im.Path.Value = strconv.Quote(to)
		}
	}
	var sb strings.Builder
	if err := printer.Fprint(&sb, fset, f); err != nil {
		die("print %s: %v", file, err)
	}
	src := sb.String()
	if constraint != "" {
		src = constraint + "\n" + src
	}
	if in.usedSch {
		// add the scheduler import right after the package clause
		i := strings.Index(src, "\nimport ")
		if i < 0 {
			die("%s: no import declaration", file)
		}
		src = src[:i] + "\nimport vsched " + strconv.Quote(vpkg+"vsched") + "\n" + src[i:]
	}
	// comments may have been displaced by the rewriting: drop free-floating ones is not needed for
	// compilation; make sure the result parses
	if _, err := parser.ParseFile(token.NewFileSet(), file, src, 0); err != nil {
		die("instrumented %s does not parse: %v", file, err)
	}
	overlay[file] = writeGen(genName(file), []byte(src))
}

func checkStrayReceives(in *instr, f *ast.File) {
	// every `<-x` must be the whole X of an ExprStmt or the single Rhs of an AssignStmt
	allowed := map[ast.Expr]bool{}
	ast.Inspect(f, func(x ast.Node) bool {
		switch s := x.(type) {
		case *ast.ExprStmt:
			allowed[s.X] = true
		case *ast.AssignStmt:
			if len(s.Rhs) == 1 {
				allowed[s.Rhs[0]] = true
			}
		}
		return true
	})
	ast.Inspect(f, func(x ast.Node) bool {
		if u, ok := x.(*ast.UnaryExpr); ok && u.Op == token.ARROW && !allowed[u] {
			in.fail(u, "receive expression inside a larger expression is not supported")
		}
		return true
	})
}
