package main

func instrumentDir(sp InstrumentSpec, done map[string]bool) {
	die("instrumenter not built yet")
}
