module veriftools

go 1.20
