#!/bin/bash
# seedrun.sh <ID> [check ids...] [-- extra verif args] — apply an already validated seeded change
# (/verif/seeded/<ID> or /tmp/seeded-out/<ID>) in a scratch worktree and run the check(s) against it.
set -u
ID=$1; shift
CHECKS=""; EXTRA=""
while [ $# -gt 0 ]; do if [ "$1" = "--" ]; then shift; EXTRA="$*"; break; fi; CHECKS="$CHECKS $1"; shift; done
[ -z "$CHECKS" ] && CHECKS=$(echo $ID | sed 's/[a-z]*$//')
SRC=/verif/seeded/$ID; [ -f $SRC/patch.diff ] || SRC=/tmp/seeded-out/$ID
WT=/tmp/sr-$ID
git -C /repo worktree remove --force $WT 2>/dev/null
git -C /repo worktree add --detach $WT HEAD -q || exit 2
git -C $WT apply $SRC/patch.diff || { echo "PATCH DOES NOT APPLY"; exit 2; }
for c in $CHECKS; do
  echo "== verif check $c $EXTRA against $ID"
  VERIF_REPO=$WT /verif/bin/verif check $c $EXTRA 2>&1 | grep -v "ld:\|^#" | grep "VIOLATION\|signature\|what:\|quick:\|thorough:\|ENGINE" | cut -c1-300 | head -12
done
git -C /repo worktree remove --force $WT; rm -rf /verif/.build/alt_tmp_sr-$ID
