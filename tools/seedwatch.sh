#!/bin/bash
# seedwatch.sh <suffix> <lane 0|1> — run tools/seedcheck.sh for every C<nn><suffix> of this lane as
# soon as its delivery (/tmp/seeded-out/<id>/meta.json) exists, in order of arrival; stops after 4 h.
suf=$1; lane=$2
cd /verif
end=$(( $(date +%s) + 14400 ))
declare -A done
while [ $(date +%s) -lt $end ]; do
  progressed=0; pending=0
  for n in $(seq 1 18); do
    [ $((n % 2)) = "$lane" ] || continue
    id=$(printf "C%02d%s" $n $suf)
    [ -n "${done[$id]:-}" ] && continue
    if [ -f /tmp/seeded-out/$id/meta.json ] && [ -f /tmp/seeded-out/$id/patch.diff ]; then
      sleep 15
      tools/seedcheck.sh $id > /tmp/seedcheck-$id.log 2>&1
      done[$id]=1; progressed=1
    else
      pending=1
    fi
  done
  [ $pending = 0 ] && break
  [ $progressed = 0 ] && sleep 30
done
