#!/usr/bin/env python3
"""seedrecord.py <ID> — copy a confirmed sub-agent change from /tmp/seeded-out/<ID> into /verif/seeded/<ID>
with what was run here (tools/seedcheck.sh log /tmp/seedcheck-<ID>.log)."""
import json,sys,os,shutil,re
ID=sys.argv[1]
src=f'/tmp/seeded-out/{ID}'; dst=f'/verif/seeded/{ID}'
log=open(f'/tmp/seedcheck-{ID}.log').read()
m=re.search(r'summary %s: demo without=(\d+) with=(\d+)'%ID,log)
if m:
    wo,wi=int(m.group(1)),int(m.group(2))
else:
    ex=re.findall(r'^exit=(\d+)',log,re.M)
    if len(ex)<2: sys.exit('no demo results in log')
    wo,wi=int(ex[0]),int(ex[1])
checks=[]
for blk in re.split(r'== verif check ',log)[1:]:
    cid=blk.split()[0]
    sigs=sorted(set(re.findall(r'signature: (.*)',blk)))
    q=re.findall(r'^(C\d+ quick: .*)$',blk,re.M)
    checks.append({"check":cid,"caught":bool(re.search(r'VIOLATION property=',blk)),"signatures":sigs[:8],"result_line":q[-1] if q else ""})
pk=re.search(r'== tests of touched packages\n(.*?)== ',log,re.S)
meta=json.load(open(src+'/meta.json'))
meta['confirmed_here']={"how":"tools/seedcheck.sh in a fresh scratch worktree of /repo HEAD (outside /repo and /verif), removed afterwards",
  "demo_exit_without_change":wo,"demo_exit_with_change":wi,
  "tests_of_touched_packages":(pk.group(1).strip().splitlines()[-4:] if pk else []),
  "checks_run_against_it":checks}
meta['breaks_property']=re.sub(r'[a-z]+$','',ID)
if wo!=0 or wi==0:
    sys.exit(f'demo not confirmed (without={wo}, with={wi})')
shutil.rmtree(dst,ignore_errors=True); os.makedirs(dst)
shutil.copy(src+'/patch.diff',dst+'/patch.diff')
if os.path.isdir(src+'/demo'): shutil.copytree(src+'/demo',dst+'/demo')
json.dump(meta,open(dst+'/meta.json','w'),indent=1)
print(ID,'recorded; caught by:',[c['check'] for c in checks if c['caught']] or 'NOTHING')
