package validator

import (
	"sync/atomic"

	spectypes "github.com/bloxapp/ssv-spec/types"
	"go.uber.org/zap"

	"github.com/bloxapp/ssv/protocol/v2/ssv/queue"
)

// Added by /verif through -overlay (never present in /repo).

// VerifMarkStarted puts the validator in the Started state without starting its queue consumers
// (the harness pops and processes queued messages itself, one at a time).
func (v *Validator) VerifMarkStarted() { atomic.StoreUint32(&v.state, uint32(Started)) }

// VerifDrain pops every queued message of the role in priority order and hands it to
// ProcessMessage, the way ConsumeQueue does; it returns how many messages were processed and the
// errors ProcessMessage returned.
func (v *Validator) VerifDrain(logger *zap.Logger, role spectypes.BeaconRole) (n int, errs []error) {
	q := v.Queues[role]
	for {
		msg := q.Q.TryPop(queue.NewMessagePrioritizer(q.queueState), queue.FilterAny)
		if msg == nil {
			return
		}
		n++
		if err := v.ProcessMessage(logger, msg); err != nil {
			errs = append(errs, err)
		}
	}
}
