package p2pv1

import (
	"context"
	"sync/atomic"
	"time"

	"go.uber.org/zap"

	"github.com/bloxapp/ssv/network"
	"github.com/bloxapp/ssv/network/topics"
	"github.com/bloxapp/ssv/networkconfig"
	operatordatastore "github.com/bloxapp/ssv/operator/datastore"
	"github.com/bloxapp/ssv/operator/keys"
)

// Added by /verif through -overlay (never present in /repo). Builds a real p2pNetwork through the
// package's own constructor and puts it in the ready state around a caller-supplied
// topics.Controller (the seam named in DESIGN §6), without libp2p host, discovery or sockets.
// Everything Broadcast / Subscribe / SubscribeAll do above that seam is the repository's code.
func VerifNewNetwork(ctrl topics.Controller, netCfg networkconfig.NetworkConfig, signer keys.OperatorSigner, ods operatordatastore.OperatorDataStore) network.P2PNetwork {
	n := New(zap.NewNop(), &Config{
		Ctx:               context.Background(),
		Network:           netCfg,
		OperatorSigner:    signer,
		OperatorDataStore: ods,
		RequestTimeout:    time.Second,
	}, nil).(*p2pNetwork)
	n.topicsCtrl = ctrl
	atomic.StoreInt32(&n.state, stateReady)
	return n
}

// VerifAdvertise sets the node's advertised subnet bitmap (what Config.Subnets / UpdateSubnets
// maintain) to exactly the given subnets.
func VerifAdvertise(nw network.P2PNetwork, subnets ...int) {
	n := nw.(*p2pNetwork)
	bits := make([]byte, 128)
	for _, s := range subnets {
		bits[s] = 1
	}
	n.subnets = bits
}

// VerifSubscribeToSubnets runs the real start-up step that joins the advertised subnets.
func VerifSubscribeToSubnets(nw network.P2PNetwork) error {
	return nw.(*p2pNetwork).subscribeToSubnets(zap.NewNop())
}
