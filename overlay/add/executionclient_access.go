package executionclient

import (
	ethcommon "github.com/ethereum/go-ethereum/common"
	"github.com/ethereum/go-ethereum/ethclient"
	"go.uber.org/zap"
)

// Added by /verif through -overlay (never present in /repo): builds an ExecutionClient around an
// already connected ethclient (an in-process fake RPC endpoint), with the production defaults.
func VerifNewWithClient(c *ethclient.Client, contractAddr ethcommon.Address, logger *zap.Logger) *ExecutionClient {
	return &ExecutionClient{
		nodeAddr:                    "inproc",
		contractAddress:             contractAddr,
		logger:                      logger,
		metrics:                     nopMetrics{},
		followDistance:              DefaultFollowDistance,
		connectionTimeout:           DefaultConnectionTimeout,
		reconnectionInitialInterval: DefaultReconnectionInitialInterval,
		reconnectionMaxInterval:     DefaultReconnectionMaxInterval,
		logBatchSize:                DefaultHistoricalLogsBatchSize,
		client:                      c,
		closed:                      make(chan struct{}),
	}
}
