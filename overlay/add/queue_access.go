package queue

import time "github.com/bloxapp/ssv/zzverif/vtime"

// Added by /verif through -overlay (never present in /repo): read-only access to the private
// state of the priority queue so the explorer can hash and rebuild states. Sequential use only.

// VerifDump returns the linked-list content (head first) and the inbox content (oldest first).
// The inbox is drained and refilled in the same order.
func VerifDump(q Queue) (list, inbox []*DecodedSSVMessage) {
	pq := q.(*priorityQueue)
	for i := pq.head; i != nil; i = i.next {
		list = append(list, i.message)
	}
	n := len(pq.inbox)
	for i := 0; i < n; i++ {
		m := <-pq.inbox
		inbox = append(inbox, m)
	}
	for _, m := range inbox {
		pq.inbox <- m
	}
	return
}

// VerifReadInbox moves the inbox into the list exactly as a pop would before selecting.
func VerifReadInbox(q Queue) { q.(*priorityQueue).readInbox() }

// VerifFresh reports whether the next Pop would skip reading the inbox first.
func VerifFresh(q Queue) bool {
	return !(time.Since(q.(*priorityQueue).lastRead) > inboxReadFrequency)
}
