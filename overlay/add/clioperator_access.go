package operator

import (
	"context"

	spectypes "github.com/bloxapp/ssv-spec/types"
	"go.uber.org/zap"

	"github.com/bloxapp/ssv/eth/eventsyncer"
	"github.com/bloxapp/ssv/eth/executionclient"
	ibftstorage "github.com/bloxapp/ssv/ibft/storage"
	"github.com/bloxapp/ssv/monitoring/metricsreporter"
	"github.com/bloxapp/ssv/networkconfig"
	operatordatastore "github.com/bloxapp/ssv/operator/datastore"
	"github.com/bloxapp/ssv/operator/keys"
	operatorstorage "github.com/bloxapp/ssv/operator/storage"
	"github.com/bloxapp/ssv/operator/validator"
)

// Added by /verif through -overlay (never present in /repo): runs the node's REAL
// setupEventHandling (event handler construction, resume-point computation, historical sync,
// start of the ongoing sync). It sets the two package-level configuration fields the function
// reads; callers serialise calls because `cfg` is a package global.
func VerifSetupEventHandling(
	ctx context.Context,
	logger *zap.Logger,
	executionClient *executionclient.ExecutionClient,
	validatorCtrl validator.Controller,
	storageMap *ibftstorage.QBFTStores,
	networkConfig networkconfig.NetworkConfig,
	nodeStorage operatorstorage.Storage,
	operatorDataStore operatordatastore.OperatorDataStore,
	operatorDecrypter keys.OperatorDecrypter,
	keyManager spectypes.KeyManager,
) *eventsyncer.EventSyncer {
	cfg.SSVOptions.ValidatorOptions.KeyManager = keyManager
	cfg.SSVOptions.ValidatorOptions.Beacon = nil
	cfg.LocalEventsPath = ""
	return setupEventHandling(ctx, logger, executionClient, validatorCtrl, storageMap, metricsreporter.NewNop(),
		networkConfig, nodeStorage, operatorDataStore, operatorDecrypter)
}
