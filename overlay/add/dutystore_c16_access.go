package dutystore

import (
	"sort"

	eth2apiv1 "github.com/attestantio/go-eth2-client/api/v1"
)

// Added by /verif through -overlay (never present in /repo): a sorted dump of the private duty
// maps, so that the explorer can hash the store as part of the state.

type VerifEntry[D Duty] struct {
	Epoch       uint64 // epoch (Duties) or period (SyncCommitteeDuties)
	Slot        uint64 // 0 for sync committee
	Validator   uint64
	InCommittee bool
	Duty        *D
}

func VerifDump[D Duty](d *Duties[D]) []VerifEntry[D] {
	d.mu.RLock()
	defer d.mu.RUnlock()
	var out []VerifEntry[D]
	for e, sm := range d.m {
		for s, vm := range sm {
			for v, desc := range vm {
				out = append(out, VerifEntry[D]{uint64(e), uint64(s), uint64(v), desc.inCommittee, desc.duty})
			}
		}
	}
	sort.Slice(out, func(i, j int) bool {
		a, b := out[i], out[j]
		if a.Epoch != b.Epoch {
			return a.Epoch < b.Epoch
		}
		if a.Slot != b.Slot {
			return a.Slot < b.Slot
		}
		return a.Validator < b.Validator
	})
	return out
}

// VerifDumpSync is the same for the per-period sync committee store.
func VerifDumpSync(d *SyncCommitteeDuties) []VerifEntry[eth2apiv1.SyncCommitteeDuty] {
	d.mu.RLock()
	defer d.mu.RUnlock()
	var out []VerifEntry[eth2apiv1.SyncCommitteeDuty]
	for p, vm := range d.m {
		for v, desc := range vm {
			out = append(out, VerifEntry[eth2apiv1.SyncCommitteeDuty]{p, 0, uint64(v), desc.inCommittee, desc.duty})
		}
	}
	sort.Slice(out, func(i, j int) bool {
		a, b := out[i], out[j]
		if a.Epoch != b.Epoch {
			return a.Epoch < b.Epoch
		}
		return a.Validator < b.Validator
	})
	return out
}
