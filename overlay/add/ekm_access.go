package ekm

import (
	"encoding/json"

	spectypes "github.com/bloxapp/ssv-spec/types"
)

// Added by /verif through -overlay (never present in /repo): read-only access to the in-memory
// wallet of the key manager, so the explorer's canonical state can include what a restart would
// throw away (the wallet's pubkey -> account index can diverge from the stored wallet after a
// failed write).

// VerifWalletJSON returns the JSON encoding (the wallet's own MarshalJSON) of the in-memory wallet.
func VerifWalletJSON(km spectypes.KeyManager) ([]byte, error) {
	s, ok := km.(*ethKeyManagerSigner)
	if !ok || s.wallet == nil {
		return nil, nil
	}
	return json.Marshal(s.wallet)
}
