package runner

// VerifMutexFree reports whether the runner's state mutex is free. The C05 harness calls it only
// when no handler of the runner is executing: a mutex that is held then was leaked by a handler
// that returned, and the next StartNewDuty (which takes the write lock) can never proceed.
func (b *BaseRunner) VerifMutexFree() bool {
	if b.mtx.TryLock() {
		b.mtx.Unlock()
		return true
	}
	return false
}
