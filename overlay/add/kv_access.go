package kv

import "context"

// VerifSetCtx replaces the database's context: the C04 harness cancels it to model "shutdown has
// begun" (the node context is cancelled, badger itself is not closed yet) and installs a live one
// again at the restart.
func (b *BadgerDB) VerifSetCtx(ctx context.Context) { b.ctx = ctx }
