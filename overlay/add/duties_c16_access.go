package duties

import (
	"fmt"
	"time"
)

// Added by /verif through -overlay (never present in /repo): read-only access to the private
// flags of the duty handlers (they are part of the explored state) and to the scheduler's private
// reorg channel. The handlers are constructed through their exported constructors and driven
// through the exported Setup/HandleInitialDuties/HandleDuties.

// VerifAttesterFlags is read only while the handler goroutine is parked in its select.
func VerifAttesterFlags(h *AttesterHandler) string {
	return fmt.Sprintf("first=%t idx=%t cur=%t next=%t", h.fetchFirst, h.indicesChanged, h.fetchCurrentEpoch, h.fetchNextEpoch)
}

func VerifProposerFlags(h *ProposerHandler) string {
	return fmt.Sprintf("first=%t idx=%t", h.fetchFirst, h.indicesChanged)
}

func VerifSyncCommitteeFlags(h *SyncCommitteeHandler) string {
	return fmt.Sprintf("first=%t idx=%t cur=%t next=%t", h.fetchFirst, h.indicesChanged, h.fetchCurrentPeriod, h.fetchNextPeriod)
}

// VerifSchedulerReorgChan exposes the channel HandleHeadEvent writes reorg notices to.
func VerifSchedulerReorgChan(s *Scheduler) chan ReorgEvent { return s.reorg }

// VerifSchedulerNoPropagationSleep removes the 200 ms real sleep of HandleHeadEvent (the tests of
// the package shorten it the same way).
func VerifSchedulerNoPropagationSleep(s *Scheduler) { s.blockPropagateDelay = time.Duration(0) }

// VerifSchedulerHeadSlot reads the slot released to waitOneThirdOrValidBlock.
func VerifSchedulerHeadSlot(s *Scheduler) uint64 {
	s.waitCond.L.Lock()
	defer s.waitCond.L.Unlock()
	return uint64(s.headSlot)
}

// VerifSchedulerHeadState dumps what HandleHeadEvent remembers between head events.
func VerifSchedulerHeadState(s *Scheduler) string {
	s.waitCond.L.Lock()
	defer s.waitCond.L.Unlock()
	return fmt.Sprintf("lastEpoch=%d prev=%x cur=%x head=%d", s.lastBlockEpoch, s.previousDutyDependentRoot[:1], s.currentDutyDependentRoot[:1], s.headSlot)
}
