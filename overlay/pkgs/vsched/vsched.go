// Package vsched is a cooperative scheduler for model checking real Go code: managed goroutines
// are real goroutines, exactly one runs at a time, and at every scheduling point (lock, atomic,
// channel operation, select, spawn) control returns to the scheduler, which asks the explorer
// which enabled goroutine (or which ready select case) goes next. Stateless exploration is done by
// the harness (package verifharness/lib/dfs) over the recorded choice points.
package vsched

import (
	"fmt"
	"reflect"
	"sync"
	"time"
)

type Kind int

const (
	Thread Kind = iota // which goroutine runs next
	Choice             // a free choice of the running goroutine (ready select case, harness choice)
)

// PointInfo describes one choice point of an execution.
type PointInfo struct {
	Kind           Kind
	N              int  // number of options
	RunningEnabled bool // Thread: option 0 is "the goroutine that was running keeps running"
	Chosen         int
	Label          string
}

type g struct {
	id    int
	wake  chan struct{}
	ready func() bool
	done  bool
	label string
	vc    []int // vector clock (happens-before tracking for the race check)
}

type sched struct {
	mu      sync.Mutex
	gs      []*g
	cur     *g
	yield   chan struct{} // running goroutine -> scheduler
	choose  func(PointInfo) int
	points  []PointInfo
	err     string
	stall   time.Duration
	aborted bool
	live    sync.WaitGroup
	// happens-before race check over watched objects (Access)
	acc    map[uintptr]*accHist
	chClk  map[uintptr]*Clock
	races  []string
	raceOn map[string]bool
}

var s *sched

// Active reports whether the calling code runs under the scheduler.
func Active() bool { return s != nil }

type Execution struct {
	Races    []string // unordered conflicting accesses to watched objects seen in this execution
	Points   []PointInfo
	Deadlock bool     // some goroutine blocked forever, nothing enabled
	Blocked  []string // labels of the goroutines blocked at the end
	Err      string   // engine error (stall, unsupported operation)
}

type abort struct{}

// Execute runs body as managed goroutine 0 until every goroutine finished or nothing is enabled.
// choose decides every choice point; option 0 is the canonical default.
func Execute(body func(), choose func(PointInfo) int) *Execution {
	sc := &sched{yield: make(chan struct{}), choose: choose, stall: 20 * time.Second}
	s = sc
	defer func() { s = nil }()
	sc.acc, sc.chClk, sc.raceOn = map[uintptr]*accHist{}, map[uintptr]*Clock{}, map[string]bool{}
	main := &g{id: 0, wake: make(chan struct{}), label: "main", vc: []int{1}}
	sc.gs = append(sc.gs, main)
	sc.cur = main
	sc.live.Add(1)
	go sc.run(main, body)
	ex := &Execution{}
	watchdog := time.NewTimer(sc.stall)
	defer watchdog.Stop()
	for {
		// wait until the running goroutine yields or finishes
		if !watchdog.Stop() {
			select {
			case <-watchdog.C:
			default:
			}
		}
		watchdog.Reset(sc.stall)
		select {
		case <-sc.yield:
		case <-watchdog.C:
			ex.Err = fmt.Sprintf("engine stall: goroutine %q did not reach a scheduling point within %v (un-instrumented blocking call?)", sc.cur.label, sc.stall)
			ex.Points = sc.points
			return ex
		}
		if sc.err != "" {
			ex.Err = sc.err
			break
		}
		var enabled []*g
		alive := 0
		for _, x := range sc.gs {
			if x.done {
				continue
			}
			alive++
			if x.ready == nil || x.ready() {
				enabled = append(enabled, x)
			}
		}
		if alive == 0 {
			break
		}
		if len(enabled) == 0 {
			ex.Deadlock = true
			for _, x := range sc.gs {
				if !x.done {
					ex.Blocked = append(ex.Blocked, x.label)
				}
			}
			break
		}
		// canonical order: the goroutine that was running first (if still enabled), then ascending id
		runningEnabled := false
		for i, x := range enabled {
			if x == sc.cur {
				runningEnabled = true
				enabled[0], enabled[i] = enabled[i], enabled[0]
				// keep the rest in ascending id order
				rest := enabled[1:]
				for a := 1; a < len(rest); a++ {
					for b := a; b > 0 && rest[b].id < rest[b-1].id; b-- {
						rest[b], rest[b-1] = rest[b-1], rest[b]
					}
				}
				break
			}
		}
		pick := 0
		if len(enabled) > 1 {
			pi := PointInfo{Kind: Thread, N: len(enabled), RunningEnabled: runningEnabled}
			pick = sc.choose(pi)
			if pick < 0 || pick >= len(enabled) {
				ex.Err = fmt.Sprintf("choice %d out of range %d (replay divergence)", pick, len(enabled))
				break
			}
			pi.Chosen = pick
			pi.Label = enabled[pick].label
			sc.points = append(sc.points, pi)
		}
		sc.cur = enabled[pick]
		sc.cur.wake <- struct{}{}
	}
	ex.Points = sc.points
	ex.Races = sc.races
	// release every parked goroutine so that it unwinds (panic(abort) inside its Point) and wait
	// for all of them: no managed goroutine survives the execution
	sc.aborted = true
	for _, x := range sc.gs {
		if !x.done {
			close(x.wake)
		}
	}
	unwound := make(chan struct{})
	go func() { sc.live.Wait(); close(unwound) }()
	select {
	case <-unwound:
	case <-time.After(sc.stall):
		if ex.Err == "" {
			ex.Err = "engine error: a managed goroutine did not unwind at the end of the execution"
		}
	}
	return ex
}

func (sc *sched) run(me *g, f func()) {
	defer sc.live.Done()
	defer func() {
		if r := recover(); r != nil {
			if _, ok := r.(abort); !ok && !sc.aborted {
				sc.err = fmt.Sprintf("panic in goroutine %q: %v", me.label, r)
			}
		}
		me.done = true
		if !sc.aborted {
			sc.yield <- struct{}{}
		}
	}()
	f()
}

func cur() *g { return s.cur }

// Point parks the caller until the scheduler picks it and ready() holds (nil = always ready).
func Point(ready func() bool, label string) {
	sc := s
	if sc == nil {
		return
	}
	if sc.aborted {
		panic(abort{}) // called from a deferred function while unwinding
	}
	me := sc.cur
	me.ready = ready
	me.label = label
	sc.yield <- struct{}{}
	<-me.wake
	if sc.aborted {
		panic(abort{})
	}
	me.ready = nil
}

// Go starts f as a managed goroutine (the rewritten form of a go statement).
// free-running mode (no scheduler, used by the -race pass): spawned goroutines are tracked so the
// harness can join them
var freeWG sync.WaitGroup

// WaitFree joins every goroutine started through Go outside the scheduler.
func WaitFree() { freeWG.Wait() }

func Go(f func()) {
	sc := s
	if sc == nil {
		freeWG.Add(1)
		go func() {
			defer freeWG.Done()
			f()
		}()
		return
	}
	n := &g{id: len(sc.gs), wake: make(chan struct{}), label: "spawned"}
	// the child starts with everything the parent has done so far
	parent := sc.cur
	n.vc = append([]int(nil), parent.vc...)
	for len(n.vc) <= n.id {
		n.vc = append(n.vc, 0)
	}
	n.vc[n.id] = 1
	parent.tick()
	sc.gs = append(sc.gs, n)
	sc.live.Add(1)
	go func() {
		<-n.wake
		if sc.aborted {
			n.done = true
			sc.live.Done()
			return
		}
		sc.run(n, f)
	}()
	Point(nil, "after-go")
}

// Pick is a free choice of the running goroutine among n options (enumerated by the explorer).
func Pick(n int, label string) int {
	sc := s
	if sc == nil || n <= 1 {
		return 0
	}
	pi := PointInfo{Kind: Choice, N: n, Label: label}
	c := sc.choose(pi)
	if c < 0 || c >= n {
		sc.err = fmt.Sprintf("choice %d out of range %d (replay divergence)", c, n)
		c = 0
	}
	pi.Chosen = c
	sc.points = append(sc.points, pi)
	return c
}

// ---- channel gates ----

type Case struct {
	ch   reflect.Value
	send bool
	done func() bool // receive on X.Done(): ready iff X.Err() != nil
}

func RecvCase(ch interface{}, done func() bool) Case {
	return Case{ch: reflect.ValueOf(ch), done: done}
}
func SendCase(ch interface{}) Case { return Case{ch: reflect.ValueOf(ch), send: true} }

func (c Case) readyPlain() bool {
	if c.done != nil {
		return c.done()
	}
	if !c.ch.IsValid() || c.ch.IsNil() {
		return false
	}
	if c.send {
		return c.ch.Len() < c.ch.Cap()
	}
	return c.ch.Len() > 0
}

func (c Case) ready() bool {
	if c.done != nil {
		return c.done()
	}
	if !c.ch.IsValid() || c.ch.IsNil() {
		return false
	}
	if c.ch.Cap() == 0 {
		s.err = "unbuffered channel at a scheduling gate (rendezvous is not modelled)"
		return true
	}
	if c.send {
		return c.ch.Len() < c.ch.Cap()
	}
	return c.ch.Len() > 0
}

// Select is the rewritten form of a select statement: it parks until a case is ready (or returns
// -1 at once when there is a default clause and nothing is ready) and lets the explorer choose
// among the ready cases. The caller then performs exactly that case's operation.
func Select(hasDefault bool, cases ...Case) int {
	if s == nil {
		// outside the scheduler (harness set-up code): plain semantics, first ready case, polling
		// for the blocking form
		for {
			for i, c := range cases {
				if c.readyPlain() {
					return i
				}
			}
			if hasDefault {
				return -1
			}
			time.Sleep(50 * time.Microsecond)
		}
	}
	anyReady := func() bool {
		for _, c := range cases {
			if c.ready() {
				return true
			}
		}
		return false
	}
	if hasDefault {
		Point(nil, "select-default")
	} else {
		Point(anyReady, "select")
	}
	var ready []int
	for i, c := range cases {
		if c.ready() {
			ready = append(ready, i)
		}
	}
	if len(ready) == 0 {
		return -1
	}
	i := ready[Pick(len(ready), "select-case")]
	cases[i].sync()
	return i
}

// sync records the happens-before edge of the channel operation the caller is about to perform.
func (c Case) sync() {
	if s == nil || c.done != nil || !c.ch.IsValid() || c.ch.IsNil() {
		return
	}
	k := s.chClk[c.ch.Pointer()]
	if k == nil {
		k = &Clock{}
		s.chClk[c.ch.Pointer()] = k
	}
	if c.send {
		k.Release()
	} else {
		k.Acquire()
	}
}

// Send / Recv gate a blocking channel operation outside select.
func Send(ch interface{}) {
	if s == nil {
		return
	}
	c := SendCase(ch)
	Point(c.ready, "chan-send")
	c.sync()
}

func Recv(ch interface{}, done func() bool) {
	if s == nil {
		return
	}
	c := RecvCase(ch, done)
	Point(c.ready, "chan-recv")
	c.sync()
}

// ---- happens-before tracking and the race check ----
//
// Every managed goroutine carries a vector clock; synchronisation objects (vsync mutexes, wait
// groups, sync.Map, atomics, channels) carry a Clock that the releasing side joins its vector
// clock into and the acquiring side joins into its own. Access reports two accesses to the same
// watched object (a Go map reached through an instrumented statement) by different goroutines, at
// least one of them a write, that are not ordered by happens-before in the execution at hand.
// Because the explorer enumerates the schedules, an unsynchronised conflicting pair is reported
// in at least one of them.

type Clock struct{ vc []int }

func join(a, b []int) []int {
	for len(a) < len(b) {
		a = append(a, 0)
	}
	for i, v := range b {
		if v > a[i] {
			a[i] = v
		}
	}
	return a
}

func (x *g) tick() {
	for len(x.vc) <= x.id {
		x.vc = append(x.vc, 0)
	}
	x.vc[x.id]++
}

// Release: everything the running goroutine has done so far happens before whatever a later
// Acquire of the same Clock is followed by.
func (c *Clock) Release() {
	if s == nil {
		return
	}
	me := s.cur
	c.vc = join(c.vc, me.vc)
	me.tick()
}

func (c *Clock) Acquire() {
	if s == nil {
		return
	}
	me := s.cur
	me.vc = join(me.vc, c.vc)
}

// AddrClock is the Clock of a synchronisation variable identified by its address (atomics).
func AddrClock(p uintptr) *Clock {
	if s == nil {
		return &Clock{}
	}
	k := s.chClk[p]
	if k == nil {
		k = &Clock{}
		s.chClk[p] = k
	}
	return k
}

type accRec struct {
	tid, clock int
	what       string
}

type accHist struct {
	write *accRec
	reads map[int]accRec
}

func (x *g) after(r accRec) bool { // r happened before x's present
	return r.tid == x.id || (r.tid < len(x.vc) && x.vc[r.tid] >= r.clock)
}

// Access records a read or write of a watched object. get returns the object (evaluated here
// under recover: the instrumented statement may guard it with a nil check the call precedes).
func Access(get func() interface{}, what string, write bool) {
	sc := s
	if sc == nil || sc.aborted {
		return
	}
	var v reflect.Value
	func() {
		defer func() { _ = recover() }()
		v = reflect.ValueOf(get())
	}()
	if !v.IsValid() || v.Kind() != reflect.Map || v.IsNil() {
		return
	}
	id := v.Pointer()
	h := sc.acc[id]
	if h == nil {
		h = &accHist{reads: map[int]accRec{}}
		sc.acc[id] = h
	}
	me := sc.cur
	for len(me.vc) <= me.id {
		me.vc = append(me.vc, 0)
	}
	rec := accRec{me.id, me.vc[me.id], what}
	report := func(kind string, other accRec) {
		key := kind + "|" + what + "|" + other.what
		if !sc.raceOn[key] {
			sc.raceOn[key] = true
			a, b := what, other.what
			if b < a {
				a, b = b, a
			}
			sc.races = append(sc.races, fmt.Sprintf("%s: %s <-> %s (two goroutines, no happens-before order)", kind, a, b))
		}
	}
	if h.write != nil && !me.after(*h.write) {
		if write {
			report("concurrent map writes", *h.write)
		} else {
			report("concurrent map read and map write", *h.write)
		}
	}
	if write {
		for _, r := range h.reads {
			if !me.after(r) {
				report("concurrent map read and map write", r)
			}
		}
		h.write = &rec
		h.reads = map[int]accRec{}
	} else {
		h.reads[me.id] = rec
	}
}
