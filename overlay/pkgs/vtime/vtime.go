// Package vtime is a drop-in for the subset of package time used by the instrumented ssv
// packages, running on a virtual clock that only the harness advances. Time and Duration are
// aliases of the real types so signatures across package boundaries still match. A symbol that is
// not re-exported here is a compile error in the rewritten file, never a silent fall-through.
package vtime

import (
	"sort"
	"sync"
	"time"
)

type (
	Time     = time.Time
	Duration = time.Duration
	Month    = time.Month
	Weekday  = time.Weekday
	Location = time.Location
)

const (
	Nanosecond  = time.Nanosecond
	Microsecond = time.Microsecond
	Millisecond = time.Millisecond
	Second      = time.Second
	Minute      = time.Minute
	Hour        = time.Hour
	RFC3339     = time.RFC3339
	RFC3339Nano = time.RFC3339Nano
)

var UTC = time.UTC

func Unix(sec, nsec int64) Time { return time.Unix(sec, nsec) }
func UnixMilli(ms int64) Time   { return time.UnixMilli(ms) }
func Date(y int, m Month, d, h, mi, s, ns int, l *Location) Time {
	return time.Date(y, m, d, h, mi, s, ns, l)
}
func ParseDuration(s string) (Duration, error) { return time.ParseDuration(s) }

var (
	mu     sync.Mutex
	now    = time.Unix(1_700_000_000, 0)
	timers []*Timer
	seq    int

	// GoFunc starts the callback of an AfterFunc timer; the cooperative scheduler replaces it.
	GoFunc = func(f func()) { go f() }
	// SleepFunc implements Sleep; without a scheduler a virtual Sleep cannot make progress.
	SleepFunc = func(d Duration) { panic("vtime.Sleep called without a scheduler") }
	// OnFire, when set, is told about every timer that fires (for the harness's log).
	OnFire func(t *Timer)
)

func Now() Time                    { mu.Lock(); defer mu.Unlock(); return now }
func Since(t Time) Duration        { return Now().Sub(t) }
func Until(t Time) Duration        { return t.Sub(Now()) }
func Sleep(d Duration)             { SleepFunc(d) }
func After(d Duration) <-chan Time { return NewTimer(d).C }

type Timer struct {
	C      <-chan Time
	c      chan Time
	When   Time
	f      func()
	active bool
	id     int
}

func newTimer(d Duration, f func()) *Timer {
	mu.Lock()
	defer mu.Unlock()
	seq++
	t := &Timer{When: now.Add(d), f: f, active: true, id: seq}
	if f == nil {
		t.c = make(chan Time, 1)
		t.C = t.c
	}
	timers = append(timers, t)
	if d <= 0 {
		fireDueLocked()
	}
	return t
}

// fireDueLocked fires every timer whose deadline is not after now (mu held; released while firing).
func fireDueLocked() {
	for {
		var best *Timer
		for _, t := range timers {
			if !t.When.After(now) && (best == nil || t.When.Before(best.When) || (t.When.Equal(best.When) && t.id < best.id)) {
				best = t
			}
		}
		if best == nil {
			return
		}
		remove(best)
		best.active = false
		mu.Unlock()
		if OnFire != nil {
			OnFire(best)
		}
		if best.f != nil {
			GoFunc(best.f)
		} else {
			select {
			case best.c <- best.When:
			default:
			}
		}
		mu.Lock()
	}
}

func NewTimer(d Duration) *Timer            { return newTimer(d, nil) }
func AfterFunc(d Duration, f func()) *Timer { return newTimer(d, f) }

func (t *Timer) Stop() bool {
	mu.Lock()
	defer mu.Unlock()
	was := t.active
	t.active = false
	remove(t)
	return was
}

func (t *Timer) Reset(d Duration) bool {
	mu.Lock()
	defer mu.Unlock()
	was := t.active
	remove(t)
	t.active = true
	t.When = now.Add(d)
	timers = append(timers, t)
	if d <= 0 {
		fireDueLocked()
	}
	return was
}

func remove(t *Timer) {
	for i, x := range timers {
		if x == t {
			timers = append(timers[:i], timers[i+1:]...)
			return
		}
	}
}

type Ticker struct {
	C <-chan Time
	c chan Time
	d Duration
	t *Timer
}

func NewTicker(d Duration) *Ticker {
	tk := &Ticker{d: d}
	tk.c = make(chan Time, 1)
	tk.C = tk.c
	var arm func()
	arm = func() {
		tk.t = newTimer(d, func() {
			select {
			case tk.c <- Now():
			default:
			}
			arm()
		})
	}
	arm()
	return tk
}
func (tk *Ticker) Stop() { tk.t.Stop() }

// ---- harness side ----

// Reset restores the initial clock and forgets every timer (between executions).
func ResetClock() {
	mu.Lock()
	defer mu.Unlock()
	now = time.Unix(1_700_000_000, 0)
	timers = nil
	seq = 0
}

func Set(t Time) { Advance(t.Sub(Now())) }

// Deadlines returns the pending deadlines in firing order.
func Deadlines() []Time {
	mu.Lock()
	defer mu.Unlock()
	var out []Time
	for _, t := range timers {
		out = append(out, t.When)
	}
	sort.Slice(out, func(i, j int) bool { return out[i].Before(out[j]) })
	return out
}

// Advance moves the clock forward by d and fires every timer whose deadline is reached, in
// deadline order (ties in creation order). Channel timers get the value synchronously; AfterFunc
// callbacks are started through GoFunc.
func Advance(d Duration) {
	mu.Lock()
	target := now.Add(d)
	for {
		var best *Timer
		for _, t := range timers {
			if !t.When.After(target) && (best == nil || t.When.Before(best.When) || (t.When.Equal(best.When) && t.id < best.id)) {
				best = t
			}
		}
		if best == nil {
			break
		}
		if best.When.After(now) {
			now = best.When
		}
		remove(best)
		best.active = false
		fire := best
		mu.Unlock()
		if OnFire != nil {
			OnFire(fire)
		}
		if fire.f != nil {
			GoFunc(fire.f)
		} else {
			select {
			case fire.c <- fire.When:
			default:
			}
		}
		mu.Lock()
	}
	if target.After(now) {
		now = target
	}
	mu.Unlock()
}
