// Package vsync replaces package sync in instrumented files: every Lock/RLock/Wait is a
// scheduling point whose readiness predicate is the lock's state. Outside the scheduler the real
// primitives are used.
package vsync

import (
	"sync"

	"github.com/bloxapp/ssv/zzverif/vsched"
)

type Locker = sync.Locker

type Mutex struct {
	real   sync.Mutex
	locked bool
}

func (m *Mutex) Lock() {
	if !vsched.Active() {
		m.real.Lock()
		return
	}
	vsched.Point(func() bool { return !m.locked }, "Mutex.Lock")
	m.locked = true
}

func (m *Mutex) TryLock() bool {
	if !vsched.Active() {
		return m.real.TryLock()
	}
	vsched.Point(nil, "Mutex.TryLock")
	if m.locked {
		return false
	}
	m.locked = true
	return true
}

func (m *Mutex) Unlock() {
	if !vsched.Active() {
		m.real.Unlock()
		return
	}
	if !m.locked {
		panic("vsync: unlock of unlocked mutex")
	}
	m.locked = false
	vsched.Point(nil, "Mutex.Unlock")
}

type RWMutex struct {
	real    sync.RWMutex
	writer  bool
	readers int
}

func (m *RWMutex) Lock() {
	if !vsched.Active() {
		m.real.Lock()
		return
	}
	vsched.Point(func() bool { return !m.writer && m.readers == 0 }, "RWMutex.Lock")
	m.writer = true
}

func (m *RWMutex) Unlock() {
	if !vsched.Active() {
		m.real.Unlock()
		return
	}
	if !m.writer {
		panic("vsync: unlock of unlocked rwmutex")
	}
	m.writer = false
	vsched.Point(nil, "RWMutex.Unlock")
}

func (m *RWMutex) RLock() {
	if !vsched.Active() {
		m.real.RLock()
		return
	}
	vsched.Point(func() bool { return !m.writer }, "RWMutex.RLock")
	m.readers++
}

func (m *RWMutex) RUnlock() {
	if !vsched.Active() {
		m.real.RUnlock()
		return
	}
	if m.readers == 0 {
		panic("vsync: runlock of unlocked rwmutex")
	}
	m.readers--
	vsched.Point(nil, "RWMutex.RUnlock")
}

func (m *RWMutex) RLocker() Locker { return rlocker{m} }

type rlocker struct{ m *RWMutex }

func (r rlocker) Lock()   { r.m.RLock() }
func (r rlocker) Unlock() { r.m.RUnlock() }

// Map: every operation is one atomic step preceded by a scheduling point.
type Map struct{ real sync.Map }

func (m *Map) Load(k any) (any, bool) { vsched.Point(nil, "Map.Load"); return m.real.Load(k) }
func (m *Map) Store(k, v any)         { vsched.Point(nil, "Map.Store"); m.real.Store(k, v) }
func (m *Map) LoadOrStore(k, v any) (any, bool) {
	vsched.Point(nil, "Map.LoadOrStore")
	return m.real.LoadOrStore(k, v)
}
func (m *Map) LoadAndDelete(k any) (any, bool) {
	vsched.Point(nil, "Map.LoadAndDelete")
	return m.real.LoadAndDelete(k)
}
func (m *Map) Delete(k any)                { vsched.Point(nil, "Map.Delete"); m.real.Delete(k) }
func (m *Map) Range(f func(k, v any) bool) { vsched.Point(nil, "Map.Range"); m.real.Range(f) }

type Once struct {
	mu   Mutex
	done bool
}

func (o *Once) Do(f func()) {
	o.mu.Lock()
	defer o.mu.Unlock()
	if !o.done {
		defer func() { o.done = true }()
		f()
	}
}

type WaitGroup struct {
	real sync.WaitGroup
	n    int
}

func (w *WaitGroup) Add(d int) {
	if !vsched.Active() {
		w.real.Add(d)
		return
	}
	w.n += d
	vsched.Point(nil, "WaitGroup.Add")
}
func (w *WaitGroup) Done() { w.Add(-1) }
func (w *WaitGroup) Wait() {
	if !vsched.Active() {
		w.real.Wait()
		return
	}
	vsched.Point(func() bool { return w.n == 0 }, "WaitGroup.Wait")
}

type Pool = sync.Pool
