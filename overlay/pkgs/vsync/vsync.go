// Package vsync replaces package sync in instrumented files: every Lock/RLock/Wait is a
// scheduling point whose readiness predicate is the lock's state. Outside the scheduler the real
// primitives are used.
package vsync

import (
	"sync"

	"github.com/bloxapp/ssv/zzverif/vsched"
)

type Locker = sync.Locker

type Mutex struct {
	real   sync.Mutex
	locked bool
	clk    vsched.Clock
}

func (m *Mutex) Lock() {
	if !vsched.Active() {
		m.real.Lock()
		return
	}
	vsched.Point(func() bool { return !m.locked }, "Mutex.Lock")
	m.locked = true
	m.clk.Acquire()
}

func (m *Mutex) TryLock() bool {
	if !vsched.Active() {
		return m.real.TryLock()
	}
	vsched.Point(nil, "Mutex.TryLock")
	if m.locked {
		return false
	}
	m.locked = true
	m.clk.Acquire()
	return true
}

func (m *Mutex) Unlock() {
	if !vsched.Active() {
		m.real.Unlock()
		return
	}
	if !m.locked {
		panic("vsync: unlock of unlocked mutex")
	}
	m.clk.Release()
	m.locked = false
	vsched.Point(nil, "Mutex.Unlock")
}

type RWMutex struct {
	real    sync.RWMutex
	writer  bool
	readers int
	wclk    vsched.Clock // released by writers, acquired by everybody
	rclk    vsched.Clock // released by readers, acquired by writers
}

func (m *RWMutex) Lock() {
	if !vsched.Active() {
		m.real.Lock()
		return
	}
	vsched.Point(func() bool { return !m.writer && m.readers == 0 }, "RWMutex.Lock")
	m.writer = true
	m.wclk.Acquire()
	m.rclk.Acquire()
}

func (m *RWMutex) Unlock() {
	if !vsched.Active() {
		m.real.Unlock()
		return
	}
	if !m.writer {
		panic("vsync: unlock of unlocked rwmutex")
	}
	m.wclk.Release()
	m.writer = false
	vsched.Point(nil, "RWMutex.Unlock")
}

func (m *RWMutex) RLock() {
	if !vsched.Active() {
		m.real.RLock()
		return
	}
	vsched.Point(func() bool { return !m.writer }, "RWMutex.RLock")
	m.readers++
	m.wclk.Acquire()
}

func (m *RWMutex) RUnlock() {
	if !vsched.Active() {
		m.real.RUnlock()
		return
	}
	if m.readers == 0 {
		panic("vsync: runlock of unlocked rwmutex")
	}
	m.rclk.Release()
	m.readers--
	vsched.Point(nil, "RWMutex.RUnlock")
}

func (m *RWMutex) RLocker() Locker { return rlocker{m} }

type rlocker struct{ m *RWMutex }

func (r rlocker) Lock()   { r.m.RLock() }
func (r rlocker) Unlock() { r.m.RUnlock() }

// Map: every operation is one atomic step preceded by a scheduling point.
type Map struct {
	real sync.Map
	clk  vsched.Clock
}

// (happens-before: every operation synchronises with the operations before it, as sync.Map's
// memory model says for a Load that observes a Store; coarser than per key, never finer)
func (m *Map) gate(label string) { vsched.Point(nil, label); m.clk.Acquire(); m.clk.Release() }

func (m *Map) Load(k any) (any, bool) { m.gate("Map.Load"); return m.real.Load(k) }
func (m *Map) Store(k, v any)         { m.gate("Map.Store"); m.real.Store(k, v) }
func (m *Map) LoadOrStore(k, v any) (any, bool) {
	m.gate("Map.LoadOrStore")
	return m.real.LoadOrStore(k, v)
}
func (m *Map) LoadAndDelete(k any) (any, bool) {
	m.gate("Map.LoadAndDelete")
	return m.real.LoadAndDelete(k)
}
func (m *Map) Delete(k any)                { m.gate("Map.Delete"); m.real.Delete(k) }
func (m *Map) Range(f func(k, v any) bool) { m.gate("Map.Range"); m.real.Range(f) }

type Once struct {
	mu   Mutex
	done bool
}

func (o *Once) Do(f func()) {
	o.mu.Lock()
	defer o.mu.Unlock()
	if !o.done {
		defer func() { o.done = true }()
		f()
	}
}

type WaitGroup struct {
	real sync.WaitGroup
	n    int
	clk  vsched.Clock
}

func (w *WaitGroup) Add(d int) {
	if !vsched.Active() {
		w.real.Add(d)
		return
	}
	if d < 0 {
		w.clk.Release()
	}
	w.n += d
	vsched.Point(nil, "WaitGroup.Add")
}
func (w *WaitGroup) Done() { w.Add(-1) }
func (w *WaitGroup) Wait() {
	if !vsched.Active() {
		w.real.Wait()
		return
	}
	vsched.Point(func() bool { return w.n == 0 }, "WaitGroup.Wait")
	w.clk.Acquire()
}

type Pool = sync.Pool
