// Package fakeeth stands in for github.com/ethereum/go-ethereum/ethclient in
// eth/executionclient/execution_client.go (import redirected at build time by the C13 overlay).
//
// It offers exactly the surface that file (and contract.NewContractFilterer, which takes the
// client as a bind.ContractFilterer) needs. The fake has no behaviour of its own: every call the
// execution client makes is handed, synchronously, to whoever owns the World registered for the
// dialled address (the C13 harness), which decides the answer. One World per dialled address, so
// any number of execution clients can run in parallel in one process.
package fakeeth

import (
	"context"
	"errors"
	"fmt"
	"math/big"
	"sync"
	"sync/atomic"

	ethereum "github.com/ethereum/go-ethereum"
	"github.com/ethereum/go-ethereum/core/types"
)

type Kind int

const (
	Dial Kind = iota + 1
	BlockNumber
	FilterLogs
	SubscribeNewHead
	Unsubscribe
	// Note is never produced by the client: the harness's own goroutines (logger core, node
	// life cycle) use it to put their events into the same total order as the client's calls.
	Note
)

func (k Kind) String() string {
	return [...]string{"?", "dial", "blockNumber", "filterLogs", "subscribeNewHead", "unsubscribe", "note"}[k]
}

// Call is one call of the client into the fake, waiting for its answer.
type Call struct {
	Kind  Kind
	Query ethereum.FilterQuery // FilterLogs
	Sub   *Sub                 // SubscribeNewHead (the subscription that exists if the call is answered without error), Unsubscribe
	Text  string               // Note
	Any   interface{}          // Note
	reply chan Reply
}

type Reply struct {
	Err    error
	Logs   []types.Log
	Number uint64
}

// Answer releases the caller. It never blocks.
func (c *Call) Answer(r Reply) { c.reply <- r }

// World is the rendez-vous between one scripted chain and the clients dialled to its address.
type World struct {
	Calls  chan *Call // unbuffered: a call is pending exactly while its caller is blocked in the fake
	Closes atomic.Int32
}

func NewWorld() *World { return &World{Calls: make(chan *Call)} }

// Do hands a call to the owner of the world and waits for the answer.
func (w *World) Do(c *Call) Reply {
	c.reply = make(chan Reply, 1)
	w.Calls <- c
	return <-c.reply
}

var worlds sync.Map // address -> *World

func Register(addr string, w *World) { worlds.Store(addr, w) }
func Unregister(addr string)         { worlds.Delete(addr) }

// Sub is a head subscription. Heads is the channel the client passed in (the client creates it
// unbuffered); ErrC is unbuffered as well, so a send on either completes exactly when the client
// sits in its select.
type Sub struct {
	Heads chan<- *types.Header
	ErrC  chan error
	w     *World
	once  sync.Once
}

func (s *Sub) Unsubscribe() {
	s.once.Do(func() { s.w.Do(&Call{Kind: Unsubscribe, Sub: s}) })
}
func (s *Sub) Err() <-chan error { return s.ErrC }

// Client is the scripted stand-in for *ethclient.Client.
type Client struct{ w *World }

func DialContext(ctx context.Context, rawurl string) (*Client, error) {
	v, ok := worlds.Load(rawurl)
	if !ok {
		return nil, fmt.Errorf("fakeeth: no world registered for %q", rawurl)
	}
	w := v.(*World)
	if r := w.Do(&Call{Kind: Dial}); r.Err != nil {
		return nil, r.Err
	}
	return &Client{w: w}, nil
}

// Close does not go through the world: the owner itself closes clients.
func (c *Client) Close() { c.w.Closes.Add(1) }

func (c *Client) BlockNumber(ctx context.Context) (uint64, error) {
	r := c.w.Do(&Call{Kind: BlockNumber})
	return r.Number, r.Err
}

func (c *Client) FilterLogs(ctx context.Context, q ethereum.FilterQuery) ([]types.Log, error) {
	r := c.w.Do(&Call{Kind: FilterLogs, Query: q})
	return r.Logs, r.Err
}

func (c *Client) SubscribeNewHead(ctx context.Context, ch chan<- *types.Header) (ethereum.Subscription, error) {
	s := &Sub{Heads: ch, ErrC: make(chan error), w: c.w}
	if r := c.w.Do(&Call{Kind: SubscribeNewHead, Sub: s}); r.Err != nil {
		return nil, r.Err
	}
	return s, nil
}

var errNotScripted = errors.New("fakeeth: not scripted")

// SubscribeFilterLogs exists for bind.ContractFilterer; nothing under check calls it.
func (c *Client) SubscribeFilterLogs(ctx context.Context, q ethereum.FilterQuery, ch chan<- types.Log) (ethereum.Subscription, error) {
	return nil, errNotScripted
}

func (c *Client) SyncProgress(ctx context.Context) (*ethereum.SyncProgress, error) { return nil, nil }

func (c *Client) BlockByNumber(ctx context.Context, number *big.Int) (*types.Block, error) {
	return nil, errNotScripted
}
