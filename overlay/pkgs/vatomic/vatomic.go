// Package vatomic replaces sync/atomic in instrumented files: a scheduling point, then the real
// atomic operation (sequentially consistent, as Go's atomics are).
package vatomic

import (
	"sync/atomic"
	"unsafe"

	"github.com/bloxapp/ssv/zzverif/vsched"
)

// gate: scheduling point, then the happens-before edge of a sequentially consistent atomic
// (every operation on the variable synchronises with the earlier ones).
func gate(p unsafe.Pointer, label string) {
	vsched.Point(nil, label)
	k := vsched.AddrClock(uintptr(p))
	k.Acquire()
	k.Release()
}

func LoadInt64(p *int64) int64     { gate(unsafe.Pointer(p), "atomic.Load"); return atomic.LoadInt64(p) }
func StoreInt64(p *int64, v int64) { gate(unsafe.Pointer(p), "atomic.Store"); atomic.StoreInt64(p, v) }
func AddInt64(p *int64, d int64) int64 {
	gate(unsafe.Pointer(p), "atomic.Add")
	return atomic.AddInt64(p, d)
}
func LoadUint64(p *uint64) uint64 {
	gate(unsafe.Pointer(p), "atomic.Load")
	return atomic.LoadUint64(p)
}
func StoreUint64(p *uint64, v uint64) {
	gate(unsafe.Pointer(p), "atomic.Store")
	atomic.StoreUint64(p, v)
}
func AddUint64(p *uint64, d uint64) uint64 {
	gate(unsafe.Pointer(p), "atomic.Add")
	return atomic.AddUint64(p, d)
}
func LoadInt32(p *int32) int32     { gate(unsafe.Pointer(p), "atomic.Load"); return atomic.LoadInt32(p) }
func StoreInt32(p *int32, v int32) { gate(unsafe.Pointer(p), "atomic.Store"); atomic.StoreInt32(p, v) }
func AddInt32(p *int32, d int32) int32 {
	gate(unsafe.Pointer(p), "atomic.Add")
	return atomic.AddInt32(p, d)
}
func CompareAndSwapInt64(p *int64, o, n int64) bool {
	gate(unsafe.Pointer(p), "atomic.CAS")
	return atomic.CompareAndSwapInt64(p, o, n)
}
func CompareAndSwapInt32(p *int32, o, n int32) bool {
	gate(unsafe.Pointer(p), "atomic.CAS")
	return atomic.CompareAndSwapInt32(p, o, n)
}

type (
	Bool   = atomic.Bool
	Int64  = atomic.Int64
	Uint64 = atomic.Uint64
	Value  = atomic.Value
)
