// Package run5 builds real duty runners of github.com/bloxapp/ssv/protocol/v2/ssv/runner the way
// operator/validator.SetupRunners and protocol/v2/ssv/testing build them (real qbft controller,
// spec value checks, spec testing key manager, production leader function) around a RECORDING
// beacon node and a capturing network, and drives them by a fixed real prefix to the phase whose
// partial-signature collection is to be explored ("decided, own partial signature produced";
// for the consensus-less roles: "duty started, own partial signature produced").
//
// It contains no oracle. Everything the prefix feeds to the runner is a real, correctly signed
// message built from the spec testing key sets with herumi BLS directly.
package run5

import (
	"bytes"
	"context"
	"crypto/sha256"
	"encoding/hex"
	"fmt"
	"sync"

	"github.com/attestantio/go-eth2-client/api"
	v1 "github.com/attestantio/go-eth2-client/api/v1"
	"github.com/attestantio/go-eth2-client/spec"
	"github.com/attestantio/go-eth2-client/spec/altair"
	"github.com/attestantio/go-eth2-client/spec/bellatrix"
	"github.com/attestantio/go-eth2-client/spec/phase0"
	specqbft "github.com/bloxapp/ssv-spec/qbft"
	specssv "github.com/bloxapp/ssv-spec/ssv"
	spectypes "github.com/bloxapp/ssv-spec/types"
	"github.com/bloxapp/ssv-spec/types/testingutils"
	ssz "github.com/ferranbt/fastssz"
	"github.com/herumi/bls-eth-go-binary/bls"
	"go.uber.org/zap"

	ibftstorage "github.com/bloxapp/ssv/ibft/storage"
	qbfttesting "github.com/bloxapp/ssv/protocol/v2/qbft/testing"
	"github.com/bloxapp/ssv/protocol/v2/ssv/runner"
	"github.com/bloxapp/ssv/storage/basedb"
	"github.com/bloxapp/ssv/storage/kv"
)

// Role names (stable strings; they appear in evidence and violation signatures).
const (
	Attester        = "attester"
	Proposer        = "proposer"
	ProposerBlinded = "proposer-blinded"
	Aggregator      = "aggregator"
	SyncCommittee   = "sync-committee"
	Contribution    = "sync-committee-contribution"
	VoluntaryExit   = "voluntary-exit"
	Registration    = "validator-registration"
)

// Decide modes of the prefix.
const (
	ByMessages = "msgs"    // proposal, 2f+1 prepares, 2f+1 commits
	ByDecided  = "decided" // one aggregated commit of 2f+1 signers
)

var (
	ksMu  sync.Mutex
	ksMap = map[int]*testingutils.TestKeySet{}
)

// KeySet returns the spec testing key set for n operators (cached: building one parses RSA keys).
func KeySet(n int) *testingutils.TestKeySet {
	ksMu.Lock()
	defer ksMu.Unlock()
	if ks, ok := ksMap[n]; ok {
		return ks
	}
	var ks *testingutils.TestKeySet
	switch n {
	case 4:
		ks = testingutils.Testing4SharesSet()
	case 7:
		ks = testingutils.Testing7SharesSet()
	case 10:
		ks = testingutils.Testing10SharesSet()
	case 13:
		ks = testingutils.Testing13SharesSet()
	default:
		panic(fmt.Sprintf("no spec key set for n=%d", n))
	}
	ksMap[n] = ks
	return ks
}

var shareMap = map[int]*spectypes.Share{}

// testingShare returns a private deep copy of testingutils.TestingShare(KeySet(n)); the original is
// computed once per n because deriving the committee's public keys costs n scalar multiplications.
func testingShare(n int) *spectypes.Share {
	ks := KeySet(n)
	ksMu.Lock()
	src, ok := shareMap[n]
	if !ok {
		src = testingutils.TestingShare(ks)
		shareMap[n] = src
	}
	ksMu.Unlock()
	cp := *src
	cp.ValidatorPubKey = append([]byte{}, src.ValidatorPubKey...)
	cp.SharePubKey = append([]byte{}, src.SharePubKey...)
	cp.Committee = make([]*spectypes.Operator, len(src.Committee))
	for i, o := range src.Committee {
		oc := *o
		oc.PubKey = append([]byte{}, o.PubKey...)
		cp.Committee[i] = &oc
	}
	return &cp
}

// ---------------------------------------------------------------- recording beacon node

// Submission is one Submit* call with its arguments.
type Submission struct {
	Call string       // name of the BeaconNode method
	Obj  ssz.HashRoot // the unsigned object that was handed over (nil for validator registration)
	Sig  phase0.BLSSignature
	// further arguments, by call
	AggregationBits []byte                     // SubmitAttestation
	Version         spec.DataVersion           // Submit(Blinded)BeaconBlock
	Pubkey          []byte                     // SubmitValidatorRegistration
	FeeRecipient    bellatrix.ExecutionAddress // SubmitValidatorRegistration
}

// RecBeacon wraps the spec TestingBeaconNode and logs every Submit* call before forwarding it.
type RecBeacon struct {
	*testingutils.TestingBeaconNode
	Log []Submission
}

func NewRecBeacon() *RecBeacon {
	return &RecBeacon{TestingBeaconNode: testingutils.NewTestingBeaconNode()}
}

func (b *RecBeacon) SubmitAttestation(a *phase0.Attestation) error {
	b.Log = append(b.Log, Submission{Call: "SubmitAttestation", Obj: a.Data, Sig: a.Signature, AggregationBits: append([]byte{}, a.AggregationBits...)})
	return b.TestingBeaconNode.SubmitAttestation(a)
}

func (b *RecBeacon) SubmitValidatorRegistration(pubkey []byte, fee bellatrix.ExecutionAddress, sig phase0.BLSSignature) error {
	b.Log = append(b.Log, Submission{Call: "SubmitValidatorRegistration", Sig: sig, Pubkey: append([]byte{}, pubkey...), FeeRecipient: fee})
	return b.TestingBeaconNode.SubmitValidatorRegistration(pubkey, fee, sig)
}

func (b *RecBeacon) SubmitVoluntaryExit(e *phase0.SignedVoluntaryExit) error {
	b.Log = append(b.Log, Submission{Call: "SubmitVoluntaryExit", Obj: e.Message, Sig: e.Signature})
	return b.TestingBeaconNode.SubmitVoluntaryExit(e)
}

func (b *RecBeacon) SubmitBeaconBlock(blk *api.VersionedProposal, sig phase0.BLSSignature) error {
	s := Submission{Call: "SubmitBeaconBlock", Sig: sig, Version: blk.Version}
	switch blk.Version {
	case spec.DataVersionCapella:
		s.Obj = blk.Capella
	case spec.DataVersionDeneb:
		if blk.Deneb != nil {
			s.Obj = blk.Deneb.Block
		}
	}
	b.Log = append(b.Log, s)
	return b.TestingBeaconNode.SubmitBeaconBlock(blk, sig)
}

func (b *RecBeacon) SubmitBlindedBeaconBlock(blk *api.VersionedBlindedProposal, sig phase0.BLSSignature) error {
	s := Submission{Call: "SubmitBlindedBeaconBlock", Sig: sig, Version: blk.Version}
	switch blk.Version {
	case spec.DataVersionCapella:
		s.Obj = blk.Capella
	case spec.DataVersionDeneb:
		s.Obj = blk.Deneb
	}
	b.Log = append(b.Log, s)
	return b.TestingBeaconNode.SubmitBlindedBeaconBlock(blk, sig)
}

func (b *RecBeacon) SubmitSignedAggregateSelectionProof(m *phase0.SignedAggregateAndProof) error {
	b.Log = append(b.Log, Submission{Call: "SubmitSignedAggregateSelectionProof", Obj: m.Message, Sig: m.Signature})
	return b.TestingBeaconNode.SubmitSignedAggregateSelectionProof(m)
}

func (b *RecBeacon) SubmitSyncMessage(m *altair.SyncCommitteeMessage) error {
	b.Log = append(b.Log, Submission{Call: "SubmitSyncMessage", Obj: spectypes.SSZBytes(m.BeaconBlockRoot[:]), Sig: m.Signature})
	return b.TestingBeaconNode.SubmitSyncMessage(m)
}

func (b *RecBeacon) SubmitSignedContributionAndProof(c *altair.SignedContributionAndProof) error {
	b.Log = append(b.Log, Submission{Call: "SubmitSignedContributionAndProof", Obj: c.Message, Sig: c.Signature})
	return b.TestingBeaconNode.SubmitSignedContributionAndProof(c)
}

// ---------------------------------------------------------------- environment

// Object is one duty object of the explored phase together with the root every committee member
// has to sign for it. Both are derived by the harness from the duty / the decided value, not
// read from the runner.
type Object struct {
	Name   string
	Obj    ssz.HashRoot
	Domain phase0.DomainType
	Root   [32]byte // spectypes.ComputeETHSigningRoot(Obj, ComputeETHDomain(Domain, genesis fork, genesis root))
}

type Env struct {
	Role   string
	N      int
	Mode   string
	KS     *testingutils.TestKeySet
	Share  *spectypes.Share
	Runner runner.Runner
	// AltDecided: the value the committee decides differs from this operator's own input (set
	// before Prefix; attester duties)
	AltDecided bool
	Beacon     *RecBeacon
	Net        *testingutils.TestingNetwork
	Logger     *zap.Logger

	Duty *spectypes.Duty
	// Decided is the consensus value the prefix had decided (nil for the consensus-less roles).
	Decided *spectypes.ConsensusData
	// Objects of the explored phase, in the order the runner signs them.
	Objects []Object
	// MsgType / Slot of a correct partial-signature message of the explored phase.
	MsgType spectypes.PartialSigMsgType
	Slot    phase0.Slot
	// Own is the runner's own partial-signature message of the explored phase as it broadcast it.
	Own *spectypes.SignedPartialSignatureMessage
}

func beaconRole(role string) spectypes.BeaconRole {
	switch role {
	case Attester:
		return spectypes.BNRoleAttester
	case Proposer, ProposerBlinded:
		return spectypes.BNRoleProposer
	case Aggregator:
		return spectypes.BNRoleAggregator
	case SyncCommittee:
		return spectypes.BNRoleSyncCommittee
	case Contribution:
		return spectypes.BNRoleSyncCommitteeContribution
	case VoluntaryExit:
		return spectypes.BNRoleVoluntaryExit
	case Registration:
		return spectypes.BNRoleValidatorRegistration
	}
	panic("unknown role " + role)
}

// HasConsensus reports whether the role runs QBFT (explored phase = post-consensus container).
func HasConsensus(role string) bool { return role != VoluntaryExit && role != Registration }

// NewStores opens a private in-memory badger with one real ibft store per role. The qbft testing
// helper shares ONE process-wide in-memory DB; its single write loop serialises parallel workers,
// so every worker goroutine of a search brings its own.
func NewStores() *ibftstorage.QBFTStores {
	db, err := kv.NewInMemory(zap.NewNop(), basedb.Options{Ctx: context.Background()})
	if err != nil {
		panic(err)
	}
	return ibftstorage.NewStoresFromRoles(db, spectypes.BNRoleAttester, spectypes.BNRoleProposer, spectypes.BNRoleAggregator,
		spectypes.BNRoleSyncCommittee, spectypes.BNRoleSyncCommitteeContribution, spectypes.BNRoleValidatorRegistration, spectypes.BNRoleVoluntaryExit)
}

// New builds a fresh runner for operator 1 of the n-operator spec key set (process-wide testing DB).
func New(role string, n int, mode string) *Env { return NewWith(role, n, mode, nil) }

// NewWith is New with the instance storage taken from stores (nil = the qbft testing helper's).
func NewWith(role string, n int, mode string, stores *ibftstorage.QBFTStores) *Env {
	ks := KeySet(n)
	logger := zap.NewNop()
	br := beaconRole(role)
	share := testingShare(n)
	identifier := spectypes.NewMsgID(testingutils.TestingSSVDomainType, testingutils.TestingValidatorPubKey[:], br)
	net := testingutils.NewTestingNetwork()
	km := testingutils.NewTestingKeyManager()
	bn := NewRecBeacon()
	e := &Env{Role: role, N: n, Mode: mode, KS: ks, Share: share, Beacon: bn, Net: net, Logger: logger}

	var valCheck specqbft.ProposedValueCheckF
	vpk := testingutils.TestingValidatorPubKey[:]
	vidx := phase0.ValidatorIndex(testingutils.TestingValidatorIndex)
	switch role {
	case Attester:
		valCheck = specssv.AttesterValueCheckF(km, spectypes.BeaconTestNetwork, vpk, vidx, nil)
	case Proposer, ProposerBlinded:
		valCheck = specssv.ProposerValueCheckF(km, spectypes.BeaconTestNetwork, vpk, vidx, nil)
	case Aggregator:
		valCheck = specssv.AggregatorValueCheckF(km, spectypes.BeaconTestNetwork, vpk, vidx)
	case SyncCommittee:
		valCheck = specssv.SyncCommitteeValueCheckF(km, spectypes.BeaconTestNetwork, vpk, vidx)
	case Contribution:
		valCheck = specssv.SyncCommitteeContributionValueCheckF(km, spectypes.BeaconTestNetwork, vpk, vidx)
	}

	// controller exactly as protocol/v2/ssv/testing.baseRunner builds it, except for the leader
	// function, which is the production one (operator/validator.SetupRunners).
	config := qbfttesting.TestingConfig(logger, ks, identifier.GetRoleType())
	config.ValueCheckF = valCheck
	config.ProposerF = func(state *specqbft.State, round specqbft.Round) spectypes.OperatorID {
		return specqbft.RoundRobinProposer(state, round)
	}
	config.Network = net
	config.Signer = km
	if stores != nil {
		config.Storage = stores.Get(br)
	}
	contr := qbfttesting.NewTestingQBFTController(identifier[:], share, config, false)

	switch role {
	case Attester:
		e.Runner = runner.NewAttesterRunnner(spectypes.BeaconTestNetwork, share, contr, bn, net, km, valCheck, 0)
	case Proposer, ProposerBlinded:
		e.Runner = runner.NewProposerRunner(spectypes.BeaconTestNetwork, share, contr, bn, net, km, valCheck, 0)
		e.Runner.(*runner.ProposerRunner).ProducesBlindedBlocks = role == ProposerBlinded
	case Aggregator:
		e.Runner = runner.NewAggregatorRunner(spectypes.BeaconTestNetwork, share, contr, bn, net, km, valCheck, 0)
	case SyncCommittee:
		e.Runner = runner.NewSyncCommitteeRunner(spectypes.BeaconTestNetwork, share, contr, bn, net, km, valCheck, 0)
	case Contribution:
		e.Runner = runner.NewSyncCommitteeAggregatorRunner(spectypes.BeaconTestNetwork, share, contr, bn, net, km, valCheck, 0)
	case Registration:
		e.Runner = runner.NewValidatorRegistrationRunner(spectypes.BeaconTestNetwork, share, contr, bn, net, km)
	case VoluntaryExit:
		e.Runner = runner.NewVoluntaryExitRunner(spectypes.BeaconTestNetwork, share, bn, net, km)
	}

	switch role {
	case Attester:
		d := testingutils.TestingAttesterDuty
		e.Duty = &d
	case Proposer, ProposerBlinded:
		e.Duty = testingutils.TestingProposerDutyV(spec.DataVersionCapella)
	case Aggregator:
		d := testingutils.TestingAggregatorDuty
		e.Duty = &d
	case SyncCommittee:
		d := testingutils.TestingSyncCommitteeDuty
		e.Duty = &d
	case Contribution:
		d := testingutils.TestingSyncCommitteeContributionDuty
		e.Duty = &d
	case Registration:
		d := testingutils.TestingValidatorRegistrationDuty
		e.Duty = &d
	case VoluntaryExit:
		d := testingutils.TestingVoluntaryExitDuty
		e.Duty = &d
	}
	return e
}

// ---------------------------------------------------------------- signing (herumi directly)

// Domain computes the beacon domain the way the spec testing beacon node does (genesis fork).
func Domain(dt phase0.DomainType) phase0.Domain {
	d, err := spectypes.ComputeETHDomain(dt, spectypes.GenesisForkVersion, spectypes.GenesisValidatorsRoot)
	if err != nil {
		panic(err)
	}
	return d
}

// SigningRoot = ComputeETHSigningRoot(obj, Domain(dt)).
func SigningRoot(obj ssz.HashRoot, dt phase0.DomainType) [32]byte {
	r, err := spectypes.ComputeETHSigningRoot(obj, Domain(dt))
	if err != nil {
		panic(err)
	}
	return r
}

// ShareSig is operator id's share signature over root.
func (e *Env) ShareSig(id spectypes.OperatorID, root [32]byte) []byte {
	return e.KS.Shares[id].SignByte(root[:]).Serialize()
}

// Item is one (root, partial signature) pair of a partial-signature message.
type Item struct {
	Root [32]byte
	Sig  []byte
}

// PartialMsg builds a SignedPartialSignatureMessage from signer whose envelope is correctly
// signed with signer's share key (so the only defects are the ones put into items / slot), and
// passes it through its wire encoding.
func (e *Env) PartialMsg(signer spectypes.OperatorID, typ spectypes.PartialSigMsgType, slot phase0.Slot, items []Item) *spectypes.SignedPartialSignatureMessage {
	msgs := spectypes.PartialSignatureMessages{Type: typ, Slot: slot}
	for _, it := range items {
		sig := make([]byte, 96)
		copy(sig, it.Sig)
		msgs.Messages = append(msgs.Messages, &spectypes.PartialSignatureMessage{PartialSignature: sig, SigningRoot: it.Root, Signer: signer})
	}
	r, err := spectypes.ComputeSigningRoot(msgs, spectypes.ComputeSignatureDomain(testingutils.TestingSSVDomainType, spectypes.PartialSignatureType))
	if err != nil {
		panic(err)
	}
	m := &spectypes.SignedPartialSignatureMessage{Message: msgs, Signature: e.KS.Shares[signer].SignByte(r[:]).Serialize(), Signer: signer}
	enc, err := m.Encode()
	if err != nil {
		panic(err)
	}
	out := &spectypes.SignedPartialSignatureMessage{}
	if err := out.Decode(enc); err != nil {
		panic(err)
	}
	return out
}

// GoodMsg is the correct partial-signature message of member id for the explored phase.
func (e *Env) GoodMsg(id spectypes.OperatorID) *spectypes.SignedPartialSignatureMessage {
	items := make([]Item, len(e.Objects))
	for k, o := range e.Objects {
		items[k] = Item{Root: o.Root, Sig: e.ShareSig(id, o.Root)}
	}
	return e.PartialMsg(id, e.MsgType, e.Slot, items)
}

// Deliver routes a partial-signature message the way validator.ProcessMessage does.
func (e *Env) Deliver(m *spectypes.SignedPartialSignatureMessage) error {
	if m.Message.Type == spectypes.PostConsensusPartialSig {
		return e.Runner.ProcessPostConsensus(e.Logger, m)
	}
	return e.Runner.ProcessPreConsensus(e.Logger, m)
}

var qbftMsgCache sync.Map // string key -> encoded SignedMessage (the prefix sends the same few messages to every fresh runner)

// decode returns a private copy of a cached wire message.
func decodeQBFT(b []byte) *specqbft.SignedMessage {
	m := &specqbft.SignedMessage{}
	if err := m.Decode(b); err != nil {
		panic(err)
	}
	return m
}

func (e *Env) qbftMsg(id spectypes.OperatorID, t specqbft.MessageType, height specqbft.Height, root [32]byte) *specqbft.SignedMessage {
	key := fmt.Sprintf("%s/%d/%d/%d/%d/%x", e.Role, e.N, id, t, height, root)
	if b, ok := qbftMsgCache.Load(key); ok {
		return decodeQBFT(b.([]byte))
	}
	m := e.qbftMsgUncached(id, t, height, root)
	b, err := m.Encode()
	if err != nil {
		panic(err)
	}
	qbftMsgCache.Store(key, b)
	return decodeQBFT(b)
}

func (e *Env) qbftMsgUncached(id spectypes.OperatorID, t specqbft.MessageType, height specqbft.Height, root [32]byte) *specqbft.SignedMessage {
	identifier := spectypes.NewMsgID(testingutils.TestingSSVDomainType, testingutils.TestingValidatorPubKey[:], beaconRole(e.Role))
	msg := &specqbft.Message{MsgType: t, Height: height, Round: specqbft.FirstRound, Identifier: identifier[:], Root: root}
	r, err := spectypes.ComputeSigningRoot(msg, spectypes.ComputeSignatureDomain(testingutils.TestingSSVDomainType, spectypes.QBFTSignatureType))
	if err != nil {
		panic(err)
	}
	return &specqbft.SignedMessage{Message: *msg, Signers: []spectypes.OperatorID{id}, Signature: e.KS.Shares[id].SignByte(r[:]).Serialize()}
}

// ---------------------------------------------------------------- prefix

func (e *Env) quorumIDs() []spectypes.OperatorID {
	ids := make([]spectypes.OperatorID, 0, e.KS.Threshold)
	for i := uint64(1); i <= e.KS.Threshold; i++ {
		ids = append(ids, spectypes.OperatorID(i))
	}
	return ids
}

// Prefix drives the fresh runner to the start of the explored phase through real messages.
func (e *Env) Prefix() error {
	if err := e.Runner.StartNewDuty(e.Logger, e.Duty); err != nil {
		return fmt.Errorf("StartNewDuty: %w", err)
	}
	slot := e.Duty.Slot
	epoch := spectypes.BeaconTestNetwork.EstimatedEpochAtSlot(slot)

	if !HasConsensus(e.Role) {
		e.Slot = slot
		switch e.Role {
		case VoluntaryExit:
			e.MsgType = spectypes.VoluntaryExitPartialSig
			obj := &phase0.VoluntaryExit{Epoch: epoch, ValidatorIndex: e.Duty.ValidatorIndex}
			e.Objects = []Object{{Name: "voluntary-exit", Obj: obj, Domain: spectypes.DomainVoluntaryExit}}
		case Registration:
			e.MsgType = spectypes.ValidatorRegistrationPartialSig
			pk := phase0.BLSPubKey{}
			copy(pk[:], e.Share.ValidatorPubKey)
			obj := &v1.ValidatorRegistration{FeeRecipient: e.Share.FeeRecipientAddress, GasLimit: spectypes.DefaultGasLimit,
				Timestamp: spectypes.BeaconTestNetwork.EpochStartTime(epoch), Pubkey: pk}
			e.Objects = []Object{{Name: "validator-registration", Obj: obj, Domain: spectypes.DomainApplicationBuilder}}
		}
		return e.finishPrefix()
	}

	// pre-consensus quorum (real share signatures of operators 1..2f+1)
	var preType spectypes.PartialSigMsgType
	var preObjs []ssz.HashRoot
	var preDomain phase0.DomainType
	switch e.Role {
	case Proposer, ProposerBlinded:
		preType, preDomain = spectypes.RandaoPartialSig, spectypes.DomainRandao
		preObjs = []ssz.HashRoot{spectypes.SSZUint64(epoch)}
	case Aggregator:
		preType, preDomain = spectypes.SelectionProofPartialSig, spectypes.DomainSelectionProof
		preObjs = []ssz.HashRoot{spectypes.SSZUint64(slot)}
	case Contribution:
		preType, preDomain = spectypes.ContributionProofs, spectypes.DomainSyncCommitteeSelectionProof
		for _, idx := range e.Duty.ValidatorSyncCommitteeIndices {
			preObjs = append(preObjs, &altair.SyncAggregatorSelectionData{Slot: slot, SubcommitteeIndex: idx})
		}
	}
	if preObjs != nil {
		for _, id := range e.quorumIDs() {
			items := make([]Item, len(preObjs))
			for k, o := range preObjs {
				r := SigningRoot(o, preDomain)
				items[k] = Item{Root: r, Sig: e.ShareSig(id, r)}
			}
			if err := e.Runner.ProcessPreConsensus(e.Logger, e.PartialMsg(id, preType, slot, items)); err != nil {
				return fmt.Errorf("pre-consensus from %d: %w", id, err)
			}
		}
	}

	st := e.Runner.GetBaseRunner().State
	if st == nil || st.RunningInstance == nil {
		return fmt.Errorf("no running instance after start/pre-consensus")
	}
	value := st.RunningInstance.StartValue // what an honest leader holding the same beacon data proposes
	if e.AltDecided {
		// the leader's beacon node saw another head: the committee decides a valid value that differs
		// from what this operator's own node returned at duty start (attester duties)
		cd := &spectypes.ConsensusData{}
		if err := cd.Decode(value); err != nil {
			return fmt.Errorf("start value: %w", err)
		}
		ad, err := cd.GetAttestationData()
		if err != nil {
			return fmt.Errorf("AltDecided needs an attester duty: %w", err)
		}
		ad.BeaconBlockRoot[0] ^= 0xff
		if cd.DataSSZ, err = ad.MarshalSSZ(); err != nil {
			return err
		}
		if value, err = cd.Encode(); err != nil {
			return err
		}
	}
	root := sha256.Sum256(value)
	height := specqbft.Height(slot)
	leader := specqbft.RoundRobinProposer(st.RunningInstance.State, specqbft.FirstRound)

	switch e.Mode {
	case ByMessages:
		prop := e.qbftMsg(leader, specqbft.ProposalMsgType, height, root)
		prop.FullData = value
		if err := e.Runner.ProcessConsensus(e.Logger, prop); err != nil {
			return fmt.Errorf("proposal: %w", err)
		}
		for _, id := range e.quorumIDs() {
			if err := e.Runner.ProcessConsensus(e.Logger, e.qbftMsg(id, specqbft.PrepareMsgType, height, root)); err != nil {
				return fmt.Errorf("prepare %d: %w", id, err)
			}
		}
		for _, id := range e.quorumIDs() {
			if err := e.Runner.ProcessConsensus(e.Logger, e.qbftMsg(id, specqbft.CommitMsgType, height, root)); err != nil {
				return fmt.Errorf("commit %d: %w", id, err)
			}
		}
	case ByDecided:
		var agg *specqbft.SignedMessage
		key := fmt.Sprintf("decided/%s/%d/%d/%x", e.Role, e.N, height, root)
		if b, ok := qbftMsgCache.Load(key); ok {
			agg = decodeQBFT(b.([]byte))
		} else {
			for _, id := range e.quorumIDs() {
				m := e.qbftMsg(id, specqbft.CommitMsgType, height, root)
				if agg == nil {
					agg = m
				} else if err := agg.Aggregate(m); err != nil {
					return fmt.Errorf("aggregate: %w", err)
				}
			}
			agg.FullData = value
			b, err := agg.Encode()
			if err != nil {
				return err
			}
			qbftMsgCache.Store(key, b)
			agg = decodeQBFT(b)
		}
		if err := e.Runner.ProcessConsensus(e.Logger, agg); err != nil {
			return fmt.Errorf("decided: %w", err)
		}
	default:
		return fmt.Errorf("unknown decide mode %q", e.Mode)
	}

	cd := &spectypes.ConsensusData{}
	if err := cd.Decode(value); err != nil {
		return fmt.Errorf("decided value: %w", err)
	}
	e.Decided = cd
	e.MsgType = spectypes.PostConsensusPartialSig
	e.Slot = cd.Duty.Slot

	switch e.Role {
	case Attester:
		d, err := cd.GetAttestationData()
		if err != nil {
			return err
		}
		e.Objects = []Object{{Name: "attestation", Obj: d, Domain: spectypes.DomainAttester}}
	case Proposer, ProposerBlinded:
		if _, blk, err := cd.GetBlindedBlockData(); err == nil {
			e.Objects = []Object{{Name: "blinded-block", Obj: blk, Domain: spectypes.DomainProposer}}
		} else if _, blk, err := cd.GetBlockData(); err == nil {
			e.Objects = []Object{{Name: "block", Obj: blk, Domain: spectypes.DomainProposer}}
		} else {
			return err
		}
	case Aggregator:
		a, err := cd.GetAggregateAndProof()
		if err != nil {
			return err
		}
		e.Objects = []Object{{Name: "aggregate-and-proof", Obj: a, Domain: spectypes.DomainAggregateAndProof}}
	case SyncCommittee:
		r, err := cd.GetSyncCommitteeBlockRoot()
		if err != nil {
			return err
		}
		e.Objects = []Object{{Name: "sync-committee-message", Obj: spectypes.SSZBytes(r[:]), Domain: spectypes.DomainSyncCommittee}}
	case Contribution:
		cs, err := cd.GetSyncCommitteeContributions()
		if err != nil {
			return err
		}
		for k, c := range cs {
			contrib := c.Contribution
			e.Objects = append(e.Objects, Object{Name: fmt.Sprintf("contribution-%d", k),
				Obj:    &altair.ContributionAndProof{AggregatorIndex: cd.Duty.ValidatorIndex, Contribution: &contrib, SelectionProof: c.SelectionProofSig},
				Domain: spectypes.DomainContributionAndProof})
		}
	}
	return e.finishPrefix()
}

func (e *Env) finishPrefix() error {
	for k := range e.Objects {
		e.Objects[k].Root = SigningRoot(e.Objects[k].Obj, e.Objects[k].Domain)
	}
	// the runner's own share of the explored phase is the last partial-signature broadcast
	for i := len(e.Net.BroadcastedMsgs) - 1; i >= 0; i-- {
		m := e.Net.BroadcastedMsgs[i]
		if m.MsgType != spectypes.SSVPartialSignatureMsgType {
			continue
		}
		own := &spectypes.SignedPartialSignatureMessage{}
		if err := own.Decode(m.Data); err != nil {
			return fmt.Errorf("own partial-signature broadcast undecodable: %w", err)
		}
		e.Own = own
		break
	}
	if e.Own == nil || e.Own.Message.Type != e.MsgType {
		return fmt.Errorf("runner did not broadcast its own partial signature of the explored phase")
	}
	if len(e.Beacon.Log) != 0 {
		return fmt.Errorf("submission during the prefix")
	}
	st := e.Runner.GetBaseRunner().State
	if st.Finished {
		return fmt.Errorf("finished after the prefix")
	}
	if HasConsensus(e.Role) && st.DecidedValue == nil {
		return fmt.Errorf("not decided after the prefix")
	}
	// the harness-derived good share of operator 1 must be what the real runner produced
	want := e.GoodMsg(e.Share.OperatorID)
	if len(want.Message.Messages) != len(e.Own.Message.Messages) || e.Own.Message.Slot != want.Message.Slot {
		return fmt.Errorf("own share shape differs from the harness-derived one")
	}
	for k := range want.Message.Messages {
		a, b := want.Message.Messages[k], e.Own.Message.Messages[k]
		if a.SigningRoot != b.SigningRoot || !bytes.Equal(a.PartialSignature, b.PartialSignature) {
			return fmt.Errorf("own share %d differs from the harness-derived one: root %s vs %s", k,
				hex.EncodeToString(b.SigningRoot[:]), hex.EncodeToString(a.SigningRoot[:]))
		}
	}
	return nil
}

// Container is the partial-signature container of the explored phase.
func (e *Env) Container() *specssv.PartialSigContainer {
	st := e.Runner.GetBaseRunner().State
	if HasConsensus(e.Role) {
		return st.PostConsensusContainer
	}
	return st.PreConsensusContainer
}

// Finished flag of the running duty.
func (e *Env) Finished() bool { return e.Runner.GetBaseRunner().State.Finished }

// PubKeyOf returns the deserialised share public key of a committee member.
func (e *Env) PubKeyOf(id spectypes.OperatorID) *bls.PublicKey { return e.KS.Shares[id].GetPublicKey() }
