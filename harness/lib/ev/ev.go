// Package ev is the plumbing every check shares: tier/seed parsing, evidence files,
// replay artefacts, known-findings matching and the VIOLATION / KNOWN-FINDING protocol.
package ev

import (
	"crypto/sha256"
	"encoding/hex"
	"encoding/json"
	"flag"
	"fmt"
	"os"
	"path/filepath"
	"sort"
	"strconv"
	"strings"
	"sync"
	"time"
)

const Root = "/verif"

// Run is one invocation of one check.
type Run struct {
	ID             string
	Tier           string
	Seed           int
	Level          string
	Replay         string // non-empty: replay this artefact instead of exploring
	explicitBudget bool
	start          time.Time

	mu          sync.Mutex
	Cov         map[string]interface{}
	Assumptions []string
	samples     []interface{}
	violations  []Violation
	known       map[string]bool // signatures of known findings that fired
	knownDefs   []Finding
	deadline    time.Time
	capHit      []string
}

type Violation struct {
	Signature string      `json:"signature"`
	What      string      `json:"what"`
	Harness   string      `json:"harness"`
	Trace     interface{} `json:"trace"`
	Observed  interface{} `json:"observed,omitempty"`
	Expected  interface{} `json:"expected,omitempty"`
	path      string
}

type Finding struct {
	Property  string `json:"property"`
	Status    string `json:"status"` // "known" | "fixed"
	Signature string `json:"signature"`
	Line      string `json:"line"`
}

// Start parses the common flags (--tier, --replay) and the VERIF_* environment.
func Start(id, level string) *Run {
	tier := flag.String("tier", envOr("VERIF_TIER", "quick"), "quick|thorough")
	replay := flag.String("replay", "", "replay artefact")
	budget := flag.Duration("budget", 0, "internal deadline (0 = tier default)")
	if !flag.Parsed() {
		flag.Parse()
	}
	seed, _ := strconv.Atoi(os.Getenv("VERIF_SEED"))
	r := &Run{ID: id, Tier: *tier, Seed: seed, Level: level, Replay: *replay, start: time.Now(),
		Cov: map[string]interface{}{}, known: map[string]bool{}}
	if r.Tier != "quick" && r.Tier != "thorough" {
		fmt.Fprintln(os.Stderr, "bad tier", r.Tier)
		os.Exit(2)
	}
	d := *budget
	if d == 0 {
		if r.Tier == "quick" {
			d = 4 * time.Minute
		} else {
			d = 40 * time.Minute
		}
	}
	r.deadline = r.start.Add(d)
	r.explicitBudget = *budget != 0
	r.loadKnown()
	return r
}

// DefaultBudget replaces the tier's default internal deadline (4 / 40 minutes) for a check that
// needs more; an explicit --budget still wins.
func (r *Run) DefaultBudget(quick, thorough time.Duration) {
	if r.explicitBudget {
		return
	}
	if r.Tier == "quick" {
		r.deadline = r.start.Add(quick)
	} else {
		r.deadline = r.start.Add(thorough)
	}
}

func envOr(k, d string) string {
	if v := os.Getenv(k); v != "" {
		return v
	}
	return d
}

func (r *Run) Thorough() bool { return r.Tier == "thorough" }

// Expired reports whether the internal deadline has passed; checks poll it at coarse
// granularity and then finish with exhaustive:false (exit 0), never with a violation.
func (r *Run) Expired() bool { return time.Now().After(r.deadline) }

// Remaining budget.
func (r *Run) Remaining() time.Duration { return time.Until(r.deadline) }

func (r *Run) CapHit(what string) {
	r.mu.Lock()
	defer r.mu.Unlock()
	for _, c := range r.capHit {
		if c == what {
			return
		}
	}
	r.capHit = append(r.capHit, what)
}

func (r *Run) loadKnown() {
	b, err := os.ReadFile(filepath.Join(Root, "known_findings.json"))
	if err != nil {
		return
	}
	var f struct {
		Findings []Finding `json:"findings"`
	}
	if err := json.Unmarshal(b, &f); err != nil {
		fmt.Fprintln(os.Stderr, "known_findings.json unreadable:", err)
		os.Exit(2)
	}
	for _, k := range f.Findings {
		if k.Property == r.ID && k.Status == "known" {
			r.knownDefs = append(r.knownDefs, k)
		}
	}
}

// Sample records one explored case (kept to a handful).
func (r *Run) Sample(s interface{}) {
	r.mu.Lock()
	defer r.mu.Unlock()
	if len(r.samples) < 8 {
		r.samples = append(r.samples, s)
	}
}

func (r *Run) Assume(s ...string) { r.Assumptions = append(r.Assumptions, s...) }

// Add adds n to an integer coverage counter.
func (r *Run) Add(key string, n int) {
	r.mu.Lock()
	defer r.mu.Unlock()
	cur, _ := r.Cov[key].(int)
	r.Cov[key] = cur + n
}

func (r *Run) Set(key string, v interface{}) {
	r.mu.Lock()
	defer r.mu.Unlock()
	r.Cov[key] = v
}

func (r *Run) Get(key string) int {
	r.mu.Lock()
	defer r.mu.Unlock()
	cur, _ := r.Cov[key].(int)
	return cur
}

// Violate records a violation. signature identifies the failing input / call site / history
// class; it is what known_findings.json is matched against. Returns true when it is new
// (i.e. not a listed known finding).
func (r *Run) Violate(signature, what, harness string, trace, observed, expected interface{}) bool {
	r.mu.Lock()
	defer r.mu.Unlock()
	for _, k := range r.knownDefs {
		if k.Signature == signature {
			r.known[signature] = true
			return false
		}
	}
	for _, v := range r.violations {
		if v.Signature == signature {
			return true // one artefact per signature
		}
	}
	r.violations = append(r.violations, Violation{Signature: signature, What: what, Harness: harness,
		Trace: trace, Observed: observed, Expected: expected})
	return true
}

func (r *Run) NumViolations() int {
	r.mu.Lock()
	defer r.mu.Unlock()
	return len(r.violations)
}

// Finish writes the evidence file, prints KNOWN-FINDING / VIOLATION lines and exits.
func (r *Run) Finish(exhaustive bool) {
	r.mu.Lock()
	defer r.mu.Unlock()
	if len(r.capHit) > 0 {
		exhaustive = false
		r.Cov["caps_hit"] = r.capHit
	}
	r.Cov["exhaustive"] = exhaustive
	if len(r.samples) == 0 {
		r.samples = append(r.samples, "no case recorded")
	}
	r.Cov["samples"] = r.samples
	if r.Assumptions == nil {
		r.Assumptions = []string{}
	}
	var knownFired []string
	for s := range r.known {
		knownFired = append(knownFired, s)
	}
	sort.Strings(knownFired)
	if len(knownFired) > 0 {
		r.Cov["known_findings_observed"] = knownFired
	}
	evd := map[string]interface{}{
		"property_id": r.ID, "tier": r.Tier, "seed": r.Seed, "level": r.Level,
		"coverage": r.Cov, "assumptions": r.Assumptions,
		"wall_s":     time.Since(r.start).Seconds(),
		"violations": len(r.violations),
	}
	if r.Replay == "" {
		b, _ := json.MarshalIndent(evd, "", " ")
		edir := envOr("VERIF_EVIDENCE_DIR", filepath.Join(Root, "evidence"))
		os.MkdirAll(edir, 0o755)
		if err := os.WriteFile(filepath.Join(edir, r.ID+".json"), append(b, '\n'), 0o644); err != nil {
			fmt.Fprintln(os.Stderr, "cannot write evidence:", err)
			os.Exit(2)
		}
	}
	for _, k := range r.knownDefs {
		if r.known[k.Signature] {
			fmt.Printf("KNOWN-FINDING: property=%s %s\n", r.ID, k.Line)
		}
	}
	for i := range r.violations {
		v := &r.violations[i]
		b, _ := json.MarshalIndent(map[string]interface{}{"property": r.ID, "violation": v}, "", " ")
		h := sha256.Sum256([]byte(v.Signature))
		dir := filepath.Join(envOr("VERIF_REPLAY_DIR", filepath.Join(Root, "replays")), r.ID)
		os.MkdirAll(dir, 0o755)
		v.path = filepath.Join(dir, hex.EncodeToString(h[:6])+".json")
		os.WriteFile(v.path, append(b, '\n'), 0o644)
		fmt.Printf("VIOLATION property=%s replay=%s\n", r.ID, v.path)
		fmt.Printf("  what: %s\n  signature: %s\n", v.What, v.Signature)
	}
	fmt.Printf("%s %s: %s exhaustive=%v wall=%.1fs violations=%d\n", r.ID, r.Tier, summary(r.Cov), exhaustive,
		time.Since(r.start).Seconds(), len(r.violations))
	if len(r.violations) > 0 {
		os.Exit(1)
	}
	os.Exit(0)
}

func summary(c map[string]interface{}) string {
	keys := []string{"states", "transitions", "evaluations", "distinct_nontrivial", "schedules", "traces_validated_against_impl"}
	s := ""
	for _, k := range keys {
		if v, ok := c[k]; ok {
			s += fmt.Sprintf("%s=%v ", k, v)
		}
	}
	return s
}

// LoadReplay reads a replay artefact written by Finish.
func LoadReplay(path string) (Violation, error) {
	var f struct {
		Violation Violation `json:"violation"`
	}
	b, err := os.ReadFile(path)
	if err != nil {
		return Violation{}, err
	}
	err = json.Unmarshal(b, &f)
	return f.Violation, err
}

// RacePass reports whether this process is the free-running -race pass of a scheduler-based check.
var racePass = flag.Bool("race-pass", false, "internal: free-running pass under the race detector")

func RacePass() bool {
	if !flag.Parsed() {
		flag.Parse()
	}
	return *racePass
}

// RaceReport folds the output of the -race pass (written by bin/verif before the thorough run)
// into the evidence; relevant() decides whether a reported race concerns state the property names.
func (r *Run) RaceReport(relevant func(report string) bool) {
	path := os.Getenv("VERIF_RACE_REPORT")
	if path == "" || r.Tier != "thorough" {
		return
	}
	b, err := os.ReadFile(path)
	if err != nil {
		r.Set("race_pass", "not run: "+err.Error())
		return
	}
	out := string(b)
	races := strings.Split(out, "WARNING: DATA RACE")
	r.Set("race_pass_reports", len(races)-1)
	r.Set("race_pass_summary", lastLines(out, 3))
	n := 0
	for _, rep := range races[1:] {
		if relevant == nil || relevant(rep) {
			n++
			if n == 1 {
				r.Violate("data-race", "the free-running -race pass of the same harness bodies reported a data race on state the property names", "race-pass", map[string]interface{}{"report": firstLines(rep, 40)}, nil, nil)
			}
		}
	}
	r.Assume("thorough tier: the same harness bodies were also run free-running (no scheduler) under the Go race detector")
}

func lastLines(s string, n int) string {
	l := strings.Split(strings.TrimSpace(s), "\n")
	if len(l) > n {
		l = l[len(l)-n:]
	}
	return strings.Join(l, " | ")
}

func firstLines(s string, n int) string {
	l := strings.Split(s, "\n")
	if len(l) > n {
		l = l[:n]
	}
	return strings.Join(l, "\n")
}

// Engine error: not a verdict about the property.
func Fatal(format string, a ...interface{}) {
	fmt.Fprintf(os.Stderr, "ENGINE-ERROR: "+format+"\n", a...)
	os.Exit(2)
}
