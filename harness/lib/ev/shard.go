package ev

import (
	"bufio"
	"encoding/json"
	"flag"
	"fmt"
	"os"
	"os/exec"
	"strconv"
	"sync"
	"time"
)

// Process-level sharding: the parent re-executes its own binary n times with --worker=i
// --workers=n; a worker handles the jobs i mod n, prints one "JOB <json>" line per finished job
// and its violations as "VIOL <json>" lines; the parent aggregates. Separate processes keep the Go
// heap (state tables) and the GC of each shard independent.

var (
	workerIdx = flag.Int("worker", -1, "internal: shard index")
	workerN   = flag.Int("workers", 0, "internal: shard count")
)

// IsWorker reports whether this process is a shard, and which.
func (r *Run) IsWorker() (idx, n int, ok bool) { return *workerIdx, *workerN, *workerIdx >= 0 }

// Mine reports whether job i belongs to this shard.
func (r *Run) Mine(i int) bool { return *workerIdx < 0 || i%*workerN == *workerIdx }

var emitMu sync.Mutex

// Emit sends one job result to the parent.
func (r *Run) Emit(v interface{}) {
	b, _ := json.Marshal(v)
	emitMu.Lock()
	fmt.Printf("JOB %s\n", b)
	emitMu.Unlock()
}

// WorkerDone flushes the shard's violations and exits.
func (r *Run) WorkerDone() {
	r.mu.Lock()
	for _, v := range r.violations {
		b, _ := json.Marshal(v)
		fmt.Printf("VIOL %s\n", b)
	}
	for s := range r.known {
		fmt.Printf("KNOWN %s\n", strconv.Quote(s))
	}
	for _, c := range r.capHit {
		fmt.Printf("CAP %s\n", strconv.Quote(c))
	}
	r.mu.Unlock()
	os.Exit(0)
}

// Spawn runs n shards and feeds every JOB line to handle (serialised).
func (r *Run) Spawn(n int, extraArgs []string, handle func(raw []byte)) {
	var wg sync.WaitGroup
	var hmu sync.Mutex
	for i := 0; i < n; i++ {
		wg.Add(1)
		go func(i int) {
			defer wg.Done()
			args := []string{"--tier", r.Tier, "--worker", strconv.Itoa(i), "--workers", strconv.Itoa(n),
				"--budget", (r.Remaining() - 5*time.Second).String()}
			args = append(args, extraArgs...)
			cmd := exec.Command(os.Args[0], args...)
			cmd.Env = append(os.Environ(), "GOMAXPROCS=2")
			cmd.Stderr = os.Stderr
			out, err := cmd.StdoutPipe()
			if err != nil {
				Fatal("spawn: %v", err)
			}
			if err := cmd.Start(); err != nil {
				Fatal("spawn: %v", err)
			}
			sc := bufio.NewScanner(out)
			sc.Buffer(make([]byte, 1<<20), 1<<28)
			for sc.Scan() {
				line := sc.Bytes()
				switch {
				case len(line) > 4 && string(line[:4]) == "JOB ":
					hmu.Lock()
					handle(append([]byte(nil), line[4:]...))
					hmu.Unlock()
				case len(line) > 5 && string(line[:5]) == "VIOL ":
					var v Violation
					if json.Unmarshal(line[5:], &v) == nil {
						r.Violate(v.Signature, v.What, v.Harness, v.Trace, v.Observed, v.Expected)
					}
				case len(line) > 6 && string(line[:6]) == "KNOWN ":
					if s, err := strconv.Unquote(string(line[6:])); err == nil {
						r.mu.Lock()
						r.known[s] = true
						r.mu.Unlock()
					}
				case len(line) > 4 && string(line[:4]) == "CAP ":
					if s, err := strconv.Unquote(string(line[4:])); err == nil {
						r.CapHit(s)
					}
				default:
					fmt.Println(string(line))
				}
			}
			if err := cmd.Wait(); err != nil {
				Fatal("shard %d failed: %v", i, err)
			}
		}(i)
	}
	wg.Wait()
}
