package qnet

// Search is the deviation-bounded exploration around the canonical schedule S0: every
// placement of <= K deviations, executions run to completion, states hashed so that placements
// that converge are explored once.
type Search struct {
	K int
	// OnStep is called after every real transition with the reports of the real calls.
	// Returning false prunes the path (used after a violation).
	OnStep func(w *World, reps []Report) bool
	// OnState is called once per distinct visited state (before its successors are explored).
	OnState func(w *World, budget int)
	// Extra adds client observations to the canonical hash.
	Extra func(w *World) []byte
	// Stop is polled; true aborts the search (deadline).
	Stop func() bool
	// AllowDeviation filters the deviation menu (nil = all).
	AllowDeviation func(w *World, e Event, budget int) bool
	MaxSteps       int
	// OnEnd is called at the end of every execution (canonical schedule exhausted).
	OnEnd func(w *World)

	seen        map[[32]byte]int8
	States      int
	Transitions int
	Executions  int
	Aborted     bool
	MaxDepth    int
}

func (s *Search) Run(w *World, initial []Report) {
	s.seen = map[[32]byte]int8{}
	if s.MaxSteps == 0 {
		s.MaxSteps = 2000
	}
	if s.OnStep != nil && !s.OnStep(w, initial) {
		return
	}
	s.explore(w, s.K)
}

func (s *Search) explore(w *World, k int) {
	for {
		if s.Stop != nil && s.Stop() {
			s.Aborted = true
			return
		}
		var extra []byte
		if s.Extra != nil {
			extra = s.Extra(w)
		}
		if k < s.K || s.K == 0 {
			// REDELIVER is only offered as the first deviation; afterwards the window of recently
			// processed messages is unobservable and dropped from the canonical form.
			extra = append(extra, 0xfe)
			w.Last = nil
		}
		h := w.Hash(extra)
		if prev, ok := s.seen[h]; ok && int(prev) >= k {
			return // already explored from here with at least this budget
		} else if !ok {
			s.States++
			if s.OnState != nil {
				s.OnState(w, k)
			}
		}
		s.seen[h] = int8(k)
		if w.Steps > s.MaxDepth {
			s.MaxDepth = w.Steps
		}
		if k > 0 {
			for _, d := range w.Deviations() {
				if s.AllowDeviation != nil && !s.AllowDeviation(w, d, k) {
					continue
				}
				nk := k - 1
				if d.Kind == Redeliver {
					if k != s.K {
						continue
					}
					nk = 0 // a duplicate delivery is explored on its own, not combined
				}
				w2 := w.Clone()
				reps := w2.Apply(d)
				s.Transitions++
				if s.OnStep != nil && !s.OnStep(w2, reps) {
					continue
				}
				s.explore(w2, nk)
				if s.Aborted {
					return
				}
			}
		}
		ev, ok := w.Default()
		if !ok || w.Steps >= s.MaxSteps {
			s.Executions++
			if s.OnEnd != nil {
				s.OnEnd(w)
			}
			return
		}
		reps := w.Apply(ev)
		s.Transitions++
		if s.OnStep != nil && !s.OnStep(w, reps) {
			return
		}
	}
}
