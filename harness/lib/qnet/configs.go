package qnet

import (
	"fmt"

	specqbft "github.com/bloxapp/ssv-spec/qbft"
	spectypes "github.com/bloxapp/ssv-spec/types"
)

func StartAssignments(honest []spectypes.OperatorID) []map[spectypes.OperatorID]byte {
	var out []map[spectypes.OperatorID]byte
	mk := func(f func(i int) byte) {
		m := map[spectypes.OperatorID]byte{}
		for i, h := range honest {
			m[h] = f(i)
		}
		out = append(out, m)
	}
	mk(func(int) byte { return 'A' })
	mk(func(i int) byte {
		if i == 0 {
			return 'A'
		}
		return 'B'
	})
	mk(func(i int) byte { return "AB"[i%2] })
	return out
}

// Configs enumerates every (height, Byzantine identity, policy, start assignment).
func Configs(n int, R specqbft.Round, heights []specqbft.Height) []*Cfg {
	var out []*Cfg
	for _, h := range heights {
		for byz := 0; byz <= n; byz++ {
			base := &Cfg{N: n, Height: h, Byz: spectypes.OperatorID(byz), MaxRound: R, Role: spectypes.BNRoleAttester}
			base.Init()
			pols := []*Policy{nil}
			if byz != 0 && n <= 4 {
				pols = append(pols, Policies(base.Honest)...)
			} else if byz != 0 {
				if byz > 3 {
					continue // larger committees: identities 1-3 (leaders of rounds 1-3 at height 0)
				}
				pols = append(pols, PoliciesLimited(base.Honest)...)
			}
			for _, p := range pols {
				for _, st := range StartAssignments(base.Honest) {
					c := *base
					c.Policy, c.Start = p, st
					out = append(out, &c)
				}
			}
		}
	}
	return out
}

// Artefact is the pool-independent description of an execution (configuration + events).
func Artefact(w *World) map[string]interface{} {
	c := w.C
	start := ""
	for _, h := range c.Honest {
		start += string(c.Start[h])
	}
	pol := ""
	if c.Policy != nil {
		pol = c.Policy.Name
	}
	evs := make([][3]int, 0, len(w.Trace))
	for _, e := range w.Trace {
		evs = append(evs, [3]int{int(e.Kind), int(e.To), e.Idx})
	}
	return map[string]interface{}{"n": c.N, "height": int(c.Height), "byz": int(c.Byz), "start": start, "policy": pol, "max_round": int(c.MaxRound), "role": int(c.Role), "silent": silentInts(c),
		"events": evs, "readable": w.DescribeTrace(), "final": w.Summary()}
}

// FromArtefact rebuilds the configuration and the event list of an artefact.
func FromArtefact(t map[string]interface{}) (*Cfg, []Event, error) {
	c := &Cfg{N: int(t["n"].(float64)), Height: specqbft.Height(t["height"].(float64)), Byz: spectypes.OperatorID(t["byz"].(float64)),
		MaxRound: specqbft.Round(t["max_round"].(float64)), Role: spectypes.BNRoleAttester}
	if rl, ok := t["role"].(float64); ok {
		c.Role = spectypes.BeaconRole(rl)
	}
	if sl, ok := t["silent"].([]interface{}); ok {
		for _, x := range sl {
			c.Silent = append(c.Silent, spectypes.OperatorID(x.(float64)))
		}
	}
	c.Init()
	c.Start = map[spectypes.OperatorID]byte{}
	for i, h := range c.Honest {
		c.Start[h] = t["start"].(string)[i]
	}
	if pn := t["policy"].(string); pn != "" {
		for _, p := range append(Policies4(c), PoliciesLimited(c.Honest)...) {
			if p.Name == pn {
				c.Policy = p
			}
		}
		if c.Policy == nil {
			return nil, nil, fmt.Errorf("unknown policy %s", pn)
		}
	}
	var evs []Event
	for _, e := range t["events"].([]interface{}) {
		x := e.([]interface{})
		evs = append(evs, Event{Kind: EventKind(x[0].(float64)), To: spectypes.OperatorID(x[1].(float64)), Idx: int(x[2].(float64))})
	}
	return c, evs, nil
}

// Policies4 is the full library for committees of four (nil otherwise).
func Policies4(c *Cfg) []*Policy {
	if c.N > 4 {
		return nil
	}
	return Policies(c.Honest)
}

func silentInts(c *Cfg) []int {
	out := []int{}
	for _, x := range c.Silent {
		out = append(out, int(x))
	}
	return out
}

// ConfigsTwoFaulty: n=7 with f=2 faulty members - one Byzantine with a policy of the limited
// library and one silent operator.
func ConfigsTwoFaulty(R specqbft.Round) []*Cfg {
	var out []*Cfg
	for _, pair := range [][2]spectypes.OperatorID{{1, 7}, {2, 3}, {3, 1}} {
		base := &Cfg{N: 7, Height: 0, Byz: pair[0], Silent: []spectypes.OperatorID{pair[1]}, MaxRound: R, Role: spectypes.BNRoleAttester}
		base.Init()
		for _, p := range append([]*Policy{nil}, PoliciesLimited(base.Honest)...) {
			for _, st := range StartAssignments(base.Honest) {
				c := *base
				c.Policy, c.Start = p, st
				out = append(out, &c)
			}
		}
	}
	return out
}
