package qnet

import (
	"fmt"

	specqbft "github.com/bloxapp/ssv-spec/qbft"
	spectypes "github.com/bloxapp/ssv-spec/types"
)

// Policy is a deterministic reactive strategy of the Byzantine operator. After every event it
// looks at everything that was ever put on the network (it hears all broadcasts, and it knows
// what it sent itself) and injects, per recipient and once each, the messages below. It signs
// only with its own share key. The policy is part of the configuration, enumerated completely.
type Policy struct {
	Name string
	// Face[j] is the value ('A'/'B') the Byzantine operator supports towards honest operator j.
	Face map[spectypes.OperatorID]byte
	// Eager: send commit as soon as a proposal for the face value exists (do not wait for prepares).
	Eager bool
	// Impersonate: additionally send every prepare/commit/round-change with another honest id in
	// Signers (signed with the Byzantine key: the signature cannot verify).
	Impersonate bool
	// EarlyRC: announce round r+1 as soon as round r has a proposal (do not wait for an honest one).
	EarlyRC bool
	// StaleJust: when leading round r without a round-change quorum for r, fill the justification
	// with the correct operators' round-changes of earlier rounds (which must not count).
	StaleJust bool
}

func (w *World) inject(key string, sm *specqbft.SignedMessage, to spectypes.OperatorID) {
	if w.Inj[key] {
		return
	}
	w.Inj[key] = true
	m := w.P.Intern(sm, w.C.Byz)
	w.put(m.ID, []spectypes.OperatorID{to})
}

type logView struct {
	proposals map[specqbft.Round]map[[32]byte]bool
	prepares  map[specqbft.Round]map[[32]byte]map[spectypes.OperatorID]*specqbft.SignedMessage
	rcs       map[specqbft.Round]map[spectypes.OperatorID]*specqbft.SignedMessage // first per signer
	honestRC  map[specqbft.Round]bool
}

func (w *World) view(to spectypes.OperatorID) *logView {
	v := &logView{proposals: map[specqbft.Round]map[[32]byte]bool{}, prepares: map[specqbft.Round]map[[32]byte]map[spectypes.OperatorID]*specqbft.SignedMessage{},
		rcs: map[specqbft.Round]map[spectypes.OperatorID]*specqbft.SignedMessage{}, honestRC: map[specqbft.Round]bool{}}
	for _, id := range w.LogIDs {
		pm := w.P.List[id]
		m := pm.Signed
		if m.Message.Height != w.C.Height || len(m.Signers) != 1 {
			continue
		}
		if pm.From == w.C.Byz && m.Signers[0] != w.C.Byz {
			continue // own forgeries are useless as justifications
		}
		s := m.Signers[0]
		switch m.Message.MsgType {
		case specqbft.ProposalMsgType:
			if v.proposals[m.Message.Round] == nil {
				v.proposals[m.Message.Round] = map[[32]byte]bool{}
			}
			v.proposals[m.Message.Round][m.Message.Root] = true
		case specqbft.PrepareMsgType:
			if v.prepares[m.Message.Round] == nil {
				v.prepares[m.Message.Round] = map[[32]byte]map[spectypes.OperatorID]*specqbft.SignedMessage{}
			}
			if v.prepares[m.Message.Round][m.Message.Root] == nil {
				v.prepares[m.Message.Round][m.Message.Root] = map[spectypes.OperatorID]*specqbft.SignedMessage{}
			}
			if v.prepares[m.Message.Round][m.Message.Root][s] == nil {
				v.prepares[m.Message.Round][m.Message.Root][s] = m
			}
		case specqbft.RoundChangeMsgType:
			if v.rcs[m.Message.Round] == nil {
				v.rcs[m.Message.Round] = map[spectypes.OperatorID]*specqbft.SignedMessage{}
			}
			if s != w.C.Byz {
				v.honestRC[m.Message.Round] = true
				if v.rcs[m.Message.Round][s] == nil {
					v.rcs[m.Message.Round][s] = m
				}
			}
		}
	}
	return v
}

func ordered(m map[spectypes.OperatorID]*specqbft.SignedMessage, n int) []*specqbft.SignedMessage {
	var out []*specqbft.SignedMessage
	for i := 1; i <= n; i++ {
		if x := m[spectypes.OperatorID(i)]; x != nil {
			out = append(out, x)
		}
	}
	return out
}

// byzRC builds the Byzantine round-change for round r towards a recipient told value face.
func (w *World) byzRC(v *logView, r specqbft.Round, face byte) *specqbft.SignedMessage {
	msg := &specqbft.Message{MsgType: specqbft.RoundChangeMsgType, Height: w.C.Height, Round: r, Identifier: w.C.Identifier}
	var full []byte
	// prepared variant when a prepare quorum for the face value exists in some earlier round
	for pr := r - 1; pr >= 1; pr-- {
		ps := ordered(v.prepares[pr][RootOf(face)], w.C.N)
		if uint64(len(ps)) >= w.C.KeySet.Threshold {
			j, _ := specqbft.MarshalJustifications(ps[:w.C.KeySet.Threshold])
			msg.Root, msg.DataRound, msg.RoundChangeJustification = RootOf(face), pr, j
			full = Val(face)
			break
		}
	}
	return w.C.SignMsg(w.C.Byz, []spectypes.OperatorID{w.C.Byz}, msg, full)
}

func (w *World) byzantine() {
	c := w.C
	if c.Byz == 0 || c.Policy == nil {
		return
	}
	if w.byzSeen == len(w.LogIDs) {
		return // nothing new on the network since the last reaction
	}
	w.byzSeen = len(w.LogIDs)
	p := c.Policy
	b := c.Byz
	v := w.view(0)
	for _, to := range c.Honest {
		face := p.Face[to]
		for r := specqbft.Round(1); r <= c.MaxRound; r++ {
			root := RootOf(face)
			// proposal when leading round r
			if c.Leader(r) == b {
				key := fmt.Sprintf("P%d>%d", r, to)
				if !w.Inj[key] {
					if r == 1 {
						msg := &specqbft.Message{MsgType: specqbft.ProposalMsgType, Height: c.Height, Round: r, Identifier: c.Identifier, Root: root}
						w.inject(key, c.SignMsg(b, []spectypes.OperatorID{b}, msg, Val(face)), to)
					} else {
						rcs := map[spectypes.OperatorID]*specqbft.SignedMessage{}
						for k, x := range v.rcs[r] {
							rcs[k] = x
						}
						rcs[b] = w.byzRC(v, r, face)
						if p.StaleJust {
							// prefer, per correct signer, a round-change that does not contradict the face
							// value: the current round's if it is unprepared or prepared on the face value,
							// else an older (stale) one of that signer with that property
							fits := func(x *specqbft.SignedMessage) bool {
								return x != nil && (!x.Message.RoundChangePrepared() || x.Message.Root == root)
							}
							for i := 1; i <= c.N; i++ {
								id := spectypes.OperatorID(i)
								if id == b || fits(rcs[id]) {
									continue
								}
								for pr := r - 1; pr >= 2; pr-- {
									if x := v.rcs[pr][id]; fits(x) {
										rcs[id] = x
										break
									}
								}
							}
						}
						if uint64(len(rcs)) >= c.KeySet.Threshold {
							list := ordered(rcs, c.N)
							var prepJ [][]byte
							var best *specqbft.SignedMessage
							for _, rc := range list {
								if rc.Message.RoundChangePrepared() && (best == nil || rc.Message.DataRound > best.Message.DataRound) {
									best = rc
								}
							}
							if best != nil {
								prepJ = best.Message.RoundChangeJustification
							}
							rcJ, _ := specqbft.MarshalJustifications(list)
							msg := &specqbft.Message{MsgType: specqbft.ProposalMsgType, Height: c.Height, Round: r, Identifier: c.Identifier, Root: root,
								RoundChangeJustification: rcJ, PrepareJustification: prepJ}
							w.inject(key, c.SignMsg(b, []spectypes.OperatorID{b}, msg, Val(face)), to)
						}
					}
				}
			}
			if (v.proposals[r][root] || (c.Leader(r) == b && w.Inj[fmt.Sprintf("P%d>%d", r, to)])) &&
				!(w.Inj[fmt.Sprintf("p%d>%d", r, to)] && w.Inj[fmt.Sprintf("c%d>%d", r, to)]) {
				pm := &specqbft.Message{MsgType: specqbft.PrepareMsgType, Height: c.Height, Round: r, Identifier: c.Identifier, Root: root}
				w.inject(fmt.Sprintf("p%d>%d", r, to), c.SignMsg(b, []spectypes.OperatorID{b}, pm, nil), to)
				cm := &specqbft.Message{MsgType: specqbft.CommitMsgType, Height: c.Height, Round: r, Identifier: c.Identifier, Root: root}
				prepQuorum := uint64(len(v.prepares[r][root])) >= c.KeySet.Threshold
				if p.Eager || prepQuorum {
					w.inject(fmt.Sprintf("c%d>%d", r, to), c.SignMsg(b, []spectypes.OperatorID{b}, cm, nil), to)
				}
				if p.Impersonate {
					for _, h := range c.Honest {
						if h != to {
							w.inject(fmt.Sprintf("fp%d>%d as %d", r, to, h), c.SignMsg(b, []spectypes.OperatorID{h}, pm, nil), to)
							w.inject(fmt.Sprintf("fc%d>%d as %d", r, to, h), c.SignMsg(b, []spectypes.OperatorID{h}, cm, nil), to)
						}
					}
					// a "certificate" listing a quorum of signers, signed by the Byzantine key alone
					var q []spectypes.OperatorID
					for i := 1; uint64(len(q)) < c.KeySet.Threshold; i++ {
						q = append(q, spectypes.OperatorID(i))
					}
					w.inject(fmt.Sprintf("fd%d>%d", r, to), c.SignMsg(b, q, cm, Val(face)), to)
				}
			}
			// round change towards r+1
			if r+1 <= c.MaxRound && (v.honestRC[r+1] || (p.EarlyRC && len(v.proposals[r]) > 0)) {
				key := fmt.Sprintf("r%d>%d", r+1, to)
				if w.Inj[key] {
					continue
				}
				rc := w.byzRC(v, r+1, face)
				w.inject(key, rc, to)
				if p.Impersonate {
					for _, h := range c.Honest {
						if h != to {
							f := *rc
							f.Signers = []spectypes.OperatorID{h}
							w.inject(fmt.Sprintf("fr%d>%d as %d", r+1, to, h), &f, to)
						}
					}
				}
			}
		}
	}
}

// Policies returns the policy library for the given honest set.
func Policies(honest []spectypes.OperatorID) []*Policy {
	var out []*Policy
	n := len(honest)
	for mask := 0; mask < 1<<n; mask++ {
		face := map[spectypes.OperatorID]byte{}
		name := ""
		for i, h := range honest {
			if mask&(1<<i) != 0 {
				face[h] = 'B'
			} else {
				face[h] = 'A'
			}
			name += string(face[h])
		}
		out = append(out, &Policy{Name: "face" + name, Face: face})
		out = append(out, &Policy{Name: "face" + name + "+eager+earlyRC", Face: face, Eager: true, EarlyRC: true, StaleJust: true})
		if mask == 0 || mask == 1<<n-1 || mask == 1 || mask == 3 {
			out = append(out, &Policy{Name: "face" + name + "+eager+impersonate", Face: face, Eager: true, Impersonate: true})
		}
	}
	return out
}

// PoliciesLimited is a fixed small library for larger committees (2^(n-1) faces are too many).
func PoliciesLimited(honest []spectypes.OperatorID) []*Policy {
	var out []*Policy
	mk := func(name string, f func(i int) byte) {
		face := map[spectypes.OperatorID]byte{}
		for i, h := range honest {
			face[h] = f(i)
		}
		out = append(out, &Policy{Name: "lim-" + name, Face: face})
		out = append(out, &Policy{Name: "lim-" + name + "+eager+earlyRC", Face: face, Eager: true, EarlyRC: true, StaleJust: true})
	}
	mk("allA", func(int) byte { return 'A' })
	mk("allB", func(int) byte { return 'B' })
	mk("halves", func(i int) byte {
		if i < len(honest)/2 {
			return 'A'
		}
		return 'B'
	})
	mk("alternating", func(i int) byte { return "AB"[i%2] })
	face := map[spectypes.OperatorID]byte{}
	for _, h := range honest {
		face[h] = 'B'
	}
	out = append(out, &Policy{Name: "lim-allB+eager+impersonate", Face: face, Eager: true, Impersonate: true})
	return out
}
