// Package qnet is the multi-operator QBFT harness: n real controller.Controller objects (each
// with its own real instance.Instance), a FIFO network the harness owns, an optional Byzantine
// policy, cloneable world states with a canonical hash, and a deviation-bounded search around a
// canonical schedule (DESIGN §2.6). One transition = one real Controller.ProcessMsg /
// Controller.OnTimeout call.
package qnet

import (
	"bytes"
	"crypto/sha256"
	"encoding/binary"
	"encoding/json"
	"fmt"
	"sort"
	"sync"

	specqbft "github.com/bloxapp/ssv-spec/qbft"
	spectypes "github.com/bloxapp/ssv-spec/types"
	"github.com/bloxapp/ssv-spec/types/testingutils"
	"github.com/herumi/bls-eth-go-binary/bls"
	"go.uber.org/zap"

	"github.com/bloxapp/ssv/protocol/v2/qbft"
	"github.com/bloxapp/ssv/protocol/v2/qbft/controller"
	"github.com/bloxapp/ssv/protocol/v2/qbft/instance"
	qbftstorage "github.com/bloxapp/ssv/protocol/v2/qbft/storage"
	ssvtypes "github.com/bloxapp/ssv/protocol/v2/types"
)

var (
	ValA = []byte("verif-value-A")
	ValB = []byte("verif-value-B")
	// ValC passes every operator's value check except the one of Cfg.Picky (operators' checks differ in
	// reality: each consults its own slashing-protection records)
	ValC = []byte("verif-value-C")
	Log  = zap.NewNop()
)

func Val(c byte) []byte {
	if c == 'A' {
		return ValA
	}
	if c == 'C' {
		return ValC
	}
	return ValB
}

func ValName(v []byte) string {
	switch {
	case v == nil:
		return "-"
	case bytes.Equal(v, ValA):
		return "A"
	case bytes.Equal(v, ValB):
		return "B"
	case bytes.Equal(v, ValC):
		return "C"
	}
	return "?"
}

func ValueCheck(data []byte) error {
	if bytes.Equal(data, ValA) || bytes.Equal(data, ValB) {
		return nil
	}
	return fmt.Errorf("value not in {A,B}")
}

// ValueCheckFor is operator id's own value check: A and B pass everywhere, C passes everywhere
// except at c.Picky.
func (c *Cfg) ValueCheckFor(id spectypes.OperatorID) specqbft.ProposedValueCheckF {
	picky := c.Picky
	return func(data []byte) error {
		if bytes.Equal(data, ValC) {
			if id == picky {
				return fmt.Errorf("value C fails this operator's check")
			}
			return nil
		}
		return ValueCheck(data)
	}
}

// ---- static configuration ----

type Cfg struct {
	N        int
	Height   specqbft.Height
	Byz      spectypes.OperatorID // 0 = none (all n operators honest)
	Picky    spectypes.OperatorID // 0 = none; this operator's value check rejects ValC
	Start    map[spectypes.OperatorID]byte
	MaxRound specqbft.Round         // no timeout is fired at an operator whose round is >= MaxRound
	Policy   *Policy                // behaviour of Byz (nil = silent)
	Silent   []spectypes.OperatorID // further faulty operators that never send anything
	Role     spectypes.BeaconRole
	Domain   spectypes.DomainType // zero value = testingutils.TestingSSVDomainType
	Overtake bool                 // offer the OVERTAKE deviation (newest message of an inbox jumps the queue)

	KeySet     *testingutils.TestKeySet
	Identifier []byte
	Honest     []spectypes.OperatorID
	shares     map[spectypes.OperatorID]*spectypes.Share
}

func (c *Cfg) Init() {
	if c.Domain == (spectypes.DomainType{}) {
		c.Domain = testingutils.TestingSSVDomainType
	}
	switch c.N {
	case 4:
		c.KeySet = testingutils.Testing4SharesSet()
	case 7:
		c.KeySet = testingutils.Testing7SharesSet()
	default:
		panic("n")
	}
	id := spectypes.NewMsgID(c.Domain, c.KeySet.ValidatorPK.Serialize(), c.Role)
	c.Identifier = id[:]
	c.Honest = nil
	committee := c.KeySet.Committee()
	c.shares = map[spectypes.OperatorID]*spectypes.Share{}
	for i := 1; i <= c.N; i++ {
		c.shares[spectypes.OperatorID(i)] = c.mkShare(spectypes.OperatorID(i), committee)
	}
	for i := 1; i <= c.N; i++ {
		silent := false
		for _, x := range c.Silent {
			if x == spectypes.OperatorID(i) {
				silent = true
			}
		}
		if spectypes.OperatorID(i) != c.Byz && !silent {
			c.Honest = append(c.Honest, spectypes.OperatorID(i))
		}
	}
}

func (c *Cfg) F() int { return (c.N - 1) / 3 }

func (c *Cfg) Share(id spectypes.OperatorID) *spectypes.Share {
	if s, ok := c.shares[id]; ok {
		return s
	}
	panic("qnet: Cfg.Init not called")
}

func (c *Cfg) mkShare(id spectypes.OperatorID, committee []*spectypes.Operator) *spectypes.Share {
	return &spectypes.Share{
		OperatorID:      id,
		ValidatorPubKey: c.KeySet.ValidatorPK.Serialize(),
		SharePubKey:     c.KeySet.Shares[id].GetPublicKey().Serialize(),
		DomainType:      c.Domain,
		Quorum:          c.KeySet.Threshold,
		PartialQuorum:   c.KeySet.PartialThreshold,
		Committee:       committee,
	}
}

func (c *Cfg) Leader(round specqbft.Round) spectypes.OperatorID {
	st := &specqbft.State{Height: c.Height, Share: c.Share(1)}
	return specqbft.RoundRobinProposer(st, round)
}

func (c *Cfg) String() string {
	s := fmt.Sprintf("n=%d h=%d byz=%d R=%d start=", c.N, c.Height, c.Byz, c.MaxRound)
	if len(c.Silent) > 0 {
		s = fmt.Sprintf("n=%d h=%d byz=%d silent=%v R=%d start=", c.N, c.Height, c.Byz, c.Silent, c.MaxRound)
	}
	for _, h := range c.Honest {
		s += string(c.Start[h])
	}
	if c.Policy != nil {
		s += " policy=" + c.Policy.Name
	}
	if c.Overtake {
		s += " +overtake"
	}
	return s
}

// ---- message pool (interning; append-only, shared by every state of one search) ----

type Msg struct {
	ID     int32
	Signed *specqbft.SignedMessage
	From   spectypes.OperatorID // real sender (the Byzantine operator for forged signer lists)
	Key    string
}

type Pool struct {
	mu    sync.RWMutex
	byKey map[string]*Msg
	byPtr map[*specqbft.SignedMessage]int32
	List  []*Msg
}

func NewPool() *Pool {
	return &Pool{byKey: map[string]*Msg{}, byPtr: map[*specqbft.SignedMessage]int32{}}
}

func (p *Pool) InternBytes(data []byte, from spectypes.OperatorID) *Msg {
	p.mu.Lock()
	defer p.mu.Unlock()
	if m, ok := p.byKey[string(data)]; ok {
		return m
	}
	sm := &specqbft.SignedMessage{}
	if err := sm.Decode(data); err != nil {
		panic(fmt.Sprintf("qnet: undecodable broadcast: %v", err))
	}
	m := &Msg{ID: int32(len(p.List)), Signed: sm, From: from, Key: string(data)}
	p.byKey[m.Key] = m
	p.byPtr[sm] = m.ID
	p.List = append(p.List, m)
	return m
}

func (p *Pool) Intern(sm *specqbft.SignedMessage, from spectypes.OperatorID) *Msg {
	p.mu.RLock()
	id, ok := p.byPtr[sm]
	var known *Msg
	if ok {
		known = p.List[id]
	}
	p.mu.RUnlock()
	if ok {
		return known
	}
	data, err := sm.Encode()
	if err != nil {
		panic(err)
	}
	return p.InternBytes(data, from)
}

func (p *Pool) idOf(sm *specqbft.SignedMessage) int32 {
	if sm == nil {
		return -1
	}
	p.mu.RLock()
	id, ok := p.byPtr[sm]
	p.mu.RUnlock()
	if ok {
		return id
	}
	return p.Intern(sm, 0).ID
}

// IDOf is the pool identity of a message (interning it if needed), -1 for nil.
func (p *Pool) IDOf(sm *specqbft.SignedMessage) int32 { return p.idOf(sm) }

func (p *Pool) Describe(id int32) string {
	m := p.List[id].Signed
	t := [...]string{"proposal", "prepare", "commit", "roundchange"}[m.Message.MsgType]
	s := fmt.Sprintf("#%d %s h=%d r=%d signers=%v", id, t, m.Message.Height, m.Message.Round, m.Signers)
	if m.Message.MsgType == specqbft.RoundChangeMsgType {
		s += fmt.Sprintf(" preparedRound=%d", m.Message.DataRound)
	}
	if len(m.FullData) > 0 {
		s += " data=" + ValName(m.FullData)
	} else {
		s += " root=" + RootName(m.Message.Root)
	}
	if p.List[id].From != 0 && (len(m.Signers) != 1 || m.Signers[0] != p.List[id].From) {
		s += fmt.Sprintf(" (sent by %d)", p.List[id].From)
	}
	return s
}

var rootA, rootB, rootC = sha256.Sum256(ValA), sha256.Sum256(ValB), sha256.Sum256(ValC)

func RootName(r [32]byte) string {
	switch r {
	case rootA:
		return "A"
	case rootB:
		return "B"
	case rootC:
		return "C"
	case [32]byte{}:
		return "-"
	}
	return "?"
}

func RootOf(c byte) [32]byte {
	if c == 'A' {
		return rootA
	}
	if c == 'C' {
		return rootC
	}
	return rootB
}

// ---- per-operator plumbing ----

type capNet struct{ out []*spectypes.SSVMessage }

func (n *capNet) Broadcast(m *spectypes.SSVMessage) error { n.out = append(n.out, m); return nil }

type Arm struct {
	Height specqbft.Height
	Round  specqbft.Round
}

type recTimer struct{ arms []Arm }

func (t *recTimer) TimeoutForRound(h specqbft.Height, r specqbft.Round) {
	t.arms = append(t.arms, Arm{h, r})
}

// Saved records what the controller handed to the store in one call.
type Saved struct {
	Call    string
	Height  specqbft.Height
	Decided *specqbft.SignedMessage
	State   *specqbft.State
}

type recStore struct{ saves []Saved }

func (s *recStore) rec(call string, i *qbftstorage.StoredInstance) error {
	s.saves = append(s.saves, Saved{call, i.State.Height, i.DecidedMessage, i.State})
	return nil
}
func (s *recStore) GetHighestInstance([]byte) (*qbftstorage.StoredInstance, error) { return nil, nil }
func (s *recStore) GetInstancesInRange([]byte, specqbft.Height, specqbft.Height) ([]*qbftstorage.StoredInstance, error) {
	return nil, nil
}
func (s *recStore) SaveInstance(i *qbftstorage.StoredInstance) error { return s.rec("SaveInstance", i) }
func (s *recStore) SaveHighestInstance(i *qbftstorage.StoredInstance) error {
	return s.rec("SaveHighestInstance", i)
}
func (s *recStore) SaveHighestAndHistoricalInstance(i *qbftstorage.StoredInstance) error {
	return s.rec("SaveHighestAndHistoricalInstance", i)
}
func (s *recStore) GetInstance([]byte, specqbft.Height) (*qbftstorage.StoredInstance, error) {
	return nil, nil
}
func (s *recStore) CleanAllInstances(*zap.Logger, []byte) error { return nil }

type Op struct {
	ID    spectypes.OperatorID
	Ctrl  *controller.Controller
	net   *capNet
	tm    *recTimer
	store *recStore
	qcfg  *qbft.Config
	share *spectypes.Share
	// Armed is the operator's round timer: what the last TimeoutForRound call armed it for (a new
	// call replaces the previous one, as roundtimer.RoundTimer does); HasTimer is false once it has
	// fired and nothing re-armed it. A timeout event carries the armed height and round, the way
	// validator.onTimeout builds it.
	Armed    Arm
	HasTimer bool
}

// keySigner signs QBFT roots with the operator's share key under the configuration's domain
// (what the spec's testing key manager does, with a configurable domain).
type keySigner struct{ c *Cfg }

func (k keySigner) SignRoot(data spectypes.Root, sigType spectypes.SignatureType, pk []byte) (spectypes.Signature, error) {
	for _, sk := range k.c.KeySet.Shares {
		if bytes.Equal(sk.GetPublicKey().Serialize(), pk) {
			r, err := spectypes.ComputeSigningRoot(data, spectypes.ComputeSignatureDomain(k.c.Domain, sigType))
			if err != nil {
				return nil, err
			}
			return sk.SignByte(r[:]).Serialize(), nil
		}
	}
	return nil, fmt.Errorf("pk not found")
}

func newOp(c *Cfg, id spectypes.OperatorID, share *spectypes.Share) *Op {
	o := &Op{ID: id, net: &capNet{}, tm: &recTimer{}, store: &recStore{}, share: share}
	o.qcfg = &qbft.Config{
		Signer:                c.signerFor(id),
		SigningPK:             share.SharePubKey,
		Domain:                c.Domain,
		ValueCheckF:           c.ValueCheckFor(id),
		ProposerF:             specqbft.RoundRobinProposer,
		Storage:               o.store,
		Network:               o.net,
		Timer:                 o.tm,
		SignatureVerification: true,
	}
	o.Ctrl = controller.NewController(c.Identifier, share, o.qcfg, false)
	return o
}

func (o *Op) Inst(h specqbft.Height) *instance.Instance {
	return o.Ctrl.StoredInstances.FindInstance(h)
}

func cloneContainer(c *specqbft.MsgContainer) *specqbft.MsgContainer {
	if c == nil {
		return nil
	}
	n := &specqbft.MsgContainer{Msgs: make(map[specqbft.Round][]*specqbft.SignedMessage, len(c.Msgs))}
	for r, ms := range c.Msgs {
		n.Msgs[r] = append(make([]*specqbft.SignedMessage, 0, len(ms)+2), ms...)
	}
	return n
}

func CloneState(s *specqbft.State) *specqbft.State {
	n := *s
	n.ProposeContainer = cloneContainer(s.ProposeContainer)
	n.PrepareContainer = cloneContainer(s.PrepareContainer)
	n.CommitContainer = cloneContainer(s.CommitContainer)
	n.RoundChangeContainer = cloneContainer(s.RoundChangeContainer)
	return &n
}

// clone rebuilds the operator the way the node itself rebuilds instances from stored state:
// NewInstance + State assignment (Controller.InstanceForHeight / LoadHighestInstance).
func (o *Op) clone(c *Cfg) *Op {
	n := newOp(c, o.ID, o.share)
	n.Ctrl.Height = o.Ctrl.Height
	n.Armed, n.HasTimer = o.Armed, o.HasTimer
	n.Ctrl.StoredInstances = make(controller.InstanceContainer, 0, cap(o.Ctrl.StoredInstances))
	for _, inst := range o.Ctrl.StoredInstances {
		ni := instance.NewInstance(n.qcfg, o.share, c.Identifier, inst.State.Height)
		ni.State = CloneState(inst.State)
		ni.StartValue = inst.StartValue
		if !inst.CanProcessMessages() && int(inst.State.Round) < instance.CutoffRound {
			ni.ForceStop()
		}
		n.Ctrl.StoredInstances = append(n.Ctrl.StoredInstances, ni)
	}
	return n
}

// CanTimeout: the operator's round timer is armed and the round bound of the configuration lets
// it move on.
func (o *Op) CanTimeout(c *Cfg) bool {
	return o.HasTimer && o.Inst(c.Height).State.Round < c.MaxRound
}

// ---- world ----

type Pend struct {
	To  spectypes.OperatorID
	Msg int32
}

type EventKind byte

const (
	Deliver EventKind = iota
	Drop
	Defer
	Timeout
	TimeoutAll
	Redeliver
	Isolate
	DropAll
	// Overtake: the newest message addressed to an operator is delivered ahead of everything else
	// waiting in its inbox (gossip gives no order between different senders: a peer's decided
	// message overtakes the single commits it aggregates). Only offered when Cfg.Overtake is set.
	Overtake
)

var kindNames = [...]string{"deliver", "DROP", "DEFER", "TIMEOUT", "timeout-all-undecided", "REDELIVER", "ISOLATE-until-next-timeout", "LOSE-BROADCAST", "OVERTAKE-inbox"}

type Event struct {
	Kind EventKind
	To   spectypes.OperatorID
	Msg  int32 // pool id (informational for head-of-inbox events; pool ids are search-local)
	Idx  int   // REDELIVER: position in the recipient's window of recently processed messages
}

func (e Event) Deviation() bool { return e.Kind != Deliver && e.Kind != TimeoutAll }

// Report is what one real call returned / emitted (inputs of the oracles).
type Report struct {
	Op         spectypes.OperatorID
	Event      Event
	Err        error
	DecidedMsg *specqbft.SignedMessage // returned by Controller.ProcessMsg
	Emitted    []int32
	Arms       []Arm
	Saves      []Saved
	// before/after snapshot of the instance the call concerned
	WasDecided bool
	RoundPrev  specqbft.Round
}

type World struct {
	C          *Cfg
	P          *Pool
	Ops        []*Op
	Pending    []Pend                 // global FIFO; the per-recipient order is the inbox of that recipient
	LogIDs     []int32                // every message ever put on the network, in order (what the Byzantine operator knows)
	LogFrom    []spectypes.OperatorID // who put LogIDs[i] on the network
	LogDecided []bool                 // whether that operator's instance was already decided before the call that emitted it
	Last       map[spectypes.OperatorID][]int32
	Inj        map[string]bool // Byzantine injections already made
	Steps      int
	Trace      []Event
	byzSeen    int
	// Isolated operators hear nothing (everything addressed to them is lost) until their next timeout.
	Isolated map[spectypes.OperatorID]bool
}

func NewWorld(c *Cfg, p *Pool) (*World, []Report) {
	w := &World{C: c, P: p, Last: map[spectypes.OperatorID][]int32{}, Inj: map[string]bool{}, byzSeen: -1}
	var reps []Report
	for _, id := range c.Honest {
		o := newOp(c, id, c.Share(id))
		w.Ops = append(w.Ops, o)
	}
	for _, o := range w.Ops {
		if err := o.Ctrl.StartNewInstance(Log, c.Height, Val(c.Start[o.ID])); err != nil {
			panic(err)
		}
		reps = append(reps, w.collect(o, Report{Op: o.ID, Event: Event{Kind: Deliver, To: o.ID, Msg: -1}}))
	}
	w.byzantine()
	return w, reps
}

func (w *World) Op(id spectypes.OperatorID) *Op {
	for _, o := range w.Ops {
		if o.ID == id {
			return o
		}
	}
	return nil
}

func (w *World) Clone() *World {
	n := &World{C: w.C, P: w.P, Steps: w.Steps, byzSeen: w.byzSeen}
	if len(w.Isolated) > 0 {
		n.Isolated = map[spectypes.OperatorID]bool{}
		for k := range w.Isolated {
			n.Isolated[k] = true
		}
	}
	for _, o := range w.Ops {
		n.Ops = append(n.Ops, o.clone(w.C))
	}
	n.Pending = append([]Pend(nil), w.Pending...)
	n.LogIDs = append([]int32(nil), w.LogIDs...)
	n.LogFrom = append([]spectypes.OperatorID(nil), w.LogFrom...)
	n.LogDecided = append([]bool(nil), w.LogDecided...)
	if w.Last != nil {
		n.Last = make(map[spectypes.OperatorID][]int32, len(w.Last))
		for k, v := range w.Last {
			n.Last[k] = append([]int32(nil), v...)
		}
	}
	n.Inj = make(map[string]bool, len(w.Inj))
	for k := range w.Inj {
		n.Inj[k] = true
	}
	n.Trace = append([]Event(nil), w.Trace...)
	return n
}

// collect moves what the call emitted from the capturing network into the world.
func (w *World) collect(o *Op, r Report) Report {
	for _, m := range o.net.out {
		im := w.P.InternBytes(m.Data, o.ID)
		r.Emitted = append(r.Emitted, im.ID)
		w.put(im.ID, nil)
		w.LogFrom[len(w.LogFrom)-1] = o.ID
		w.LogDecided[len(w.LogDecided)-1] = r.WasDecided
	}
	o.net.out = o.net.out[:0]
	r.Arms = append(r.Arms, o.tm.arms...)
	if n := len(o.tm.arms); n > 0 {
		o.Armed, o.HasTimer = o.tm.arms[n-1], true
	}
	o.tm.arms = o.tm.arms[:0]
	r.Saves = append(r.Saves, o.store.saves...)
	o.store.saves = o.store.saves[:0]
	return r
}

// put places a message on the network: to every honest operator (nil) or to the given ones.
func (w *World) put(id int32, only []spectypes.OperatorID) {
	w.LogIDs = append(w.LogIDs, id)
	w.LogFrom = append(w.LogFrom, w.C.Byz)
	w.LogDecided = append(w.LogDecided, false)
	if only == nil {
		only = w.C.Honest
	}
	for _, h := range only {
		if !w.Isolated[h] {
			w.Pending = append(w.Pending, Pend{h, id})
		}
	}
}

// inboxSpan: index of the oldest and of the newest pending message addressed to `to`, and how many there are.
func (w *World) inboxSpan(to spectypes.OperatorID) (first, last, n int) {
	first, last = -1, -1
	for i, p := range w.Pending {
		if p.To == to {
			if first < 0 {
				first = i
			}
			last = i
			n++
		}
	}
	return
}

func (w *World) headIndex(to spectypes.OperatorID) int {
	for i, p := range w.Pending {
		if p.To == to {
			return i
		}
	}
	return -1
}

func (w *World) Undecided() []*Op {
	var out []*Op
	for _, o := range w.Ops {
		if inst := o.Inst(w.C.Height); inst != nil && !inst.State.Decided {
			out = append(out, o)
		}
	}
	return out
}

// Default returns the next event of the canonical schedule S0, ok=false at the end.
func (w *World) Default() (Event, bool) {
	if len(w.Pending) > 0 {
		return Event{Kind: Deliver, To: w.Pending[0].To, Msg: w.Pending[0].Msg}, true
	}
	for _, o := range w.Undecided() {
		if o.CanTimeout(w.C) {
			return Event{Kind: TimeoutAll}, true
		}
	}
	return Event{}, false
}

// Deviations lists every single deviation from S0 available now.
func (w *World) Deviations() []Event {
	var out []Event
	for _, h := range w.C.Honest {
		i := w.headIndex(h)
		if i >= 0 {
			out = append(out, Event{Kind: Drop, To: h, Msg: w.Pending[i].Msg})
			// defer = swap with the next message of the same inbox (reordering inside one inbox;
			// deliveries to different operators commute)
			for j := i + 1; j < len(w.Pending); j++ {
				if w.Pending[j].To == h {
					out = append(out, Event{Kind: Defer, To: h, Msg: w.Pending[i].Msg})
					break
				}
			}
		}
	}
	if w.C.Overtake {
		for _, h := range w.C.Honest {
			// with fewer than three waiting messages OVERTAKE equals DEFER
			if _, l, n := w.inboxSpan(h); n >= 3 {
				out = append(out, Event{Kind: Overtake, To: h, Msg: w.Pending[l].Msg})
			}
		}
	}
	for _, o := range w.Undecided() {
		if o.CanTimeout(w.C) {
			out = append(out, Event{Kind: Timeout, To: o.ID})
		}
	}
	for _, o := range w.Undecided() {
		if !w.Isolated[o.ID] && o.Inst(w.C.Height).State.Round < w.C.MaxRound {
			out = append(out, Event{Kind: Isolate, To: o.ID})
		}
	}
	// the oldest broadcast still in flight is lost for everybody who has not received it yet
	if len(w.Pending) > 0 {
		n := 0
		for _, p := range w.Pending {
			if p.Msg == w.Pending[0].Msg {
				n++
			}
		}
		if n > 1 {
			out = append(out, Event{Kind: DropAll, Msg: w.Pending[0].Msg})
		}
	}
	for _, h := range w.C.Honest {
		for i, m := range w.Last[h] {
			out = append(out, Event{Kind: Redeliver, To: h, Msg: m, Idx: i})
		}
	}
	return out
}

func timeoutEvent(h specqbft.Height, r specqbft.Round) ssvtypes.EventMsg {
	d, _ := json.Marshal(&ssvtypes.TimeoutData{Height: h, Round: r})
	return ssvtypes.EventMsg{Type: ssvtypes.Timeout, Data: d}
}

func (w *World) deliver(o *Op, id int32, ev Event) Report {
	r := Report{Op: o.ID, Event: ev}
	if inst := o.Inst(w.C.Height); inst != nil {
		r.WasDecided, r.RoundPrev = inst.State.Decided, inst.State.Round
	}
	r.DecidedMsg, r.Err = o.Ctrl.ProcessMsg(Log, w.P.List[id].Signed)
	if w.Last != nil {
		l := append(w.Last[o.ID], id)
		if len(l) > 2 {
			l = l[len(l)-2:]
		}
		w.Last[o.ID] = l
	}
	return w.collect(o, r)
}

func (w *World) timeout(o *Op, ev Event) Report {
	r := Report{Op: o.ID, Event: ev}
	inst := o.Inst(w.C.Height)
	r.WasDecided, r.RoundPrev = inst.State.Decided, inst.State.Round
	delete(w.Isolated, o.ID)
	a := o.Armed
	o.HasTimer = false
	r.Err = o.Ctrl.OnTimeout(Log, timeoutEvent(a.Height, a.Round))
	return w.collect(o, r)
}

// Apply executes one event on the real objects and lets the Byzantine policy react.
func (w *World) Apply(ev Event) []Report {
	w.Steps++
	w.Trace = append(w.Trace, ev)
	var reps []Report
	switch ev.Kind {
	case Deliver:
		i := w.headIndex(ev.To)
		if i < 0 {
			panic("qnet: deliver from an empty inbox")
		}
		ev.Msg = w.Pending[i].Msg
		w.Trace[len(w.Trace)-1] = ev
		w.Pending = append(w.Pending[:i], w.Pending[i+1:]...)
		reps = append(reps, w.deliver(w.Op(ev.To), ev.Msg, ev))
	case Drop:
		i := w.headIndex(ev.To)
		ev.Msg = w.Pending[i].Msg
		w.Trace[len(w.Trace)-1] = ev
		w.Pending = append(w.Pending[:i], w.Pending[i+1:]...)
	case Defer:
		i := w.headIndex(ev.To)
		ev.Msg = w.Pending[i].Msg
		w.Trace[len(w.Trace)-1] = ev
		for j := i + 1; j < len(w.Pending); j++ {
			if w.Pending[j].To == ev.To {
				w.Pending[i], w.Pending[j] = w.Pending[j], w.Pending[i]
				break
			}
		}
	case Overtake:
		i, l, n := w.inboxSpan(ev.To)
		if n < 2 {
			panic("qnet: overtake in an inbox with fewer than two messages")
		}
		ev.Msg = w.Pending[l].Msg
		w.Trace[len(w.Trace)-1] = ev
		p := w.Pending[l]
		copy(w.Pending[i+1:l+1], w.Pending[i:l])
		w.Pending[i] = p
	case Timeout:
		reps = append(reps, w.timeout(w.Op(ev.To), ev))
	case TimeoutAll:
		for _, o := range w.Undecided() {
			if o.CanTimeout(w.C) {
				reps = append(reps, w.timeout(o, ev))
			}
		}
	case Redeliver:
		ev.Msg = w.Last[ev.To][ev.Idx]
		w.Trace[len(w.Trace)-1] = ev
		reps = append(reps, w.deliver(w.Op(ev.To), ev.Msg, ev))
	case DropAll:
		id := w.Pending[0].Msg
		ev.Msg = id
		w.Trace[len(w.Trace)-1] = ev
		kept := w.Pending[:0:0]
		for _, p := range w.Pending {
			if p.Msg != id {
				kept = append(kept, p)
			}
		}
		w.Pending = kept
	case Isolate:
		if w.Isolated == nil {
			w.Isolated = map[spectypes.OperatorID]bool{}
		}
		w.Isolated[ev.To] = true
		kept := w.Pending[:0:0]
		for _, p := range w.Pending {
			if p.To != ev.To {
				kept = append(kept, p)
			}
		}
		w.Pending = kept
	}
	w.byzantine()
	return reps
}

// ---- canonical hash ----

func putU(b *bytes.Buffer, v uint64) {
	var x [8]byte
	binary.LittleEndian.PutUint64(x[:], v)
	b.Write(x[:])
}

func (w *World) hashContainer(b *bytes.Buffer, c *specqbft.MsgContainer) {
	if c == nil {
		putU(b, 0xffff)
		return
	}
	rounds := make([]int, 0, len(c.Msgs))
	for r, ms := range c.Msgs {
		if len(ms) > 0 {
			rounds = append(rounds, int(r))
		}
	}
	sort.Ints(rounds)
	putU(b, uint64(len(rounds)))
	for _, r := range rounds {
		putU(b, uint64(r))
		ms := c.Msgs[specqbft.Round(r)]
		putU(b, uint64(len(ms)))
		for _, m := range ms {
			putU(b, uint64(w.P.idOf(m)))
		}
	}
}

// HashState writes every field of the spec State (implementation state in implementation order;
// messages by interned identity).
func (w *World) HashState(b *bytes.Buffer, s *specqbft.State, startValue []byte, canProcess bool) {
	putU(b, uint64(s.Round))
	putU(b, uint64(s.Height))
	putU(b, uint64(s.LastPreparedRound))
	b.WriteString(ValName(s.LastPreparedValue))
	putU(b, uint64(w.P.idOf(s.ProposalAcceptedForCurrentRound)))
	if s.Decided {
		b.WriteByte(1)
	} else {
		b.WriteByte(0)
	}
	b.WriteString(ValName(s.DecidedValue))
	b.WriteString(ValName(startValue))
	if canProcess {
		b.WriteByte(1)
	} else {
		b.WriteByte(0)
	}
	w.hashContainer(b, s.ProposeContainer)
	w.hashContainer(b, s.PrepareContainer)
	w.hashContainer(b, s.CommitContainer)
	w.hashContainer(b, s.RoundChangeContainer)
}

// Hash is the canonical form of the whole world (implementation state + harness-owned
// environment). extra lets a client add its own observation (e.g. emission logs for C10).
func (w *World) Hash(extra []byte) [32]byte {
	var b bytes.Buffer
	for _, o := range w.Ops {
		putU(&b, uint64(o.ID))
		putU(&b, uint64(o.Ctrl.Height))
		if o.HasTimer {
			putU(&b, uint64(o.Armed.Height)<<16|uint64(o.Armed.Round))
		} else {
			putU(&b, ^uint64(0))
		}
		putU(&b, uint64(len(o.Ctrl.StoredInstances)))
		for _, inst := range o.Ctrl.StoredInstances {
			w.HashState(&b, inst.State, inst.StartValue, inst.CanProcessMessages())
		}
	}
	putU(&b, uint64(len(w.Pending)))
	for _, p := range w.Pending {
		putU(&b, uint64(p.To)<<32|uint64(uint32(p.Msg)))
	}
	// what the Byzantine operator knows and has done: as sets
	if w.C.Byz != 0 && w.C.Policy != nil {
		ids := append([]int32(nil), w.LogIDs...)
		sort.Slice(ids, func(i, j int) bool { return ids[i] < ids[j] })
		var prev int32 = -1
		for _, id := range ids {
			if id != prev {
				putU(&b, uint64(id))
			}
			prev = id
		}
		keys := make([]string, 0, len(w.Inj))
		for k := range w.Inj {
			keys = append(keys, k)
		}
		sort.Strings(keys)
		for _, k := range keys {
			b.WriteString(k)
			b.WriteByte(0)
		}
	}
	for _, h := range w.C.Honest {
		if w.Isolated[h] {
			putU(&b, 0xdead0000|uint64(h))
		}
	}
	for _, h := range w.C.Honest {
		putU(&b, uint64(len(w.Last[h])))
		for _, m := range w.Last[h] {
			putU(&b, uint64(m))
		}
	}
	b.Write(extra)
	return sha256.Sum256(b.Bytes())
}

// Describe renders a trace for replay artefacts.
func (w *World) DescribeTrace() []string {
	var out []string
	for _, e := range w.Trace {
		s := kindNames[e.Kind]
		if e.Kind != TimeoutAll && e.Kind != DropAll {
			s += fmt.Sprintf(" op=%d", e.To)
		}
		if e.Kind == Deliver || e.Kind == Drop || e.Kind == Defer || e.Kind == Redeliver || e.Kind == DropAll || e.Kind == Overtake {
			s += " " + w.P.Describe(e.Msg)
		}
		out = append(out, s)
	}
	return out
}

// Summary of the honest operators (for samples / violation reports).
func (w *World) Summary() []string {
	var out []string
	for _, o := range w.Ops {
		inst := o.Inst(w.C.Height)
		if inst == nil {
			out = append(out, fmt.Sprintf("op%d: no instance", o.ID))
			continue
		}
		s := inst.State
		out = append(out, fmt.Sprintf("op%d: round=%d decided=%v value=%s prepared=%d/%s", o.ID, s.Round, s.Decided, ValName(s.DecidedValue), s.LastPreparedRound, ValName(s.LastPreparedValue)))
	}
	return out
}

// SignMsg signs a QBFT message with operator id's share key under the testing domain.
func (c *Cfg) SignMsg(id spectypes.OperatorID, claimed []spectypes.OperatorID, m *specqbft.Message, fullData []byte) *specqbft.SignedMessage {
	r, err := spectypes.ComputeSigningRoot(m, spectypes.ComputeSignatureDomain(c.Domain, spectypes.QBFTSignatureType))
	if err != nil {
		panic(err)
	}
	sig := c.KeySet.Shares[id].SignByte(r[:])
	return &specqbft.SignedMessage{Message: *m, Signers: claimed, Signature: sig.Serialize(), FullData: fullData}
}

var _ = bls.Init

// HeadIndex is the position in Pending of the head of to's inbox (-1 if empty).
func (w *World) HeadIndex(to spectypes.OperatorID) int { return w.headIndex(to) }

// PromoteToHead makes Pending[i] the head of its recipient's inbox (arrival order is the
// network's choice; used by continuation searches that are not bound to FIFO).
func (w *World) PromoteToHead(i int) {
	h := w.headIndex(w.Pending[i].To)
	if h == i {
		return
	}
	p := w.Pending[i]
	copy(w.Pending[h+1:i+1], w.Pending[h:i])
	w.Pending[h] = p
}

// oneKeySigner avoids the public-key scan: one operator, one key.
type oneKeySigner struct {
	c  *Cfg
	id spectypes.OperatorID
}

func (k oneKeySigner) SignRoot(data spectypes.Root, sigType spectypes.SignatureType, pk []byte) (spectypes.Signature, error) {
	if !bytes.Equal(pk, k.c.Share(k.id).SharePubKey) {
		return keySigner{k.c}.SignRoot(data, sigType, pk)
	}
	r, err := spectypes.ComputeSigningRoot(data, spectypes.ComputeSignatureDomain(k.c.Domain, sigType))
	if err != nil {
		return nil, err
	}
	return k.c.KeySet.Shares[k.id].SignByte(r[:]).Serialize(), nil
}

func (c *Cfg) signerFor(id spectypes.OperatorID) spectypes.SSVSigner { return oneKeySigner{c, id} }

// Signer is the share-key signer of operator id under the configuration's domain.
func (c *Cfg) Signer(id spectypes.OperatorID) spectypes.SSVSigner { return c.signerFor(id) }

// HashStateBytes returns the canonical encoding of one spec State (see HashState).
func (p *Pool) HashStateBytes(s *specqbft.State, startValue []byte, canProcess bool) []byte {
	w := &World{P: p}
	var b bytes.Buffer
	w.HashState(&b, s, startValue, canProcess)
	return b.Bytes()
}

// Collect moves whatever operator o emitted / armed / saved since the last call into the world.
func (w *World) Collect(o *Op) Report { return w.collect(o, Report{Op: o.ID}) }
