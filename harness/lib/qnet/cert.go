package qnet

import (
	"bytes"
	"crypto/sha256"
	"fmt"

	specqbft "github.com/bloxapp/ssv-spec/qbft"
	spectypes "github.com/bloxapp/ssv-spec/types"
	"github.com/herumi/bls-eth-go-binary/bls"
)

// CertOK is the independent checker of a quorum certificate: it uses the BLS library and the
// spec's signing-root function directly, no ssv code. nil = the message is a verifiable
// certificate of >= 2f+1 distinct committee members over one (height, round, root) whose value
// hashes to that root.
func (c *Cfg) CertOK(m *specqbft.SignedMessage) error {
	if m == nil {
		return fmt.Errorf("no certificate")
	}
	if m.Message.MsgType != specqbft.CommitMsgType {
		return fmt.Errorf("not a commit")
	}
	seen := map[spectypes.OperatorID]bool{}
	var pks []bls.PublicKey
	for _, s := range m.Signers {
		sk, member := c.KeySet.Shares[s]
		if s == 0 || !member {
			return fmt.Errorf("signer %d is not a committee member", s)
		}
		if seen[s] {
			return fmt.Errorf("signer %d repeated", s)
		}
		seen[s] = true
		pks = append(pks, *sk.GetPublicKey())
	}
	if uint64(len(seen)) < c.KeySet.Threshold {
		return fmt.Errorf("%d signers < quorum %d", len(seen), c.KeySet.Threshold)
	}
	root, err := spectypes.ComputeSigningRoot(&m.Message, spectypes.ComputeSignatureDomain(c.Domain, spectypes.QBFTSignatureType))
	if err != nil {
		return err
	}
	var sig bls.Sign
	if err := sig.Deserialize(m.Signature); err != nil {
		return fmt.Errorf("signature does not deserialize")
	}
	if !sig.FastAggregateVerify(pks, root[:]) {
		return fmt.Errorf("aggregate signature does not verify over the listed keys")
	}
	h := sha256.Sum256(m.FullData)
	if !bytes.Equal(h[:], m.Message.Root[:]) {
		return fmt.Errorf("value does not hash to the certified root")
	}
	return nil
}

// ProposalOK checks that p is a proposal for (height, round, root) signed by the round-robin
// leader of that round (independent signature check).
func (c *Cfg) ProposalOK(p *specqbft.SignedMessage, height specqbft.Height, round specqbft.Round, root [32]byte) error {
	if p == nil {
		return fmt.Errorf("no accepted proposal")
	}
	if p.Message.MsgType != specqbft.ProposalMsgType || p.Message.Height != height || p.Message.Round != round || p.Message.Root != root {
		return fmt.Errorf("accepted proposal is for another (height, round, root)")
	}
	n := len(c.KeySet.Shares)
	first := 0
	if height != specqbft.FirstHeight {
		first = int(height) % n
	}
	leader := spectypes.OperatorID((first+int(round)-1)%n + 1)
	if len(p.Signers) != 1 || p.Signers[0] != leader {
		return fmt.Errorf("proposal signed by %v, leader of round %d is %d", p.Signers, round, leader)
	}
	r, err := spectypes.ComputeSigningRoot(&p.Message, spectypes.ComputeSignatureDomain(c.Domain, spectypes.QBFTSignatureType))
	if err != nil {
		return err
	}
	var sig bls.Sign
	if err := sig.Deserialize(p.Signature); err != nil {
		return fmt.Errorf("proposal signature does not deserialize")
	}
	if !sig.VerifyByte(c.KeySet.Shares[leader].GetPublicKey(), r[:]) {
		return fmt.Errorf("proposal signature does not verify under the leader's key")
	}
	h := sha256.Sum256(p.FullData)
	if h != root {
		return fmt.Errorf("proposal value does not hash to its root")
	}
	return nil
}

// Certificate builds an honest aggregated commit (decided message) by the given signers.
func (c *Cfg) Certificate(h specqbft.Height, round specqbft.Round, val byte, signers []spectypes.OperatorID) *specqbft.SignedMessage {
	m := &specqbft.Message{MsgType: specqbft.CommitMsgType, Height: h, Round: round, Identifier: c.Identifier, Root: RootOf(val)}
	var agg bls.Sign
	for i, s := range signers {
		var sig bls.Sign
		if err := sig.Deserialize(c.SignMsg(s, nil, m, nil).Signature); err != nil {
			panic(err)
		}
		if i == 0 {
			agg = sig
		} else {
			agg.Add(&sig)
		}
	}
	return &specqbft.SignedMessage{Message: *m, Signers: append([]spectypes.OperatorID(nil), signers...), Signature: agg.Serialize(), FullData: Val(val)}
}

// NewIdleOp returns an operator whose controller has not started any instance.
func NewIdleOp(c *Cfg, id spectypes.OperatorID) *Op { return newOp(c, id, c.Share(id)) }

// TakeSaves returns and clears what the controller handed to the store since the last call.
func (o *Op) TakeSaves() []Saved {
	s := o.store.saves
	o.store.saves = nil
	return s
}

// LearnDecided hands operator id a valid quorum certificate for another height directly (the rest
// of the committee has moved on and decided it): Controller.ProcessMsg -> UponDecided. It is not
// an event of the search (no trace entry); callers apply it to a clone.
func (w *World) LearnDecided(id spectypes.OperatorID, h specqbft.Height, val byte, signers []spectypes.OperatorID) error {
	o := w.Op(id)
	_, err := o.Ctrl.ProcessMsg(Log, w.C.Certificate(h, 1, val, signers))
	w.collect(o, Report{Op: id})
	return err
}
