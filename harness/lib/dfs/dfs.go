// Package dfs is the stateless, preemption-bounded depth-first explorer over executions of the
// cooperative scheduler (vsched): every schedule with at most Bound preemptions, free choices
// (ready select cases, harness picks) enumerated completely.
package dfs

import (
	"fmt"

	"github.com/bloxapp/ssv/zzverif/vsched"
)

type Explorer struct {
	Bound int
	// Body is run as the main managed goroutine of every execution; it must build fresh objects.
	Body func()
	// Check is called after every execution with the execution and its choice sequence.
	Check func(x *vsched.Execution, choices []int)
	Stop  func() bool
	Max   int // cap on executions (0 = none)

	Executions int
	MaxPoints  int
	Capped     bool
	EngineErr  string
}

func (e *Explorer) run(prefix []int) (*vsched.Execution, []int) {
	i := 0
	var choices []int
	x := vsched.Execute(e.Body, func(p vsched.PointInfo) int {
		c := 0
		if i < len(prefix) {
			c = prefix[i]
		}
		i++
		choices = append(choices, c)
		return c
	})
	if i < len(prefix) && x.Err == "" {
		x.Err = fmt.Sprintf("replay divergence: execution ended after %d of %d recorded choices", i, len(prefix))
	}
	return x, choices
}

// Replay runs exactly one recorded schedule.
func (e *Explorer) Replay(choices []int) *vsched.Execution {
	x, _ := e.run(choices)
	return x
}

func (e *Explorer) Explore() {
	e.explore(nil)
}

func (e *Explorer) explore(prefix []int) {
	if e.EngineErr != "" || e.Capped {
		return
	}
	if (e.Stop != nil && e.Stop()) || (e.Max > 0 && e.Executions >= e.Max) {
		e.Capped = true
		return
	}
	x, choices := e.run(prefix)
	e.Executions++
	if len(x.Points) > e.MaxPoints {
		e.MaxPoints = len(x.Points)
	}
	if x.Err != "" {
		e.EngineErr = x.Err
		return
	}
	e.Check(x, choices)
	cost := 0
	for i := 0; i < len(x.Points); i++ {
		p := x.Points[i]
		if i >= len(prefix) {
			for alt := 1; alt < p.N; alt++ {
				c := cost
				if p.Kind == vsched.Thread && p.RunningEnabled {
					c++ // switching away from a goroutine that could continue is a preemption
				}
				if c > e.Bound {
					continue
				}
				next := append(append([]int{}, choices[:i]...), alt)
				e.explore(next)
			}
		}
		if p.Kind == vsched.Thread && p.RunningEnabled && p.Chosen != 0 {
			cost++
		}
	}
}
