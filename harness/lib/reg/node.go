package reg

import (
	"bytes"
	"encoding/hex"
	"fmt"
	"sort"
	"strings"

	eth2apiv1 "github.com/attestantio/go-eth2-client/api/v1"
	"github.com/attestantio/go-eth2-client/spec/phase0"
	specqbft "github.com/bloxapp/ssv-spec/qbft"
	spectypes "github.com/bloxapp/ssv-spec/types"
	ethcommon "github.com/ethereum/go-ethereum/common"
	ethtypes "github.com/ethereum/go-ethereum/core/types"
	"go.uber.org/zap"

	"github.com/bloxapp/ssv/ekm"
	"github.com/bloxapp/ssv/eth/contract"
	"github.com/bloxapp/ssv/eth/eventhandler"
	"github.com/bloxapp/ssv/eth/eventparser"
	"github.com/bloxapp/ssv/eth/executionclient"
	ibftstorage "github.com/bloxapp/ssv/ibft/storage"
	"github.com/bloxapp/ssv/networkconfig"
	operatordatastore "github.com/bloxapp/ssv/operator/datastore"
	operatorstorage "github.com/bloxapp/ssv/operator/storage"
	"github.com/bloxapp/ssv/protocol/v2/blockchain/beacon"
	qbftstorage "github.com/bloxapp/ssv/protocol/v2/qbft/storage"
	ssvtypes "github.com/bloxapp/ssv/protocol/v2/types"
	registrystorage "github.com/bloxapp/ssv/registry/storage"
	"github.com/bloxapp/ssv/storage/basedb"
	"github.com/bloxapp/ssv/storage/kv"
)

// Clock is the harness-owned beacon clock (the only clock the code under test reads is
// BeaconNetwork.EstimatedCurrentSlot, through an interface).
type Clock struct{ Slot phase0.Slot }

type clockedNet struct {
	beacon.Network
	clk *Clock
}

func (c clockedNet) EstimatedCurrentSlot() phase0.Slot { return c.clk.Slot }
func (c clockedNet) EstimatedCurrentEpoch() phase0.Epoch {
	return c.Network.EstimatedEpochAtSlot(c.clk.Slot)
}

const StartSlot = phase0.Slot(32 * 1000)

var StorageRoles = []spectypes.BeaconRole{
	spectypes.BNRoleAttester, spectypes.BNRoleProposer, spectypes.BNRoleAggregator, spectypes.BNRoleSyncCommittee,
	spectypes.BNRoleSyncCommitteeContribution, spectypes.BNRoleValidatorRegistration, spectypes.BNRoleVoluntaryExit,
}

// Config of one node: which RSA key it owns (1: member of the committee {1,2,3,4}; 5: not).
type Config struct{ OwnKey int }

// Node is everything cli/operator/node.go builds around the registry event handler.
type Node struct {
	Fx      *Fixture
	Cfg     Config
	DB      basedb.Database // what the components were given (a proxy in C12)
	Net     networkconfig.NetworkConfig
	Storage operatorstorage.Storage
	ODS     operatordatastore.OperatorDataStore
	KM      spectypes.KeyManager
	Stores  *ibftstorage.QBFTStores
	Handler *eventhandler.EventHandler
	Exec    *TaskRecorder
}

// TaskRecorder implements the handler's taskExecutor.
type TaskRecorder struct {
	fx    *Fixture
	Tasks []string
}

func (t *TaskRecorder) add(s string) error { t.Tasks = append(t.Tasks, s); return nil }
func (t *TaskRecorder) StartValidator(share *ssvtypes.SSVShare) error {
	return t.add("start:" + t.fx.ValName(share.ValidatorPubKey))
}
func (t *TaskRecorder) StopValidator(pk spectypes.ValidatorPK) error {
	return t.add("stop:" + t.fx.ValName(pk))
}
func (t *TaskRecorder) shares(l []*ssvtypes.SSVShare) string {
	var n []string
	for _, s := range l {
		n = append(n, t.fx.ValName(s.ValidatorPubKey))
	}
	sort.Strings(n)
	return strings.Join(n, ",")
}
func (t *TaskRecorder) LiquidateCluster(owner ethcommon.Address, ids []uint64, l []*ssvtypes.SSVShare) error {
	return t.add(fmt.Sprintf("liquidate:%s:%v:%s", t.fx.OwnerName(owner), sortedU64(ids), t.shares(l)))
}
func (t *TaskRecorder) ReactivateCluster(owner ethcommon.Address, ids []uint64, l []*ssvtypes.SSVShare) error {
	return t.add(fmt.Sprintf("reactivate:%s:%v:%s", t.fx.OwnerName(owner), sortedU64(ids), t.shares(l)))
}
func (t *TaskRecorder) UpdateFeeRecipient(owner, recipient ethcommon.Address) error {
	return t.add(fmt.Sprintf("fee:%s:%s", t.fx.OwnerName(owner), recipient.Hex()))
}
func (t *TaskRecorder) ExitValidator(pk phase0.BLSPubKey, block uint64, idx phase0.ValidatorIndex) error {
	return t.add(fmt.Sprintf("exit:%s:%d:%d", t.fx.ValName(pk[:]), block, idx))
}

func NetConfig(clk *Clock) networkconfig.NetworkConfig {
	n := networkconfig.TestNetwork
	n.Beacon = clockedNet{Network: beacon.NewNetwork(spectypes.PraterNetwork), clk: clk}
	return n
}

// NewDB opens an in-memory badger.
func NewDB() *kv.BadgerDB {
	db, err := kv.NewInMemory(zap.NewNop(), basedb.Options{})
	if err != nil {
		panic(err)
	}
	return db
}

// WipeDB deletes every key (the harness re-uses one badger instance per worker).
func WipeDB(db *kv.BadgerDB) {
	if _, err := db.DeletePrefix(nil); err != nil {
		panic(err)
	}
}

// NewNode starts a node on db the way cli/operator/node.go does (setupOperatorStorage,
// key manager, QBFT stores, event handler). On a non-empty db this *is* a restart.
// wrapKM, if not nil, wraps the key manager the handler gets (C12 proxy).
func NewNode(fx *Fixture, cfg Config, db basedb.Database, clk *Clock, wrapKM func(spectypes.KeyManager) spectypes.KeyManager) (*Node, error) {
	logger := zap.NewNop()
	n := &Node{Fx: fx, Cfg: cfg, DB: db, Net: NetConfig(clk), Exec: &TaskRecorder{fx: fx}}
	priv := fx.OpKeys[cfg.OwnKey]

	st, err := operatorstorage.NewNodeStorage(logger, db)
	if err != nil {
		return nil, fmt.Errorf("node storage: %w", err)
	}
	n.Storage = st
	stored, found, err := st.GetPrivateKeyHash()
	if err != nil {
		return nil, fmt.Errorf("get private key hash: %w", err)
	}
	hash, ekmKey := fx.keyHashes(cfg.OwnKey)
	if !found {
		if err := st.SavePrivateKeyHash(hash); err != nil {
			return nil, fmt.Errorf("save private key hash: %w", err)
		}
	} else if stored != hash {
		return nil, fmt.Errorf("operator private key is not matching the one encrypted the storage")
	}
	od, found, err := st.GetOperatorDataByPubKey(nil, fx.OpPub[cfg.OwnKey])
	if err != nil {
		return nil, fmt.Errorf("operator data by public key: %w", err)
	}
	if !found {
		od = &registrystorage.OperatorData{PublicKey: fx.OpPub[cfg.OwnKey]}
	}
	n.ODS = operatordatastore.New(od)

	km, err := ekm.NewETHKeyManagerSigner(logger, db, n.Net, true, ekmKey)
	if err != nil {
		return nil, fmt.Errorf("key manager: %w", err)
	}
	if wrapKM != nil {
		km = wrapKM(km)
	}
	n.KM = km

	n.Stores = ibftstorage.NewStores()
	for _, r := range StorageRoles {
		n.Stores.Add(r, ibftstorage.New(db, r.String()))
	}
	filterer, err := contract.NewContractFilterer(ethcommon.Address{}, nil)
	if err != nil {
		return nil, err
	}
	h, err := eventhandler.New(st, eventparser.New(filterer), n.Exec, n.Net, n.ODS, priv, km, nil, n.Stores, eventhandler.WithFullNode())
	if err != nil {
		return nil, err
	}
	n.Handler = h
	return n, nil
}

// Block stamps logs with their block number / index, as an execution client delivers them.
func Block(number uint64, logs []ethtypes.Log) executionclient.BlockLogs {
	out := executionclient.BlockLogs{BlockNumber: number}
	for i, l := range logs {
		l.BlockNumber = number
		l.TxIndex = uint(i)
		l.Index = uint(i)
		l.TxHash = ethcommon.BigToHash(ethcommon.Big1)
		out.Logs = append(out.Logs, l)
	}
	return out
}

// ProcessBlock feeds one block through the real HandleBlockEventsStream (tasks executed on
// the recorder) and returns the tasks of this block and the handler's error.
func (n *Node) ProcessBlock(b executionclient.BlockLogs) ([]string, error) {
	ch := make(chan executionclient.BlockLogs, 1)
	ch <- b
	close(ch)
	before := len(n.Exec.Tasks)
	_, err := n.Handler.HandleBlockEventsStream(ch, true)
	return append([]string{}, n.Exec.Tasks[before:]...), err
}

// SetMetadata plays the node's validator-metadata updater: every stored share without beacon
// metadata gets one (index = fixture index). Returns the validators updated, sorted.
func (n *Node) SetMetadata() []string {
	var pks []string
	for _, s := range n.Storage.Shares().List(nil) {
		if s.BeaconMetadata == nil {
			pks = append(pks, hex.EncodeToString(s.ValidatorPubKey))
		}
	}
	sort.Strings(pks)
	for _, pk := range pks {
		raw, _ := hex.DecodeString(pk)
		idx := uint64(0)
		for _, v := range n.Fx.Vals {
			if bytes.Equal(v.PubKey, raw) {
				idx = v.BeaconIdx
			}
		}
		md := &beacon.ValidatorMetadata{Index: phase0.ValidatorIndex(idx), Status: eth2apiv1.ValidatorStateActiveOngoing, Balance: 32}
		if err := n.Storage.Shares().UpdateValidatorMetadata(pk, md); err != nil {
			panic(err)
		}
	}
	return pks
}

// SaveDecided stores a decided instance for (validator, role attester) the way the QBFT
// controller does, so that ValidatorRemoved has decided history to clean.
func (n *Node) SaveDecided(val int, height uint64) error {
	id := spectypes.NewMsgID(n.Net.Domain, n.Fx.Vals[val].PubKey, spectypes.BNRoleAttester)
	inst := &qbftstorage.StoredInstance{
		State: &specqbft.State{ID: id[:], Height: specqbft.Height(height), Round: 1, Decided: true, DecidedValue: []byte{1},
			ProposeContainer: specqbft.NewMsgContainer(), PrepareContainer: specqbft.NewMsgContainer(),
			CommitContainer: specqbft.NewMsgContainer(), RoundChangeContainer: specqbft.NewMsgContainer()},
		DecidedMessage: &specqbft.SignedMessage{Signature: make([]byte, 96), Signers: []uint64{1, 2, 3},
			Message: specqbft.Message{MsgType: specqbft.CommitMsgType, Height: specqbft.Height(height), Round: 1, Identifier: id[:], Root: [32]byte{1}}},
	}
	return n.Stores.Get(spectypes.BNRoleAttester).SaveHighestAndHistoricalInstance(inst)
}

// ---- observation ----

type probeRoot [32]byte

func (p probeRoot) GetRoot() ([32]byte, error) { return p, nil }

type KV struct{ K, V string }

// DumpPrefix returns the sorted raw content of db under prefix (keys include the prefix).
func DumpPrefix(db basedb.Reader, prefix string) []KV {
	var out []KV
	err := db.GetAll([]byte(prefix), func(_ int, o basedb.Obj) error {
		out = append(out, KV{K: prefix + string(o.Key), V: string(o.Value)})
		return nil
	})
	if err != nil {
		panic(err)
	}
	sort.Slice(out, func(i, j int) bool { return out[i].K < out[j].K })
	return out
}

const RegistryPrefix = "operator/"

// SignerPrefix is the key-manager key space on the test network.
func SignerPrefix() string { return string(spectypes.PraterNetwork) + "signer_data-" }

// KMView is what the key manager holds, per share public key of the fixture.
type KMView struct {
	Usable   []string          // share keys the key manager can sign with
	Accounts map[string]int    // account rows per share key (orphans show as > 1)
	HighAtt  map[string]uint64 // highest attestation target epoch, when present
	HighProp map[string]uint64 // highest proposal slot, when present
}

// ObserveKM asks the real key manager which share keys it can sign with and reads the
// slashing-protection records. full=false probes only the keys that have an account row plus
// the slot-0 keys (cheap, C11); full=true probes every share key of the fixture (C12).
func (n *Node) ObserveKM(full bool) KMView {
	v := KMView{Accounts: map[string]int{}, HighAtt: map[string]uint64{}, HighProp: map[string]uint64{}}
	sp := n.KM.(ekm.StorageProvider)
	accs, err := sp.ListAccounts()
	if err != nil {
		panic(err)
	}
	cand := map[string][]byte{}
	for _, a := range accs {
		v.Accounts[n.Fx.ShareKeyName(a.ValidatorPublicKey())]++
		cand[string(a.ValidatorPublicKey())] = a.ValidatorPublicKey()
	}
	for _, vk := range n.Fx.Vals {
		cand[string(vk.SharePub[0])] = vk.SharePub[0]
		if full {
			for i := 1; i < 4; i++ {
				cand[string(vk.SharePub[i])] = vk.SharePub[i]
			}
			w := vk.WrongSec.GetPublicKey().Serialize()
			cand[string(w)] = w
		}
	}
	for _, pk := range cand {
		name := n.Fx.ShareKeyName(pk)
		if _, err := n.KM.SignRoot(probeRoot{1, 2, 3}, spectypes.QBFTSignatureType, pk); err == nil {
			v.Usable = append(v.Usable, name)
		}
		if att, found, err := sp.RetrieveHighestAttestation(pk); err != nil {
			panic(err)
		} else if found && att != nil {
			v.HighAtt[name] = uint64(att.Target.Epoch)
		}
		if slot, found, err := sp.RetrieveHighestProposal(pk); err != nil {
			panic(err)
		} else if found {
			v.HighProp[name] = uint64(slot)
		}
	}
	sort.Strings(v.Usable)
	return v
}

func (v KMView) Line() string { return "km: " + strings.Join(v.Usable, ",") }

// Snapshot is the complete content of a database.
type Snapshot []KV

func TakeSnapshot(db basedb.Reader) Snapshot { return DumpPrefix(db, "") }

// Restore makes the content of db (currently cur) equal to the snapshot s, touching only the keys that differ
// (badger keeps every version of a key in its memtable, so blind rewrites would slow down every
// later iteration).
func Restore(db *kv.BadgerDB, cur, s Snapshot) {
	want := make(map[string]string, len(s))
	for _, e := range s {
		want[e.K] = e.V
	}
	err := db.Update(func(txn basedb.Txn) error {
		for _, e := range cur {
			v, ok := want[e.K]
			if !ok {
				if err := txn.Delete(nil, []byte(e.K)); err != nil {
					return err
				}
			} else if v == e.V {
				delete(want, e.K)
			}
		}
		for _, e := range s {
			if v, ok := want[e.K]; ok {
				if err := txn.Set(nil, []byte(e.K), []byte(v)); err != nil {
					return err
				}
			}
		}
		return nil
	})
	if err != nil {
		panic(err)
	}
}
