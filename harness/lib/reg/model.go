package reg

import (
	"fmt"
	"sort"
	"strings"
)

// Reference model of the registration rules, written from the sentence of property C11:
//
//   a validator is added only with a valid owner signature over the expected nonce, an
//   existing distinct committee of valid size, correctly sized share data and (for the
//   operator's own share) a decryptable key matching its public share; only the owner can
//   remove or exit it; the nonce counts every add attempt exactly once.
//
// plus the (contract-level) facts that an operator id is registered once (first registration
// stays), that the node learns its own id from the registration of its own key, that a
// cluster is (owner, operator set), that only the node's own validators carry a liquidation
// flag, and that an owner's fee recipient defaults to the owner. It reads event
// *specifications*, never log bytes. Deliberately boring: maps and ifs.

type MOperator struct {
	Key   int // index of the RSA key
	Owner int
}

type MRecipient struct {
	Fee      string // hex address
	HasNonce bool
	Nonce    int // last used nonce (next expected = Nonce+1), valid when HasNonce
}

type MShare struct {
	Owner      int
	Ops        []uint64
	OwnOp      uint64 // operator id of this node inside the committee, 0 if not a member
	OwnSlot    int
	Liquidated bool
	Metadata   bool // beacon metadata present (set by the environment after a block)
}

type Model struct {
	OwnKey     int
	OwnID      uint64
	Operators  map[uint64]MOperator
	Recipients map[int]*MRecipient
	Shares     map[int]*MShare // by validator index
	LastBlock  uint64
	HasBlock   bool
	KMKeys     map[string]bool // share keys the key manager must hold ("V1/s0")
}

func NewModel(ownKey int) *Model {
	return &Model{OwnKey: ownKey, Operators: map[uint64]MOperator{}, Recipients: map[int]*MRecipient{}, Shares: map[int]*MShare{}, KMKeys: map[string]bool{}}
}

func (m *Model) Clone() *Model {
	c := NewModel(m.OwnKey)
	c.OwnID, c.LastBlock, c.HasBlock = m.OwnID, m.LastBlock, m.HasBlock
	for k, v := range m.Operators {
		c.Operators[k] = v
	}
	for k, v := range m.Recipients {
		r := *v
		c.Recipients[k] = &r
	}
	for k, v := range m.Shares {
		s := *v
		s.Ops = append([]uint64{}, v.Ops...)
		c.Shares[k] = &s
	}
	for k := range m.KMKeys {
		c.KMKeys[k] = true
	}
	return c
}

// NextNonce is the nonce the owner has to sign next.
func (m *Model) NextNonce(owner int) int {
	r := m.Recipients[owner]
	if r == nil || !r.HasNonce {
		return 0
	}
	return r.Nonce + 1
}

func validCommitteeSize(n int) bool { return n == 4 || n == 7 || n == 10 || n == 13 }

func sameSet(a, b []uint64) bool {
	x, y := sortedU64(a), sortedU64(b)
	if len(x) != len(y) {
		return false
	}
	for i := range x {
		if x[i] != y[i] {
			return false
		}
	}
	return true
}

func ownerAddrHex(fx *Fixture, o int) string { return strings.ToLower(fx.Owners[o].Hex()) }

// Apply applies one event at block number blk and returns the tasks the node must hand to its
// task executor for it.
func (m *Model) Apply(fx *Fixture, e Event, blk uint64) []string {
	var tasks []string
	vname := fmt.Sprintf("V%d", e.Val+1)
	oname := string(rune('A' + e.Owner))
	switch e.Kind {
	case OpAdd:
		if _, exists := m.Operators[e.OpID]; exists {
			return nil // an id is registered once
		}
		if e.OpKey == m.OwnKey && m.OwnID != 0 && m.OwnID != e.OpID {
			return nil // own key cannot be registered under a second id
		}
		m.Operators[e.OpID] = MOperator{Key: e.OpKey, Owner: e.Owner}
		if e.OpKey == m.OwnKey {
			m.OwnID = e.OpID
		}
	case OpRemove:
		// operators are not deleted by the node (documented TODO in the handler)
	case VAdd:
		signed := m.NextNonce(e.Owner)
		// the nonce counts every add attempt exactly once
		r := m.Recipients[e.Owner]
		switch {
		case r == nil:
			m.Recipients[e.Owner] = &MRecipient{Fee: ownerAddrHex(fx, e.Owner), HasNonce: true, Nonce: 0}
		case !r.HasNonce:
			r.HasNonce, r.Nonce = true, 0
		default:
			r.Nonce++
		}
		// existing distinct committee of valid size
		if !validCommitteeSize(len(e.Ops)) {
			return nil
		}
		seen := map[uint64]bool{}
		for _, id := range e.Ops {
			if seen[id] {
				return nil
			}
			seen[id] = true
			if _, ok := m.Operators[id]; !ok {
				return nil
			}
		}
		// correctly sized share data
		if e.Share == ShareShort || e.Share == ShareLong1 || e.Share == ShareLong256 {
			return nil
		}
		// valid owner signature over the expected nonce
		switch e.Sig {
		case SigBad:
			return nil
		case SigNonce0:
			if signed != 0 {
				return nil
			}
		}
		if sh, exists := m.Shares[e.Val]; exists {
			// a registered validator stays as it is; a different owner cannot take it over
			if sh.Owner == e.Owner && sh.OwnOp != 0 && sh.OwnOp == m.OwnID {
				tasks = append(tasks, "start:"+vname)
			}
			return tasks
		}
		sh := &MShare{Owner: e.Owner, Ops: append([]uint64{}, e.Ops...)}
		for i, id := range e.Ops {
			if m.OwnID != 0 && id == m.OwnID {
				sh.OwnOp, sh.OwnSlot = id, i
			}
		}
		if sh.OwnOp != 0 {
			// own share: decryptable with this node's key and matching the public share.
			// The cipher text of slot id is encrypted to RSA key number id; the planted
			// defects sit in the slot of operator DefectSlot.
			if int(sh.OwnOp) >= NumOpKeys || int(sh.OwnOp) != m.OwnKey {
				return nil // encrypted to another key than ours: undecryptable
			}
			if sh.OwnOp == DefectSlot && e.Share != ShareOK {
				return nil
			}
			m.KMKeys[fmt.Sprintf("%s/s%d", vname, sh.OwnSlot)] = true
			tasks = append(tasks, "start:"+vname)
		}
		m.Shares[e.Val] = sh
	case VRemove:
		sh, ok := m.Shares[e.Val]
		if !ok || sh.Owner != e.Owner {
			return nil // only the owner can remove
		}
		delete(m.Shares, e.Val)
		if sh.OwnOp != 0 && sh.OwnOp == m.OwnID {
			delete(m.KMKeys, fmt.Sprintf("%s/s%d", vname, sh.OwnSlot))
			tasks = append(tasks, "stop:"+vname)
		}
	case VExit:
		sh, ok := m.Shares[e.Val]
		if !ok || sh.Owner != e.Owner {
			return nil // only the owner can exit
		}
		if sh.OwnOp != 0 && sh.OwnOp == m.OwnID && sh.Metadata {
			tasks = append(tasks, fmt.Sprintf("exit:%s:%d:%d", vname, blk, fx.Vals[e.Val].BeaconIdx))
		}
	case Liquidate, Reactivate:
		var hit []string
		for v, sh := range m.Shares {
			if sh.Owner == e.Owner && sameSet(sh.Ops, e.Ops) && sh.OwnOp != 0 && sh.OwnOp == m.OwnID {
				sh.Liquidated = e.Kind == Liquidate
				hit = append(hit, fmt.Sprintf("V%d", v+1))
			}
		}
		if len(hit) > 0 {
			sort.Strings(hit)
			verb := "liquidate"
			if e.Kind == Reactivate {
				verb = "reactivate"
			}
			tasks = append(tasks, fmt.Sprintf("%s:%s:%v:%s", verb, oname, sortedU64(e.Ops), strings.Join(hit, ",")))
		}
	case FeeRecipient:
		fee := strings.ToLower(fx.Recips[e.Recipient].Hex())
		r := m.Recipients[e.Owner]
		if r == nil {
			r = &MRecipient{}
			m.Recipients[e.Owner] = r
		}
		if r.Fee != fee {
			r.Fee = fee
			tasks = append(tasks, fmt.Sprintf("fee:%s:%s", oname, fx.Recips[e.Recipient].Hex()))
		}
	}
	return tasks
}

// EndBlock records the block as processed.
func (m *Model) EndBlock(blk uint64) { m.LastBlock, m.HasBlock = blk, true }

// SetMetadata mirrors Node.SetMetadata.
func (m *Model) SetMetadata() {
	for _, s := range m.Shares {
		s.Metadata = true
	}
}

// Describe renders the model state canonically (used in messages and for comparison).
func (m *Model) Describe(withBlock bool) []string {
	var out []string
	out = append(out, fmt.Sprintf("own: id=%d", m.OwnID))
	var ids []uint64
	for id := range m.Operators {
		ids = append(ids, id)
	}
	for _, id := range sortedU64(ids) {
		o := m.Operators[id]
		out = append(out, fmt.Sprintf("operator %d: key=K%d owner=%s", id, o.Key, string(rune('A'+o.Owner))))
	}
	for o := 0; o < 2; o++ {
		if r, ok := m.Recipients[o]; ok {
			n := "nil"
			if r.HasNonce {
				n = fmt.Sprint(r.Nonce)
			}
			out = append(out, fmt.Sprintf("recipient %s: fee=%s nonce=%s next=%d", string(rune('A'+o)), r.Fee, n, m.NextNonce(o)))
		}
	}
	for v := 0; v < NumVals; v++ {
		if s, ok := m.Shares[v]; ok {
			out = append(out, fmt.Sprintf("share V%d: owner=%s ops=%v ownOp=%d liquidated=%v metadata=%v", v+1, string(rune('A'+s.Owner)), s.Ops, s.OwnOp, s.Liquidated, s.Metadata))
		}
	}
	var ks []string
	for k := range m.KMKeys {
		ks = append(ks, k)
	}
	sort.Strings(ks)
	out = append(out, "km: "+strings.Join(ks, ","))
	if withBlock {
		if m.HasBlock {
			out = append(out, fmt.Sprintf("lastBlock: %d", m.LastBlock))
		} else {
			out = append(out, "lastBlock: none")
		}
	}
	return out
}
