package reg

import (
	"errors"
	"fmt"
	"regexp"

	spectypes "github.com/bloxapp/ssv-spec/types"
	"github.com/herumi/bls-eth-go-binary/bls"

	"github.com/bloxapp/ssv/ekm"
	"github.com/bloxapp/ssv/storage/basedb"
	"github.com/bloxapp/ssv/storage/kv"
)

// Fault proxies (engine E3): recording wrappers around basedb.Database / basedb.Txn and the key
// manager. Every proxied call is a fault point; the controller injects at most one fault per run.

type Mode int

const (
	NoFault Mode = iota
	CrashBefore
	CrashAfter
	ErrorReturn
)

func (m Mode) String() string {
	return [...]string{"none", "crash-before", "crash-after", "error-return"}[m]
}

// Crash is the panic sentinel of an injected crash; the harness recovers it at top level.
type Crash struct {
	K    int
	Site string
	Mode Mode
}

var ErrInjected = errors.New("verif: injected storage fault")

// Ctl counts the proxied calls of one process life and injects the planned fault.
type Ctl struct {
	Log   []string // site of every proxied call, in order
	At    int      // 1-based index of the call to fault (0: none)
	Mode  Mode
	Fired bool
	Site  string // site of the fired fault
	dead  bool   // the process has crashed: everything passes through unrecorded (deferred cleanups)
	Off   bool   // harness-side environment operations: pass through unrecorded
	// OnCommit, if set, is called after every successful transaction commit (the environment
	// reacts to a processed block).
	OnCommit func()
}

// NoErrorResult lists the calls that cannot report an error (error-return is not applicable).
func NoErrorResult(site string) bool {
	switch site {
	case "db.Begin", "db.BeginRead", "txn.Discard":
		return true
	}
	return false
}

func (c *Ctl) enter(site string) (k int, fail bool) {
	if c == nil || c.Off || c.dead {
		return 0, false
	}
	c.Log = append(c.Log, site)
	k = len(c.Log)
	if k == c.At && !c.Fired {
		switch c.Mode {
		case CrashBefore:
			c.Fired, c.dead, c.Site = true, true, site
			panic(Crash{K: k, Site: site, Mode: c.Mode})
		case ErrorReturn:
			if !NoErrorResult(site) {
				c.Fired, c.Site = true, site
				return k, true
			}
		}
	}
	return k, false
}

func (c *Ctl) leave(k int) {
	if c == nil || k == 0 || c.dead {
		return
	}
	if k == c.At && !c.Fired && c.Mode == CrashAfter {
		c.Fired, c.dead, c.Site = true, true, c.Log[k-1]
		panic(Crash{K: k, Site: c.Log[k-1], Mode: c.Mode})
	}
}

var uuidRe = regexp.MustCompile(`[0-9a-f]{8}-[0-9a-f]{4}-[0-9a-f]{4}-[0-9a-f]{4}-[0-9a-f]{12}`)

// siteKey renders prefix+key up to the first byte that is not a letter or one of "/_-"
// (ids, addresses, public keys and uuids are cut off), so that sites are stable.
func siteKey(prefix, key []byte) string {
	b := append(append([]byte{}, prefix...), key...)
	if loc := uuidRe.FindIndex(b); loc != nil {
		b = b[:loc[0]]
	}
	sep := func(ch byte) bool { return ch == '/' || ch == '_' || ch == '-' }
	for i, ch := range b {
		ok := (ch >= 'a' && ch <= 'z') || (ch >= 'A' && ch <= 'Z') || sep(ch)
		if !ok {
			// cut in the middle of a token (binary or hex material): fall back to the last separator
			for j := i; j > 0; j-- {
				if sep(b[j-1]) {
					return string(b[:j])
				}
			}
			return string(b[:i])
		}
	}
	return string(b)
}

// ---- database ----

type ProxyDB struct {
	Base *kv.BadgerDB
	C    *Ctl
}

var _ basedb.Database = (*ProxyDB)(nil)

func get(c *Ctl, who string, r basedb.Reader, prefix, key []byte) (basedb.Obj, bool, error) {
	k, fail := c.enter(who + ".Get " + siteKey(prefix, key))
	if fail {
		return basedb.Obj{}, true, ErrInjected // shape of a failed badger read (kv/txn.go)
	}
	o, f, err := r.Get(prefix, key)
	c.leave(k)
	return o, f, err
}

func getMany(c *Ctl, who string, r basedb.Reader, prefix []byte, keys [][]byte, it func(basedb.Obj) error) error {
	var first []byte
	if len(keys) > 0 {
		first = keys[0]
	}
	k, fail := c.enter(who + ".GetMany " + siteKey(prefix, first))
	if fail {
		return ErrInjected
	}
	err := r.GetMany(prefix, keys, it)
	c.leave(k)
	return err
}

func getAll(c *Ctl, who string, r basedb.Reader, prefix []byte, h func(int, basedb.Obj) error) error {
	k, fail := c.enter(who + ".GetAll " + siteKey(prefix, nil))
	if fail {
		return ErrInjected
	}
	err := r.GetAll(prefix, h)
	c.leave(k)
	return err
}

func set(c *Ctl, who string, w basedb.ReadWriter, prefix, key, value []byte) error {
	k, fail := c.enter(who + ".Set " + siteKey(prefix, key))
	if fail {
		return ErrInjected
	}
	err := w.Set(prefix, key, value)
	c.leave(k)
	return err
}

func setMany(c *Ctl, who string, w basedb.ReadWriter, prefix []byte, n int, next func(int) (basedb.Obj, error)) error {
	site := who + ".SetMany " + siteKey(prefix, nil)
	if n > 0 {
		if o, err := next(0); err == nil {
			site = who + ".SetMany " + siteKey(prefix, o.Key)
		}
	}
	k, fail := c.enter(site)
	if fail {
		return ErrInjected
	}
	err := w.SetMany(prefix, n, next)
	c.leave(k)
	return err
}

func del(c *Ctl, who string, w basedb.ReadWriter, prefix, key []byte) error {
	k, fail := c.enter(who + ".Delete " + siteKey(prefix, key))
	if fail {
		return ErrInjected
	}
	err := w.Delete(prefix, key)
	c.leave(k)
	return err
}

func (p *ProxyDB) Get(prefix, key []byte) (basedb.Obj, bool, error) {
	return get(p.C, "db", p.Base, prefix, key)
}
func (p *ProxyDB) GetMany(prefix []byte, keys [][]byte, it func(basedb.Obj) error) error {
	return getMany(p.C, "db", p.Base, prefix, keys, it)
}
func (p *ProxyDB) GetAll(prefix []byte, h func(int, basedb.Obj) error) error {
	return getAll(p.C, "db", p.Base, prefix, h)
}
func (p *ProxyDB) Set(prefix, key, value []byte) error {
	return set(p.C, "db", p.Base, prefix, key, value)
}
func (p *ProxyDB) SetMany(prefix []byte, n int, next func(int) (basedb.Obj, error)) error {
	return setMany(p.C, "db", p.Base, prefix, n, next)
}
func (p *ProxyDB) Delete(prefix, key []byte) error { return del(p.C, "db", p.Base, prefix, key) }

func (p *ProxyDB) Begin() basedb.Txn {
	k, _ := p.C.enter("db.Begin")
	t := &ProxyTxn{T: p.Base.Begin(), C: p.C}
	p.C.leave(k)
	return t
}

func (p *ProxyDB) BeginRead() basedb.ReadTxn {
	k, _ := p.C.enter("db.BeginRead")
	t := &ProxyReadTxn{T: p.Base.BeginRead(), C: p.C}
	p.C.leave(k)
	return t
}

func (p *ProxyDB) Using(w basedb.ReadWriter) basedb.ReadWriter {
	if w == nil {
		return p
	}
	return w
}

func (p *ProxyDB) UsingReader(r basedb.Reader) basedb.Reader {
	if r == nil {
		return p
	}
	return r
}

func (p *ProxyDB) CountPrefix(prefix []byte) (int64, error) {
	k, fail := p.C.enter("db.CountPrefix " + siteKey(prefix, nil))
	if fail {
		return 0, ErrInjected
	}
	n, err := p.Base.CountPrefix(prefix)
	p.C.leave(k)
	return n, err
}

func (p *ProxyDB) DeletePrefix(prefix []byte) (int, error) {
	k, fail := p.C.enter("db.DeletePrefix " + siteKey(prefix, nil))
	if fail {
		return 0, ErrInjected
	}
	n, err := p.Base.DeletePrefix(prefix)
	p.C.leave(k)
	return n, err
}

func (p *ProxyDB) DropPrefix(prefix []byte) error {
	k, fail := p.C.enter("db.DropPrefix " + siteKey(prefix, nil))
	if fail {
		return ErrInjected
	}
	err := p.Base.DropPrefix(prefix)
	p.C.leave(k)
	return err
}

func (p *ProxyDB) Update(fn func(basedb.Txn) error) error {
	k, fail := p.C.enter("db.Update")
	if fail {
		return ErrInjected
	}
	err := p.Base.Update(func(t basedb.Txn) error { return fn(&ProxyTxn{T: t, C: p.C}) })
	p.C.leave(k)
	return err
}

func (p *ProxyDB) Close() error { return nil } // the surviving database is closed by the harness

// ---- transactions ----

type ProxyTxn struct {
	T basedb.Txn
	C *Ctl
}

func (t *ProxyTxn) Get(prefix, key []byte) (basedb.Obj, bool, error) {
	return get(t.C, "txn", t.T, prefix, key)
}
func (t *ProxyTxn) GetMany(prefix []byte, keys [][]byte, it func(basedb.Obj) error) error {
	return getMany(t.C, "txn", t.T, prefix, keys, it)
}
func (t *ProxyTxn) GetAll(prefix []byte, h func(int, basedb.Obj) error) error {
	return getAll(t.C, "txn", t.T, prefix, h)
}
func (t *ProxyTxn) Set(prefix, key, value []byte) error {
	return set(t.C, "txn", t.T, prefix, key, value)
}
func (t *ProxyTxn) SetMany(prefix []byte, n int, next func(int) (basedb.Obj, error)) error {
	return setMany(t.C, "txn", t.T, prefix, n, next)
}
func (t *ProxyTxn) Delete(prefix, key []byte) error { return del(t.C, "txn", t.T, prefix, key) }

func (t *ProxyTxn) Commit() error {
	k, fail := t.C.enter("txn.Commit")
	if fail {
		return ErrInjected // nothing committed
	}
	err := t.T.Commit()
	t.C.leave(k)
	if err == nil && t.C != nil && t.C.OnCommit != nil && !t.C.dead && !t.C.Off {
		t.C.OnCommit()
	}
	return err
}

func (t *ProxyTxn) Discard() {
	k, _ := t.C.enter("txn.Discard")
	t.T.Discard()
	t.C.leave(k)
}

type ProxyReadTxn struct {
	T basedb.ReadTxn
	C *Ctl
}

func (t *ProxyReadTxn) Get(prefix, key []byte) (basedb.Obj, bool, error) {
	return get(t.C, "rtxn", t.T, prefix, key)
}
func (t *ProxyReadTxn) GetMany(prefix []byte, keys [][]byte, it func(basedb.Obj) error) error {
	return getMany(t.C, "rtxn", t.T, prefix, keys, it)
}
func (t *ProxyReadTxn) GetAll(prefix []byte, h func(int, basedb.Obj) error) error {
	return getAll(t.C, "rtxn", t.T, prefix, h)
}
func (t *ProxyReadTxn) Discard() { t.T.Discard() }

// ---- key manager ----

// ProxyKM wraps the real ekm signer; AddShare / RemoveShare / BumpSlashingProtection are fault
// points, everything else passes through. (The signer's own storage calls go through ProxyDB.)
type ProxyKM struct {
	spectypes.KeyManager
	ekm.StorageProvider
	C *Ctl
}

func WrapKM(c *Ctl) func(spectypes.KeyManager) spectypes.KeyManager {
	return func(km spectypes.KeyManager) spectypes.KeyManager {
		return &ProxyKM{KeyManager: km, StorageProvider: km.(ekm.StorageProvider), C: c}
	}
}

func (p *ProxyKM) AddShare(sk *bls.SecretKey) error {
	k, fail := p.C.enter("km.AddShare")
	if fail {
		return fmt.Errorf("key manager: %w", ErrInjected)
	}
	err := p.KeyManager.AddShare(sk)
	p.C.leave(k)
	return err
}

func (p *ProxyKM) RemoveShare(pk string) error {
	k, fail := p.C.enter("km.RemoveShare")
	if fail {
		return fmt.Errorf("key manager: %w", ErrInjected)
	}
	err := p.KeyManager.RemoveShare(pk)
	p.C.leave(k)
	return err
}

func (p *ProxyKM) BumpSlashingProtection(pk []byte) error {
	k, fail := p.C.enter("km.BumpSlashingProtection")
	if fail {
		return fmt.Errorf("key manager: %w", ErrInjected)
	}
	err := p.StorageProvider.BumpSlashingProtection(pk)
	p.C.leave(k)
	return err
}
