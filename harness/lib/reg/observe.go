package reg

import (
	"bytes"
	"encoding/json"
	"fmt"
	"math/big"
	"sort"
	"strings"

	ssvtypes "github.com/bloxapp/ssv/protocol/v2/types"
	registrystorage "github.com/bloxapp/ssv/registry/storage"
)

// The three views of the real node are rendered in the format of Model.Describe so that the
// oracle is plain equality of string lists.

func (fx *Fixture) ownerIdx(addr [20]byte) string {
	for i, o := range fx.Owners {
		if o == addr {
			return string(rune('A' + i))
		}
	}
	return fmt.Sprintf("%x", addr)
}

func (fx *Fixture) opLine(od *registrystorage.OperatorData) string {
	return fmt.Sprintf("operator %d: key=%s owner=%s", od.ID, fx.OpKeyName(od.PublicKey), fx.ownerIdx(od.OwnerAddress))
}

func (fx *Fixture) recipientLine(rd *registrystorage.RecipientData, next int) string {
	n := "nil"
	if rd.Nonce != nil {
		n = fmt.Sprint(int(*rd.Nonce))
	}
	return fmt.Sprintf("recipient %s: fee=0x%x nonce=%s next=%d", fx.ownerIdx(rd.Owner), rd.FeeRecipient[:], n, next)
}

// shareLine renders a share and validates the fields the model does not carry
// (share public keys, quorum, domain) against the fixture; problems are returned as extra lines.
func (fx *Fixture) shareLine(s *ssvtypes.SSVShare, domain [4]byte) []string {
	name := fx.ValName(s.ValidatorPubKey)
	var ops []uint64
	for _, c := range s.Committee {
		ops = append(ops, c.OperatorID)
	}
	out := []string{fmt.Sprintf("share %s: owner=%s ops=%v ownOp=%d liquidated=%v metadata=%v", name, fx.ownerIdx(s.OwnerAddress), ops, s.OperatorID, s.Liquidated, s.BeaconMetadata != nil)}
	var vk *ValKeys
	for _, v := range fx.Vals {
		if bytes.Equal(v.PubKey, s.ValidatorPubKey) {
			vk = v
		}
	}
	if vk == nil {
		return append(out, "share "+name+": unknown validator key")
	}
	ownSlot := -1
	for i, c := range s.Committee {
		if i < len(vk.SharePub) && !bytes.Equal(c.PubKey, vk.SharePub[i]) {
			out = append(out, fmt.Sprintf("share %s: committee[%d] public share differs from the event", name, i))
		}
		if c.OperatorID == s.OperatorID && s.OperatorID != 0 {
			ownSlot = i
		}
	}
	if s.OperatorID != 0 {
		if ownSlot < 0 || !bytes.Equal(s.SharePubKey, vk.SharePub[ownSlot]) {
			out = append(out, fmt.Sprintf("share %s: SharePubKey is not the public share of operator %d", name, s.OperatorID))
		}
	} else if len(s.SharePubKey) != 0 {
		out = append(out, fmt.Sprintf("share %s: SharePubKey set although not a member", name))
	}
	q, pq := ssvtypes.ComputeQuorumAndPartialQuorum(len(s.Committee))
	if s.Quorum != q || s.PartialQuorum != pq {
		out = append(out, fmt.Sprintf("share %s: quorum %d/%d", name, s.Quorum, s.PartialQuorum))
	}
	if s.DomainType != domain {
		out = append(out, fmt.Sprintf("share %s: domain %x", name, s.DomainType))
	}
	if s.BeaconMetadata != nil && uint64(s.BeaconMetadata.Index) != vk.BeaconIdx {
		out = append(out, fmt.Sprintf("share %s: beacon index %d", name, s.BeaconMetadata.Index))
	}
	return out
}

func sortShares(l []*ssvtypes.SSVShare) []*ssvtypes.SSVShare {
	out := append([]*ssvtypes.SSVShare{}, l...)
	sort.Slice(out, func(i, j int) bool { return bytes.Compare(out[i].ValidatorPubKey, out[j].ValidatorPubKey) < 0 })
	return out
}

func valOrder(fx *Fixture, lines []string) []string {
	// model order: V1, V2, V3 — the fixture's keys are not sorted that way, so sort by name
	sort.SliceStable(lines, func(i, j int) bool { return lines[i] < lines[j] })
	return lines
}

// DescribeGetters renders the state through the node's getters (reader nil = committed view).
func (n *Node) DescribeGetters(withBlock bool, kmLine string) []string {
	fx := n.Fx
	var out []string
	out = append(out, fmt.Sprintf("own: id=%d", n.ODS.GetOperatorID()))
	ops, err := n.Storage.ListOperators(nil, 0, 0)
	if err != nil {
		panic(err)
	}
	sort.Slice(ops, func(i, j int) bool { return ops[i].ID < ops[j].ID })
	for i := range ops {
		od, found, err := n.Storage.GetOperatorData(nil, ops[i].ID)
		if err != nil || !found {
			out = append(out, fmt.Sprintf("operator %d: listed but GetOperatorData found=%v err=%v", ops[i].ID, found, err))
			continue
		}
		out = append(out, fx.opLine(od))
	}
	for o := range fx.Owners {
		rd, found, err := n.Storage.GetRecipientData(nil, fx.Owners[o])
		if err != nil {
			panic(err)
		}
		next, err := n.Storage.GetNextNonce(nil, fx.Owners[o])
		if err != nil {
			panic(err)
		}
		if found {
			out = append(out, fx.recipientLine(rd, int(next)))
		} else if next != 0 {
			out = append(out, fmt.Sprintf("recipient %s: absent but next nonce %d", fx.ownerIdx(fx.Owners[o]), next))
		}
	}
	var sl []string
	for _, s := range sortShares(n.Storage.Shares().List(nil)) {
		if g := n.Storage.Shares().Get(nil, s.ValidatorPubKey); g != s {
			sl = append(sl, "share "+fx.ValName(s.ValidatorPubKey)+": Get and List disagree")
		}
		sl = append(sl, fx.shareLine(s, n.Net.Domain)...)
	}
	out = append(out, valOrder(fx, sl)...)
	out = append(out, kmLine)
	if withBlock {
		b, found, err := n.Storage.GetLastProcessedBlock(nil)
		if err != nil {
			panic(err)
		}
		if found {
			out = append(out, fmt.Sprintf("lastBlock: %d", b.Uint64()))
		} else {
			out = append(out, "lastBlock: none")
		}
	}
	return out
}

// DescribeRaw renders the state from the raw database content under the registry prefix.
// kmLine is appended verbatim (the key manager has no raw registry representation).
func DescribeRaw(fx *Fixture, dump []KV, ownKey int, domain [4]byte, kmLine string, withBlock bool) []string {
	var ops, recs, shares, other []string
	own := uint64(0)
	ownSeen := 0
	last := "lastBlock: none"
	for _, kv := range dump {
		if !strings.HasPrefix(kv.K, RegistryPrefix) {
			continue
		}
		k := strings.TrimPrefix(kv.K, RegistryPrefix)
		switch {
		case strings.HasPrefix(k, "operators/"):
			var od registrystorage.OperatorData
			if err := json.Unmarshal([]byte(kv.V), &od); err != nil {
				other = append(other, "undecodable operator "+k)
				continue
			}
			if k != fmt.Sprintf("operators/%d", od.ID) {
				other = append(other, fmt.Sprintf("operator stored under %q has id %d", k, od.ID))
			}
			if fx.OpKeyName(od.PublicKey) == fmt.Sprintf("K%d", ownKey) {
				if ownSeen == 0 {
					own = od.ID
				}
				ownSeen++
			}
			ops = append(ops, fmt.Sprintf("%08d|%s", od.ID, fx.opLine(&od)))
		case strings.HasPrefix(k, "recipients/"):
			var rd registrystorage.RecipientData
			if err := json.Unmarshal([]byte(kv.V), &rd); err != nil {
				other = append(other, "undecodable recipient "+k)
				continue
			}
			if k != "recipients/"+string(rd.Owner.Bytes()) {
				other = append(other, "recipient stored under a foreign key")
			}
			next := 0
			if rd.Nonce != nil {
				next = int(*rd.Nonce) + 1
			}
			recs = append(recs, fx.recipientLine(&rd, next))
		case strings.HasPrefix(k, "shares/"):
			s := &ssvtypes.SSVShare{}
			if err := s.Decode([]byte(kv.V)); err != nil {
				other = append(other, "undecodable share "+k)
				continue
			}
			if k != "shares/"+string(s.ValidatorPubKey) {
				other = append(other, "share stored under a foreign key")
			}
			shares = append(shares, fx.shareLine(s, domain)...)
		case k == "syncOffset":
			last = fmt.Sprintf("lastBlock: %d", new(big.Int).SetBytes([]byte(kv.V)).Uint64())
		case k == "hashed-private-key":
		default:
			other = append(other, fmt.Sprintf("unexpected registry key %q", k))
		}
	}
	if ownSeen > 1 {
		other = append(other, fmt.Sprintf("own key registered under %d ids", ownSeen))
	}
	out := []string{fmt.Sprintf("own: id=%d", own)}
	sort.Strings(ops)
	for _, o := range ops {
		out = append(out, o[9:])
	}
	sort.Strings(recs)
	out = append(out, recs...)
	out = append(out, valOrder(fx, shares)...)
	out = append(out, kmLine)
	if withBlock {
		out = append(out, last)
	}
	return append(out, other...)
}

// DescribeMemory renders the in-memory views only (own operator data, share map).
func (n *Node) DescribeMemory() []string {
	out := []string{fmt.Sprintf("own: id=%d", n.ODS.GetOperatorID())}
	var sl []string
	for _, s := range sortShares(n.Storage.Shares().List(nil)) {
		sl = append(sl, n.Fx.shareLine(s, n.Net.Domain)...)
	}
	return append(out, valOrder(n.Fx, sl)...)
}

// MemoryLines filters a full description down to what DescribeMemory covers.
func MemoryLines(full []string) []string {
	var out []string
	for _, l := range full {
		if strings.HasPrefix(l, "own:") || strings.HasPrefix(l, "share ") {
			out = append(out, l)
		}
	}
	return out
}

func Equal(a, b []string) bool {
	if len(a) != len(b) {
		return false
	}
	for i := range a {
		if a[i] != b[i] {
			return false
		}
	}
	return true
}

// Diff lists the lines that are in one description and not in the other.
func Diff(got, want []string) []string {
	g, w := map[string]bool{}, map[string]bool{}
	for _, l := range got {
		g[l] = true
	}
	for _, l := range want {
		w[l] = true
	}
	var out []string
	for _, l := range got {
		if !w[l] {
			out = append(out, "observed: "+l)
		}
	}
	for _, l := range want {
		if !g[l] {
			out = append(out, "expected: "+l)
		}
	}
	return out
}
