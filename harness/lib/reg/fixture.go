// Package reg is the registry harness shared by C11 and C12: fixtures (operator RSA keys,
// validator BLS keys, owners), the event alphabet with ABI-encoded logs, a real node
// (operator/storage + registry/storage + ekm + eventhandler on one badger), dumps, the
// reference model of the registration rules and the fault proxies.
package reg

import (
	"crypto/sha256"
	"encoding/binary"
	"fmt"
	"math/big"
	"sort"

	ethabi "github.com/ethereum/go-ethereum/accounts/abi"
	ethcommon "github.com/ethereum/go-ethereum/common"
	ethtypes "github.com/ethereum/go-ethereum/core/types"
	"github.com/ethereum/go-ethereum/crypto"
	"github.com/herumi/bls-eth-go-binary/bls"

	"github.com/bloxapp/ssv/eth/contract"
	"github.com/bloxapp/ssv/eth/eventparser"
	"github.com/bloxapp/ssv/operator/keys"
	"github.com/bloxapp/ssv/utils/threshold"
)

// ---- event alphabet ----

type Kind int

const (
	OpAdd Kind = iota
	OpRemove
	VAdd
	VRemove
	VExit
	Liquidate
	Reactivate
	FeeRecipient
)

type SigMode int

const (
	SigCurrent SigMode = iota // owner signature over the nonce expected at this point
	SigNonce0                 // signature over nonce 0 (valid first, a replay afterwards)
	SigBad                    // signature by a foreign key
)

type ShareMode int

const (
	ShareOK          ShareMode = iota
	ShareShort                 // share data one byte short
	OwnUndecryptable           // encrypted key of operator 1 is garbage
	OwnNotHex                  // encrypted key of operator 1 decrypts to a non-hex string
	OwnMismatch                // encrypted key of operator 1 decrypts to a key that is not the public share
	ShareLong1                 // share data with one trailing byte too many
	ShareLong256               // share data with 256 trailing bytes too many
)

// Event is one letter of the alphabet; it is a *specification*, the log bytes are derived
// from it (Fixture.Log) and the reference model reads only the specification.
type Event struct {
	Name      string
	Kind      Kind
	OpID      uint64 // OpAdd / OpRemove
	OpKey     int    // OpAdd: index of the RSA key announced
	Owner     int    // 0 = owner A, 1 = owner B
	Val       int    // validator index (VAdd/VRemove/VExit)
	Ops       []uint64
	Sig       SigMode
	Share     ShareMode
	Recipient int
}

const (
	NumOpKeys  = 7 // RSA keys 1..6 (0 unused)
	NumVals    = 3 // validators 0,1 are used for adds, 2 is never added
	MaxNonce   = 10
	DefectSlot = uint64(1) // the Own* share defects are planted in the slot of operator id 1
)

var Committee = []uint64{1, 2, 3, 4}

// Alphabet returns the event alphabet (DESIGN §3 C11 "A").
func Alphabet() []Event {
	c := Committee
	var ops14 []uint64
	for i := uint64(1); i <= 14; i++ {
		ops14 = append(ops14, i)
	}
	return []Event{
		{Name: "opAdd(1,K1)", Kind: OpAdd, OpID: 1, OpKey: 1},
		{Name: "opAdd(2,K2)", Kind: OpAdd, OpID: 2, OpKey: 2},
		{Name: "opAdd(3,K3)", Kind: OpAdd, OpID: 3, OpKey: 3},
		{Name: "opAdd(4,K4)", Kind: OpAdd, OpID: 4, OpKey: 4},
		{Name: "opAdd(5,K5)", Kind: OpAdd, OpID: 5, OpKey: 5},
		{Name: "opAdd(1,K6)", Kind: OpAdd, OpID: 1, OpKey: 6, Owner: 1}, // same id, other key
		{Name: "opAdd(5,K1)", Kind: OpAdd, OpID: 5, OpKey: 1, Owner: 1}, // key of op 1 under another id
		{Name: "opRemove(1)", Kind: OpRemove, OpID: 1},
		{Name: "opRemove(6)", Kind: OpRemove, OpID: 6},

		{Name: "vAdd(V1,A)", Kind: VAdd, Val: 0, Owner: 0, Ops: c},
		{Name: "vAdd(V2,A)", Kind: VAdd, Val: 1, Owner: 0, Ops: c},
		{Name: "vAdd(V1,B)", Kind: VAdd, Val: 0, Owner: 1, Ops: c},
		{Name: "vAdd(V1,A,badsig)", Kind: VAdd, Val: 0, Owner: 0, Ops: c, Sig: SigBad},
		{Name: "vAdd(V1,A,sigNonce0)", Kind: VAdd, Val: 0, Owner: 0, Ops: c, Sig: SigNonce0},
		{Name: "vAdd(V1,A,dupOps)", Kind: VAdd, Val: 0, Owner: 0, Ops: []uint64{1, 2, 3, 3}},
		{Name: "vAdd(V1,A,dupOpsApart)", Kind: VAdd, Val: 0, Owner: 0, Ops: []uint64{1, 2, 1, 3}}, // repeated id at non-adjacent positions
		{Name: "vAdd(V1,A,unknownOp)", Kind: VAdd, Val: 0, Owner: 0, Ops: []uint64{1, 2, 3, 6}},
		{Name: "vAdd(V1,A,3ops)", Kind: VAdd, Val: 0, Owner: 0, Ops: []uint64{1, 2, 3}},
		{Name: "vAdd(V1,A,14ops)", Kind: VAdd, Val: 0, Owner: 0, Ops: ops14},
		{Name: "vAdd(V1,A,shortShares)", Kind: VAdd, Val: 0, Owner: 0, Ops: c, Share: ShareShort},
		{Name: "vAdd(V1,A,sharesOneByteTooLong)", Kind: VAdd, Val: 0, Owner: 0, Ops: c, Share: ShareLong1},
		{Name: "vAdd(V2,A,shares256BytesTooLong)", Kind: VAdd, Val: 1, Owner: 0, Ops: c, Share: ShareLong256},
		{Name: "vAdd(V1,A,undecryptable)", Kind: VAdd, Val: 0, Owner: 0, Ops: c, Share: OwnUndecryptable},
		{Name: "vAdd(V1,A,notHex)", Kind: VAdd, Val: 0, Owner: 0, Ops: c, Share: OwnNotHex},
		{Name: "vAdd(V1,A,keyMismatch)", Kind: VAdd, Val: 0, Owner: 0, Ops: c, Share: OwnMismatch},

		{Name: "vRemove(V1,A)", Kind: VRemove, Val: 0, Owner: 0, Ops: c},
		{Name: "vRemove(V1,B)", Kind: VRemove, Val: 0, Owner: 1, Ops: c},
		{Name: "vRemove(V3,A)", Kind: VRemove, Val: 2, Owner: 0, Ops: c},
		{Name: "vExit(V1,A)", Kind: VExit, Val: 0, Owner: 0, Ops: c},
		{Name: "vExit(V1,B)", Kind: VExit, Val: 0, Owner: 1, Ops: c},
		{Name: "vExit(V3,A)", Kind: VExit, Val: 2, Owner: 0, Ops: c},

		{Name: "liquidate(A)", Kind: Liquidate, Owner: 0, Ops: c},
		{Name: "liquidate(B)", Kind: Liquidate, Owner: 1, Ops: c},
		{Name: "reactivate(A)", Kind: Reactivate, Owner: 0, Ops: c},
		{Name: "feeRecipient(A,R1)", Kind: FeeRecipient, Owner: 0, Recipient: 1},
		{Name: "feeRecipient(A,R2)", Kind: FeeRecipient, Owner: 0, Recipient: 2},
	}
}

// ---- fixture ----

type ValKeys struct {
	Master    *bls.SecretKey
	PubKey    []byte
	ShareSec  []*bls.SecretKey // one per committee position (up to 14)
	SharePub  [][]byte
	WrongSec  *bls.SecretKey // a key that is not any share (OwnMismatch)
	BeaconIdx uint64
}

type Fixture struct {
	OpKeys  [NumOpKeys]keys.OperatorPrivateKey
	OpPub   [NumOpKeys][]byte // base64, as stored in OperatorData.PublicKey
	Owners  [2]ethcommon.Address
	Recips  [3]ethcommon.Address
	Vals    [NumVals]*ValKeys
	Foreign *bls.SecretKey
	abi     *ethabi.ABI
	Events  []Event
	ByName  map[string]int
	logs    map[string]ethtypes.Log // name|nonce -> log
	hashes  [NumOpKeys][2]string    // StorageHash, EKMHash of every operator key (pure functions of the key)
	garbage []byte
}

func detSecret(label string) *bls.SecretKey {
	h := sha256.Sum256([]byte("verif-reg-" + label))
	h[31] &= 0x0f // keep below the group order (little endian, top byte)
	sk := &bls.SecretKey{}
	if err := sk.SetLittleEndian(h[:]); err != nil {
		panic(err)
	}
	return sk
}

// NewFixture generates the operator RSA keys (random, 2048 bit), the deterministic BLS keys
// and pre-computes every log of the alphabet for every nonce 0..MaxNonce.
func NewFixture() *Fixture {
	threshold.Init()
	fx := &Fixture{logs: map[string]ethtypes.Log{}, ByName: map[string]int{}}
	for i := 1; i < NumOpKeys; i++ {
		k, err := keys.GeneratePrivateKey()
		if err != nil {
			panic(err)
		}
		fx.OpKeys[i] = k
		pub, err := k.Public().Base64()
		if err != nil {
			panic(err)
		}
		fx.OpPub[i] = pub
		if fx.hashes[i][0], err = k.StorageHash(); err != nil {
			panic(err)
		}
		if fx.hashes[i][1], err = k.EKMHash(); err != nil {
			panic(err)
		}
	}
	fx.Owners[0] = ethcommon.HexToAddress("0x00000000000000000000000000000000000000a1")
	fx.Owners[1] = ethcommon.HexToAddress("0x00000000000000000000000000000000000000b2")
	fx.Recips[1] = ethcommon.HexToAddress("0x0000000000000000000000000000000000000f01")
	fx.Recips[2] = ethcommon.HexToAddress("0x0000000000000000000000000000000000000f02")
	for v := 0; v < NumVals; v++ {
		vk := &ValKeys{Master: detSecret(fmt.Sprintf("val%d", v)), BeaconIdx: uint64(1000 + v)}
		vk.PubKey = vk.Master.GetPublicKey().Serialize()
		for i := 0; i < 14; i++ {
			s := detSecret(fmt.Sprintf("val%d-share%d", v, i))
			vk.ShareSec = append(vk.ShareSec, s)
			vk.SharePub = append(vk.SharePub, s.GetPublicKey().Serialize())
		}
		vk.WrongSec = detSecret(fmt.Sprintf("val%d-wrong", v))
		fx.Vals[v] = vk
	}
	fx.Foreign = detSecret("foreign")
	a, err := contract.ContractMetaData.GetAbi()
	if err != nil {
		panic(err)
	}
	fx.abi = a
	fx.garbage = make([]byte, 256)
	for i := range fx.garbage {
		fx.garbage[i] = byte(i*7 + 3)
	}
	fx.Events = Alphabet()
	for i, e := range fx.Events {
		fx.ByName[e.Name] = i
		if e.Kind == VAdd && e.Sig == SigCurrent {
			for n := 0; n <= MaxNonce; n++ {
				fx.logs[fmt.Sprintf("%s|%d", e.Name, n)] = fx.build(e, n)
			}
		} else {
			fx.logs[e.Name] = fx.build(e, 0)
		}
	}
	return fx
}

func (fx *Fixture) keyHashes(i int) (storage, ekm string) { return fx.hashes[i][0], fx.hashes[i][1] }

// Log returns the ABI-encoded log of event e; nonce is the registration nonce the owner is
// expected to sign at this point of the history (only used by SigCurrent adds).
func (fx *Fixture) Log(e Event, nonce int) ethtypes.Log {
	key := e.Name
	if e.Kind == VAdd && e.Sig == SigCurrent {
		if nonce > MaxNonce {
			panic("nonce beyond the pre-computed range")
		}
		key = fmt.Sprintf("%s|%d", e.Name, nonce)
	}
	l, ok := fx.logs[key]
	if !ok {
		panic("no log for " + key)
	}
	return l
}

func addrTopic(a ethcommon.Address) ethcommon.Hash { return ethcommon.BytesToHash(a.Bytes()) }
func u64Topic(v uint64) ethcommon.Hash {
	var b [32]byte
	binary.BigEndian.PutUint64(b[24:], v)
	return b
}

func (fx *Fixture) pack(name string, topics []ethcommon.Hash, vals ...interface{}) ethtypes.Log {
	ev, ok := fx.abi.Events[name]
	if !ok {
		panic("no event " + name)
	}
	var data []byte
	if len(vals) > 0 {
		var err error
		data, err = ev.Inputs.NonIndexed().Pack(vals...)
		if err != nil {
			panic(fmt.Sprintf("pack %s: %v", name, err))
		}
	}
	return ethtypes.Log{Topics: append([]ethcommon.Hash{ev.ID}, topics...), Data: data}
}

func cluster() contract.ISSVNetworkCoreCluster {
	return contract.ISSVNetworkCoreCluster{ValidatorCount: 1, NetworkFeeIndex: 1, Index: 1, Active: true, Balance: big.NewInt(100)}
}

// SharesData builds the `shares` field of ValidatorAdded: signature | share pubkeys | encrypted keys.
func (fx *Fixture) SharesData(e Event, nonce int) []byte {
	vk := fx.Vals[e.Val]
	signer := vk.Master
	signedNonce := nonce
	switch e.Sig {
	case SigNonce0:
		signedNonce = 0
	case SigBad:
		signer = fx.Foreign
	}
	hash := crypto.Keccak256([]byte(fmt.Sprintf("%s:%d", fx.Owners[e.Owner].String(), signedNonce)))
	out := signer.SignByte(hash).Serialize()
	for i := range e.Ops {
		out = append(out, vk.SharePub[i]...)
	}
	for i, id := range e.Ops {
		plain := []byte(vk.ShareSec[i].SerializeToHexStr())
		enc := fx.OpKeys[1] // unknown / out-of-range ids: any key, the slot is never decrypted
		if id >= 1 && id < NumOpKeys {
			enc = fx.OpKeys[id]
		}
		var ct []byte
		if id == DefectSlot && e.Share == OwnUndecryptable {
			ct = fx.garbage
		} else {
			if id == DefectSlot && e.Share == OwnNotHex {
				plain = []byte("zz-this-is-not-a-hex-secret-key-zz")
			}
			if id == DefectSlot && e.Share == OwnMismatch {
				plain = []byte(vk.WrongSec.SerializeToHexStr())
			}
			var err error
			ct, err = enc.Public().Encrypt(plain)
			if err != nil {
				panic(err)
			}
		}
		if len(ct) != 256 {
			panic("ciphertext length")
		}
		out = append(out, ct...)
	}
	if e.Share == ShareShort {
		out = out[:len(out)-1]
	}
	if e.Share == ShareLong1 {
		out = append(out, 0x5a)
	}
	if e.Share == ShareLong256 {
		out = append(out, make([]byte, 256)...)
	}
	return out
}

func (fx *Fixture) build(e Event, nonce int) ethtypes.Log {
	owner := fx.Owners[e.Owner]
	switch e.Kind {
	case OpAdd:
		packed, err := eventparser.PackOperatorPublicKey(fx.OpPub[e.OpKey])
		if err != nil {
			panic(err)
		}
		return fx.pack("OperatorAdded", []ethcommon.Hash{u64Topic(e.OpID), addrTopic(owner)}, packed, big.NewInt(100))
	case OpRemove:
		return fx.pack("OperatorRemoved", []ethcommon.Hash{u64Topic(e.OpID)})
	case VAdd:
		return fx.pack("ValidatorAdded", []ethcommon.Hash{addrTopic(owner)}, e.Ops, fx.Vals[e.Val].PubKey, fx.SharesData(e, nonce), cluster())
	case VRemove:
		return fx.pack("ValidatorRemoved", []ethcommon.Hash{addrTopic(owner)}, e.Ops, fx.Vals[e.Val].PubKey, cluster())
	case VExit:
		return fx.pack("ValidatorExited", []ethcommon.Hash{addrTopic(owner)}, e.Ops, fx.Vals[e.Val].PubKey)
	case Liquidate:
		return fx.pack("ClusterLiquidated", []ethcommon.Hash{addrTopic(owner)}, e.Ops, cluster())
	case Reactivate:
		return fx.pack("ClusterReactivated", []ethcommon.Hash{addrTopic(owner)}, e.Ops, cluster())
	case FeeRecipient:
		return fx.pack("FeeRecipientAddressUpdated", []ethcommon.Hash{addrTopic(owner)}, fx.Recips[e.Recipient])
	}
	panic("kind")
}

// ValName gives the symbolic name of a validator public key (V1..), or hex.
func (fx *Fixture) ValName(pk []byte) string {
	for i, v := range fx.Vals {
		if string(v.PubKey) == string(pk) {
			return fmt.Sprintf("V%d", i+1)
		}
	}
	return fmt.Sprintf("%x", pk)
}

// ShareKeyName gives the symbolic name of a share public key ("V1/s0").
func (fx *Fixture) ShareKeyName(pk []byte) string {
	for i, v := range fx.Vals {
		for j, s := range v.SharePub {
			if string(s) == string(pk) {
				return fmt.Sprintf("V%d/s%d", i+1, j)
			}
		}
		if string(v.WrongSec.GetPublicKey().Serialize()) == string(pk) {
			return fmt.Sprintf("V%d/wrong", i+1)
		}
	}
	return fmt.Sprintf("%x", pk)
}

func (fx *Fixture) OwnerName(a ethcommon.Address) string {
	for i, o := range fx.Owners {
		if o == a {
			return string(rune('A' + i))
		}
	}
	return a.Hex()
}

func (fx *Fixture) OpKeyName(pub []byte) string {
	for i := 1; i < NumOpKeys; i++ {
		if string(fx.OpPub[i]) == string(pub) {
			return fmt.Sprintf("K%d", i)
		}
	}
	return "K?"
}

func sortedU64(in []uint64) []uint64 {
	out := append([]uint64{}, in...)
	sort.Slice(out, func(i, j int) bool { return out[i] < out[j] })
	return out
}
