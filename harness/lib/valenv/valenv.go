// Package valenv builds the real message validator of bloxapp/ssv the way
// message/validation's own tests do (node storage on in-memory badger, registered shares and
// operators, duty store), but through exported API only and on a harness-controlled clock:
// netCfg.Beacon is a fake beacon network whose "current slot" is read from the virtual clock
// vtime, and the check's overlay redirects the `time` import of message/validation/validation.go
// to vtime as well, so ValidatePubsubMessage / ValidateSSVMessage see the same frozen instant.
// Used by C08 and C18 (needs {"virtual":{"zzverif/vtime":...}} and the validation.go import
// rewrite in the check's overlay config).
package valenv

import (
	"crypto/sha256"
	"fmt"
	"sync"
	"time"

	eth2apiv1 "github.com/attestantio/go-eth2-client/api/v1"
	"github.com/attestantio/go-eth2-client/spec/phase0"
	specqbft "github.com/bloxapp/ssv-spec/qbft"
	spectypes "github.com/bloxapp/ssv-spec/types"
	spectestingutils "github.com/bloxapp/ssv-spec/types/testingutils"
	"github.com/ethereum/go-ethereum/common"
	"go.uber.org/zap"

	"github.com/bloxapp/ssv/message/validation"
	"github.com/bloxapp/ssv/monitoring/metricsreporter"
	"github.com/bloxapp/ssv/networkconfig"
	"github.com/bloxapp/ssv/operator/duties/dutystore"
	"github.com/bloxapp/ssv/operator/keys"
	operatorstorage "github.com/bloxapp/ssv/operator/storage"
	beaconprotocol "github.com/bloxapp/ssv/protocol/v2/blockchain/beacon"
	ssvtypes "github.com/bloxapp/ssv/protocol/v2/types"
	registrystorage "github.com/bloxapp/ssv/registry/storage"
	"github.com/bloxapp/ssv/storage/basedb"
	"github.com/bloxapp/ssv/storage/kv"
	"github.com/bloxapp/ssv/zzverif/vtime"
)

// FakeBeacon is a beacon network with the real slot arithmetic of beacon.Network and a virtual
// "now".
type FakeBeacon struct {
	beaconprotocol.Network
}

func (f FakeBeacon) EstimatedCurrentSlot() phase0.Slot {
	return f.Network.EstimatedSlotAtTime(vtime.Now().Unix())
}

func (f FakeBeacon) EstimatedCurrentEpoch() phase0.Epoch {
	return f.Network.EstimatedEpochAtSlot(f.EstimatedCurrentSlot())
}

// Validator kinds registered in the node storage.
const (
	VKnown        = iota // active share with beacon metadata
	VLiquidated          // share marked liquidated
	VNoMetadata          // share without beacon metadata
	VNotAttesting        // share whose validator has exited
	VUnknown             // valid BLS key, no share
	NumValidators
)

var ValidatorNames = []string{"known", "liquidated", "no-metadata", "not-attesting", "unknown"}

const ValidatorIndex = 123

// Env is the shared, read-only part: storage, shares, keys, network configs.
type Env struct {
	NS       operatorstorage.Storage
	DB       basedb.Database
	KS       *spectestingutils.TestKeySet
	PKs      [NumValidators][]byte // validator public keys by kind
	Shares   [NumValidators]*ssvtypes.SSVShare
	OpKeys   [5]keys.OperatorPrivateKey  // index = operator id (1..4)
	NetPre   networkconfig.NetworkConfig // signed envelopes not yet active
	NetPost  networkconfig.NetworkConfig // signed envelopes active (current epoch > activation epoch)
	Beacon   FakeBeacon
	Duties   *dutystore.Store
	Cur      phase0.Slot // the slot the virtual clock is in after SetClock(0)
	signMu   sync.Mutex
	signMemo map[string][]byte
}

// CurSlot is the slot every check freezes the clock in: after vtime's epoch (the virtual clock
// only moves forward from 1_700_000_000), ≡ 0 mod 4, 7, 10 and 13 so the round-robin leader of
// round 1 is committee[0] for every committee size, and 24 slots into its epoch (no epoch
// boundary at CurSlot or CurSlot-1).
const CurSlot phase0.Slot = 3640 * 1913 // 6963320

// New builds the environment. The virtual clock is set to offsetInSlot after the start of CurSlot.
func New() (*Env, error) {
	logger := zap.NewNop()
	db, err := kv.NewInMemory(logger, basedb.Options{})
	if err != nil {
		return nil, err
	}
	ns, err := operatorstorage.NewNodeStorage(logger, db)
	if err != nil {
		return nil, err
	}
	e := &Env{NS: ns, DB: db, KS: spectestingutils.Testing4SharesSet(), Cur: CurSlot, signMemo: map[string][]byte{}}
	e.Beacon = FakeBeacon{beaconprotocol.NewNetwork(spectypes.PraterNetwork)}
	e.NetPre = networkconfig.TestNetwork
	e.NetPre.Beacon = e.Beacon
	e.NetPre.PermissionlessActivationEpoch = 1 << 40
	e.NetPost = e.NetPre
	e.NetPost.PermissionlessActivationEpoch = 0
	e.SetClock(0, 1*time.Second)

	ks := e.KS
	e.PKs[VKnown] = ks.ValidatorPK.Serialize()
	e.PKs[VLiquidated] = ks.Shares[1].GetPublicKey().Serialize()
	e.PKs[VNoMetadata] = ks.Shares[2].GetPublicKey().Serialize()
	e.PKs[VNotAttesting] = ks.Shares[3].GetPublicKey().Serialize()
	e.PKs[VUnknown] = ks.Shares[4].GetPublicKey().Serialize()
	for kind := 0; kind < NumValidators; kind++ {
		if kind == VUnknown {
			continue
		}
		sh := &ssvtypes.SSVShare{Share: *spectestingutils.TestingShare(ks)}
		sh.ValidatorPubKey = e.PKs[kind]
		sh.DomainType = e.NetPre.Domain
		switch kind {
		case VKnown:
			sh.Metadata.BeaconMetadata = &beaconprotocol.ValidatorMetadata{Status: eth2apiv1.ValidatorStateActiveOngoing, Index: ValidatorIndex}
		case VLiquidated:
			sh.Metadata.BeaconMetadata = &beaconprotocol.ValidatorMetadata{Status: eth2apiv1.ValidatorStateActiveOngoing, Index: ValidatorIndex + 1}
			sh.Metadata.Liquidated = true
		case VNotAttesting:
			sh.Metadata.BeaconMetadata = &beaconprotocol.ValidatorMetadata{Status: eth2apiv1.ValidatorStateExitedUnslashed, Index: ValidatorIndex + 2}
		}
		if err := ns.Shares().Save(nil, sh); err != nil {
			return nil, err
		}
		e.Shares[kind] = sh
	}
	for id := 1; id <= 4; id++ {
		k, err := keys.PrivateKeyFromBytes([]byte(operatorKeyPEM[id-1]))
		if err != nil {
			return nil, fmt.Errorf("operator key %d: %w", id, err)
		}
		pub, err := k.Public().Base64()
		if err != nil {
			return nil, err
		}
		if _, err := ns.SaveOperatorData(nil, &registrystorage.OperatorData{ID: spectypes.OperatorID(id), PublicKey: pub, OwnerAddress: common.Address{}}); err != nil {
			return nil, err
		}
		e.OpKeys[id] = k
	}
	// duties for the known validator in the slots histories and inputs use
	e.Duties = dutystore.New()
	for s := CurSlot - 40; s <= CurSlot+2; s++ {
		e.Duties.Proposer.Add(e.Beacon.EstimatedEpochAtSlot(s), s, ValidatorIndex, &eth2apiv1.ProposerDuty{}, true)
	}
	period := e.Beacon.EstimatedSyncCommitteePeriodAtEpoch(e.Beacon.EstimatedEpochAtSlot(CurSlot))
	e.Duties.SyncCommittee.Add(period, ValidatorIndex, &eth2apiv1.SyncCommitteeDuty{}, true)
	return e, nil
}

// SetClock freezes the virtual clock at start(CurSlot+slotDelta)+intoSlot.
func (e *Env) SetClock(slotDelta int, intoSlot time.Duration) {
	vtime.ResetClock()
	vtime.Set(e.Beacon.GetSlotStartTime(phase0.Slot(int64(CurSlot) + int64(slotDelta))).Add(intoSlot))
}

// Recorder is a metrics reporter that remembers why the last pubsub message was not accepted
// (the reason text the validator itself reports), everything else is the repo's nop reporter.
type Recorder struct {
	metricsreporter.MetricsReporter
	Last string
}

func (r *Recorder) MessageAccepted(role spectypes.BeaconRole, round specqbft.Round) {
	r.Last = "accept"
}
func (r *Recorder) MessageIgnored(reason string, role spectypes.BeaconRole, round specqbft.Round) {
	r.Last = "ignore: " + reason
}
func (r *Recorder) MessageRejected(reason string, role spectypes.BeaconRole, round specqbft.Round) {
	r.Last = "reject: " + reason
}

// NewValidator returns a fresh real validator on the shared storage. post selects the network
// config in which signed envelopes are active.
func (e *Env) NewValidator(post bool) (validation.MessageValidator, *Recorder) {
	rec := &Recorder{MetricsReporter: metricsreporter.NewNop()}
	cfg := e.NetPre
	if post {
		cfg = e.NetPost
	}
	v := validation.NewMessageValidator(cfg, validation.WithNodeStorage(e.NS), validation.WithDutyStore(e.Duties), validation.WithMetrics(rec))
	return v, rec
}

// Sign returns operator id's RSA signature of data (memoised: PKCS#1 v1.5 is deterministic).
func (e *Env) Sign(id int, data []byte) []byte {
	h := sha256.Sum256(data)
	key := fmt.Sprintf("%d|%x", id, h)
	e.signMu.Lock()
	if s, ok := e.signMemo[key]; ok {
		e.signMu.Unlock()
		return s
	}
	e.signMu.Unlock()
	sig, err := e.OpKeys[id].Sign(data)
	if err != nil {
		panic(err)
	}
	e.signMu.Lock()
	if len(e.signMemo) < 1<<16 {
		e.signMemo[key] = sig
	}
	e.signMu.Unlock()
	return sig
}
