// Package enum is the shared part of engine E4 (bounded-exhaustive input enumeration):
// mixed-radix products, the byte-level mutation alphabet of DESIGN §2.4, a panic guard that
// names the implementation frame, an allocation meter and a pool of single-threaded worker
// processes (one evaluation at a time per process, so allocation deltas and fatal runtime errors
// are attributable to one input). Nothing here is random: every enumeration is a fixed order and
// sharding is by ordinal.
package enum

import (
	"bytes"
	"encoding/json"
	"fmt"
	"os"
	"os/exec"
	"runtime"
	"runtime/metrics"
	"strconv"
	"strings"
	"sync"
)

// Size of a mixed-radix space.
func Size(dims []int) int {
	n := 1
	for _, d := range dims {
		n *= d
	}
	return n
}

// Product calls fn with every index tuple of dims (last index fastest). idx is reused.
// fn returning false stops the enumeration; Product reports whether it ran to the end.
func Product(dims []int, fn func(idx []int) bool) bool {
	for _, d := range dims {
		if d == 0 {
			return true
		}
	}
	idx := make([]int, len(dims))
	for {
		if !fn(idx) {
			return false
		}
		k := len(dims) - 1
		for k >= 0 {
			idx[k]++
			if idx[k] < dims[k] {
				break
			}
			idx[k] = 0
			k--
		}
		if k < 0 {
			return true
		}
	}
}

// SubstValues is the substitution alphabet of DESIGN §2.4.
var SubstValues = []byte{0x00, 0x01, 0x7f, 0x80, 0xff}

// Truncations calls fn with every proper prefix of b (lengths 0..len-1), each a fresh copy.
func Truncations(b []byte, fn func(n int, m []byte)) {
	for n := 0; n < len(b); n++ {
		fn(n, append([]byte{}, b[:n]...))
	}
}

// Substitutions calls fn with every single-byte substitution of b by a value of vals that
// differs from the original byte, each a fresh copy.
func Substitutions(b []byte, vals []byte, fn func(pos int, v byte, m []byte)) {
	for pos := range b {
		for _, v := range vals {
			if b[pos] == v {
				continue
			}
			m := append([]byte{}, b...)
			m[pos] = v
			fn(pos, v, m)
		}
	}
}

// ShortStrings calls fn with every byte string of length 0..maxLen (maxLen ≤ 3).
func ShortStrings(maxLen int, fn func(m []byte)) {
	fn([]byte{})
	for l := 1; l <= maxLen; l++ {
		dims := make([]int, l)
		for i := range dims {
			dims[i] = 256
		}
		Product(dims, func(idx []int) bool {
			m := make([]byte, l)
			for i, v := range idx {
				m[i] = byte(v)
			}
			fn(m)
			return true
		})
	}
}

// ---- panic guard ----

// PanicInfo describes a recovered panic.
type PanicInfo struct {
	Value string   `json:"value"`
	Frame string   `json:"frame"` // innermost function of bloxapp/ssv or bloxapp/ssv-spec on the stack
	Stack []string `json:"stack"` // function names, innermost first (runtime frames dropped)
}

// ImplPrefixes are the import-path prefixes that count as "the implementation" when naming the
// frame of a panic.
var ImplPrefixes = []string{"github.com/bloxapp/ssv-spec/", "github.com/bloxapp/ssv/"}

// Guard runs fn and returns a description of the panic it raised, or nil.
func Guard(fn func()) (p *PanicInfo) {
	defer func() {
		if r := recover(); r != nil {
			p = &PanicInfo{Value: fmt.Sprint(r)}
			pcs := make([]uintptr, 64)
			n := runtime.Callers(2, pcs)
			frames := runtime.CallersFrames(pcs[:n])
			for {
				f, more := frames.Next()
				name := f.Function
				if name != "" && !strings.HasPrefix(name, "runtime.") && !strings.Contains(name, "lib/enum.Guard") {
					if len(p.Stack) < 24 {
						p.Stack = append(p.Stack, name)
					}
					if p.Frame == "" && !strings.Contains(name, "/zzverif/") {
						for _, pre := range ImplPrefixes {
							if strings.HasPrefix(name, pre) {
								p.Frame = strings.TrimPrefix(name, "github.com/bloxapp/")
							}
						}
					}
				}
				if !more {
					break
				}
			}
			if p.Frame == "" {
				if len(p.Stack) > 0 {
					p.Frame = p.Stack[0]
				} else {
					p.Frame = "unknown"
				}
			}
		}
	}()
	fn()
	return nil
}

// ---- allocation meter ----

var allocSample = []metrics.Sample{{Name: "/gc/heap/allocs:bytes"}}

// AllocBytes is the cumulative number of heap bytes allocated by this process. Large objects are
// accounted immediately, small ones when their span is handed back (lag below ~1 MiB), which is
// far inside the 4 MiB slack of the allocation oracle. Meaningful as a per-call delta only in a
// process that runs one evaluation at a time.
func AllocBytes() uint64 {
	metrics.Read(allocSample)
	return allocSample[0].Value.Uint64()
}

// ---- worker processes ----

// ShardEnv is set in worker processes: "<index>/<count>".
const ShardEnv = "VERIF_ENUM_SHARD"

// Shard reports whether this process is a worker and which ordinals (ord % n == i) it owns.
func Shard() (i, n int, worker bool) {
	v := os.Getenv(ShardEnv)
	if v == "" {
		return 0, 1, false
	}
	parts := strings.SplitN(v, "/", 2)
	if len(parts) != 2 {
		return 0, 1, false
	}
	i, _ = strconv.Atoi(parts[0])
	n, _ = strconv.Atoi(parts[1])
	if n <= 0 || i < 0 || i >= n {
		return 0, 1, false
	}
	return i, n, true
}

// ShardOutput is what the parent gets back from one worker.
type ShardOutput struct {
	Index  int
	Stdout []byte // the worker's result document
	Stderr string // tail of stderr (Go's fatal-error / crash report ends up here)
	Err    error  // non-nil when the worker did not exit 0
}

// Spawn re-executes this binary n times with the same arguments as single-threaded-evaluation
// workers (ShardEnv set, rot rotates which worker gets which shard index — VERIF_SEED) and waits
// for all of them.
func Spawn(n, rot int, extraEnv ...string) []ShardOutput {
	outs := make([]ShardOutput, n)
	var wg sync.WaitGroup
	for w := 0; w < n; w++ {
		wg.Add(1)
		go func(w int) {
			defer wg.Done()
			idx := (w + rot) % n
			cmd := exec.Command(os.Args[0], os.Args[1:]...)
			cmd.Env = append(append(os.Environ(), fmt.Sprintf("%s=%d/%d", ShardEnv, idx, n)), extraEnv...)
			var so, se bytes.Buffer
			cmd.Stdout = &so
			cmd.Stderr = &se
			err := cmd.Run()
			tail := se.String()
			if len(tail) > 16384 {
				tail = tail[:16384]
			}
			outs[idx] = ShardOutput{Index: idx, Stdout: so.Bytes(), Stderr: tail, Err: err}
		}(w)
	}
	wg.Wait()
	return outs
}

// Emit writes a worker's result document to stdout.
func Emit(v interface{}) {
	b, err := json.Marshal(v)
	if err != nil {
		fmt.Fprintln(os.Stderr, "enum.Emit:", err)
		os.Exit(3)
	}
	os.Stdout.Write(b)
}

// FatalFrame extracts, from a Go crash report on stderr ("fatal error: …" / "panic: …" followed
// by goroutine stacks), the message and the innermost implementation function.
func FatalFrame(stderr string) (msg, frame string) {
	lines := strings.Split(stderr, "\n")
	for _, l := range lines {
		if msg == "" && (strings.HasPrefix(l, "fatal error:") || strings.HasPrefix(l, "panic:") || strings.HasPrefix(l, "runtime:")) {
			msg = strings.TrimSpace(l)
		}
		if frame == "" {
			for _, pre := range ImplPrefixes {
				if strings.HasPrefix(l, pre) && !strings.Contains(l, "/zzverif/") {
					f := l
					if i := strings.LastIndex(f, "("); i > 0 {
						f = f[:i]
					}
					frame = strings.TrimPrefix(f, "github.com/bloxapp/")
				}
			}
		}
	}
	if msg == "" {
		msg = "worker died"
	}
	if frame == "" {
		frame = "unknown"
	}
	return
}
