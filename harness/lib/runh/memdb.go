package runh

import (
	"bytes"
	"sort"

	"github.com/bloxapp/ssv/storage/basedb"
)

// MemDB is a trivial map-backed basedb.Database for checks in which the storage engine is not
// under test (C03): the real ibft/storage code runs on top of it. No transactions.
type MemDB struct{ m map[string][]byte }

func NewMemDB() *MemDB { return &MemDB{m: map[string][]byte{}} }

func k(prefix, key []byte) string { return string(prefix) + string(key) }

func (d *MemDB) Get(prefix, key []byte) (basedb.Obj, bool, error) {
	v, ok := d.m[k(prefix, key)]
	if !ok {
		return basedb.Obj{}, false, nil
	}
	return basedb.Obj{Key: key, Value: append([]byte{}, v...)}, true, nil
}

func (d *MemDB) GetMany(prefix []byte, keys [][]byte, it func(basedb.Obj) error) error {
	for _, key := range keys {
		if o, ok, _ := d.Get(prefix, key); ok {
			if err := it(o); err != nil {
				return err
			}
		}
	}
	return nil
}

func (d *MemDB) keys(prefix []byte) []string {
	var ks []string
	for key := range d.m {
		if bytes.HasPrefix([]byte(key), prefix) {
			ks = append(ks, key)
		}
	}
	sort.Strings(ks)
	return ks
}

func (d *MemDB) GetAll(prefix []byte, h func(int, basedb.Obj) error) error {
	for i, key := range d.keys(prefix) {
		if err := h(i, basedb.Obj{Key: []byte(key[len(prefix):]), Value: append([]byte{}, d.m[key]...)}); err != nil {
			return err
		}
	}
	return nil
}

func (d *MemDB) Set(prefix, key, value []byte) error {
	d.m[k(prefix, key)] = append([]byte{}, value...)
	return nil
}

func (d *MemDB) SetMany(prefix []byte, n int, next func(int) (basedb.Obj, error)) error {
	for i := 0; i < n; i++ {
		o, err := next(i)
		if err != nil {
			return err
		}
		_ = d.Set(prefix, o.Key, o.Value)
	}
	return nil
}

func (d *MemDB) Delete(prefix, key []byte) error { delete(d.m, k(prefix, key)); return nil }

func (d *MemDB) CountPrefix(prefix []byte) (int64, error) { return int64(len(d.keys(prefix))), nil }

func (d *MemDB) DeletePrefix(prefix []byte) (int, error) {
	ks := d.keys(prefix)
	for _, key := range ks {
		delete(d.m, key)
	}
	return len(ks), nil
}

func (d *MemDB) DropPrefix(prefix []byte) error { _, err := d.DeletePrefix(prefix); return err }

func (d *MemDB) Begin() basedb.Txn                            { panic("runh.MemDB: no transactions") }
func (d *MemDB) BeginRead() basedb.ReadTxn                    { panic("runh.MemDB: no transactions") }
func (d *MemDB) Update(fn func(basedb.Txn) error) error       { panic("runh.MemDB: no transactions") }
func (d *MemDB) Using(rw basedb.ReadWriter) basedb.ReadWriter { return d }
func (d *MemDB) UsingReader(r basedb.Reader) basedb.Reader    { return d }
func (d *MemDB) Close() error                                 { return nil }
