package runh

import (
	"fmt"
	"sort"
	"strings"
	"sync"
	"sync/atomic"

	"verifharness/lib/ev"
)

// Step is one transition label: base event E of the alphabet, variant V (0 = plain execution,
// k > 0 = the k-th fault variant the harness offered for (state, E), e.g. a crash point).
type Step struct{ E, V int }

// Viol is a violation found while applying a step.
type Viol struct {
	Signature string
	What      string
	Observed  interface{}
	Expected  interface{}
}

// Sys is a live system under exploration: real objects + the harness's oracle state.
type Sys interface {
	// Apply executes one step on the real objects and evaluates the oracle. It returns an
	// outcome label (for the histogram), the violations of this step, and — for V == 0 —
	// how many further variants of E exist from the state before the step.
	Apply(s Step) (outcome string, viols []Viol, variants int)
	// Hash is the canonical state (implementation state in its own encoding + harness-owned
	// environment + oracle state).
	Hash() [32]byte
	Close()
}

// Config of one exploration.
type Config struct {
	Name      string // harness name, recorded in artefacts
	NumEvents int
	EventName func(Step) string
	New       func(worker int) Sys // fresh real objects in the initial state
	Depth     int
	Workers   int
	MaxStates int // safety cap (0 = none)
}

type Result struct {
	States      int
	Transitions int
	Replays     int // worlds rebuilt by replay
	ReplaySteps int
	Levels      []int // new states per depth
	Complete    bool
	Outcomes    map[string]int
}

type nodeT struct {
	hash [32]byte
	path []Step
}

func lessPath(a, b []Step) bool {
	for i := range a {
		if i >= len(b) {
			return false
		}
		if a[i] != b[i] {
			if a[i].E != b[i].E {
				return a[i].E < b[i].E
			}
			return a[i].V < b[i].V
		}
	}
	return len(a) < len(b)
}

// PathNames renders a path.
func PathNames(c *Config, p []Step) []string {
	out := make([]string, len(p))
	for i, s := range p {
		out[i] = c.EventName(s)
	}
	return out
}

// Explore runs a level-synchronous breadth-first search. Successor = fresh objects + replay of
// the recorded path + one step; when a step leaves the canonical state unchanged the same live
// objects are reused for the next event (sound under exactly the assumption dedup makes: equal
// canonical state ⇒ equal future).
func Explore(r *ev.Run, c *Config) Result {
	res := Result{Complete: true, Outcomes: map[string]int{}}
	init := c.New(0)
	h0 := init.Hash()
	init.Close()
	seen := map[[32]byte]struct{}{h0: {}}
	frontier := []nodeT{{hash: h0}}
	res.Levels = append(res.Levels, 1)
	var trans, replays, rsteps int64
	var mu sync.Mutex

	for d := 0; d < c.Depth && len(frontier) > 0; d++ {
		next := map[[32]byte][]Step{}
		var idx int64 = -1
		var wg sync.WaitGroup
		var stop int32
		for wk := 0; wk < c.Workers; wk++ {
			wg.Add(1)
			go func(wk int) {
				defer wg.Done()
				outc := map[string]int{}
				local := map[[32]byte][]Step{}
				var sys Sys
				build := func(n *nodeT) {
					if sys != nil {
						sys.Close()
					}
					sys = c.New(wk)
					for _, s := range n.path {
						sys.Apply(s)
					}
					atomic.AddInt64(&replays, 1)
					atomic.AddInt64(&rsteps, int64(len(n.path)))
					if got := sys.Hash(); got != n.hash {
						ev.Fatal("%s: replay diverged after %v (state hash differs from the one recorded when the path was first explored)", c.Name, PathNames(c, n.path))
					}
				}
				record := func(n *nodeT, s Step, h [32]byte) {
					p := make([]Step, len(n.path)+1)
					copy(p, n.path)
					p[len(n.path)] = s
					if old, ok := local[h]; !ok || lessPath(p, old) {
						local[h] = p
					}
				}
				for atomic.LoadInt32(&stop) == 0 {
					i := int(atomic.AddInt64(&idx, 1))
					if i >= len(frontier) {
						break
					}
					if r.Expired() {
						atomic.StoreInt32(&stop, 1)
						break
					}
					n := &frontier[i]
					build(n)
					for e := 0; e < c.NumEvents; e++ {
						st := Step{e, 0}
						out, viols, nv := sys.Apply(st)
						atomic.AddInt64(&trans, 1)
						outc[out]++
						h := sys.Hash()
						report(r, c, wk, n.path, st, viols)
						record(n, st, h)
						dirty := h != n.hash
						for v := 1; v <= nv; v++ {
							build(n)
							sv := Step{e, v}
							out, viols, _ := sys.Apply(sv)
							atomic.AddInt64(&trans, 1)
							outc[out]++
							report(r, c, wk, n.path, sv, viols)
							record(n, sv, sys.Hash())
							dirty = true
						}
						if dirty && e+1 < c.NumEvents {
							build(n)
						}
					}
				}
				if sys != nil {
					sys.Close()
				}
				mu.Lock()
				for k, v := range outc {
					res.Outcomes[k] += v
				}
				for h, p := range local {
					if _, ok := seen[h]; ok {
						continue
					}
					if old, ok := next[h]; !ok || lessPath(p, old) {
						next[h] = p
					}
				}
				mu.Unlock()
			}(wk)
		}
		wg.Wait()
		if stop != 0 {
			r.CapHit(fmt.Sprintf("%s: deadline while expanding depth %d", c.Name, d))
			res.Complete = false
		}
		frontier = frontier[:0]
		for h, p := range next {
			seen[h] = struct{}{}
			frontier = append(frontier, nodeT{hash: h, path: p})
		}
		// deterministic order of the next frontier (and of the sampled states)
		sort.Slice(frontier, func(i, j int) bool { return lessPath(frontier[i].path, frontier[j].path) })
		res.Levels = append(res.Levels, len(frontier))
		if len(frontier) > 0 {
			r.Sample(map[string]interface{}{"harness": c.Name, "depth": d + 1, "path": PathNames(c, frontier[len(frontier)/2].path)})
		}
		if !res.Complete {
			break
		}
		if c.MaxStates > 0 && len(seen) > c.MaxStates {
			r.CapHit(fmt.Sprintf("%s: state cap %d at depth %d", c.Name, c.MaxStates, d+1))
			res.Complete = false
			break
		}
	}
	res.States = len(seen)
	res.Transitions = int(trans)
	res.Replays = int(replays)
	res.ReplaySteps = int(rsteps)
	return res
}

// ScratchWorker is the offset of the worker ids used for confirmation re-runs (they must not
// share per-worker resources with the live world of the exploring worker).
const ScratchWorker = 32

var reportMu sync.Mutex
var reported = map[string]bool{}

// report confirms a violation by re-running the path on fresh objects (5 times) and records it.
func report(r *ev.Run, c *Config, wk int, path []Step, s Step, viols []Viol) {
	if len(viols) == 0 {
		return
	}
	full := append(append([]Step{}, path...), s)
	for _, v := range viols {
		reportMu.Lock()
		dup := reported[c.Name+"|"+v.Signature]
		reported[c.Name+"|"+v.Signature] = true
		reportMu.Unlock()
		if dup {
			continue
		}
		for i := 0; i < 5; i++ {
			if !Reproduce(c, ScratchWorker+wk, full, v.Signature) {
				ev.Fatal("%s: violation %q on %v did not reproduce on fresh objects (non-deterministic harness)", c.Name, v.Signature, PathNames(c, full))
			}
		}
		enc := make([][2]int, len(full))
		for i, st := range full {
			enc[i] = [2]int{st.E, st.V}
		}
		r.Violate(v.Signature, v.What, c.Name, map[string]interface{}{"events": PathNames(c, full), "steps": enc}, v.Observed, v.Expected)
	}
}

// Reproduce re-executes a path on fresh real objects and tells whether the last step shows the
// violation with the given signature.
func Reproduce(c *Config, worker int, full []Step, sig string) bool {
	sys := c.New(worker)
	defer sys.Close()
	for i, s := range full {
		_, viols, _ := sys.Apply(s)
		if i == len(full)-1 {
			for _, v := range viols {
				if v.Signature == sig {
					return true
				}
			}
		}
	}
	return false
}

// ReplayArtefact re-applies the recorded steps of a violation artefact on fresh real objects,
// printing every step. Returns true when the recorded violation shows again.
func ReplayArtefact(c *Config, v ev.Violation) bool {
	tr, _ := v.Trace.(map[string]interface{})
	raw, _ := tr["steps"].([]interface{})
	sys := c.New(0)
	defer sys.Close()
	again := false
	for i, x := range raw {
		pr := x.([]interface{})
		s := Step{int(pr[0].(float64)), int(pr[1].(float64))}
		out, viols, _ := sys.Apply(s)
		fmt.Printf("  %2d. %-44s -> %s\n", i+1, c.EventName(s), out)
		for _, vv := range viols {
			fmt.Printf("      violation: %s (%s)\n", vv.Signature, vv.What)
			if i == len(raw)-1 && vv.Signature == v.Signature {
				again = true
			}
		}
	}
	return again
}

// ReplayArtefactByName is ReplayArtefact for harnesses whose event indices depend on the tier:
// the recorded event names are looked up in the given configuration (base name before " !crash").
func ReplayArtefactByName(c *Config, v ev.Violation) bool {
	tr, _ := v.Trace.(map[string]interface{})
	names, _ := tr["events"].([]interface{})
	raw, _ := tr["steps"].([]interface{})
	idx := map[string]int{}
	for e := 0; e < c.NumEvents; e++ {
		idx[c.EventName(Step{e, 0})] = e
	}
	steps := make([]interface{}, len(raw))
	for i, x := range raw {
		pr := x.([]interface{})
		name, _ := names[i].(string)
		if k := strings.Index(name, " !crash"); k >= 0 {
			name = name[:k]
		}
		e, ok := idx[name]
		if !ok {
			ev.Fatal("event %q of the artefact is not in the alphabet of %s", name, c.Name)
		}
		steps[i] = []interface{}{float64(e), pr[1]}
	}
	tr["steps"] = steps
	v.Trace = tr
	return ReplayArtefact(c, v)
}
