// Package runh builds real duty runners / controllers / validators of bloxapp/ssv the way
// operator/validator.SetupRunners does, around harness-owned doubles of the environment
// (recording key manager, capturing network, inert round timer, recording/crashing DB proxy),
// builds real BLS-signed protocol messages for them, and contains the small explicit-state
// engine (replay-based successor computation, canonical-state dedup, worker pool) that the
// C03 and C15 checks share.
package runh

import (
	"bytes"
	"context"
	"crypto/sha256"
	"encoding/hex"
	"errors"
	"os"
	"sort"
	"sync"

	"github.com/attestantio/go-eth2-client/spec/phase0"
	spectypes "github.com/bloxapp/ssv-spec/types"
	"github.com/bloxapp/ssv-spec/types/testingutils"
	ssz "github.com/ferranbt/fastssz"
	"github.com/herumi/bls-eth-go-binary/bls"
	"go.uber.org/zap"

	specqbft "github.com/bloxapp/ssv-spec/qbft"

	"github.com/bloxapp/ssv/storage/basedb"
	"github.com/bloxapp/ssv/storage/kv"
)

// ---- keys ----

var (
	ksOnce sync.Once
	ks     *testingutils.TestKeySet
)

// KeySet returns the (cached) spec testing key set: 4 operators, or 7 when the process was
// started with VERIF_RUNH_N=7 (one committee size per process). Read-only after creation.
func KeySet() *testingutils.TestKeySet {
	ksOnce.Do(func() {
		if os.Getenv("VERIF_RUNH_N") == "7" {
			ks = testingutils.Testing7SharesSet()
		} else {
			ks = testingutils.Testing4SharesSet()
		}
	})
	return ks
}

// Domain is the SSV signature domain the whole harness runs under. The spec testing key
// manager signs under this domain, so the node is configured for the same network
// (ssvtypes.SetDefaultDomain(Domain) — what cli/operator/node.go does at boot).
var Domain = testingutils.TestingSSVDomainType

// SharePK returns the serialized public key of operator id's share.
func SharePK(id spectypes.OperatorID) []byte {
	pkOnce.Do(func() {
		for i, sk := range KeySet().Shares {
			sharePKs[i] = sk.GetPublicKey().Serialize()
		}
	})
	return sharePKs[id]
}

var (
	pkOnce   sync.Once
	sharePKs = map[spectypes.OperatorID][]byte{}
)

// ---- recording key manager ----

// SignCall is one call of the validator-share signer.
type SignCall struct {
	Kind       string // "beacon" (SignBeaconObject) | "root" (SignRoot)
	Root       [32]byte
	DomainType phase0.DomainType       // beacon only
	SigType    spectypes.SignatureType // root only
	PK         string                  // hex of the key asked for
	Inner      [][32]byte              // root + PartialSignatureType: the signing roots wrapped by the signed container
	QBFT       *specqbft.Message       // root + QBFTSignatureType: the consensus message signed
	Failed     bool
}

func (c SignCall) String() string {
	if c.Kind == "beacon" {
		return "beacon dom=" + hex.EncodeToString(c.DomainType[:]) + " root=" + hex.EncodeToString(c.Root[:6])
	}
	return "root sigtype=" + hex.EncodeToString(c.SigType[:]) + " root=" + hex.EncodeToString(c.Root[:6])
}

// RecKM wraps a spectypes.KeyManager and logs every signing call. One per world; not shared.
type RecKM struct {
	Inner spectypes.KeyManager
	Log   []SignCall
}

func NewRecKM() *RecKM { return &RecKM{Inner: testingutils.NewTestingKeyManager()} }

func (k *RecKM) SignBeaconObject(obj ssz.HashRoot, domain phase0.Domain, pk []byte, domainType phase0.DomainType) (spectypes.Signature, [32]byte, error) {
	sig, r, err := k.Inner.SignBeaconObject(obj, domain, pk, domainType)
	k.Log = append(k.Log, SignCall{Kind: "beacon", Root: r, DomainType: domainType, PK: hex.EncodeToString(pk), Failed: err != nil})
	return sig, r, err
}

func (k *RecKM) SignRoot(data spectypes.Root, sigType spectypes.SignatureType, pk []byte) (spectypes.Signature, error) {
	sig, err := k.Inner.SignRoot(data, sigType, pk)
	c := SignCall{Kind: "root", SigType: sigType, PK: hex.EncodeToString(pk), Failed: err != nil}
	if r, e := data.GetRoot(); e == nil {
		c.Root = r
	}
	switch d := data.(type) {
	case spectypes.PartialSignatureMessages:
		for _, m := range d.Messages {
			c.Inner = append(c.Inner, m.SigningRoot)
		}
	case *spectypes.PartialSignatureMessages:
		for _, m := range d.Messages {
			c.Inner = append(c.Inner, m.SigningRoot)
		}
	case *specqbft.Message:
		cp := *d
		c.QBFT = &cp
	}
	k.Log = append(k.Log, c)
	return sig, err
}

func (k *RecKM) IsAttestationSlashable(pk []byte, data *phase0.AttestationData) error {
	return k.Inner.IsAttestationSlashable(pk, data)
}
func (k *RecKM) IsBeaconBlockSlashable(pk []byte, slot phase0.Slot) error {
	return k.Inner.IsBeaconBlockSlashable(pk, slot)
}
func (k *RecKM) AddShare(sk *bls.SecretKey) error { return nil } // the testing key manager is a shared singleton: never mutated
func (k *RecKM) RemoveShare(pk string) error      { return nil }

// LogDigest hashes the ordered signer log (part of the canonical state of C03).
func (k *RecKM) LogDigest() [32]byte {
	h := sha256.New()
	for _, c := range k.Log {
		h.Write([]byte(c.Kind))
		h.Write(c.Root[:])
		h.Write(c.DomainType[:])
		h.Write(c.SigType[:])
		h.Write([]byte(c.PK))
		if c.Failed {
			h.Write([]byte{1})
		}
	}
	var out [32]byte
	copy(out[:], h.Sum(nil))
	return out
}

// ---- capturing network, inert timer ----

// CapNet captures broadcasts and accepts subscriptions (p2p.Broadcaster + p2p.Subscriber).
type CapNet struct {
	Broadcasts []*spectypes.SSVMessage
	Subscribed int
}

func (n *CapNet) Broadcast(m *spectypes.SSVMessage) error {
	n.Broadcasts = append(n.Broadcasts, m)
	return nil
}
func (n *CapNet) Subscribe(vpk spectypes.ValidatorPK) error { n.Subscribed++; return nil }

// InertTimer records timer arming and never fires: round timeouts are not in the alphabets of
// C03/C15 (time is not part of either property); being a non-*RoundTimer it also keeps
// BaseRunner.registerTimeoutHandler inert.
type InertTimer struct{ Armed int }

func (t *InertTimer) TimeoutForRound(height specqbft.Height, round specqbft.Round) { t.Armed++ }

// ---- DB: real in-memory badger behind a recording / crashing proxy ----

// CrashSentinel is the panic value of an injected crash.
type CrashSentinel struct {
	Call int
	Mode string
}

// DBProxy forwards to the real database, counts write calls and can crash (panic with
// CrashSentinel) immediately before or immediately after the k-th write call.
type DBProxy struct {
	basedb.Database
	TotalWrites int    // write calls since the proxy was created
	Writes      int    // write calls seen since Arm/Reset
	CrashAt     int    // 0 = never
	CrashMode   string // "before" | "after" | "error" (the k-th write call fails with an error and is not performed; no crash)
	Injected    bool   // the "error" fault was delivered
	failNow     bool
	WriteLog    []string
}

// ErrInjectedWrite is the error an "error" fault makes a write call return.
var ErrInjectedWrite = errors.New("runh: injected database write error")

func (p *DBProxy) ResetCounters() {
	p.Writes, p.CrashAt, p.CrashMode, p.WriteLog, p.Injected, p.failNow = 0, 0, "", nil, false, false
}

func (p *DBProxy) pre(what string, prefix, key []byte) {
	p.Writes++
	p.TotalWrites++
	p.WriteLog = append(p.WriteLog, what+" "+printable(key))
	if p.CrashAt == p.Writes && p.CrashMode == "before" {
		panic(CrashSentinel{p.Writes, "before"})
	}
	if p.CrashAt == p.Writes && p.CrashMode == "error" {
		p.failNow, p.Injected = true, true
	}
}

// fail reports (once) that the current write call must return ErrInjectedWrite instead of writing.
func (p *DBProxy) fail() bool {
	f := p.failNow
	p.failNow = false
	return f
}
func (p *DBProxy) post() {
	if p.CrashAt == p.Writes && p.CrashMode == "after" {
		panic(CrashSentinel{p.Writes, "after"})
	}
}

func printable(b []byte) string {
	for i, c := range b {
		if c < 32 || c > 126 {
			return string(b[:i]) + "#" + hex.EncodeToString(b[i:])
		}
	}
	return string(b)
}

func (p *DBProxy) Set(prefix, key, value []byte) error {
	p.pre("Set", prefix, key)
	if p.fail() {
		return ErrInjectedWrite
	}
	err := p.Database.Set(prefix, key, value)
	p.post()
	return err
}
func (p *DBProxy) Delete(prefix, key []byte) error {
	p.pre("Delete", prefix, key)
	if p.fail() {
		return ErrInjectedWrite
	}
	err := p.Database.Delete(prefix, key)
	p.post()
	return err
}
func (p *DBProxy) SetMany(prefix []byte, n int, next func(int) (basedb.Obj, error)) error {
	p.pre("SetMany", prefix, nil)
	if p.fail() {
		return ErrInjectedWrite
	}
	err := p.Database.SetMany(prefix, n, next)
	p.post()
	return err
}
func (p *DBProxy) DeletePrefix(prefix []byte) (int, error) {
	p.pre("DeletePrefix", prefix, nil)
	if p.fail() {
		return 0, ErrInjectedWrite
	}
	n, err := p.Database.DeletePrefix(prefix)
	p.post()
	return n, err
}
func (p *DBProxy) DropPrefix(prefix []byte) error {
	p.pre("DropPrefix", prefix, nil)
	if p.fail() {
		return ErrInjectedWrite
	}
	err := p.Database.DropPrefix(prefix)
	p.post()
	return err
}

// transactions are not used by ibft/storage; if that changes the enumeration of crash points
// would silently miss writes, so make it loud.
func (p *DBProxy) Begin() basedb.Txn {
	panic("runh.DBProxy: ibft/storage started using transactions; extend the proxy")
}
func (p *DBProxy) Update(fn func(basedb.Txn) error) error {
	panic("runh.DBProxy: ibft/storage started using transactions; extend the proxy")
}

// WorkerDB is a per-worker real in-memory badger that is wiped between worlds and recycled now
// and then (badger keeps old versions around until compaction).
type WorkerDB struct {
	db     *kv.BadgerDB
	proxy  *DBProxy
	resets int
}

func (w *WorkerDB) open() {
	db, err := kv.NewInMemory(zap.NewNop(), basedb.Options{Ctx: context.Background()})
	if err != nil {
		panic(err)
	}
	w.db = db
}

// Fresh returns the worker's database, empty, behind a fresh proxy (crash injection disarmed).
func (w *WorkerDB) Fresh() *DBProxy {
	switch {
	case w.db == nil:
		w.open()
	case w.proxy != nil && w.proxy.TotalWrites == 0:
		// nothing was written since the last wipe
	default:
		w.resets++
		if w.resets%4000 == 0 {
			_ = w.db.Close()
			w.open()
		} else if _, err := w.db.DeletePrefix([]byte{}); err != nil {
			panic(err)
		}
	}
	w.proxy = &DBProxy{Database: w.db}
	return w.proxy
}

func (w *WorkerDB) Close() {
	if w.db != nil {
		_ = w.db.Close()
		w.db = nil
	}
}

// DumpDB returns every key/value of the database, sorted by key.
func DumpDB(db basedb.Database) []basedb.Obj {
	var out []basedb.Obj
	_ = db.GetAll([]byte{}, func(i int, o basedb.Obj) error {
		out = append(out, basedb.Obj{Key: append([]byte{}, o.Key...), Value: append([]byte{}, o.Value...)})
		return nil
	})
	sort.Slice(out, func(i, j int) bool { return bytes.Compare(out[i].Key, out[j].Key) < 0 })
	return out
}
