package runh

import (
	"context"
	"encoding/json"
	"fmt"
	"io"
	"sync"

	"github.com/attestantio/go-eth2-client/spec/phase0"
	specqbft "github.com/bloxapp/ssv-spec/qbft"
	specssv "github.com/bloxapp/ssv-spec/ssv"
	spectypes "github.com/bloxapp/ssv-spec/types"
	"github.com/bloxapp/ssv-spec/types/testingutils"
	"go.uber.org/zap"

	"github.com/bloxapp/ssv/ibft/storage"
	"github.com/bloxapp/ssv/protocol/v2/qbft"
	qbftcontroller "github.com/bloxapp/ssv/protocol/v2/qbft/controller"
	"github.com/bloxapp/ssv/protocol/v2/ssv/runner"
	"github.com/bloxapp/ssv/protocol/v2/ssv/validator"
	ssvtypes "github.com/bloxapp/ssv/protocol/v2/types"
	"github.com/bloxapp/ssv/storage/basedb"
)

// AllRoles are the five roles that go through consensus.
var AllRoles = []spectypes.BeaconRole{
	spectypes.BNRoleAttester, spectypes.BNRoleProposer, spectypes.BNRoleAggregator,
	spectypes.BNRoleSyncCommittee, spectypes.BNRoleSyncCommitteeContribution,
}

// BeaconNet is the beacon network of the spec TestingBeaconNode.
const BeaconNet = spectypes.BeaconTestNetwork

var (
	shareOnce sync.Once
	shareTmpl spectypes.Share
)

// World is one set of freshly built real objects around harness-owned doubles.
type World struct {
	DB      basedb.Database // what the stores were built on (possibly a *DBProxy)
	KM      *RecKM
	Net     *CapNet
	Beacon  *testingutils.TestingBeaconNode
	Share   *ssvtypes.SSVShare
	Stores  *storage.QBFTStores
	Runners runner.DutyRunners
	V       *validator.Validator
	Log     *zap.Logger
	cancel  context.CancelFunc
}

// Options of BuildWorld.
type Options struct {
	DB               basedb.Database
	Roles            []spectypes.BeaconRole
	FullNode         bool
	BuilderProposals bool
}

// ValueCheck returns the spec value-check function of a role, built exactly like
// operator/validator.SetupRunners builds it (signer = the given key manager).
func ValueCheck(role spectypes.BeaconRole, signer spectypes.KeyManager, share *spectypes.Share) specqbft.ProposedValueCheckF {
	idx := phase0.ValidatorIndex(testingutils.TestingValidatorIndex)
	switch role {
	case spectypes.BNRoleAttester:
		return specssv.AttesterValueCheckF(signer, BeaconNet, share.ValidatorPubKey, idx, share.SharePubKey)
	case spectypes.BNRoleProposer:
		return specssv.ProposerValueCheckF(signer, BeaconNet, share.ValidatorPubKey, idx, share.SharePubKey)
	case spectypes.BNRoleAggregator:
		return specssv.AggregatorValueCheckF(signer, BeaconNet, share.ValidatorPubKey, idx)
	case spectypes.BNRoleSyncCommittee:
		return specssv.SyncCommitteeValueCheckF(signer, BeaconNet, share.ValidatorPubKey, idx)
	case spectypes.BNRoleSyncCommitteeContribution:
		return specssv.SyncCommitteeContributionValueCheckF(signer, BeaconNet, share.ValidatorPubKey, idx)
	}
	panic("role")
}

// Identifier is the controller identifier / message id of (validator, role) as SetupRunners and
// Validator.Start compute it.
func Identifier(role spectypes.BeaconRole) spectypes.MessageID {
	return spectypes.NewMsgID(ssvtypes.GetDefaultDomain(), KeySet().ValidatorPK.Serialize(), role)
}

// BuildWorld constructs runners + validator. It mirrors operator/validator.SetupRunners
// (controller per role: RoundRobinProposer, signature verification on, storage of the role,
// the same network and signer objects for controller and runner) with three substitutions that
// are the environment, not the code under test: an inert round timer, the spec
// TestingBeaconNode, and a capturing network.
func BuildWorld(o Options) *World {
	w := &World{DB: o.DB, KM: NewRecKM(), Net: &CapNet{}, Beacon: testingutils.NewTestingBeaconNode(), Log: zap.NewNop()}
	shareOnce.Do(func() { shareTmpl = *testingutils.TestingShare(KeySet()) })
	base := shareTmpl // Committee slice shared, read-only
	base.DomainType = ssvtypes.GetDefaultDomain()
	w.Share = &ssvtypes.SSVShare{Share: base}
	w.Stores = storage.NewStoresFromRoles(o.DB, o.Roles...)
	share := &w.Share.Share

	buildController := func(role spectypes.BeaconRole, vc specqbft.ProposedValueCheckF) *qbftcontroller.Controller {
		config := &qbft.Config{
			Signer:    w.KM,
			SigningPK: share.ValidatorPubKey,
			Domain:    ssvtypes.GetDefaultDomain(),
			ProposerF: func(state *specqbft.State, round specqbft.Round) spectypes.OperatorID {
				return specqbft.RoundRobinProposer(state, round)
			},
			Storage:               w.Stores.Get(role),
			Network:               w.Net,
			Timer:                 &InertTimer{},
			SignatureVerification: true,
		}
		config.ValueCheckF = vc
		id := Identifier(role)
		return qbftcontroller.NewController(id[:], share, config, o.FullNode)
	}

	w.Runners = runner.DutyRunners{}
	for _, role := range o.Roles {
		vc := ValueCheck(role, w.KM, share)
		ctrl := buildController(role, vc)
		switch role {
		case spectypes.BNRoleAttester:
			w.Runners[role] = runner.NewAttesterRunnner(BeaconNet, share, ctrl, w.Beacon, w.Net, w.KM, vc, 0)
		case spectypes.BNRoleProposer:
			w.Runners[role] = runner.NewProposerRunner(BeaconNet, share, ctrl, w.Beacon, w.Net, w.KM, vc, 0)
			w.Runners[role].(*runner.ProposerRunner).ProducesBlindedBlocks = o.BuilderProposals
		case spectypes.BNRoleAggregator:
			w.Runners[role] = runner.NewAggregatorRunner(BeaconNet, share, ctrl, w.Beacon, w.Net, w.KM, vc, 0)
		case spectypes.BNRoleSyncCommittee:
			w.Runners[role] = runner.NewSyncCommitteeRunner(BeaconNet, share, ctrl, w.Beacon, w.Net, w.KM, vc, 0)
		case spectypes.BNRoleSyncCommitteeContribution:
			w.Runners[role] = runner.NewSyncCommitteeAggregatorRunner(BeaconNet, share, ctrl, w.Beacon, w.Net, w.KM, vc, 0)
		}
	}
	ctx, cancel := context.WithCancel(context.Background())
	w.cancel = cancel
	w.V = validator.NewValidator(ctx, cancel, validator.Options{
		Network:     w.Net,
		Beacon:      w.Beacon,
		Storage:     w.Stores,
		SSVShare:    w.Share,
		Signer:      w.KM,
		DutyRunners: w.Runners,
		FullNode:    o.FullNode,
	})
	return w
}

// Discard stops whatever the validator started (queue consumers) and drops the objects.
func (w *World) Discard() {
	if w.V != nil {
		w.V.Stop()
	}
	if w.cancel != nil {
		w.cancel()
	}
}

// WriteRunnerState writes the canonical encoding of a runner's mutable state: the runner State
// and every controller instance in the implementation's own JSON encoding (Instance.MarshalJSON
// includes the private forceStop flag), the controller height, and the order of the stored
// instances. An instance that is both the runner's RunningInstance and a stored instance is
// encoded once (as part of State) and referenced by position. Constant parts of
// runner.GetRoot() (share, identifier, beacon network, role) are left out.
func WriteRunnerState(h io.Writer, r runner.Runner) {
	b := r.GetBaseRunner()
	var running interface{}
	if b.State == nil {
		io.WriteString(h, "|nostate|")
	} else {
		js, err := b.State.Encode()
		if err != nil {
			panic(err)
		}
		h.Write(js)
		if b.State.RunningInstance != nil {
			running = b.State.RunningInstance
		}
	}
	c := b.QBFTController
	fmt.Fprintf(h, "|H%d|n%d|", c.Height, len(c.StoredInstances))
	for i, inst := range c.StoredInstances {
		if running != nil && interface{}(inst) == running {
			fmt.Fprintf(h, "|%d=running|", i)
			continue
		}
		js, err := json.Marshal(inst)
		if err != nil {
			panic(err)
		}
		fmt.Fprintf(h, "|%d:", i)
		h.Write(js)
	}
}
