package runh

import (
	"encoding/json"
	"fmt"

	"github.com/attestantio/go-eth2-client/spec/altair"
	"github.com/attestantio/go-eth2-client/spec/capella"
	"github.com/attestantio/go-eth2-client/spec/phase0"
	specqbft "github.com/bloxapp/ssv-spec/qbft"
	spectypes "github.com/bloxapp/ssv-spec/types"
	"github.com/bloxapp/ssv-spec/types/testingutils"
	ssz "github.com/ferranbt/fastssz"

	"github.com/bloxapp/ssv/protocol/v2/message"
	"github.com/bloxapp/ssv/protocol/v2/ssv/queue"
	ssvtypes "github.com/bloxapp/ssv/protocol/v2/types"
)

// ---- duties and consensus values ----

// Duty returns the spec testing duty of the role at the given slot.
func Duty(role spectypes.BeaconRole, slot phase0.Slot) *spectypes.Duty {
	var d spectypes.Duty
	switch role {
	case spectypes.BNRoleAttester:
		d = testingutils.TestingAttesterDuty
	case spectypes.BNRoleProposer:
		d = testingutils.TestingProposerDutyFirstSlot
	case spectypes.BNRoleAggregator:
		d = testingutils.TestingAggregatorDuty
	case spectypes.BNRoleSyncCommittee:
		d = testingutils.TestingSyncCommitteeDuty
	case spectypes.BNRoleSyncCommitteeContribution:
		d = testingutils.TestingSyncCommitteeContributionDuty
		d.ValidatorSyncCommitteeIndices = append([]uint64{}, d.ValidatorSyncCommitteeIndices...)
	default:
		panic("role")
	}
	d.Slot = slot
	return &d
}

// Variant of a consensus value.
type Variant int

const (
	Valid   Variant = iota // what the node itself would propose for the duty (from the testing beacon node)
	Alt                    // a different value that also passes the role's value check
	Invalid                // a value that fails the role's value check
)

// ConsensusValue returns encoded ConsensusData for (role, slot, variant).
func ConsensusValue(role spectypes.BeaconRole, slot phase0.Slot, v Variant) []byte {
	bn := testingutils.NewTestingBeaconNode()
	duty := Duty(role, slot)
	cd := &spectypes.ConsensusData{Duty: *duty}
	must := func(b []byte, err error) []byte {
		if err != nil {
			panic(err)
		}
		return b
	}
	switch role {
	case spectypes.BNRoleAttester:
		obj, ver, _ := bn.GetAttestationData(slot, duty.CommitteeIndex)
		ad := obj.(*phase0.AttestationData)
		if v == Alt {
			ad.BeaconBlockRoot[0] ^= 0xff
		}
		if v == Invalid {
			ad.Slot = slot + 1 // attestation data slot != duty slot
			ad.BeaconBlockRoot[1] ^= 0xff
		}
		cd.Version, cd.DataSSZ = ver, must(ad.MarshalSSZ())
	case spectypes.BNRoleProposer:
		obj, ver, _ := bn.GetBeaconBlock(slot, nil, nil)
		blk := *(obj.(*capella.BeaconBlock))
		if v != Valid {
			blk.ProposerIndex += phase0.ValidatorIndex(v)
		}
		cd.Version, cd.DataSSZ = ver, must(blk.MarshalSSZ())
	case spectypes.BNRoleAggregator:
		obj, ver, _ := bn.SubmitAggregateSelectionProof(slot, duty.CommitteeIndex, duty.CommitteeLength, duty.ValidatorIndex, nil)
		ap := *(obj.(*phase0.AggregateAndProof))
		if v != Valid {
			ap.AggregatorIndex += phase0.ValidatorIndex(v)
		}
		cd.Version, cd.DataSSZ = ver, must(ap.MarshalSSZ())
	case spectypes.BNRoleSyncCommittee:
		root, ver, _ := bn.GetSyncMessageBlockRoot(slot)
		if v != Valid {
			root[0] ^= byte(v)
		}
		cd.Version, cd.DataSSZ = ver, root[:]
	case spectypes.BNRoleSyncCommitteeContribution:
		obj, ver, _ := bn.GetSyncCommitteeContribution(slot, nil, nil)
		src := *(obj.(*spectypes.Contributions))
		cs := make(spectypes.Contributions, len(src))
		for i, c := range src {
			cc := *c
			cs[i] = &cc
		}
		if v != Valid {
			cs[0].Contribution.BeaconBlockRoot[0] ^= byte(v)
		}
		cd.Version, cd.DataSSZ = ver, must(cs.MarshalSSZ())
	}
	if v == Invalid && role != spectypes.BNRoleAttester {
		cd.Duty.ValidatorIndex++ // dutyValueCheck: wrong validator index
	}
	return must(cd.Encode())
}

// ETHDomain is what the testing beacon node answers for DomainData (independent of epoch).
func ETHDomain(dt phase0.DomainType) phase0.Domain {
	d, err := spectypes.ComputeETHDomain(dt, spectypes.GenesisForkVersion, spectypes.GenesisValidatorsRoot)
	if err != nil {
		panic(err)
	}
	return d
}

// SigningRoots is a list of beacon signing roots with their domain type.
type SigningRoots struct {
	DomainType phase0.DomainType
	Roots      [][32]byte
	PSType     spectypes.PartialSigMsgType
}

func ethRoot(obj ssz.HashRoot, dt phase0.DomainType) [32]byte {
	r, err := spectypes.ComputeETHSigningRoot(obj, ETHDomain(dt))
	if err != nil {
		panic(err)
	}
	return r
}

// PreConsensusRoots derives, independently of the runner code, the slot-bound proofs a role signs
// when a duty of that slot starts (nil for attester / sync committee).
func PreConsensusRoots(role spectypes.BeaconRole, slot phase0.Slot) *SigningRoots {
	switch role {
	case spectypes.BNRoleProposer:
		epoch := BeaconNet.EstimatedEpochAtSlot(slot)
		return &SigningRoots{spectypes.DomainRandao, [][32]byte{ethRoot(spectypes.SSZUint64(epoch), spectypes.DomainRandao)}, spectypes.RandaoPartialSig}
	case spectypes.BNRoleAggregator:
		return &SigningRoots{spectypes.DomainSelectionProof, [][32]byte{ethRoot(spectypes.SSZUint64(slot), spectypes.DomainSelectionProof)}, spectypes.SelectionProofPartialSig}
	case spectypes.BNRoleSyncCommitteeContribution:
		out := &SigningRoots{DomainType: spectypes.DomainSyncCommitteeSelectionProof, PSType: spectypes.ContributionProofs}
		for _, idx := range Duty(role, slot).ValidatorSyncCommitteeIndices {
			out.Roots = append(out.Roots, ethRoot(&altair.SyncAggregatorSelectionData{Slot: slot, SubcommitteeIndex: idx}, spectypes.DomainSyncCommitteeSelectionProof))
		}
		return out
	}
	return nil
}

// PostConsensusRoots derives, independently of the runner code, the beacon signing roots of the
// duty objects contained in a decided ConsensusData.
func PostConsensusRoots(role spectypes.BeaconRole, value []byte) (*SigningRoots, error) {
	cd := &spectypes.ConsensusData{}
	if err := cd.Decode(value); err != nil {
		return nil, err
	}
	out := &SigningRoots{PSType: spectypes.PostConsensusPartialSig}
	switch role {
	case spectypes.BNRoleAttester:
		ad, err := cd.GetAttestationData()
		if err != nil {
			return nil, err
		}
		out.DomainType = spectypes.DomainAttester
		out.Roots = [][32]byte{ethRoot(ad, out.DomainType)}
	case spectypes.BNRoleProposer:
		out.DomainType = spectypes.DomainProposer
		if _, obj, err := cd.GetBlindedBlockData(); err == nil {
			out.Roots = [][32]byte{ethRoot(obj, out.DomainType)}
		} else if _, obj, err := cd.GetBlockData(); err == nil {
			out.Roots = [][32]byte{ethRoot(obj, out.DomainType)}
		} else {
			return nil, err
		}
	case spectypes.BNRoleAggregator:
		ap, err := cd.GetAggregateAndProof()
		if err != nil {
			return nil, err
		}
		out.DomainType = spectypes.DomainAggregateAndProof
		out.Roots = [][32]byte{ethRoot(ap, out.DomainType)}
	case spectypes.BNRoleSyncCommittee:
		r, err := cd.GetSyncCommitteeBlockRoot()
		if err != nil {
			return nil, err
		}
		out.DomainType = spectypes.DomainSyncCommittee
		out.Roots = [][32]byte{ethRoot(spectypes.SSZBytes(r[:]), out.DomainType)}
	case spectypes.BNRoleSyncCommitteeContribution:
		cs, err := cd.GetSyncCommitteeContributions()
		if err != nil {
			return nil, err
		}
		out.DomainType = spectypes.DomainContributionAndProof
		for _, c := range cs {
			contrib := c.Contribution
			cp := &altair.ContributionAndProof{AggregatorIndex: cd.Duty.ValidatorIndex, Contribution: &contrib, SelectionProof: c.SelectionProofSig}
			out.Roots = append(out.Roots, ethRoot(cp, out.DomainType))
		}
	default:
		return nil, fmt.Errorf("role")
	}
	return out, nil
}

// ---- QBFT messages ----

// QBFTMsg builds and really BLS-signs (memoised) a consensus message by the given operators.
func QBFTMsg(identifier []byte, t specqbft.MessageType, height specqbft.Height, round specqbft.Round, value []byte, withFullData bool, signers ...spectypes.OperatorID) *specqbft.SignedMessage {
	root, err := specqbft.HashDataRoot(value)
	if err != nil {
		panic(err)
	}
	msg := &specqbft.Message{MsgType: t, Height: height, Round: round, Identifier: identifier, Root: root}
	r, err := spectypes.ComputeSigningRoot(msg, spectypes.ComputeSignatureDomain(Domain, spectypes.QBFTSignatureType))
	if err != nil {
		panic(err)
	}
	var out *specqbft.SignedMessage
	for _, id := range signers {
		s := &specqbft.SignedMessage{Message: *msg, Signers: []spectypes.OperatorID{id}, Signature: KeySet().Shares[id].SignByte(r[:]).Serialize()}
		if out == nil {
			out = s
		} else if err := out.Aggregate(s); err != nil {
			panic(err)
		}
	}
	if withFullData {
		out.FullData = value
	}
	return out
}

// ---- partial signature messages ----

// PartialSigMsg builds a SignedPartialSignatureMessage by operator id over the given roots
// (partial beacon signatures with id's share, container signed with id's share).
func PartialSigMsg(id spectypes.OperatorID, t spectypes.PartialSigMsgType, slot phase0.Slot, roots [][32]byte) *spectypes.SignedPartialSignatureMessage {
	msgs := spectypes.PartialSignatureMessages{Type: t, Slot: slot}
	sk := KeySet().Shares[id]
	for _, r := range roots {
		msgs.Messages = append(msgs.Messages, &spectypes.PartialSignatureMessage{PartialSignature: sk.SignByte(r[:]).Serialize(), SigningRoot: r, Signer: id})
	}
	sig, err := testingutils.NewTestingKeyManager().SignRoot(msgs, spectypes.PartialSignatureType, SharePK(id))
	if err != nil {
		panic(err)
	}
	return &spectypes.SignedPartialSignatureMessage{Message: msgs, Signature: sig, Signer: id}
}

// ---- envelopes ----

// Wire is an encoded SSVMessage; Decode produces a fresh queue.DecodedSSVMessage for every
// delivery (the way the node decodes what arrives from the network), so no message object is
// ever shared between worlds.
type Wire struct{ M spectypes.SSVMessage }

func WireQBFT(id spectypes.MessageID, m *specqbft.SignedMessage) *Wire {
	b, err := m.Encode()
	if err != nil {
		panic(err)
	}
	return &Wire{spectypes.SSVMessage{MsgType: spectypes.SSVConsensusMsgType, MsgID: id, Data: b}}
}

func WirePartial(id spectypes.MessageID, m *spectypes.SignedPartialSignatureMessage) *Wire {
	b, err := m.Encode()
	if err != nil {
		panic(err)
	}
	return &Wire{spectypes.SSVMessage{MsgType: spectypes.SSVPartialSignatureMsgType, MsgID: id, Data: b}}
}

// WireExecuteDuty is the event message operator/validator.CreateDutyExecuteMsg builds (same
// encoding), addressed with the given message id.
func WireExecuteDuty(id spectypes.MessageID, duty *spectypes.Duty) *Wire {
	edd, err := json.Marshal(ssvtypes.ExecuteDutyData{Duty: duty})
	if err != nil {
		panic(err)
	}
	data, err := (&ssvtypes.EventMsg{Type: ssvtypes.ExecuteDuty, Data: edd}).Encode()
	if err != nil {
		panic(err)
	}
	return &Wire{spectypes.SSVMessage{MsgType: message.SSVEventMsgType, MsgID: id, Data: data}}
}

func (w *Wire) Decode() *queue.DecodedSSVMessage {
	m := w.M
	m.Data = append([]byte{}, w.M.Data...)
	d, err := queue.DecodeSSVMessage(&m)
	if err != nil {
		panic(err)
	}
	return d
}
