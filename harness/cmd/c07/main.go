// C07 — consensus can always still terminate while at most f operators are faulty.
// For every distinct state visited by the qnet deviation-bounded search: (1) there is a
// continuation with the faulty operator silent and timely delivery among the correct operators in
// which all of them decide within f+3 further rounds (searched exhaustively over delivery-priority
// orders x timeout strategies); (2) a round timeout moves every undecided operator to the next
// round and makes it announce it. Plus the fault-free synchronous case for all leaders.
package main

import (
	"encoding/json"
	"flag"
	"fmt"
	"runtime"
	"sort"
	"strings"

	specqbft "github.com/bloxapp/ssv-spec/qbft"
	spectypes "github.com/bloxapp/ssv-spec/types"
	"github.com/bloxapp/ssv/protocol/v2/qbft/instance"
	"github.com/herumi/bls-eth-go-binary/bls"

	"verifharness/lib/ev"
	"verifharness/lib/qnet"
)

func perms(ids []spectypes.OperatorID) [][]spectypes.OperatorID {
	if len(ids) <= 1 {
		return [][]spectypes.OperatorID{append([]spectypes.OperatorID(nil), ids...)}
	}
	var out [][]spectypes.OperatorID
	for i := range ids {
		rest := append(append([]spectypes.OperatorID(nil), ids[:i]...), ids[i+1:]...)
		for _, p := range perms(rest) {
			out = append(out, append([]spectypes.OperatorID{ids[i]}, p...))
		}
	}
	return out
}

func maxRound(w *qnet.World) specqbft.Round {
	var m specqbft.Round
	for _, o := range w.Ops {
		if r := o.Inst(w.C.Height).State.Round; r > m {
			m = r
		}
	}
	return m
}

func allDecided(w *qnet.World) bool { return len(w.Undecided()) == 0 }

// continuation runs one candidate: faulty operator silent, messages of correct operators
// delivered in sender-priority order until quiescence, then timeouts per strategy.
func continuation(w0 *qnet.World, prio []spectypes.OperatorID, fifo, lowestOnly bool, bound specqbft.Round) (bool, int) {
	ok, steps, _ := continuationW(w0, prio, fifo, lowestOnly, bound)
	return ok, steps
}

// fifo=true: messages are delivered in emission order and prio only orders the simultaneous
// timeouts (hence the order in which their round-changes enter the network); fifo=false: the next
// message delivered is always one of the highest-priority sender.
func continuationW(w0 *qnet.World, prio []spectypes.OperatorID, fifo, lowestOnly bool, bound specqbft.Round) (bool, int, *qnet.World) {
	w := w0.Clone()
	cc := *w.C
	cc.Policy, cc.MaxRound = nil, bound
	w.C = &cc
	w.Isolated = nil
	w.Last = nil
	w.Trace = nil
	// in-flight messages of the faulty operator have no delivery guarantee: lost
	kept := w.Pending[:0:0]
	for _, p := range w.Pending {
		if w.P.List[p.Msg].From != cc.Byz || cc.Byz == 0 {
			kept = append(kept, p)
		}
	}
	w.Pending = kept
	rank := map[spectypes.OperatorID]int{}
	for i, p := range prio {
		rank[p] = i
	}
	steps := 0
	for steps < 5000 {
		if len(w.Pending) > 0 {
			// next = the pending message of the highest-priority sender (oldest first among equals).
			// Timely delivery does not mean FIFO: any pending message may be the next to arrive, so
			// the chosen message is moved to the head of its recipient's inbox first.
			best := 0
			if prio != nil && !fifo {
				for i, p := range w.Pending {
					if rank[w.P.List[p.Msg].From] < rank[w.P.List[w.Pending[best].Msg].From] {
						best = i
					}
				}
				to := w.Pending[best].To
				w.PromoteToHead(best)
				best = w.HeadIndex(to)
			}
			w.Apply(qnet.Event{Kind: qnet.Deliver, To: w.Pending[best].To})
			steps++
			continue
		}
		if allDecided(w) {
			return true, steps, w
		}
		und := w.Undecided()
		low := und[0].Inst(cc.Height).State.Round
		for _, o := range und {
			if r := o.Inst(cc.Height).State.Round; r < low {
				low = r
			}
		}
		fired := false
		if prio != nil {
			sort.SliceStable(und, func(a, b int) bool { return rank[und[a].ID] < rank[und[b].ID] })
		}
		for _, o := range und {
			r := o.Inst(cc.Height).State.Round
			if r >= bound || (lowestOnly && r != low) || !o.HasTimer {
				continue // (an operator whose timer is not armed cannot time out)
			}
			w.Apply(qnet.Event{Kind: qnet.Timeout, To: o.ID})
			steps++
			fired = true
		}
		if !fired {
			if verbose {
				fmt.Println("candidate", prio, "fifo", fifo, "lowestOnly", lowestOnly, "stuck:", w.Summary())
				for _, l := range w.DescribeTrace() {
					fmt.Println("     ", l)
				}
			}
			return false, steps, w
		}
	}
	return false, steps, w
}

type stats struct {
	States, Transitions, Executions int
	Checked, Candidates, ContSteps  int
	TimeoutChecks                   int
	Aborted                         bool
	FirstTry                        int
	Hist                            map[string]int
}

func checkTimeoutClause(r *ev.Run, w *qnet.World, st *stats) {
	for _, o := range w.Undecided() {
		prev := o.Inst(w.C.Height).State.Round
		if int(prev) >= instance.CutoffRound { // from the cut-off round on the instance is stopped
			continue
		}
		if !o.HasTimer {
			// the timer fired (or was never armed) and nothing re-armed it: no timeout can ever move
			// this operator again
			r.Violate("undecided-operator-without-round-timer", fmt.Sprintf("operator %d is undecided in round %d and its round timer is not armed", o.ID, prev), "c07-timeout", qnet.Artefact(w), nil, nil)
			continue
		}
		// the clause is checked as the state is, and once more after the operator has learned that a
		// later height is decided (the rest of the committee moved on): its running instance is
		// still undecided and before the cut-off, so its timeout must still move it
		for _, learned := range []bool{false, true} {
			w2 := w.Clone()
			variant := ""
			if learned {
				var signers []spectypes.OperatorID
				for _, h := range w.C.Honest {
					if h != o.ID && len(signers) < int(w.C.Share(o.ID).Quorum) {
						signers = append(signers, h)
					}
				}
				if w.C.Byz != 0 && len(signers) < int(w.C.Share(o.ID).Quorum) {
					signers = append(signers, w.C.Byz)
				}
				if len(signers) < int(w.C.Share(o.ID).Quorum) {
					continue
				}
				sort.Slice(signers, func(i, j int) bool { return signers[i] < signers[j] })
				if err := w2.LearnDecided(o.ID, w.C.Height+1, 'A', signers); err != nil {
					ev.Fatal("c07: certificate for the next height refused: %v", err)
				}
				variant = " after learning that the next height is decided"
			}
			reps := w2.Apply(qnet.Event{Kind: qnet.Timeout, To: o.ID})
			st.TimeoutChecks++
			s := w2.Op(o.ID).Inst(w.C.Height).State
			okRC := false
			for _, id := range reps[0].Emitted {
				m := w2.P.List[id].Signed
				if m.Message.MsgType == specqbft.RoundChangeMsgType && m.Message.Height == w.C.Height && m.Message.Round == prev+1 && len(m.Signers) == 1 && m.Signers[0] == o.ID {
					okRC = true
				}
			}
			okArm := false
			for _, a := range reps[0].Arms {
				if a.Height == w.C.Height && a.Round == prev+1 {
					okArm = true
				}
			}
			if reps[0].Err != nil || s.Round != prev+1 || s.ProposalAcceptedForCurrentRound != nil || !okRC || !okArm {
				sig := "timeout-does-not-advance"
				if learned {
					sig += " (later height learned as decided)"
				}
				r.Violate(sig, fmt.Sprintf("timeout at operator %d in round %d%s: err=%v round=%d proposalCleared=%v roundChangeBroadcast=%v timerRearmed=%v",
					o.ID, prev, variant, reps[0].Err, s.Round, s.ProposalAcceptedForCurrentRound == nil, okRC, okArm), "c07-timeout", qnet.Artefact(w2), nil, nil)
			}
		}
	}
}

func checkState(r *ev.Run, w *qnet.World, st *stats, prios [][]spectypes.OperatorID) {
	checkTimeoutClause(r, w, st)
	if allDecided(w) {
		st.Hist["already-decided"]++
		return
	}
	bound := maxRound(w) + specqbft.Round(w.C.F()) + 3
	st.Checked++
	n := 0
	type cand struct {
		p    []spectypes.OperatorID
		fifo bool
	}
	cands := []cand{{nil, true}}
	for _, p := range prios {
		cands = append(cands, cand{p, true})
	}
	for _, p := range prios {
		cands = append(cands, cand{p, false})
	}
	for _, lowest := range []bool{false, true} {
		for _, cd := range cands {
			n++
			ok, steps := continuation(w, cd.p, cd.fifo, lowest, bound)
			st.Candidates++
			st.ContSteps += steps
			if ok {
				if n == 1 {
					st.FirstTry++
				}
				st.Hist[fmt.Sprintf("terminates (candidate %d)", n)]++
				return
			}
		}
	}
	sig := "no-terminating-continuation"
	_, _, end := continuationW(w, nil, true, false, bound)
	und := len(end.Undecided())
	// did a laggard ever process a decided message (aggregated commit) - before or during the
	// continuation - and stay undecided? then this is NOT the known "missed the decided message" case
	sawDecided := false
	for _, o := range end.Undecided() {
		for _, tr := range [][]qnet.Event{w.Trace, end.Trace} {
			for _, e := range tr {
				if (e.Kind == qnet.Deliver || e.Kind == qnet.Redeliver) && e.To == o.ID && e.Msg >= 0 {
					m := w.P.List[e.Msg].Signed
					if m.Message.MsgType == specqbft.CommitMsgType && len(m.Signers) > 1 && w.C.CertOK(m) == nil {
						sawDecided = true
					}
				}
			}
		}
	}
	if und < len(end.Ops) && und <= w.C.F() && !sawDecided {
		// the others decided and stopped: decided instances neither time out nor answer round-changes
		// with their certificate, so <= f lagging correct operators can never assemble a quorum
		sig = "no-terminating-continuation lagging<=f-after-the-others-decided"
	} else if und == len(end.Ops) {
		// correct operators locked on different values in different rounds: a proposal's round-change
		// justifications travel without their own full data and every prepared one is hashed against
		// the proposed value, so no proposal can ever be justified by a quorum containing both
		vals := map[string]bool{}
		for _, o := range end.Undecided() {
			if s := o.Inst(w.C.Height).State; s.LastPreparedValue != nil {
				vals[string(s.LastPreparedValue)] = true
			}
		}
		if len(vals) >= 2 {
			sig = "no-terminating-continuation correct-operators-prepared-on-different-values"
		}
	}
	r.Violate(sig, fmt.Sprintf("from this state no synchronous continuation (%d delivery/timeout orders x 2 timeout strategies, faulty operator silent) lets every correct operator decide by round %d", 2*len(prios)+1, bound),
		"c07-continuation", qnet.Artefact(w), w.Summary(), "all correct operators decide")
	st.Hist["NO continuation: "+sig]++
	return
}

var verbose bool

var cfgFilter = flag.String("cfg", "", "debug: configuration filter")

func runJob(r *ev.Run, c *qnet.Cfg, k int, every int) stats {
	st := stats{Hist: map[string]int{}}
	prios := perms(c.Honest)
	w, init := qnet.NewWorld(c, qnet.NewPool())
	cnt := 0
	s := &qnet.Search{K: k, Stop: r.Expired,
		OnState: func(w *qnet.World, budget int) {
			cnt++
			if every > 1 && cnt%every != 0 && budget != k {
				return
			}
			checkState(r, w, &st, prios)
		}}
	s.Run(w, init)
	st.States, st.Transitions, st.Executions, st.Aborted = s.States, s.Transitions, s.Executions, s.Aborted
	return st
}

// faultFree: every correct operator decides in round 1 on the leader's value.
// timeoutLadder: with every message lost, all operators time out round after round; the timeout
// clause is checked for every operator in every round up to and including the last round before
// the cut-off (instance.CutoffRound-1 -> CutoffRound), which the message-driven search never reaches.
func timeoutLadder(r *ev.Run, st *stats) {
	for _, h := range []specqbft.Height{0, 1} {
		c := &qnet.Cfg{N: 4, Height: h, MaxRound: specqbft.Round(instance.CutoffRound + 1), Role: spectypes.BNRoleAttester}
		c.Init()
		c.Start = map[spectypes.OperatorID]byte{}
		for _, id := range c.Honest {
			c.Start[id] = 'A'
		}
		w, _ := qnet.NewWorld(c, qnet.NewPool())
		for round := 1; round < instance.CutoffRound; round++ {
			for len(w.Pending) > 0 { // everything in flight is lost
				w.Apply(qnet.Event{Kind: qnet.DropAll})
			}
			checkTimeoutClause(r, w, st)
			w.Apply(qnet.Event{Kind: qnet.TimeoutAll})
			st.Transitions++
		}
		st.Hist[fmt.Sprintf("timeout ladder to round %d", instance.CutoffRound)]++
	}
}

func faultFree(r *ev.Run, st *stats) {
	for _, h := range []specqbft.Height{0, 1, 2, 3, 4, 5} {
		for mask := 0; mask < 16; mask++ {
			c := &qnet.Cfg{N: 4, Height: h, MaxRound: 3, Role: spectypes.BNRoleAttester}
			c.Init()
			c.Start = map[spectypes.OperatorID]byte{}
			for i, id := range c.Honest {
				c.Start[id] = "AB"[(mask>>i)&1]
			}
			leaderVal := qnet.Val(c.Start[c.Leader(1)])
			for _, p := range perms(c.Honest) {
				w, _ := qnet.NewWorld(c, qnet.NewPool())
				rank := map[spectypes.OperatorID]int{}
				for i, x := range p {
					rank[x] = i
				}
				for len(w.Pending) > 0 {
					best := -1
					seenTo := map[spectypes.OperatorID]bool{}
					for i, pd := range w.Pending {
						if seenTo[pd.To] {
							continue
						}
						seenTo[pd.To] = true
						if best < 0 || rank[w.P.List[pd.Msg].From] < rank[w.P.List[w.Pending[best].Msg].From] {
							best = i
						}
					}
					w.Apply(qnet.Event{Kind: qnet.Deliver, To: w.Pending[best].To})
					st.Transitions++
				}
				st.Executions++
				for _, o := range w.Ops {
					s := o.Inst(h).State
					if !s.Decided || s.Round != 1 || string(s.DecidedValue) != string(leaderVal) {
						r.Violate("fault-free-round-1", fmt.Sprintf("fault-free synchronous run at height %d: operator %d decided=%v round=%d value=%s, leader value %s", h, o.ID, s.Decided, s.Round, qnet.ValName(s.DecidedValue), qnet.ValName(leaderVal)),
							"c07-faultfree", qnet.Artefact(w), w.Summary(), nil)
					}
				}
				st.Hist["fault-free: all decide leader value in round 1"]++
			}
		}
	}
}

func main() {
	r := ev.Start("C07", "model_checking")
	bls.Init(bls.BLS12_381)
	if r.Replay != "" {
		replay(r)
		return
	}
	heights := []specqbft.Height{0}
	if r.Thorough() {
		heights = []specqbft.Height{0, 1, 2, 3}
	}
	var cfgs []*qnet.Cfg
	for i, c := range qnet.Configs(4, 3, heights) {
		// quick: every 8th configuration of the enumeration (all identities, policies and start
		// assignments occur in the selection); thorough: all of them
		if !r.Thorough() && *cfgFilter == "" && i%8 != 0 {
			continue
		}
		if *cfgFilter == "" || strings.Contains(c.String(), *cfgFilter) {
			cfgs = append(cfgs, c)
		}
	}
	k, every := 1, 1
	if _, _, ok := r.IsWorker(); ok {
		for i, c := range cfgs {
			if r.Mine(i) && !r.Expired() {
				r.Emit(runJob(r, c, k, every))
			} else if r.Mine(i) {
				r.Emit(stats{Aborted: true})
			}
		}
		if r.Mine(0) {
			var st stats
			st.Hist = map[string]int{}
			faultFree(r, &st)
			timeoutLadder(r, &st)
			r.Emit(st)
		}
		r.WorkerDone()
	}
	hist := map[string]int{}
	aborted := 0
	for _, k := range []string{"states", "transitions", "executions", "states_checked_for_continuation", "candidate_continuations", "continuation_steps", "timeout_clause_checks", "continuation_found_at_first_candidate"} {
		r.Cov[k] = 0
	}
	r.Spawn(runtime.NumCPU(), []string{"--cfg", *cfgFilter}, func(raw []byte) {
		var o stats
		if err := json.Unmarshal(raw, &o); err != nil {
			ev.Fatal("%v", err)
		}
		r.Add("states", o.States)
		r.Add("transitions", o.Transitions+o.ContSteps)
		r.Add("executions", o.Executions)
		r.Add("states_checked_for_continuation", o.Checked)
		r.Add("candidate_continuations", o.Candidates)
		r.Add("continuation_steps", o.ContSteps)
		r.Add("timeout_clause_checks", o.TimeoutChecks)
		r.Add("continuation_found_at_first_candidate", o.FirstTry)
		if o.Aborted {
			aborted++
		}
		for k, v := range o.Hist {
			hist[k] += v
		}
	})
	if aborted > 0 {
		r.CapHit(fmt.Sprintf("deadline: %d of %d configurations not completed", aborted, len(cfgs)))
	}
	r.Set("traces_validated_against_impl", r.Get("candidate_continuations")+r.Get("executions"))
	r.Set("configurations", len(cfgs))
	r.Set("deviation_bound", k)
	r.Set("continuation_checked_every_nth_state_beyond_first_level", every)
	keys := make([]string, 0, len(hist))
	for x := range hist {
		keys = append(keys, x)
	}
	sort.Strings(keys)
	oh := map[string]int{}
	for _, x := range keys {
		oh[x] = hist[x]
	}
	r.Set("distinct_outcomes", len(hist))
	r.Set("outcome_histogram", oh)
	r.Sample(map[string]interface{}{"state": "every distinct state of the deviation-bounded search", "continuations": "sender-priority delivery orders x {timeout all undecided, timeout lowest round only}, faulty operator silent, bound = highest round + f + 3"})
	r.Assume("existential reading: one terminating synchronous continuation suffices; in-flight messages of the faulty operator are lost, pending messages of correct operators are delivered",
		"n=4, f=1, start states from the C01 search space (rounds <= 3), continuation rounds <= start round + f + 3")
	r.Finish(aborted == 0)
}

func replay(r *ev.Run) {
	v, err := ev.LoadReplay(r.Replay)
	if err != nil {
		ev.Fatal("%v", err)
	}
	c, evs, err := qnet.FromArtefact(v.Trace.(map[string]interface{}))
	if err != nil {
		ev.Fatal("%v", err)
	}
	w, _ := qnet.NewWorld(c, qnet.NewPool())
	for _, e := range evs {
		w.Apply(e)
	}
	fmt.Println(strings.Join(w.DescribeTrace(), "\n"))
	fmt.Println(w.Summary())
	st := stats{Hist: map[string]int{}}
	switch v.Harness {
	case "c07-continuation":
		verbose = true
		checkState(r, w, &st, perms(c.Honest))
	}
	fmt.Println(st.Hist)
	r.Finish(false)
}
