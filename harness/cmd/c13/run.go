package main

import (
	"context"
	"errors"
	"fmt"
	"math/big"
	"strings"
	"sync/atomic"
	"time"

	ethtypes "github.com/ethereum/go-ethereum/core/types"
	"go.uber.org/zap"
	"go.uber.org/zap/zapcore"

	"github.com/bloxapp/ssv/eth/eventsyncer"
	"github.com/bloxapp/ssv/eth/executionclient"
	"github.com/bloxapp/ssv/zzverif/fakeeth"
)

func bigU(v uint64) *big.Int { return new(big.Int).SetUint64(v) }

// Point is a place of one execution where the environment can misbehave: the Ord-th occurrence
// of an event of the given kind.
//
//	FL  a FilterLogs call            -> fails
//	SH  a SubscribeNewHead call      -> fails
//	DL  a dial made by reconnect()   -> fails (the next attempt is a new point)
//	BN  a BlockNumber call           -> fails (node mode: history sync)
//	SE  a message taken by the client from its head subscription -> a subscription error
//	    takes the place of the head (the head is offered again to the next subscription)
type Point struct {
	Kind string
	Ord  int
}

func (p Point) String() string { return fmt.Sprintf("%s#%d", p.Kind, p.Ord) }

func parsePoint(s string) Point {
	var p Point
	i := strings.IndexByte(s, '#')
	p.Kind = s[:i]
	fmt.Sscan(s[i+1:], &p.Ord)
	return p
}

type Result struct {
	Log       []string // everything, in the one total order of the run
	Calls     string   // the client's calls into the fake only (with their answers)
	Points    []Point  // every point passed, in order of occurrence
	Fired     []int    // indices into Points where a planned fault was injected
	Out       []executionclient.BlockLogs
	LastHead  uint64 // highest head the client took from a subscription
	Exited    bool   // stream mode: the client ended by itself (zap Fatal = node exit)
	Restarts  int    // node mode
	ExitClean bool   // node mode: an incarnation ended although no fault hit it
	GaveUp    string // engine trouble (not a verdict)
}

type noteCore struct{ w *fakeeth.World }

func (c noteCore) Enabled(l zapcore.Level) bool      { return l >= zapcore.WarnLevel }
func (c noteCore) With([]zapcore.Field) zapcore.Core { return c }
func (c noteCore) Sync() error                       { return nil }
func (c noteCore) Check(e zapcore.Entry, ce *zapcore.CheckedEntry) *zapcore.CheckedEntry {
	if c.Enabled(e.Level) {
		return ce.AddCore(e, c)
	}
	return ce
}
func (c noteCore) Write(e zapcore.Entry, fs []zapcore.Field) error {
	t := "log " + e.Level.String() + ": " + e.Message
	for _, f := range fs {
		if f.Type == zapcore.ErrorType {
			if err, ok := f.Interface.(error); ok {
				t += ": " + err.Error()
			}
		}
	}
	c.w.Do(&fakeeth.Call{Kind: fakeeth.Note, Text: t})
	return nil
}

var (
	errFilter = errors.New("injected: FilterLogs failed")
	errSub    = errors.New("injected: SubscribeNewHead failed")
	errDial   = errors.New("injected: dial failed")
	errBN     = errors.New("injected: BlockNumber failed")
	errSubErr = errors.New("injected: subscription dropped")
)

var worldSeq atomic.Uint64

// progress is bumped on every event of every run; the watchdog in main reads it.
var progress atomic.Uint64

const (
	phSteps = iota
	phBarrier
	phSettle
)

type exec struct {
	sc    *Scenario
	chain map[uint64][]ethtypes.Log
	plan  map[Point]bool
	w     *fakeeth.World
	addr  string
	res   *Result
	calls strings.Builder
	cnt   map[string]int

	cur       *fakeeth.Sub
	tip       uint64
	si        int
	phase     int
	dirty     bool
	settles   int
	closing   atomic.Bool
	ec        *executionclient.ExecutionClient
	firstDial bool // the next dial is the one made by New, not by reconnect
	incFaults int  // faults injected into the current incarnation of the node
}

func (e *exec) note(s string) { e.res.Log = append(e.res.Log, s) }

// point registers the next occurrence of an injectable event and says whether the plan wants
// a fault there.
func (e *exec) point(kind string) (Point, bool) {
	e.cnt[kind]++
	p := Point{kind, e.cnt[kind]}
	e.res.Points = append(e.res.Points, p)
	if e.plan[p] {
		e.res.Fired = append(e.res.Fired, len(e.res.Points)-1)
		e.dirty = true
		e.incFaults++
		return p, true
	}
	return p, false
}

func (e *exec) call(format string, a ...interface{}) {
	s := fmt.Sprintf(format, a...)
	e.calls.WriteString(s)
	e.calls.WriteByte('\n')
	e.note(s)
}

// visible returns what eth_getLogs would return for [from,to] with the chain at e.tip: all logs
// of the contract (removed ones included, flagged), ordered by block, transaction, log index.
func (e *exec) visible(from, to uint64) []ethtypes.Log {
	var out []ethtypes.Log
	for b := from; b <= to && b <= e.tip; b++ {
		out = append(out, e.chain[b]...)
	}
	return out
}

func (e *exec) handle(c *fakeeth.Call) {
	switch c.Kind {
	case fakeeth.Note:
		switch v := c.Any.(type) {
		case *executionclient.ExecutionClient:
			e.ec = v
		case string:
			switch v {
			case "start":
				e.firstDial = true
				e.incFaults = 0
			case "exit":
				e.res.Restarts++
				e.dirty = true
				if e.incFaults == 0 {
					e.res.ExitClean = true
				}
			}
		}
		if c.Text != "" {
			e.note(c.Text)
		}
		c.Answer(fakeeth.Reply{})
	case fakeeth.Dial:
		if e.firstDial {
			e.firstDial = false
			e.call("dial(initial) ok")
			c.Answer(fakeeth.Reply{})
			return
		}
		if p, fail := e.point("DL"); fail {
			e.call("%s dial FAIL", p)
			c.Answer(fakeeth.Reply{Err: errDial})
		} else {
			e.call("%s dial ok", p)
			c.Answer(fakeeth.Reply{})
		}
	case fakeeth.BlockNumber:
		if p, fail := e.point("BN"); fail {
			e.call("%s blockNumber FAIL", p)
			c.Answer(fakeeth.Reply{Err: errBN})
		} else {
			e.call("%s blockNumber = %d", p, e.tip)
			c.Answer(fakeeth.Reply{Number: e.tip})
		}
	case fakeeth.FilterLogs:
		q := c.Query
		if q.FromBlock == nil || q.ToBlock == nil || len(q.Addresses) != 1 || q.Addresses[0] != contractAddr || q.FromBlock.Cmp(q.ToBlock) > 0 {
			e.call("filterLogs with a malformed query %+v", q)
			c.Answer(fakeeth.Reply{Err: errors.New("malformed query")})
			return
		}
		from, to := q.FromBlock.Uint64(), q.ToBlock.Uint64()
		if p, fail := e.point("FL"); fail {
			e.call("%s filterLogs[%d..%d] FAIL", p, from, to)
			c.Answer(fakeeth.Reply{Err: errFilter})
		} else {
			logs := e.visible(from, to)
			e.call("%s filterLogs[%d..%d] = %d logs", p, from, to, len(logs))
			c.Answer(fakeeth.Reply{Logs: logs})
		}
	case fakeeth.SubscribeNewHead:
		if p, fail := e.point("SH"); fail {
			e.call("%s subscribeNewHead FAIL", p)
			c.Answer(fakeeth.Reply{Err: errSub})
		} else {
			e.call("%s subscribeNewHead ok", p)
			e.cur = c.Sub
			c.Answer(fakeeth.Reply{})
		}
	case fakeeth.Unsubscribe:
		e.call("unsubscribe")
		if e.cur == c.Sub {
			e.cur = nil
		}
		e.dirty = true
		c.Answer(fakeeth.Reply{})
	}
}

// next is what the environment wants to tell the client now (nil: nothing more, close).
func (e *exec) next() (h uint64, what string) {
	switch {
	case e.si < len(e.sc.Heads):
		return e.sc.Heads[e.si], "head"
	case e.phase == phBarrier:
		return 0, "stale head (barrier)"
	default:
		return e.tip + 1, "head (settling, empty block)"
	}
}

func (e *exec) sent(h uint64, what string) {
	e.note(fmt.Sprintf("-> %s %d", what, h))
	switch {
	case e.si < len(e.sc.Heads):
		e.si++
		if e.si == len(e.sc.Heads) {
			e.phase = phBarrier
		}
	case e.phase == phBarrier:
		// The client took the stale head, so it was idle in its select: everything it was told
		// before has been worked off. It drops the stale head without a call and is idle again.
		if !e.dirty {
			e.closing.Store(true)
			e.note("close")
			e.ec.Close()
			return
		}
		e.phase = phSettle
		return
	default:
		e.settles++
		e.phase = phBarrier
	}
	if h > e.tip {
		e.tip = h
	}
	if h >= e.res.LastHead {
		// this head covers everything announced so far; if nothing goes wrong from here on,
		// the client owes every block up to h - follow
		e.res.LastHead = h
		e.dirty = false
	}
}

// recorder is the EventHandler of the node mode: it records what it is handed and persists the
// cursor the way the real handler does (SaveLastProcessedBlock per BlockLogs, same transaction).
type recorder struct {
	out    *[]executionclient.BlockLogs
	cursor uint64
	have   bool
}

func (r *recorder) HandleBlockEventsStream(logs <-chan executionclient.BlockLogs, executeTasks bool) (uint64, error) {
	var last uint64
	for bl := range logs {
		*r.out = append(*r.out, bl)
		r.cursor, r.have = bl.BlockNumber, true
		last = bl.BlockNumber
	}
	return last, nil
}

func execute(sc *Scenario, plan map[Point]bool) *Result {
	e := &exec{sc: sc, chain: buildChain(sc), plan: plan, w: fakeeth.NewWorld(), res: &Result{}, cnt: map[string]int{}}
	e.addr = fmt.Sprintf("fake://%d", worldSeq.Add(1))
	fakeeth.Register(e.addr, e.w)
	defer fakeeth.Unregister(e.addr)
	if sc.Mode == "node" {
		e.tip = sc.HistTip
		e.res.LastHead = sc.HistTip
	}
	if len(sc.Heads) == 0 {
		e.phase = phBarrier
	}

	logger := zap.New(noteCore{e.w}, zap.WithFatalHook(zapcore.WriteThenGoexit))
	ctx, cancel := context.WithCancel(context.Background())
	defer cancel()
	opts := []executionclient.Option{
		executionclient.WithLogger(logger),
		executionclient.WithFollowDistance(sc.Follow),
		executionclient.WithLogBatchSize(sc.Batch),
		// reconnect() sleeps for the initial interval and doubles it: 0 stays 0, so there is no
		// wall-clock wait; the maximum only decides when reconnect() gives up with a panic.
		executionclient.WithReconnectionInitialInterval(0),
		executionclient.WithReconnectionMaxInterval(time.Hour),
		executionclient.WithConnectionTimeout(time.Hour),
	}
	tell := func(text string, any interface{}) { e.w.Do(&fakeeth.Call{Kind: fakeeth.Note, Text: text, Any: any}) }
	nodeDone := make(chan struct{})
	var out []executionclient.BlockLogs

	switch sc.Mode {
	case "stream":
		go func() {
			defer close(nodeDone)
			tell("start", "start")
			ec, err := executionclient.New(ctx, e.addr, contractAddr, opts...)
			if err != nil {
				tell("New failed: "+err.Error(), nil)
				return
			}
			tell("", ec)
			for bl := range ec.StreamLogs(ctx, sc.From) {
				out = append(out, bl)
			}
		}()
	case "node":
		// cli/operator/node.go setupEventHandling, reduced to what decides the block range:
		// from = last processed + 1 (or the configured offset), SyncHistory, then SyncOngoing
		// from last+1; any error ends the process (logger.Fatal) and the node is started again.
		go func() {
			defer close(nodeDone)
			rec := &recorder{out: &out}
			for inc := 0; inc < 12; inc++ {
				tell(fmt.Sprintf("node start #%d", inc), "start")
				ec, err := executionclient.New(ctx, e.addr, contractAddr, opts...)
				if err != nil {
					tell("New failed: "+err.Error(), nil)
					return
				}
				tell("", ec)
				es := eventsyncer.New(nil, ec, rec, eventsyncer.WithLogger(logger))
				from := sc.From
				if rec.have {
					from = rec.cursor + 1
				}
				last, err := es.SyncHistory(ctx, from)
				switch {
				case errors.Is(err, executionclient.ErrNothingToSync):
				case err == nil:
					from = last + 1
				default:
					tell("node exit: "+err.Error(), "exit")
					continue
				}
				tell(fmt.Sprintf("SyncOngoing from %d", from), nil)
				err = es.SyncOngoing(ctx, from)
				if e.closing.Load() {
					return
				}
				tell(fmt.Sprintf("node exit: ongoing sync ended: %v", err), "exit")
			}
			tell("restart limit", nil)
		}()
	}

	for {
		progress.Add(1)
		var headCh chan<- *ethtypes.Header
		var errCh chan<- error
		var hdr *ethtypes.Header
		var h uint64
		var what string
		if e.cur != nil && !e.closing.Load() {
			if e.settles > 8 {
				e.res.GaveUp = "did not settle"
				e.closing.Store(true)
				e.ec.Close()
				continue
			}
			h, what = e.next()
			if e.plan[Point{"SE", e.cnt["SE"] + 1}] {
				errCh = e.cur.ErrC
			} else {
				headCh = e.cur.Heads
				hdr = &ethtypes.Header{Number: bigU(h)}
			}
		}
		select {
		case c := <-e.w.Calls:
			e.handle(c)
		case headCh <- hdr:
			e.point("SE")
			e.sent(h, what)
		case errCh <- errSubErr:
			p, _ := e.point("SE")
			e.note(fmt.Sprintf("-> %s subscription error (instead of %s %d)", p, what, h))
		case <-nodeDone:
			e.res.Out = out
			e.res.Calls = e.calls.String()
			e.res.Exited = !e.closing.Load()
			return e.res
		}
	}
}
