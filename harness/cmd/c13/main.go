// C13 — every finalized-enough block's events are delivered once, in order.
//
// Engine E3 (faults): the real ExecutionClient (StreamLogs, FetchHistoricalLogs, fetchLogsInBatches,
// PackLogs, reconnect) and the real EventSyncer run against a scripted stand-in for
// *ethclient.Client (overlay/pkgs/fakeeth, import redirected at build time). For every scenario
// (chain, log distribution, follow distance, batch size, head schedule) the fault-free execution
// is run, then EVERY placement of at most k environment faults: the search tree is built from the
// executions themselves — a child adds one fault at a point that the parent execution actually
// passed after its last fault — so every placement that can make a difference is executed exactly
// once and placements at points that are never reached (identical to a smaller placement) are not
// run again. No sampling.
package main

import (
	"bufio"
	"encoding/json"
	"fmt"
	"os"
	exec_ "os/exec"
	"runtime"
	"runtime/pprof"
	"sort"
	"strings"
	"sync"
	"sync/atomic"
	"time"

	ethtypes "github.com/ethereum/go-ethereum/core/types"

	"github.com/bloxapp/ssv/eth/executionclient"

	"verifharness/lib/ev"
)

// ---- oracle: the property sentence, nothing else ----

type verdict struct {
	Kind string // "" = holds
	What string
}

func nonRemoved(ls []ethtypes.Log) []ethtypes.Log {
	var out []ethtypes.Log
	for _, l := range ls {
		if !l.Removed {
			out = append(out, l)
		}
	}
	return out
}

func sameLog(a, b ethtypes.Log) bool {
	return a.BlockNumber == b.BlockNumber && a.TxIndex == b.TxIndex && a.Index == b.Index && a.Removed == b.Removed &&
		a.TxHash == b.TxHash && a.BlockHash == b.BlockHash && string(a.Data) == string(b.Data)
}

func fmtLogs(ls []ethtypes.Log) string {
	var p []string
	for _, l := range ls {
		s := fmt.Sprintf("b%d/tx%d/i%d", l.BlockNumber, l.TxIndex, l.Index)
		if l.Removed {
			s += "(removed)"
		}
		p = append(p, s)
	}
	return "[" + strings.Join(p, " ") + "]"
}

func fmtOut(out []executionclient.BlockLogs) []string {
	var p []string
	for _, e := range out {
		p = append(p, fmt.Sprintf("%d:%s", e.BlockNumber, fmtLogs(e.Logs)))
	}
	return p
}

// judge evaluates the stream that reached the handler.
//
//	(1) block numbers strictly increase;
//	(2) every entry lies in [from, lastHead-follow] and carries exactly the non-removed logs of
//	    its block in log-index order (so an entry of a block without such logs carries none);
//	(3) every block of [from, lastHead-follow] that has non-removed logs has its entry.
//
// If the client ended by itself (Fatal = the node exits) the stream is a prefix: (3) is asked up
// to the last delivered block only.
func judge(sc *Scenario, chain map[uint64][]ethtypes.Log, res *Result) verdict {
	var hi uint64
	if res.LastHead >= sc.Follow {
		hi = res.LastHead - sc.Follow
	}
	if res.Exited {
		var max uint64
		for _, e := range res.Out {
			if e.BlockNumber > max {
				max = e.BlockNumber
			}
		}
		if max < hi {
			hi = max
		}
	}
	seen := map[uint64]bool{}
	var prev uint64
	for i, e := range res.Out {
		if i > 0 && e.BlockNumber <= prev {
			if seen[e.BlockNumber] {
				return verdict{"block-delivered-twice", fmt.Sprintf("entry %d: block %d is delivered a second time (after block %d)", i, e.BlockNumber, prev)}
			}
			return verdict{"block-numbers-not-increasing", fmt.Sprintf("entry %d: block %d follows block %d", i, e.BlockNumber, prev)}
		}
		prev = e.BlockNumber
		seen[e.BlockNumber] = true
		if e.BlockNumber < sc.From || e.BlockNumber > hi {
			return verdict{"entry-outside-range", fmt.Sprintf("entry %d: block %d is outside [%d, %d] (start, last head %d - follow %d)", i, e.BlockNumber, sc.From, hi, res.LastHead, sc.Follow)}
		}
		want := nonRemoved(chain[e.BlockNumber])
		ok := len(want) == len(e.Logs)
		for j := 0; ok && j < len(want); j++ {
			ok = sameLog(want[j], e.Logs[j])
		}
		if !ok {
			return verdict{"wrong-logs-in-entry", fmt.Sprintf("entry %d: block %d carries %s, the block's non-removed logs in order are %s", i, e.BlockNumber, fmtLogs(e.Logs), fmtLogs(want))}
		}
	}
	for b := sc.From; b <= hi; b++ {
		if len(nonRemoved(chain[b])) > 0 && !seen[b] {
			return verdict{"block-with-logs-skipped", fmt.Sprintf("block %d has logs %s and lies in [%d, %d], but no entry for it was delivered", b, fmtLogs(nonRemoved(chain[b])), sc.From, hi)}
		}
	}
	if sc.Mode == "node" && res.ExitClean {
		return verdict{"node-exits-without-fault", "an incarnation of the node ended (error from SyncHistory / stream closed) although no fault was injected into it"}
	}
	return verdict{}
}

// ---- the search over fault placements ----

func firedKinds(res *Result) []string {
	var ks []string
	for _, i := range res.Fired {
		ks = append(ks, res.Points[i].Kind)
	}
	return ks
}

type finding struct {
	Sig      string `json:"sig"`
	What     string `json:"what"`
	NFaults  int    `json:"n_faults"`
	idx      int
	Trace    map[string]interface{} `json:"trace"`
	Observed []string               `json:"observed"`
}

type scenResult struct {
	Idx        int            `json:"idx"`
	Evals      int            `json:"evals"`
	Nontrivial int            `json:"nontrivial"`
	MaxPoints  int            `json:"max_points"`
	ByDepth    [4]int         `json:"by_depth"`
	Outcomes   map[string]int `json:"outcomes"`
	Findings   []finding      `json:"findings"` // first per signature, in search order
	Sample     interface{}    `json:"sample,omitempty"`
	GaveUp     string         `json:"gave_up,omitempty"`
}

func planSet(plan []Point) map[Point]bool {
	m := map[Point]bool{}
	for _, p := range plan {
		m[p] = true
	}
	return m
}

func planStrings(plan []Point) []string {
	out := []string{}
	for _, p := range plan {
		out = append(out, p.String())
	}
	return out
}

// explore runs the fault-free execution of one scenario and every placement of <= k faults.
func explore(sc *Scenario, wantSample bool) *scenResult {
	k := sc.K
	sr := &scenResult{Idx: sc.Idx, Outcomes: map[string]int{}}
	chain := buildChain(sc)
	base := execute(sc, nil)
	have := map[string]int{}
	visit := func(plan []Point, res *Result) verdict {
		sr.Evals++
		sr.ByDepth[len(plan)]++
		if len(res.Points) > sr.MaxPoints {
			sr.MaxPoints = len(res.Points)
		}
		if res.GaveUp != "" && sr.GaveUp == "" {
			sr.GaveUp = fmt.Sprintf("%s: scenario %d plan %v", res.GaveUp, sc.Idx, planStrings(plan))
		}
		if len(res.Fired) != len(plan) {
			sr.GaveUp = fmt.Sprintf("planned faults did not all fire: scenario %d plan %v fired %v", sc.Idx, planStrings(plan), res.Fired)
		}
		// measured, not assumed: did this placement change what the client asked of its
		// execution node, compared with the fault-free run of the same scenario?
		if len(plan) > 0 && res.Calls != base.Calls {
			sr.Nontrivial++
		}
		v := judge(sc, chain, res)
		end := "closed"
		if res.Exited {
			end = "client-exit(fatal)"
		}
		if res.Restarts > 0 {
			end = fmt.Sprintf("restarts=%d", res.Restarts)
		}
		ks := firedKinds(res)
		sort.Strings(ks)
		out := "holds"
		if v.Kind != "" {
			out = v.Kind
		}
		sr.Outcomes[fmt.Sprintf("%s %s faults=%v end=%s", sc.Mode, out, ks, end)]++
		if v.Kind != "" {
			last := "none"
			if n := len(res.Fired); n > 0 {
				last = res.Points[res.Fired[n-1]].Kind
			}
			sig := fmt.Sprintf("%s | mode=%s | last fault=%s", v.Kind, sc.Mode, last)
			// one witness per signature and scenario: the one with the fewest faults, first found
			f := finding{Sig: sig, What: v.What, NFaults: len(plan), Observed: fmtOut(res.Out),
				Trace: map[string]interface{}{"scenario": sc, "faults": planStrings(plan), "run": res.Log}}
			if i, ok := have[sig]; !ok {
				have[sig] = len(sr.Findings)
				sr.Findings = append(sr.Findings, f)
			} else if sr.Findings[i].NFaults > f.NFaults {
				sr.Findings[i] = f
			}
		}
		return v
	}
	var rec func(plan []Point, res *Result)
	rec = func(plan []Point, res *Result) {
		if len(plan) == k {
			return
		}
		start := 0
		if n := len(res.Fired); n > 0 {
			start = res.Fired[n-1] + 1
		}
		for i := start; i < len(res.Points); i++ {
			child := append(append([]Point{}, plan...), res.Points[i])
			cres := execute(sc, planSet(child))
			// a violating execution is not extended: its descendants repeat the same cause
			if v := visit(child, cres); v.Kind == "" && sr.GaveUp == "" {
				rec(child, cres)
			}
		}
	}
	if v := visit(nil, base); v.Kind == "" {
		rec(nil, base)
	}
	if wantSample {
		sr.Sample = map[string]interface{}{"scenario": sc, "fault_free_run": base.Log, "delivered": fmtOut(base.Out), "injectable_points": planStrings(base.Points)}
	}
	return sr
}

func boundsFor(thorough bool) bounds {
	// quick: <= 2 faults everywhere, plus <= 3 faults (reaches the client's Fatal / the node's
	// restart) on the 6-block chains with at most one log-carrying transaction in node mode
	b := bounds{chains: []chainSpec{{6, 0, 3, 2}, {8, 0, 2, 2}}, follows: []uint64{0, 2}, batches: []uint64{1, 2, 5}, scheds: schedOrder,
		nodeChains: []chainSpec{{6, 0, 1, 3}, {6, 2, 2, 2}}, nodeScheds: []string{"every"}}
	if thorough {
		// depth (3 faults) on the short chains, breadth (every distribution on chains up to 10) with 2
		b = bounds{chains: []chainSpec{{6, 0, 3, 3}, {7, 0, 3, 3}, {8, 0, 3, 2}, {9, 0, 3, 2}, {10, 0, 3, 2}}, follows: []uint64{0, 2}, batches: []uint64{1, 2, 5}, scheds: schedOrder,
			nodeChains: []chainSpec{{6, 0, 3, 3}, {8, 0, 2, 2}}, nodeScheds: []string{"every", "skip3"}}
	}
	if v := os.Getenv("C13_K"); v != "" { // development aid
		k := 0
		fmt.Sscan(v, &k)
		for i := range b.chains {
			b.chains[i].K = k
		}
		for i := range b.nodeChains {
			b.nodeChains[i].K = k
		}
	}
	return b
}

func watchdog() {
	// a run needs microseconds; no event anywhere for 60 s while work is outstanding means the
	// rendez-vous protocol of the harness is stuck (engine error, not a verdict)
	last := progress.Load()
	for {
		time.Sleep(60 * time.Second)
		cur := progress.Load()
		if cur == last && busy.Load() {
			buf := make([]byte, 1<<20)
			n := runtime.Stack(buf, true)
			os.Stderr.Write(buf[:n])
			ev.Fatal("no progress for 60 s")
		}
		last = cur
	}
}

var busy atomic.Bool

// worker is the child-process mode: "tier sampleEvery" in C13_WORKER; scenario indices arrive on
// stdin one per line, one JSON result per line goes to stdout. One P per worker process: the
// hand-overs between the client's goroutines and the harness stay on one thread, and the 256 KiB
// channel buffer that fetchLogsInBatches allocates per fetch stays in that core's cache.
// ballast raises the heap goal so that the runtime's background scavenger does not hand the
// 256 KiB channel buffers of fetchLogsInBatches back to the OS after every collection (measured:
// half of the CPU time was madvise); it is never read or written.
var ballast []byte

func worker(spec string) {
	mb := 24
	if v := os.Getenv("C13_BALLAST"); v != "" { // development aid
		fmt.Sscan(v, &mb)
	}
	ballast = make([]byte, mb<<20)
	var tier string
	var sampleEvery int
	fmt.Sscan(spec, &tier, &sampleEvery)
	b := boundsFor(tier == "thorough")
	scens := generate(b)
	go watchdog()
	if pf := os.Getenv("C13_CPUPROFILE"); pf != "" { // development aid
		f, _ := os.Create(pf)
		pprof.StartCPUProfile(f)
		defer pprof.StopCPUProfile()
	}
	in := bufio.NewScanner(os.Stdin)
	out := bufio.NewWriter(os.Stdout)
	for in.Scan() {
		var idx int
		fmt.Sscan(in.Text(), &idx)
		busy.Store(true)
		sr := explore(scens[idx], idx%sampleEvery == 0)
		busy.Store(false)
		j, _ := json.Marshal(sr)
		out.Write(j)
		out.WriteByte('\n')
		out.Flush()
	}
}

func main() {
	if spec := os.Getenv("C13_WORKER"); spec != "" {
		worker(spec)
		return
	}
	r := ev.Start("C13", "fault_enumeration")
	if r.Replay != "" {
		replay(r)
		return
	}
	b := boundsFor(r.Thorough())
	scens := generate(b)
	total := len(scens)
	if v := os.Getenv("C13_LIMIT"); v != "" { // development aid: only the first n scenarios
		fmt.Sscan(v, &total)
		if total > len(scens) {
			total = len(scens)
		}
	}
	sampleEvery := total/6 + 1
	// VERIF_SEED only rotates the order in which scenarios are handed to the workers
	rot := 0
	if total > 0 {
		rot = ((r.Seed % total) + total) % total
	}

	results := make([]*scenResult, total)
	var next atomic.Int64
	var wg sync.WaitGroup
	var failed atomic.Value
	for w := 0; w < runtime.NumCPU(); w++ {
		wg.Add(1)
		go func() {
			defer wg.Done()
			cmd := exec_.Command(os.Args[0])
			cmd.Env = append(os.Environ(), fmt.Sprintf("C13_WORKER=%s %d", r.Tier, sampleEvery), "GOMAXPROCS=1")
			cmd.Stderr = os.Stderr
			stdin, _ := cmd.StdinPipe()
			stdout, _ := cmd.StdoutPipe()
			if err := cmd.Start(); err != nil {
				failed.Store(fmt.Sprintf("cannot start worker: %v", err))
				return
			}
			rd := bufio.NewReaderSize(stdout, 1<<20)
			for {
				i := int(next.Add(1)) - 1
				if i >= total || r.Expired() {
					break
				}
				idx := (i + rot) % total
				fmt.Fprintf(stdin, "%d\n", idx)
				line, err := rd.ReadBytes('\n')
				if err != nil {
					failed.Store(fmt.Sprintf("worker died on scenario %d: %v", idx, err))
					break
				}
				sr := &scenResult{}
				if err := json.Unmarshal(line, sr); err != nil {
					failed.Store(fmt.Sprintf("worker answer for scenario %d: %v", idx, err))
					break
				}
				results[idx] = sr
			}
			stdin.Close()
			cmd.Wait()
		}()
	}
	wg.Wait()
	if f := failed.Load(); f != nil {
		ev.Fatal("%s", f)
	}

	outcomes := map[string]int{}
	done, maxPoints := 0, 0
	var byDepth [4]int
	perMode := map[string]int{}
	var findings []finding
	for i, sr := range results {
		if sr == nil {
			continue
		}
		done++
		perMode[scens[i].Mode]++
		if sr.GaveUp != "" {
			ev.Fatal("%s", sr.GaveUp)
		}
		r.Add("evaluations", sr.Evals)
		r.Add("distinct_nontrivial", sr.Nontrivial)
		for d, n := range sr.ByDepth {
			byDepth[d] += n
		}
		if sr.MaxPoints > maxPoints {
			maxPoints = sr.MaxPoints
		}
		for k, n := range sr.Outcomes {
			outcomes[k] += n
		}
		if sr.Sample != nil {
			r.Sample(sr.Sample)
		}
		for _, f := range sr.Findings {
			f.idx = i
			findings = append(findings, f)
		}
	}
	// the witness kept per signature is the one with the fewest faults, then the lowest scenario
	// index: independent of which worker finished first
	sort.SliceStable(findings, func(a, b int) bool {
		if findings[a].NFaults != findings[b].NFaults {
			return findings[a].NFaults < findings[b].NFaults
		}
		return findings[a].idx < findings[b].idx
	})
	for _, f := range findings {
		r.Violate(f.Sig, f.What, "c13", f.Trace, f.Observed, "strictly increasing block numbers; exactly one entry with exactly the non-removed logs, in order, for every block with logs in [from, last head - follow]; no other entry")
	}
	if done < total {
		r.CapHit(fmt.Sprintf("deadline: %d of %d scenarios explored", done, total))
	}
	r.Set("rule", "per scenario: the fault-free run, then every placement of <= max_faults faults (FilterLogs/SubscribeNewHead/reconnect-dial/BlockNumber call fails; subscription error in place of the next head) at points the execution actually passes, each placement once; max_faults per chain length as listed in bounds")
	r.Set("bounds", map[string]interface{}{"chains": b.chains,
		"log_distributions": "every multiset of <= max_log_txs log-carrying transactions over the blocks 1..n; transaction kinds N (1 log) / R (removed log) / T2 (2 logs in one tx) / T16 (16 logs in one tx), kind profile rotating with the distribution index",
		"follow_distances":  b.follows, "batch_sizes": b.batches, "head_schedules": b.scheds, "from_block": fromBlock,
		"node_mode_chains": b.nodeChains, "node_mode_schedules": b.nodeScheds, "node_mode_tip_at_history_sync": "2, n/2, n-1"})
	r.Set("scenarios", map[string]interface{}{"total": total, "explored": done, "by_mode": perMode})
	r.Set("placements_by_number_of_faults", byDepth[:])
	r.Set("max_injectable_points_in_one_run", maxPoints)
	r.Set("distinct_outcomes", len(outcomes))
	r.Set("outcome_histogram", outcomes)
	r.Assume(
		"the stand-in for ethclient answers FilterLogs like eth_getLogs: all logs of the contract in [from,to] up to the current head, ordered by block, transaction, log index; removed logs flagged",
		"heads are only taken by a live subscription: a head announced while the client reconnects is offered to the next subscription (never lost); a subscription error takes the place of the next head",
		"after the scripted heads the chain grows by empty blocks until one head has been worked off without a fault; the upper end of the owed range is that head minus the follow distance",
		"quiescence is observed by offering a stale head (number 0) on the unbuffered head channel: the client can only take it while idle in its select and drops it without a call",
		"reconnect back-off runs with initial interval 0 (time.Sleep(0)); connection timeout 1h is never reached; zap Fatal = runtime.Goexit of the streaming goroutine (node exit)",
		"node mode replicates the ten lines of cli/operator/node.go that choose the block range (lastProcessed+1, SyncHistory, last+1, SyncOngoing, Fatal on error = restart) with a recording EventHandler that persists its cursor per entry like the real one; the real EventHandler's ErrInferiorBlock guard is not in the loop, the raw stream is judged",
		"reorganisations (a block's logs changing after delivery) and the nil-error close of a subscription are not in the alphabet",
	)
	r.Finish(done == total)
}

func replay(r *ev.Run) {
	v, err := ev.LoadReplay(r.Replay)
	if err != nil {
		ev.Fatal("%v", err)
	}
	b, _ := json.Marshal(v.Trace)
	var tr struct {
		Scenario Scenario `json:"scenario"`
		Faults   []string `json:"faults"`
	}
	if err := json.Unmarshal(b, &tr); err != nil {
		ev.Fatal("replay artefact: %v", err)
	}
	var plan []Point
	for _, s := range tr.Faults {
		plan = append(plan, parsePoint(s))
	}
	sc := &tr.Scenario
	fmt.Printf("replay %s\nscenario: %s\nfaults: %v\n", r.Replay, sc, tr.Faults)
	res := execute(sc, planSet(plan))
	for _, l := range res.Log {
		fmt.Println("  ", l)
	}
	fmt.Println("delivered:", fmtOut(res.Out))
	vd := judge(sc, buildChain(sc), res)
	if vd.Kind != "" {
		fmt.Printf("reproduced: %s: %s\nVIOLATION property=C13 replay=%s\n", vd.Kind, vd.What, r.Replay)
		os.Exit(1)
	}
	fmt.Println("not reproduced: the property holds on this execution")
	os.Exit(0)
}
