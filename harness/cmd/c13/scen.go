package main

import (
	"fmt"

	ethcommon "github.com/ethereum/go-ethereum/common"
	ethtypes "github.com/ethereum/go-ethereum/core/types"
)

var contractAddr = ethcommon.HexToAddress("0x00000000000000000000000000000000000c0de1")

// Item is one transaction that emitted registry logs in a block.
//
//	N   one log
//	R   one log, flagged Removed
//	T2  two logs in the transaction
//	T16 sixteen logs in the transaction (above the insertion-sort threshold of sort.Slice)
type Item struct {
	Block uint64 `json:"block"`
	Kind  string `json:"kind"`
}

// Scenario is one fault-free environment: a chain, the client configuration and what the
// environment tells the client about new heads.
type Scenario struct {
	Idx     int      `json:"idx"`
	Mode    string   `json:"mode"` // "stream": StreamLogs alone; "node": SyncHistory -> SyncOngoing with restarts
	N       uint64   `json:"chain_len"`
	From    uint64   `json:"from_block"`
	Follow  uint64   `json:"follow_distance"`
	Batch   uint64   `json:"batch_size"`
	Items   []Item   `json:"items"`
	Sched   string   `json:"head_schedule"`
	Heads   []uint64 `json:"heads"`
	HistTip uint64   `json:"tip_at_history_sync,omitempty"`
	K       int      `json:"max_faults"`
}

func (s *Scenario) String() string {
	return fmt.Sprintf("%s n=%d from=%d follow=%d batch=%d items=%v heads(%s)=%v histTip=%d", s.Mode, s.N, s.From, s.Follow, s.Batch, s.Items, s.Sched, s.Heads, s.HistTip)
}

// buildChain lays the items out as real ethtypes.Log values. Transaction indices *decrease* with
// the block number (a later block's logs have smaller TxIndex than an earlier block's), so an
// ordering that forgets the block number cannot pass by accident; inside a block transactions
// and log indices increase, as on a real chain.
func buildChain(s *Scenario) map[uint64][]ethtypes.Log {
	chain := map[uint64][]ethtypes.Log{}
	pos := map[uint64]uint{}
	for _, it := range s.Items {
		n, removed := 1, false
		switch it.Kind {
		case "N":
		case "R":
			removed = true
		case "T2":
			n = 2
		case "T16":
			n = 16
		default:
			panic("item kind " + it.Kind)
		}
		tx := uint(3*(s.N-it.Block)) + pos[it.Block]
		pos[it.Block]++
		for i := 0; i < n; i++ {
			chain[it.Block] = append(chain[it.Block], ethtypes.Log{
				Address:     contractAddr,
				Topics:      []ethcommon.Hash{ethcommon.BigToHash(bigU(uint64(tx)))},
				Data:        []byte{byte(it.Block), byte(tx), byte(i)},
				BlockNumber: it.Block,
				BlockHash:   ethcommon.BigToHash(bigU(0xb10c00 + it.Block)),
				TxHash:      ethcommon.BigToHash(bigU(0x7800000 + it.Block*1000 + uint64(tx))),
				TxIndex:     tx,
				Index:       uint(len(chain[it.Block])),
				Removed:     removed,
			})
		}
	}
	return chain
}

// kind profiles: which kind the i-th item (in block order) of a distribution gets.
var profiles = [][]string{
	{"N", "N", "N"},
	{"T2", "R", "N"},
	{"R", "N", "T16"},
}

// distributions returns every multiset of at most 3 blocks out of 1..n (the blocks that carry an
// item), as non-decreasing tuples: 1 + n + C(n+1,2) + C(n+2,3) of them.
func distributions(n uint64) [][]uint64 {
	out := [][]uint64{{}}
	for a := uint64(1); a <= n; a++ {
		out = append(out, []uint64{a})
	}
	for a := uint64(1); a <= n; a++ {
		for b := a; b <= n; b++ {
			out = append(out, []uint64{a, b})
		}
	}
	for a := uint64(1); a <= n; a++ {
		for b := a; b <= n; b++ {
			for c := b; c <= n; c++ {
				out = append(out, []uint64{a, b, c})
			}
		}
	}
	return out
}

// head schedules for a chain of n blocks streamed from block f.
func schedules(n, f uint64) map[string][]uint64 {
	m := map[string][]uint64{}
	// every block announced
	for h := f; h <= n; h++ {
		m["every"] = append(m["every"], h)
	}
	// heads skipped: only every third block is announced
	for h := f + 1; h < n; h += 3 {
		m["skip3"] = append(m["skip3"], h)
	}
	m["skip3"] = append(m["skip3"], n)
	// repeated and regressing heads
	i := 0
	for h := f + 1; ; h += 2 {
		if h > n {
			h = n
		}
		m["repeat"] = append(m["repeat"], h)
		if i%2 == 0 {
			m["repeat"] = append(m["repeat"], h) // the same head again
		} else {
			m["repeat"] = append(m["repeat"], h-1) // an older head after a newer one
		}
		i++
		if h == n {
			break
		}
	}
	// one head only: the whole range in one fetch (batching decides)
	m["single"] = []uint64{n}
	return m
}

var schedOrder = []string{"every", "skip3", "repeat", "single"}

// chainSpec: chains of n blocks with every multiset of MinItems..MaxItems log-carrying
// transactions, each explored with every placement of at most K faults.
type chainSpec struct {
	N        uint64 `json:"blocks"`
	MinItems int    `json:"min_log_txs"`
	MaxItems int    `json:"max_log_txs"`
	K        int    `json:"max_faults"`
}

type bounds struct {
	chains     []chainSpec
	follows    []uint64
	batches    []uint64
	scheds     []string
	nodeChains []chainSpec
	nodeScheds []string
}

const fromBlock = 2 // block 1 exists (and may carry logs) but was not asked for

func generate(b bounds) []*Scenario {
	var out []*Scenario
	add := func(s *Scenario) { s.Idx = len(out); out = append(out, s) }
	items := func(d []uint64, p int) []Item {
		var it []Item
		for i, blk := range d {
			it = append(it, Item{Block: blk, Kind: profiles[p][i]})
		}
		return it
	}
	for _, cs := range b.chains {
		n := cs.N
		sch := schedules(n, fromBlock)
		for di, d := range distributions(n) {
			if len(d) < cs.MinItems || len(d) > cs.MaxItems {
				continue
			}
			// the kind profile rotates with the distribution index
			for _, fo := range b.follows {
				for _, ba := range b.batches {
					for _, sn := range b.scheds {
						add(&Scenario{Mode: "stream", N: n, From: fromBlock, Follow: fo, Batch: ba, Items: items(d, di%3), Sched: sn, Heads: sch[sn], K: cs.K})
					}
				}
			}
		}
	}
	for _, cs := range b.nodeChains {
		n := cs.N
		for di, d := range distributions(n) {
			if len(d) < cs.MinItems || len(d) > cs.MaxItems {
				continue
			}
			p := di % 3
			for _, fo := range b.follows {
				for _, ba := range b.batches {
					for _, ht := range []uint64{2, n / 2, n - 1} {
						for _, sn := range b.nodeScheds {
							// the heads that arrive once the node streams: the part of the schedule above the tip it started with
							var hs []uint64
							for _, h := range schedules(n, ht)[sn] {
								if h > ht {
									hs = append(hs, h)
								}
							}
							add(&Scenario{Mode: "node", N: n, From: fromBlock, Follow: fo, Batch: ba, Items: items(d, p), Sched: sn, Heads: hs, HistTip: ht, K: cs.K})
						}
					}
				}
			}
		}
	}
	return out
}
