// C06 — the node's QBFT instance is observationally equal to the reference ssv-spec instance.
// Lock-step product search: the real instance.Instance, the reference ssv-spec qbft.Instance and a
// second node instance that is compacted exactly when the runner compacts, fed every message of a
// finite alphabet (honest messages of real runs + every single-field mutation) and timeouts in
// every reachable product state.
package main

import (
	"bytes"
	"crypto/sha256"
	"encoding/hex"
	"encoding/json"
	"fmt"
	"os"
	"runtime"
	"sort"
	"strconv"
	"strings"
	"sync"
	"time"

	specqbft "github.com/bloxapp/ssv-spec/qbft"
	spectypes "github.com/bloxapp/ssv-spec/types"
	"github.com/herumi/bls-eth-go-binary/bls"

	"github.com/bloxapp/ssv/protocol/v2/qbft"
	"github.com/bloxapp/ssv/protocol/v2/qbft/controller"
	"github.com/bloxapp/ssv/protocol/v2/qbft/instance"

	"verifharness/lib/ev"
	"verifharness/lib/qnet"
)

// ---- plumbing shared by the three instances ----

type capNet struct {
	out  [][]byte
	fail bool // the publish reports an error to the caller (the message is recorded all the same)
}

func (n *capNet) Broadcast(m *spectypes.SSVMessage) error {
	b, _ := m.Encode()
	n.out = append(n.out, b)
	if n.fail {
		return errPublish
	}
	return nil
}

var errPublish = fmt.Errorf("c06: publish failed")

type nodeTimer struct{ arms []specqbft.Round }

func (t *nodeTimer) TimeoutForRound(h specqbft.Height, r specqbft.Round) { t.arms = append(t.arms, r) }

type specTimer struct{ arms []specqbft.Round }

func (t *specTimer) TimeoutForRound(r specqbft.Round) { t.arms = append(t.arms, r) }

type product struct {
	node, compacted  *instance.Instance
	spec             *specqbft.Instance
	nNet, cNet, sNet *capNet
	nTm, cTm         *nodeTimer
	sTm              *specTimer
}

type world struct {
	c         *qnet.Cfg
	me        spectypes.OperatorID
	pool      *qnet.Pool
	deepPaths [][][]byte
	deepStart []byte // this operator's start value ('A'/'B') in the run each deep path comes from
}

func (w *world) newNode() (*instance.Instance, *capNet, *nodeTimer) {
	net, tm := &capNet{}, &nodeTimer{}
	cfg := &qbft.Config{Signer: w.c.Signer(w.me), SigningPK: w.c.Share(w.me).SharePubKey, Domain: w.c.Domain, ValueCheckF: w.c.ValueCheckFor(w.me),
		ProposerF: specqbft.RoundRobinProposer, Network: net, Timer: tm, SignatureVerification: true}
	return instance.NewInstance(cfg, w.c.Share(w.me), w.c.Identifier, w.c.Height), net, tm
}

func (w *world) newSpec() (*specqbft.Instance, *capNet, *specTimer) {
	net, tm := &capNet{}, &specTimer{}
	cfg := &specqbft.Config{Signer: w.c.Signer(w.me), SigningPK: w.c.Share(w.me).SharePubKey, Domain: w.c.Domain, ValueCheckF: w.c.ValueCheckFor(w.me),
		ProposerF: specqbft.RoundRobinProposer, Network: net, Timer: tm}
	return specqbft.NewInstance(cfg, w.c.Share(w.me), w.c.Identifier, w.c.Height), net, tm
}

func (w *world) initial(start []byte) (*product, string) {
	p := &product{}
	p.node, p.nNet, p.nTm = w.newNode()
	p.compacted, p.cNet, p.cTm = w.newNode()
	p.spec, p.sNet, p.sTm = w.newSpec()
	p.node.Start(qnet.Log, start, w.c.Height)
	p.compacted.Start(qnet.Log, start, w.c.Height)
	p.spec.Start(start, w.c.Height)
	return p, w.compare(p, nil, nil, nil, "start")
}

func (w *world) clone(p *product) *product {
	n := &product{}
	n.node, n.nNet, n.nTm = w.newNode()
	n.node.State, n.node.StartValue = qnet.CloneState(p.node.State), p.node.StartValue
	n.compacted, n.cNet, n.cTm = w.newNode()
	n.compacted.State, n.compacted.StartValue = qnet.CloneState(p.compacted.State), p.compacted.StartValue
	n.spec, n.sNet, n.sTm = w.newSpec()
	n.spec.State, n.spec.StartValue = qnet.CloneState(p.spec.State), p.spec.StartValue
	return n
}

func (w *world) key(p *product) [32]byte {
	var b bytes.Buffer
	b.Write(w.pool.HashStateBytes(p.node.State, p.node.StartValue, p.node.CanProcessMessages()))
	b.WriteByte(0xaa)
	b.Write(w.pool.HashStateBytes(p.compacted.State, p.compacted.StartValue, p.compacted.CanProcessMessages()))
	return sha256.Sum256(b.Bytes())
}

type outcome struct {
	errNode, errSpec, errComp error
	decN, decS, decC          bool
	valN, valS, valC          []byte
	aggN, aggS, aggC          *specqbft.SignedMessage
}

func sortedSigners(m *specqbft.SignedMessage) []spectypes.OperatorID {
	s := append([]spectypes.OperatorID(nil), m.Signers...)
	sort.Slice(s, func(i, j int) bool { return s[i] < s[j] })
	return s
}

func sameAgg(a, b *specqbft.SignedMessage) bool {
	if (a == nil) != (b == nil) {
		return false
	}
	if a == nil {
		return true
	}
	ra, _ := a.GetRoot()
	rb, _ := b.GetRoot()
	return ra == rb && bytes.Equal(a.Signature, b.Signature) && bytes.Equal(a.FullData, b.FullData) && fmt.Sprint(sortedSigners(a)) == fmt.Sprint(sortedSigners(b))
}

func sameBytes(a, b [][]byte) bool {
	if len(a) != len(b) {
		return false
	}
	for i := range a {
		if !bytes.Equal(a[i], b[i]) {
			return false
		}
	}
	return true
}

// compare checks the per-transition oracle; returns "" or a description of the first difference.
func (w *world) compare(p *product, o *outcome, _ *specqbft.SignedMessage, _ interface{}, what string) string {
	if o != nil {
		if (o.errNode == nil) != (o.errSpec == nil) {
			return fmt.Sprintf("acceptance differs: node err=%v, spec err=%v", o.errNode, o.errSpec)
		}
		if (o.errNode == nil) != (o.errComp == nil) {
			return fmt.Sprintf("compaction changed acceptance: uncompacted err=%v, compacted err=%v", o.errNode, o.errComp)
		}
		if o.decN != o.decS || !bytes.Equal(o.valN, o.valS) {
			return fmt.Sprintf("decision differs: node (%v,%s) spec (%v,%s)", o.decN, qnet.ValName(o.valN), o.decS, qnet.ValName(o.valS))
		}
		if o.decN != o.decC || !bytes.Equal(o.valN, o.valC) {
			return "compaction changed the reported decision"
		}
		if !sameAgg(o.aggN, o.aggS) {
			return "aggregated commit differs from the spec's (beyond signer order)"
		}
		if !sameAgg(o.aggN, o.aggC) {
			return "compaction changed the aggregated commit"
		}
	}
	if !sameBytes(p.nNet.out, p.sNet.out) {
		return fmt.Sprintf("broadcasts differ: node sent %d message(s), spec %d", len(p.nNet.out), len(p.sNet.out))
	}
	if !sameBytes(p.nNet.out, p.cNet.out) {
		return "compaction changed a broadcast"
	}
	if fmt.Sprint(p.nTm.arms) != fmt.Sprint(p.sTm.arms) {
		return fmt.Sprintf("timer arms differ: node %v spec %v", p.nTm.arms, p.sTm.arms)
	}
	if fmt.Sprint(p.nTm.arms) != fmt.Sprint(p.cTm.arms) {
		return "compaction changed a timer arm"
	}
	// field-by-field identity of the two protocol states (same canonical encoding as the search
	// key); the states' own GetRoot() is compared as well whenever the transition changed the state
	hn := w.pool.HashStateBytes(p.node.State, p.node.StartValue, true)
	hs := w.pool.HashStateBytes(p.spec.State, p.spec.StartValue, true)
	if !bytes.Equal(hn, hs) {
		return "protocol state roots differ"
	}
	if o == nil || p.nNet.out != nil || o.errNode == nil {
		rn, e1 := p.node.State.GetRoot()
		rs, e2 := p.spec.State.GetRoot()
		if e1 != nil || e2 != nil || rn != rs {
			return "protocol state roots differ"
		}
	}
	if p.node.CanProcessMessages() != p.spec.CanProcessMessages() {
		return "CanProcessMessages differs"
	}
	return ""
}

// step applies one alphabet element (nil = timeout) to the three instances.
func (w *world) step(p *product, m *specqbft.SignedMessage) string {
	p.nNet.out, p.cNet.out, p.sNet.out = nil, nil, nil
	p.nTm.arms, p.cTm.arms, p.sTm.arms = nil, nil, nil
	o := &outcome{}
	if m == nil {
		o.errNode = p.node.UponRoundTimeout(qnet.Log)
		o.errComp = p.compacted.UponRoundTimeout(qnet.Log)
		o.errSpec = p.spec.UponRoundTimeout()
	} else {
		o.decN, o.valN, o.aggN, o.errNode = p.node.ProcessMsg(qnet.Log, m)
		o.decC, o.valC, o.aggC, o.errComp = p.compacted.ProcessMsg(qnet.Log, m)
		// the runner compacts after every processed decided or round-change message
		if controller.IsDecidedMsg(w.c.Share(w.me), m) || m.Message.MsgType == specqbft.RoundChangeMsgType {
			instance.Compact(p.compacted.State, m)
		}
		o.decS, o.valS, o.aggS, o.errSpec = p.spec.ProcessMsg(m)
	}
	return w.compare(p, o, m, nil, "")
}

// ---- alphabet ----

type letter struct {
	name string
	msg  *specqbft.SignedMessage   // nil = timeout
	base bool                      // honest message of a real run (drives the exploration)
	more []*specqbft.SignedMessage // class-level letters (phase E): further messages of the same class
}

// deepPaths: for every execution of the same searches, what operator `me` itself processed, in
// order (message bytes, or nil for a timeout) - realistic long histories for the product.
func (w *world) honestPool(maxRound specqbft.Round, k int, stop func() bool) []*specqbft.SignedMessage {
	var out []*specqbft.SignedMessage
	seen := map[string]bool{}
	seenPath := map[string]bool{}
	// sources of honest traffic: every operator correct (k deviations), and the leader of round 1
	// resp. round 2 silent (k+1 deviations) so that justified proposals, prepared round-changes and
	// traffic of rounds 2 and 3 are in the alphabet
	type src struct {
		byz       spectypes.OperatorID
		k         int
		pathsOnly bool // contributes deep paths, not letters
		picky     bool // this operator's value check rejects C; the leader of round 1 resp. 2 starts with C
	}
	// (all correct with one more deviation: a round that fails after somebody prepared, so that
	// prepared round-changes meet leaders with another start value)
	srcs := []src{{0, k, false, false}, {0, k + 1, true, false}, {0, k, false, true}}
	for _, r := range []specqbft.Round{1, 2} {
		if l := w.c.Leader(r); l != w.me && w.c.N == 4 {
			srcs = append(srcs, src{l, k + 1, false, false})
		}
	}
	for _, sr := range srcs {
		base := &qnet.Cfg{N: w.c.N, Height: w.c.Height, Byz: sr.byz, MaxRound: maxRound, Role: w.c.Role}
		base.Init()
		k := sr.k
		assignments := qnet.StartAssignments(base.Honest)
		if sr.picky {
			// values the other operators accept and this one's own check rejects (operators' value
			// checks differ: each consults its own records): traffic, prepared round-changes and
			// justified re-proposals of such a value
			base.Picky = w.me
			assignments = nil
			for _, r := range []specqbft.Round{1, 2} {
				if l := w.c.Leader(r); l != w.me {
					st := map[spectypes.OperatorID]byte{}
					for _, h := range base.Honest {
						st[h] = 'A'
					}
					st[l] = 'C'
					assignments = append(assignments, st)
				}
			}
		}
		for _, st := range assignments {
			c := *base
			c.Start = st
			pool := qnet.NewPool()
			wd, init := qnet.NewWorld(&c, pool)
			deep := sr.pathsOnly
			s := &qnet.Search{K: k, Stop: stop, AllowDeviation: func(_ *qnet.World, e qnet.Event, _ int) bool {
				if deep {
					return e.Kind == qnet.Isolate || e.Kind == qnet.DropAll
				}
				return e.Kind == qnet.Isolate || e.Kind == qnet.Timeout || e.Kind == qnet.Drop || e.Kind == qnet.DropAll
			}}
			cc := c
			s.OnEnd = func(end *qnet.World) {
				// re-run the execution on a fresh world and note what operator me processed
				p2 := qnet.NewPool()
				w2, _ := qnet.NewWorld(&cc, p2)
				var path [][]byte
				key := ""
				for _, e := range end.Trace {
					for _, rep := range w2.Apply(e) {
						if rep.Op != w.me {
							continue
						}
						if rep.Event.Kind == qnet.Timeout || rep.Event.Kind == qnet.TimeoutAll {
							path = append(path, nil)
							key += "T|"
						} else if rep.Event.Msg >= 0 {
							b := []byte(p2.List[rep.Event.Msg].Key)
							path = append(path, b)
							key += p2.List[rep.Event.Msg].Key + "|"
						}
					}
				}
				key += string(cc.Start[w.me])
				if !seenPath[key] {
					seenPath[key] = true
					w.deepPaths = append(w.deepPaths, path)
					w.deepStart = append(w.deepStart, cc.Start[w.me])
				}
			}
			s.Run(wd, init)
			for _, m := range pool.List {
				if !seen[m.Key] && !sr.pathsOnly {
					seen[m.Key] = true
					out = append(out, m.Signed)
				}
			}
		}
	}
	return out
}

func classOf(m *specqbft.SignedMessage) string {
	t := [...]string{"proposal", "prepare", "commit", "roundchange"}[m.Message.MsgType]
	s := fmt.Sprintf("%s r%d by %v", t, m.Message.Round, m.Signers)
	if m.Message.MsgType == specqbft.RoundChangeMsgType {
		s += fmt.Sprintf(" prepared@%d", m.Message.DataRound)
	}
	if len(m.Message.RoundChangeJustification) > 0 || len(m.Message.PrepareJustification) > 0 {
		s += fmt.Sprintf(" just(%d,%d)", len(m.Message.RoundChangeJustification), len(m.Message.PrepareJustification))
	}
	if len(m.FullData) > 0 {
		s += " " + qnet.ValName(m.FullData)
	} else {
		s += " " + qnet.RootName(m.Message.Root)
	}
	return s
}

func (w *world) resign(m *specqbft.SignedMessage, by spectypes.OperatorID) *specqbft.SignedMessage {
	if _, ok := w.c.KeySet.Shares[by]; !ok {
		by = 1
	}
	return w.c.SignMsg(by, m.Signers, &m.Message, m.FullData)
}

func (w *world) mutants(m *specqbft.SignedMessage, donor *specqbft.SignedMessage) []letter {
	var out []letter
	signer := spectypes.OperatorID(1)
	if len(m.Signers) > 0 {
		signer = m.Signers[0]
	}
	add := func(name string, f func(x *specqbft.SignedMessage), re bool) {
		x := m.DeepCopy()
		x.FullData = append([]byte(nil), m.FullData...)
		f(x)
		if re {
			x = w.resign(x, signer)
		}
		out = append(out, letter{name: classOf(m) + " / " + name, msg: x})
	}
	for t := specqbft.MessageType(0); t <= 4; t++ {
		if t != m.Message.MsgType {
			tt := t
			add(fmt.Sprintf("type:=%d", tt), func(x *specqbft.SignedMessage) { x.Message.MsgType = tt }, true)
		}
	}
	add("height+1", func(x *specqbft.SignedMessage) { x.Message.Height++ }, true)
	add("height-1", func(x *specqbft.SignedMessage) { x.Message.Height-- }, true)
	for _, r := range []specqbft.Round{0, m.Message.Round - 1, m.Message.Round + 1, 1 << 40} {
		rr := r
		add(fmt.Sprintf("round:=%d", rr), func(x *specqbft.SignedMessage) { x.Message.Round = rr }, true)
	}
	add("root-flipped", func(x *specqbft.SignedMessage) { x.Message.Root[0] ^= 1 }, true)
	add("root-flipped-stale-signature", func(x *specqbft.SignedMessage) { x.Message.Root[0] ^= 1 }, false)
	add("signers:=[0]", func(x *specqbft.SignedMessage) { x.Signers = []spectypes.OperatorID{0} }, true)
	add("signers:=[non-member]", func(x *specqbft.SignedMessage) { x.Signers = []spectypes.OperatorID{spectypes.OperatorID(w.c.N + 1)} }, true)
	add("signers:=[other-member]", func(x *specqbft.SignedMessage) {
		x.Signers = []spectypes.OperatorID{signer%spectypes.OperatorID(w.c.N) + 1}
	}, true)
	add("signers:=two", func(x *specqbft.SignedMessage) {
		x.Signers = []spectypes.OperatorID{signer, signer%spectypes.OperatorID(w.c.N) + 1}
	}, true)
	add("signers:=none", func(x *specqbft.SignedMessage) { x.Signers = nil }, true)
	add("identifier-other", func(x *specqbft.SignedMessage) {
		x.Message.Identifier = append([]byte{0xff}, x.Message.Identifier[1:]...)
	}, true)
	if len(m.FullData) > 0 {
		add("fulldata-flipped", func(x *specqbft.SignedMessage) { x.FullData[0] ^= 1 }, true)
		add("fulldata-empty", func(x *specqbft.SignedMessage) { x.FullData = nil }, true)
		add("fulldata-other-value", func(x *specqbft.SignedMessage) {
			if bytes.Equal(x.FullData, qnet.ValA) {
				x.FullData = qnet.ValB
			} else {
				x.FullData = qnet.ValA
			}
		}, true)
		add("value-swapped-consistently", func(x *specqbft.SignedMessage) {
			if bytes.Equal(x.FullData, qnet.ValA) {
				x.FullData, x.Message.Root = qnet.ValB, qnet.RootOf('B')
			} else {
				x.FullData, x.Message.Root = qnet.ValA, qnet.RootOf('A')
			}
		}, true)
	} else {
		add("fulldata-added", func(x *specqbft.SignedMessage) { x.FullData = qnet.ValA }, true)
	}
	if m.Message.MsgType == specqbft.RoundChangeMsgType {
		add("dataround+1", func(x *specqbft.SignedMessage) { x.Message.DataRound++ }, true)
		add("dataround:=0", func(x *specqbft.SignedMessage) { x.Message.DataRound = 0 }, true)
	}
	for _, which := range []string{"rc", "prep"} {
		get := func(x *specqbft.SignedMessage) *[][]byte {
			if which == "rc" {
				return &x.Message.RoundChangeJustification
			}
			return &x.Message.PrepareJustification
		}
		if len(*get(m)) == 0 {
			if donor != nil && len(*get(donor)) > 0 {
				d := *get(donor)
				add(which+"-just-injected", func(x *specqbft.SignedMessage) { *get(x) = d }, true)
			}
			continue
		}
		add(which+"-just-truncated", func(x *specqbft.SignedMessage) { j := get(x); *j = (*j)[:len(*j)-1] }, true)
		add(which+"-just-removed", func(x *specqbft.SignedMessage) { *get(x) = nil }, true)
		add(which+"-just-garbage", func(x *specqbft.SignedMessage) { j := get(x); *j = append([][]byte{{1, 2, 3}}, (*j)[1:]...) }, true)
		add(which+"-just-duplicated", func(x *specqbft.SignedMessage) { j := get(x); *j = append(append([][]byte{}, (*j)...), (*j)[0]) }, true)
		if donor != nil && len(*get(donor)) > 0 {
			d := *get(donor)
			add(which+"-just-cross", func(x *specqbft.SignedMessage) { *get(x) = d }, true)
		}
	}
	return out
}

func (w *world) alphabet(maxRound specqbft.Round, k int, stop func() bool) []letter {
	hp := w.honestPool(maxRound, k, stop)
	out := []letter{{name: "timeout", base: true}}
	classes := map[string]bool{}
	var donorRC, donorProp *specqbft.SignedMessage
	for _, m := range hp {
		if m.Message.MsgType == specqbft.RoundChangeMsgType && len(m.Message.RoundChangeJustification) > 0 && donorRC == nil {
			donorRC = m
		}
		if m.Message.MsgType == specqbft.ProposalMsgType && len(m.Message.PrepareJustification) > 0 && donorProp == nil {
			donorProp = m
		}
	}
	for _, m := range hp {
		out = append(out, letter{name: classOf(m), msg: m, base: true})
	}
	for _, m := range hp {
		// one representative per content class (type, round, prepared round, justification shape,
		// value; the signer is not part of the class) is mutated
		c := classOf(&specqbft.SignedMessage{Message: m.Message, FullData: m.FullData, Signers: []spectypes.OperatorID{0}})
		if len(m.Signers) > 1 {
			c = classOf(m)
		}
		if classes[c] {
			continue
		}
		classes[c] = true
		donor := donorRC
		if m.Message.MsgType == specqbft.ProposalMsgType {
			donor = donorProp
		}
		out = append(out, w.mutants(m, donor)...)
	}
	// every letter enters the pool so that container identity hashing is stable
	for i := range out {
		if out[i].msg != nil {
			out[i].msg = w.pool.Intern(out[i].msg, 0).Signed
		}
	}
	return out
}

// macroLetters builds the class-level alphabet of phase E from the honest letters.
func (w *world) macroLetters(base []letter) []letter {
	type cls struct {
		name    string
		bySig   map[spectypes.OperatorID]*specqbft.SignedMessage
		signers []spectypes.OperatorID
	}
	var order []*cls
	idx := map[string]*cls{}
	out := []letter{{name: "timeout", base: true}}
	for _, l := range base {
		if l.msg == nil {
			continue
		}
		if len(l.msg.Signers) != 1 {
			out = append(out, l)
			continue
		}
		name := classOf(&specqbft.SignedMessage{Message: l.msg.Message, FullData: l.msg.FullData, Signers: []spectypes.OperatorID{0}})
		c := idx[name]
		if c == nil {
			c = &cls{name: name, bySig: map[spectypes.OperatorID]*specqbft.SignedMessage{}}
			idx[name] = c
			order = append(order, c)
		}
		sg := l.msg.Signers[0]
		if c.bySig[sg] == nil { // the first variant of a signer represents it
			c.bySig[sg] = l.msg
			c.signers = append(c.signers, sg)
		}
	}
	q := int(w.c.Share(w.me).Quorum)
	for _, c := range order {
		sort.Slice(c.signers, func(i, j int) bool { return c.signers[i] < c.signers[j] })
		for k := 1; k <= len(c.signers) && k <= q; k++ {
			l := letter{name: fmt.Sprintf("%d x %s (signers %v)", k, c.name, c.signers[:k]), msg: c.bySig[c.signers[0]], base: true}
			for _, sg := range c.signers[1:k] {
				l.more = append(l.more, c.bySig[sg])
			}
			out = append(out, l)
		}
	}
	return out
}

// idsOf: the pool ids of the messages of a letter (-1 = timeout).
func (w *world) idsOf(l letter) []int32 {
	out := []int32{w.pool.IDOf(l.msg)}
	for _, m := range l.more {
		out = append(out, w.pool.IDOf(m))
	}
	return out
}

// artefact describes a product history independently of this run: committee size, operator, start
// value and the encoded messages in order ("timeout" for a round timeout).
func (w *world) artefact(tag string, start byte, names []string, ids []int32) map[string]interface{} {
	steps := make([]string, 0, len(ids))
	for _, id := range ids {
		if id < 0 {
			steps = append(steps, "timeout")
			continue
		}
		steps = append(steps, hex.EncodeToString([]byte(w.pool.List[id].Key)))
	}
	return map[string]interface{}{"config": tag, "n": w.c.N, "operator": uint64(w.me), "height": uint64(w.c.Height), "start": string(start), "path": names, "steps": steps}
}

// ---- search ----

type node struct {
	p       *product
	path    []string
	ids     []int32 // pool ids of the messages on the path (-1 = timeout), for the replay artefact
	key     [32]byte
	mutants int  // number of mutated letters on the path
	start   byte // start value of the product ('A' when zero)
}

func (n node) start0() byte {
	if n.start == 0 {
		return 'A'
	}
	return n.start
}

type result struct {
	States, Transitions int
	Complete            bool
	Hist                map[string]int
	Alphabet, Base      int
	HonestDepth         int
	MutantStatesCovered int
	DeepPaths           int
	DeepStates          int
	Splice              spliceStats
	Macros, MacroDepth  int
	MacroStates         int
	MacroSteps          int
	LadderSteps         int
	FaultSteps          int
}

func explore(r *ev.Run, w *world, start []byte, alpha []letter, maxTransitions int, tag string) result {
	res := result{Hist: map[string]int{}, Complete: true, Alphabet: len(alpha)}
	var base, mut []letter
	for _, l := range alpha {
		if l.base {
			base = append(base, l)
		} else {
			mut = append(mut, l)
		}
	}
	res.Base = len(base)
	init, diff := w.initial(start)
	if diff != "" {
		r.Violate("differs-from-spec at start", diff, "c06", map[string]interface{}{"config": tag}, nil, nil)
		return res
	}
	seen := map[[32]byte]bool{w.key(init): true}
	seenSet := seen // the set expand deduplicates against (phase E uses its own)
	var mu sync.Mutex
	workers := runtime.NumCPU()
	// expand applies the given letters to every node (in parallel), records differences and returns
	// the new states; budget is the number of transitions it may spend.
	expand := func(nodes []node, letters []letter, budget int, collect bool) (next []node, used int, complete bool) {
		var wg sync.WaitGroup
		ch := make(chan node)
		for i := 0; i < workers; i++ {
			wg.Add(1)
			go func() {
				defer wg.Done()
				for n := range ch {
					for _, l := range letters {
						p2 := w.clone(n.p)
						diff := w.step(p2, l.msg)
						for _, m2 := range l.more {
							if diff != "" {
								break
							}
							diff = w.step(p2, m2)
						}
						k2 := w.key(p2)
						changed := k2 != n.key
						mu.Lock()
						used += 1 + len(l.more)
						cls := "rejected-by-both"
						if p2.nNet.out != nil {
							cls = "accepted+broadcast"
						} else if changed {
							cls = "accepted-silently"
						}
						if !l.base {
							cls = "mutant " + cls
						}
						res.Hist[cls]++
						if diff != "" {
							path := append(append([]string{}, n.path...), l.name)
							ids := append(append([]int32{}, n.ids...), w.idsOf(l)...)
							r.Violate("differs-from-spec: "+short(diff)+decidedTag(diff, n.p), diff+" after "+l.name, "c06", w.artefact(tag, n.start0(), path, ids), diff, "identical observable behaviour")
						} else if changed && collect && !seenSet[k2] {
							seenSet[k2] = true
							nm := n.mutants
							if !l.base {
								nm++
							}
							next = append(next, node{p: p2, key: k2, mutants: nm, start: n.start, path: append(append([]string{}, n.path...), l.name), ids: append(append([]int32{}, n.ids...), w.idsOf(l)...)})
							if len(seen)%2000 == 1 {
								r.Sample(map[string]interface{}{"config": tag, "path": next[len(next)-1].path})
							}
						}
						mu.Unlock()
					}
				}
			}()
		}
		complete = true
		for _, n := range nodes {
			mu.Lock()
			over := used >= budget || r.Expired()
			mu.Unlock()
			if over {
				complete = false
				break
			}
			ch <- n
		}
		close(ch)
		wg.Wait()
		sort.SliceStable(next, func(i, j int) bool { return fmt.Sprint(next[i].path) < fmt.Sprint(next[j].path) })
		return
	}
	// phase A: honest letters only, breadth first, as deep as a third of the budget allows
	all := []node{{p: init, key: w.key(init)}}
	frontier := all
	depth := 0
	budgetA := maxTransitions / 6
	onlyD := os.Getenv("VERIF_C06_ONLY_D") != "" // experiments only
	if onlyD {
		budgetA = 0
	}
	for len(frontier) > 0 && budgetA > 0 {
		next, used, complete := expand(frontier, base, budgetA, true)
		res.Transitions += used
		budgetA -= used
		all = append(all, next...)
		if !complete {
			res.Complete = false
			break
		}
		depth++
		frontier = next
	}
	res.HonestDepth = depth
	// phase B: every mutated letter in every honest-reachable state (breadth-first order), and one
	// honest step after each accepted mutant
	budgetB := maxTransitions/2 - res.Transitions
	if onlyD {
		budgetB = 0
	}
	next, used, complete := expand(all, mut, budgetB, true)
	res.Transitions += used
	res.MutantStatesCovered = len(all)
	if !complete {
		res.Complete = false
		res.MutantStatesCovered = used / (len(mut) + 1)
	}
	if complete {
		_, used2, c2 := expand(next, base, maxTransitions-res.Transitions, false)
		res.Transitions += used2
		if !c2 {
			res.Complete = false
		}
	}
	// phase C: realistic deep histories - what this operator processed in every execution of the
	// multi-operator runs; the product is compared along each of them and every mutated letter is
	// applied in every new state on the way
	// pass 1: every deep path, step comparison only; pass 2: all mutants in every new state on the
	// way, as far as the budget goes
	for pass := 1; pass <= 2; pass++ {
		if onlyD && pass == 2 {
			break
		}
		for pi, path := range w.deepPaths {
			if pass == 2 && (res.Transitions >= maxTransitions+maxTransitions/2 || r.Expired()) {
				res.Complete = false
				break
			}
			cur, _ := w.initial(qnet.Val(w.deepStart[pi]))
			names := []string{}
			var ids []int32
			for _, b := range path {
				var m *specqbft.SignedMessage
				name := "timeout"
				if b != nil {
					m = w.pool.InternBytes(b, 0).Signed
					name = classOf(m)
				}
				names = append(names, name)
				ids = append(ids, w.pool.IDOf(m))
				wasDecided := cur.node.State.Decided
				diff := w.step(cur, m)
				if pass == 1 {
					res.Transitions++
					res.Hist["deep-path step"]++
					if diff != "" {
						tagD := ""
						if wasDecided && strings.HasPrefix(diff, "compaction changed") {
							tagD = " (instance already decided)"
						}
						r.Violate("differs-from-spec: "+short(diff)+tagD, diff+" after "+name+" (deep path)", "c06", w.artefact(tag, w.deepStart[pi], append([]string{}, names...), ids), diff, "identical observable behaviour")
						break
					}
					continue
				}
				if diff != "" {
					break
				}
				k := w.key(cur)
				if seen[k] {
					continue
				}
				seen[k] = true
				res.DeepStates++
				_, used, _ := expand([]node{{p: cur, key: k, start: w.deepStart[pi], path: append([]string{}, names...), ids: append([]int32{}, ids...)}}, mut, 1<<30, false)
				res.Transitions += used
			}
			if pass == 1 {
				res.DeepPaths++
			}
		}
	}
	// phase F: timeout ladder. From the first 300 honest-reachable states of phase A, consecutive round
	// timeouts for as long as the node's instance processes events, i.e. up to and including the
	// timeout that takes it to instance.CutoffRound, each step compared: the high rounds no message
	// alphabet reaches. (From CutoffRound on the node deliberately stops the instance - a node-only
	// feature the reference does not have; the comparison ends there.)
	{
		ladderFrom := all
		if len(ladderFrom) > 300 { // breadth-first order: the start state, depth 1, the first of depth 2
			ladderFrom = ladderFrom[:300]
		}
		for _, n := range ladderFrom {
			if r.Expired() {
				res.Complete = false
				break
			}
			cur := w.clone(n.p)
			names := append([]string{}, n.path...)
			ids := append([]int32{}, n.ids...)
			for cur.node.CanProcessMessages() {
				names = append(names, "timeout")
				ids = append(ids, -1)
				wasDecided := cur.node.State.Decided
				before := cur.node.State.Round
				diff := w.step(cur, nil)
				res.Transitions++
				res.Hist["timeout-ladder step"]++
				res.LadderSteps++
				if diff != "" {
					tagD := ""
					if wasDecided && strings.HasPrefix(diff, "compaction changed") {
						tagD = " (instance already decided)"
					}
					r.Violate("differs-from-spec: "+short(diff)+tagD, fmt.Sprintf("%s after the timeout of round %d (timeout ladder)", diff, before), "c06", w.artefact(tag, n.start0(), names, ids), diff, "identical observable behaviour")
					break
				}
				if cur.node.State.Round == before {
					break // (a decided or stopped instance does not move)
				}
			}
		}
	}
	// phase E: class-level breadth-first search. A letter is "k messages of one content class from
	// its k lowest-numbered signers" (k = 1..quorum), one aggregated message, or a timeout, so that a
	// whole protocol phase (a prepare quorum, a commit quorum, a round-change quorum) is one step and
	// histories ten and more messages long are reached; every message inside a letter is compared.
	macros := w.macroLetters(base)
	res.Macros = len(macros)
	seenE := map[[32]byte]bool{w.key(init): true}
	seenSet = seenE
	frontier = []node{{p: init, key: w.key(init)}}
	allE := append([]node{}, frontier...)
	budgetE := maxTransitions
	if v, err := strconv.Atoi(os.Getenv("VERIF_C06_E")); err == nil { // experiments only
		budgetE = v
	}
	for len(frontier) > 0 && budgetE > 0 {
		next, used, complete := expand(frontier, macros, budgetE, true)
		res.Transitions += used
		res.MacroSteps += used
		budgetE -= used
		allE = append(allE, next...)
		if !complete {
			res.Complete = false
			break
		}
		res.MacroDepth++
		frontier = next
	}
	res.MacroStates = len(seenE)
	seenSet = seen
	// phase G: the network reports a publish error. In the first 250 states of the class-level
	// search (breadth-first order) every letter of that search is applied once more with Broadcast
	// returning an error, in all three instances, during the letter's last message (the message is
	// recorded as sent): what the handler had done to the state before it broadcast, and what it
	// skips after the error, must equal the reference's.
	{
		from := allE
		if len(from) > 250 {
			from = from[:250]
		}
		for _, n := range from {
			if r.Expired() {
				res.Complete = false
				break
			}
			for _, l := range macros {
				p2 := w.clone(n.p)
				msgs := append([]*specqbft.SignedMessage{l.msg}, l.more...)
				diff := ""
				for i, m := range msgs {
					if i == len(msgs)-1 {
						p2.nNet.fail, p2.cNet.fail, p2.sNet.fail = true, true, true
					}
					diff = w.step(p2, m)
					res.Transitions++
					res.FaultSteps++
					if diff != "" {
						break
					}
				}
				if len(p2.nNet.out)+len(p2.sNet.out) > 0 {
					res.Hist["publish-error step that tried to broadcast"]++
				}
				if diff != "" {
					path := append(append([]string{}, n.path...), l.name+" [publish error at its last message]")
					ids := append(append([]int32{}, n.ids...), w.idsOf(l)...)
					art := w.artefact(tag, n.start0(), path, ids)
					art["publish_error_at_last_step"] = true
					r.Violate("differs-from-spec under a publish error: "+short(diff)+decidedTag(diff, n.p), diff+" after "+l.name+" with Broadcast returning an error", "c06", art, diff, "identical observable behaviour")
				}
			}
		}
	}
	// phase D: splices of recorded histories across runs, with one lost burst (splice.go)
	budgetD := maxTransitions
	if !r.Thorough() {
		budgetD = maxTransitions / 3
	}
	if v, err := strconv.Atoi(os.Getenv("VERIF_C06_D")); err == nil { // experiments only
		budgetD = v
	}
	res.Splice = w.phaseD(r, start, budgetD, tag, res.Hist, os.Getenv("VERIF_C06_NOLOSS") != "", !r.Thorough())
	res.Transitions += res.Splice.Steps
	if !res.Splice.Complete {
		res.Complete = false
	}
	res.States = len(seen) + res.Splice.Memo
	return res
}

// decidedTag qualifies compaction differences of an instance that was already decided before the
// step: Compact deliberately discards every non-commit message of a decided instance.
func decidedTag(diff string, pre *product) string {
	if pre.node.State.Decided && strings.HasPrefix(diff, "compaction changed") {
		return " (instance already decided)"
	}
	return ""
}

func short(d string) string {
	for _, k := range []string{"acceptance differs", "compaction changed acceptance", "decision differs", "compaction changed the reported decision", "aggregated commit differs", "compaction changed the aggregated commit", "broadcasts differ", "compaction changed a broadcast", "timer arms differ", "compaction changed a timer arm", "protocol state roots differ", "CanProcessMessages differs"} {
		if len(d) >= len(k) && d[:len(k)] == k {
			return k
		}
	}
	return d
}

func main() {
	r := ev.Start("C06", "model_checking")
	r.DefaultBudget(8*time.Minute, 60*time.Minute) // seven phases x two operators; ~3 min on an idle 16-core box
	bls.Init(bls.BLS12_381)
	type job struct {
		n        int
		me       spectypes.OperatorID
		maxRound specqbft.Round
		k        int
		cap      int
	}
	jobs := []job{{4, 2, 3, 1, 300000}, {4, 3, 3, 1, 300000}, {4, 4, 3, 1, 150000}} // height 1: operator 2 leads round 1, operator 3 round 2, operator 4 round 3
	if r.Thorough() {
		jobs = []job{{4, 2, 3, 1, 6000000}, {4, 3, 3, 1, 6000000}, {4, 4, 3, 1, 3000000}, {4, 1, 3, 1, 3000000}, {7, 2, 2, 0, 2000000}, {7, 3, 2, 0, 2000000}}
	}
	if v := os.Getenv("VERIF_C06_JOB"); v != "" { // experiments only: "n,me,maxRound,k,cap"
		var j job
		var me, mr int
		fmt.Sscanf(v, "%d,%d,%d,%d,%d", &j.n, &me, &mr, &j.k, &j.cap)
		j.me, j.maxRound = spectypes.OperatorID(me), specqbft.Round(mr)
		jobs = []job{j}
	}
	if r.Replay != "" {
		replay(r)
		return
	}
	hist := map[string]int{}
	exhaustive := true
	var bounds []string
	for _, j := range jobs {
		c := &qnet.Cfg{N: j.n, Height: 1, MaxRound: j.maxRound, Role: spectypes.BNRoleAttester, Picky: j.me}
		c.Init()
		w := &world{c: c, me: j.me, pool: qnet.NewPool()}
		alpha := w.alphabet(j.maxRound, j.k, r.Expired)
		if os.Getenv("VERIF_C06_ALPHA") != "" {
			for _, l := range alpha {
				if l.base {
					fmt.Println("LETTER", l.name)
				}
			}
		}
		tag := fmt.Sprintf("n=%d operator=%d rounds<=%d", j.n, j.me, j.maxRound)
		res := explore(r, w, qnet.ValA, alpha, j.cap, tag)
		r.Add("states", res.States)
		r.Add("transitions", res.Transitions)
		for k, v := range res.Hist {
			hist[k] += v
		}
		if !res.Complete {
			exhaustive = false
			r.CapHit(fmt.Sprintf("%s: transition cap %d / deadline", tag, j.cap))
		}
		bounds = append(bounds, fmt.Sprintf("%s: alphabet=%d (honest %d) states=%d transitions=%d honest-BFS-depth-completed=%d states-with-all-mutants-applied=%d deep-paths=%d/%d new-states-on-deep-paths(all mutants applied)=%d timeout-ladder-steps=%d publish-error-steps=%d class-level-BFS(letters=%d depth-completed=%d states=%d steps=%d) splices(states-after-timeout=%d continuations=%d automaton-states=%d cuts-complete-without-loss=%d levels=%d, <=1 lost burst) steps=%d complete=%v", tag, res.Alphabet, res.Base, res.States, res.Transitions, res.HonestDepth, res.MutantStatesCovered, res.DeepPaths, len(w.deepPaths), res.DeepStates, res.LadderSteps, res.FaultSteps, res.Macros, res.MacroDepth, res.MacroStates, res.MacroSteps, res.Splice.States, res.Splice.Suffixes, res.Splice.Nodes, res.Splice.NoLossComplete, res.Splice.Depth, res.Splice.Steps, res.Complete))
	}
	r.Set("traces_validated_against_impl", r.Get("transitions"))
	r.Set("bounds", bounds)
	r.Set("distinct_outcomes", len(hist))
	r.Set("outcome_histogram", hist)
	b, _ := json.Marshal(bounds)
	_ = b
	r.Assume("alphabet = every message real honest operators emit in deviation-bounded runs (n=4: all start assignments) + one representative per content class with every single-field mutation (re-signed with the right key, and stale-signature variants) + timeout",
		"every letter is applied in every product state reachable by honest letters; a state reached through one mutated letter is expanded with the honest letters only (at most one mutation per path); states deduplicated on the node state and the compacted node state; the reference is ssv-spec v0.3.7 qbft.Instance",
		"aggregated commits are compared up to signer order (the node sorts signers)",
		"deep paths: what this operator processed in every execution of the deviation-bounded multi-operator searches (all correct k and k+1 with ISOLATE/LOSE-BROADCAST only, silent leader of round 1 resp. 2), the product started with the value the operator had in that run",
		"timeout ladder: from the first 300 states of the honest BFS (breadth-first order), consecutive timeouts until the node's CutoffRound (15) stops the instance (node-only feature, not compared beyond) or the round stops moving",
		"class-level BFS: a letter is k messages of one content class from its k lowest-numbered signers (k<=quorum; the first variant of a signer represents it), an aggregated message or a timeout; every message inside a letter is compared; own state set",
		"splices: (state after the 1st/2nd timeout of any recorded history) x (continuation of any recorded history after as many timeouts), at most one burst of consecutive messages lost (quick: of one type and round), memoised on (product state, state of the continuations' minimal automaton, burst used); histories without loss first")
	r.Finish(exhaustive)
}

// replay applies the recorded history (encoded messages and timeouts) to a fresh product of node,
// compacted node and spec instance and reports the first difference.
func replay(r *ev.Run) {
	v, err := ev.LoadReplay(r.Replay)
	if err != nil {
		ev.Fatal("replay: %v", err)
	}
	t, ok := v.Trace.(map[string]interface{})
	if !ok || t["steps"] == nil {
		ev.Fatal("replay: artefact has no encoded steps (recorded by an older version: re-run the check)")
	}
	c := &qnet.Cfg{N: int(t["n"].(float64)), Height: specqbft.Height(t["height"].(float64)), MaxRound: 3, Role: spectypes.BNRoleAttester}
	c.Picky = spectypes.OperatorID(t["operator"].(float64))
	c.Init()
	w := &world{c: c, me: spectypes.OperatorID(t["operator"].(float64)), pool: qnet.NewPool()}
	start := byte('A')
	if s, _ := t["start"].(string); s != "" {
		start = s[0]
	}
	p, diff := w.initial(qnet.Val(start))
	fmt.Printf("n=%d operator=%d height=%d start value %c\n", c.N, w.me, c.Height, start)
	for i, st := range t["steps"].([]interface{}) {
		var m *specqbft.SignedMessage
		name := "timeout"
		if st.(string) != "timeout" {
			b, err := hex.DecodeString(st.(string))
			if err != nil {
				ev.Fatal("replay: step %d: %v", i, err)
			}
			m = w.pool.InternBytes(b, 0).Signed
			name = classOf(m)
		}
		wasDecided := p.node.State.Decided
		if f, _ := t["publish_error_at_last_step"].(bool); f && i == len(t["steps"].([]interface{}))-1 {
			p.nNet.fail, p.cNet.fail, p.sNet.fail = true, true, true
			name += " [publish error]"
		}
		diff = w.step(p, m)
		fmt.Printf("%3d %-60s node: round=%d decided=%v broadcasts=%d\n", i+1, name, p.node.State.Round, p.node.State.Decided, len(p.nNet.out))
		if diff != "" {
			tagD := ""
			if wasDecided && strings.HasPrefix(diff, "compaction changed") {
				tagD = " (instance already decided)"
			}
			fmt.Printf("VIOLATION property=C06 replay=%s\n  signature: differs-from-spec: %s%s\n  what: %s\n", r.Replay, short(diff), tagD, diff)
			r.Finish(false)
			return
		}
	}
	fmt.Println("not reproduced: node, compacted node and spec agree on this history")
	r.Finish(false)
}
