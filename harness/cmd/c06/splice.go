package main

// Phase D of C06: splices and loss bursts.
//
// The deep paths of phase C are what operator `me` processed in complete multi-operator runs. A
// lossy, reordering network can also hand `me` the beginning of one of those histories and the end
// of another one, or a history with a burst of consecutive messages missing - C06 quantifies over
// every input sequence, so all of these are legitimate inputs of the product. Phase D explores,
// for cut = 1, 2 timeouts:
//
//	every distinct product state reached by a recorded history up to and including its cut-th timeout
//	x every distinct recorded continuation after a cut-th timeout
//	x at most one contiguous burst of that continuation's messages lost (timeouts are never lost)
//
// comparing node, compacted node and spec after every step. Exploration is memoised on (product
// state, remaining continuation, burst already used), so a continuation whose remaining letters
// meet a state seen before is not walked again.

import (
	"crypto/sha256"
	"encoding/binary"
	"fmt"
	"runtime"
	"sort"
	"strings"
	"sync"

	specqbft "github.com/bloxapp/ssv-spec/qbft"

	"verifharness/lib/ev"
	"verifharness/lib/qnet"
)

type spliceState struct {
	p     *product
	names []string
	ids   []int32
	start byte
}

type spliceStats struct {
	States, Suffixes, Nodes, Steps, Depth, Memo, NoLossComplete int
	Complete                                                    bool
}

func (w *world) letterOf(b []byte) (*specqbft.SignedMessage, string) {
	if b == nil {
		return nil, "timeout"
	}
	m := w.pool.InternBytes(b, 0).Signed
	return m, classOf(m)
}

func (w *world) phaseD(r *ev.Run, start []byte, budget int, tag string, hist map[string]int, noLoss, sameKind bool) spliceStats {
	st := spliceStats{Complete: true}
	var mu sync.Mutex
	memo := map[[32]byte]bool{}
	type lt struct {
		msg  *specqbft.SignedMessage
		name string
	}
	letters := []lt{{nil, "timeout"}}
	lids := map[string]int{}
	letterID := func(b []byte) int {
		if b == nil {
			return 0
		}
		if id, ok := lids[string(b)]; ok {
			return id
		}
		m, name := w.letterOf(b)
		letters = append(letters, lt{m, name})
		lids[string(b)] = len(letters) - 1
		return len(letters) - 1
	}
	for cut := 1; cut <= 2; cut++ {
		// 1. states after the cut-th timeout, continuations after it
		var states []spliceState
		seenState := map[[32]byte]bool{}
		seenPrefix := map[string]bool{}
		var sufs [][][]byte
		seenSuf := map[string]bool{}
		for pi, path := range w.deepPaths {
			idx, n := -1, 0
			for i, b := range path {
				if b == nil {
					n++
					if n == cut {
						idx = i
						break
					}
				}
			}
			if idx < 0 {
				continue
			}
			pk, sk := string(w.deepStart[pi])+pathKey(path[:idx+1]), pathKey(path[idx+1:])
			if len(path[idx+1:]) > 0 && !seenSuf[sk] {
				seenSuf[sk] = true
				sufs = append(sufs, path[idx+1:])
			}
			if seenPrefix[pk] {
				continue
			}
			seenPrefix[pk] = true
			cur, _ := w.initial(qnet.Val(w.deepStart[pi]))
			var names []string
			var ids []int32
			bad := false
			for _, b := range path[:idx+1] {
				m, name := w.letterOf(b)
				names = append(names, name)
				ids = append(ids, w.pool.IDOf(m))
				if w.step(cur, m) != "" {
					bad = true // reported by phase C
					break
				}
			}
			if bad {
				continue
			}
			k := w.key(cur)
			if !seenState[k] {
				seenState[k] = true
				states = append(states, spliceState{cur, names, ids, w.deepStart[pi]})
			}
		}
		st.States += len(states)
		st.Suffixes += len(sufs)
		// 2. the continuations as a minimal acyclic automaton (common beginnings and common endings
		// are walked once per product state)
		root := buildDawg(sufs, letterID)
		st.Nodes += root.count
		// 3. walk (product state, automaton state, burst used) breadth first
		type item struct {
			p     *product
			key   [32]byte
			d     *dnode
			lost  bool
			names []string
			ids   []int32
			start byte
		}
		mark := func(key [32]byte, d *dnode, lost bool) bool { // true = new
			var mk [32 + 9]byte
			copy(mk[:], key[:])
			binary.LittleEndian.PutUint32(mk[32:], uint32(cut))
			binary.LittleEndian.PutUint32(mk[36:], uint32(d.id))
			h0 := sha256.Sum256(mk[:])
			mk[40] = 1
			h1 := sha256.Sum256(mk[:])
			if memo[h0] || (lost && memo[h1]) {
				return false
			}
			if lost {
				memo[h1] = true
			} else {
				memo[h0] = true
			}
			return true
		}
		var kind func(l int) string
		if sameKind {
			kind = func(l int) string {
				m := letters[l].msg.Message
				return fmt.Sprintf("%d/%d", m.MsgType, m.Round)
			}
		}
		var frontier []item
		for _, s := range states {
			k := w.key(s.p)
			if mark(k, root.n, false) {
				frontier = append(frontier, item{s.p, k, root.n, false, append(append([]string{}, s.names...), "| continuation of another run:"), s.ids, s.start})
			}
		}
		// histories without loss first, then the ones with a lost burst (deferred)
		var deferred []item
		for len(frontier) > 0 {
			var next []item
			ch := make(chan item)
			var wg sync.WaitGroup
			for wk := 0; wk < runtime.NumCPU(); wk++ {
				wg.Add(1)
				go func() {
					defer wg.Done()
					for it := range ch {
						for _, e := range it.d.edges {
							m, name := letters[e.l].msg, letters[e.l].name
							p2 := w.clone(it.p)
							diff := w.step(p2, m)
							k2 := w.key(p2)
							n2 := append(append([]string{}, it.names...), name)
							i2 := append(append([]int32{}, it.ids...), w.pool.IDOf(m))
							mu.Lock()
							st.Steps++
							hist["splice step"]++
							if diff != "" {
								what := "spliced history"
								if it.lost {
									what += " with a lost burst"
								}
								r.Violate("differs-from-spec: "+short(diff)+decidedTag(diff, it.p), diff+" after "+name+" ("+what+")", "c06", w.artefact(tag, it.start, n2, i2), diff, "identical observable behaviour")
							} else if mark(k2, e.to, it.lost) {
								next = append(next, item{p2, k2, e.to, it.lost, n2, i2, it.start})
							}
							mu.Unlock()
						}
						if !it.lost && !noLoss {
							// a burst of messages starting here is lost: continue from any automaton
							// state reachable over message letters only
							mu.Lock()
							for _, t := range it.d.lossTargets(kind) {
								if mark(it.key, t, true) {
									deferred = append(deferred, item{it.p, it.key, t, true, append(append([]string{}, it.names...), "(burst lost)"), it.ids, it.start})
								}
							}
							mu.Unlock()
						}
					}
				}()
			}
			for _, it := range frontier {
				mu.Lock()
				over := st.Steps >= budget || r.Expired()
				mu.Unlock()
				if over {
					st.Complete = false
					next = nil
					break
				}
				ch <- it
			}
			close(ch)
			wg.Wait()
			if !st.Complete {
				break
			}
			frontier = next
			if len(frontier) == 0 && len(deferred) > 0 {
				frontier, deferred = deferred, nil
				st.NoLossComplete++
			}
			st.Depth++
		}
	}
	st.Memo = len(memo)
	return st
}

func pathKey(p [][]byte) string {
	var sb strings.Builder
	for _, b := range p {
		if b == nil {
			sb.WriteString("T|")
		} else {
			h := sha256.Sum256(b)
			sb.Write(h[:8])
			sb.WriteByte('|')
		}
	}
	return sb.String()
}

// ---- minimal acyclic automaton of a set of letter sequences ----

type dedge struct {
	l  int
	to *dnode
}

type dnode struct {
	id    int
	edges []dedge
	loss  []*dnode
	lossC bool
}

type dawg struct {
	n     *dnode
	count int
}

type tnode struct {
	kids map[int]*tnode
}

func buildDawg(seqs [][][]byte, letterID func([]byte) int) dawg {
	root := &tnode{kids: map[int]*tnode{}}
	for _, s := range seqs {
		cur := root
		for _, b := range s {
			l := letterID(b)
			k := cur.kids[l]
			if k == nil {
				k = &tnode{kids: map[int]*tnode{}}
				cur.kids[l] = k
			}
			cur = k
		}
	}
	canon := map[string]*dnode{}
	var conv func(t *tnode) *dnode
	conv = func(t *tnode) *dnode {
		ls := make([]int, 0, len(t.kids))
		for l := range t.kids {
			ls = append(ls, l)
		}
		sort.Ints(ls)
		var sig strings.Builder
		edges := make([]dedge, 0, len(ls))
		for _, l := range ls {
			c := conv(t.kids[l])
			edges = append(edges, dedge{l, c})
			fmt.Fprintf(&sig, "%d:%d,", l, c.id)
		}
		if n, ok := canon[sig.String()]; ok {
			return n
		}
		n := &dnode{id: len(canon) + 1, edges: edges}
		canon[sig.String()] = n
		return n
	}
	r := conv(root)
	return dawg{r, len(canon)}
}

// lossTargets: automaton states reachable over one or more message letters (letter 0 = timeout is
// never lost). Called under the walk's mutex.
func (d *dnode) lossTargets(kind func(l int) string) []*dnode {
	if d.lossC {
		return d.loss
	}
	seen := map[*dnode]bool{}
	var out []*dnode
	var rec func(n *dnode, k string)
	rec = func(n *dnode, k string) {
		for _, e := range n.edges {
			if e.l == 0 {
				continue
			}
			k2 := ""
			if kind != nil {
				// bursts of one kind of message only
				if k2 = kind(e.l); k != "" && k2 != k {
					continue
				}
			}
			if !seen[e.to] {
				seen[e.to] = true
				out = append(out, e.to)
			}
			rec(e.to, k2)
		}
	}
	rec(d, "")
	sort.Slice(out, func(i, j int) bool { return out[i].id < out[j].id })
	d.loss, d.lossC = out, true
	return out
}
