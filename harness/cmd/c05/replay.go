package main

import (
	"encoding/json"
	"fmt"
	"os"
	"path/filepath"
	"sort"

	"verifharness/lib/ev"
	"verifharness/lib/run5"
)

// replay re-applies a recorded event list on a fresh real runner, without the explorer, and
// re-evaluates the oracle after every event.
func replay(r *ev.Run) {
	v, err := ev.LoadReplay(r.Replay)
	if err != nil {
		ev.Fatal("%v", err)
	}
	fmt.Printf("replay %s\n  recorded: %s\n  signature: %s\n", r.Replay, v.What, v.Signature)
	b, _ := json.Marshal(v.Trace)
	var tr struct {
		Config config   `json:"config"`
		Events []string `json:"events"`
	}
	if err := json.Unmarshal(b, &tr); err != nil {
		ev.Fatal("trace: %v", err)
	}
	x := newExplorer(r, tr.Config)
	env := run5.New(tr.Config.Role, tr.Config.N, tr.Config.Mode)
	env.AltDecided = tr.Config.AltDecided
	if err := env.Prefix(); err != nil {
		ev.Fatal("prefix: %v", err)
	}
	fmt.Printf("  config: role=%s n=%d quorum=%d prefix=%s; decided objects:\n", tr.Config.Role, tr.Config.N, x.q, tr.Config.Mode)
	for k, o := range env.Objects {
		fmt.Printf("    [%d] %s signing root %s\n", k, o.Name, hexs(o.Root[:]))
	}
	h := make(hstate, tr.Config.N)
	reproduced := false
	for i, s := range tr.Events {
		e, err := parseEvent(s)
		if err != nil {
			ev.Fatal("%v", err)
		}
		nsub := len(env.Beacon.Log)
		derr := env.Deliver(x.message(e))
		h = h.apply(e)
		fmt.Printf("  %2d. %-34s -> err=%v\n", i+1, s, derr)
		cont := env.Container()
		for k, o := range env.Objects {
			var ids []int
			for id := range cont.GetSignatures(o.Root) {
				ids = append(ids, int(id))
			}
			sort.Ints(ids)
			fmt.Printf("        container[%s] signers=%v\n", o.Name, ids)
			_ = k
		}
		for _, sub := range env.Beacon.Log[nsub:] {
			fmt.Printf("        %s sig=%s…\n", sub.Call, hexs(sub.Sig[:8]))
		}
		fmt.Printf("        finished=%v submissions=%d members-with-latest-message-correct=%d\n", env.Finished(), len(env.Beacon.Log), h.numLatest())
		viols, _ := x.orc.check(env, h, x.q)
		for _, vv := range viols {
			fmt.Printf("        ORACLE: %s — %s\n", vv.sig, vv.what)
			if vv.sig == v.Signature {
				reproduced = true
			}
		}
	}
	if reproduced {
		os.Setenv("VERIF_REPLAY_DIR", filepath.Dir(filepath.Dir(r.Replay))) // Finish rewrites the same artefact in place
		r.Violate(v.Signature, v.What, "c05", v.Trace, v.Observed, v.Expected)
		r.Finish(false)
	}
	fmt.Println("not reproduced")
	r.Finish(false)
}
