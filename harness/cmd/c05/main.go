// C05 — only validly threshold-signed duty objects reach the beacon node, once.
//
// Explicit-state model checking (E1 xstate) of the partial-signature collection phase of the real
// duty runners (protocol/v2/ssv/runner). A runner is brought by a fixed real prefix to "decided,
// own partial signature produced" (lib/run5); from there every enabled partial-signature message
// event is applied in every reachable state (so all arrival orders are covered). Live runners
// cannot be cloned: a successor is computed on a FRESH runner by replaying the event path of the
// state and then applying one more event. States are merged on
// sha256(runner.GetRoot() ‖ submission log ‖ harness delivery bookkeeping).
package main

import (
	"crypto/sha256"
	"encoding/binary"
	"encoding/hex"
	"fmt"
	"os"
	"runtime/pprof"
	"sort"
	"strings"
	"sync"
	"sync/atomic"

	spectypes "github.com/bloxapp/ssv-spec/types"
	ibftstorage "github.com/bloxapp/ssv/ibft/storage"

	"verifharness/lib/ev"
	"verifharness/lib/run5"
)

// ---- event alphabet ----

const (
	kGood = iota
	kGarbage
	kOtherSig
	kWrongRootEnv
	kWrongSlotEnv
	kForeignKey
	kInfinity
)

var kindNames = []string{"good", "garbage", "sig-over-other-root", "wrong-root-envelope", "wrong-slot-envelope", "sig-by-other-key", "infinity-point"}

// event: member sends one partial-signature message of the given kind; for the bad kinds mask
// selects the duty objects (bit k = object k) whose entry carries the defect.
type event struct {
	member uint8
	kind   uint8
	mask   uint8
}

func (e event) String() string {
	if e.kind == kGood || e.kind == kWrongSlotEnv {
		return fmt.Sprintf("%d:%s", e.member, kindNames[e.kind])
	}
	return fmt.Sprintf("%d:%s/%d", e.member, kindNames[e.kind], e.mask)
}

func parseEvent(s string) (event, error) {
	var e event
	parts := strings.SplitN(s, ":", 2)
	if len(parts) != 2 {
		return e, fmt.Errorf("bad event %q", s)
	}
	var m int
	if _, err := fmt.Sscan(parts[0], &m); err != nil {
		return e, err
	}
	e.member = uint8(m)
	kn := parts[1]
	e.mask = 1
	if i := strings.Index(kn, "/"); i >= 0 {
		var mk int
		if _, err := fmt.Sscan(kn[i+1:], &mk); err != nil {
			return e, err
		}
		e.mask = uint8(mk)
		kn = kn[:i]
	}
	for k, n := range kindNames {
		if n == kn {
			e.kind = uint8(k)
			return e, nil
		}
	}
	return e, fmt.Errorf("unknown kind in %q", s)
}

type config struct {
	Role  string `json:"role"`
	N     int    `json:"n"`
	Mode  string `json:"decide_mode"`
	Kinds []int  `json:"-"`
	Cap   int    `json:"state_cap"`
	// Faulty, when set, restricts the members that may deviate to this set (all its subsets of
	// size <= f are explored); empty = any member may deviate (all subsets of the committee).
	Faulty []int `json:"faulty_candidates,omitempty"`
	// HonestInOrder restricts the members outside Faulty to deliver their (single, correct) message in
	// ascending id order; the candidates' messages still interleave with them in every possible way.
	HonestInOrder bool `json:"honest_in_id_order,omitempty"`
	// AltDecided: the committee decides a valid value other than this operator's own input
	AltDecided bool `json:"decided_differs_from_own_input,omitempty"`
}

func (c config) f() int { return (c.N - 1) / 3 }

func (c config) String() string {
	var ks []string
	for _, k := range c.Kinds {
		ks = append(ks, kindNames[k])
	}
	fs := "any member"
	if len(c.Faulty) > 0 {
		fs = fmt.Sprintf("members %v", c.Faulty)
	}
	if c.HonestInOrder {
		fs += ", other members deliver in id order"
	}
	alt := ""
	if c.AltDecided {
		alt = " decided-value-differs-from-own-input"
	}
	return fmt.Sprintf("role=%s n=%d f=%d prefix=%s%s faulty-candidates=%s bad-kinds=[%s]", c.Role, c.N, c.f(), c.Mode, alt, fs, strings.Join(ks, ","))
}

// ---- explorer ----

type explorer struct {
	r    *ev.Run
	cfg  config
	tmpl *run5.Env // template (prefix run once) used to derive objects and build messages
	orc  *oracle
	msgs sync.Map // event -> encoded SignedPartialSignatureMessage
	q    int

	stores []*ibftstorage.QBFTStores // one private instance store per worker
}

func newExplorer(r *ev.Run, cfg config) *explorer {
	t := run5.New(cfg.Role, cfg.N, cfg.Mode)
	t.AltDecided = cfg.AltDecided
	if err := t.Prefix(); err != nil {
		ev.Fatal("prefix of %s failed: %v", cfg, err)
	}
	x := &explorer{r: r, cfg: cfg, tmpl: t, q: int(t.KS.Threshold)}
	x.orc = newOracle(t)
	return x
}

func otherRoot(r [32]byte) [32]byte {
	return sha256.Sum256(append([]byte("c05-another-root"), r[:]...))
}

var garbage96 = func() []byte {
	b := make([]byte, 96)
	for i := range b {
		b[i] = byte(0xa5 ^ i)
	}
	return b
}()

var infinity96 = func() []byte {
	b := make([]byte, 96)
	b[0] = 0xc0
	return b
}()

// encoded builds (once) the wire bytes of the message of an event.
func (x *explorer) encoded(e event) []byte {
	if b, ok := x.msgs.Load(e); ok {
		return b.([]byte)
	}
	t := x.tmpl
	id := spectypes.OperatorID(e.member)
	slot := t.Slot
	items := make([]run5.Item, len(t.Objects))
	for k, o := range t.Objects {
		it := run5.Item{Root: o.Root, Sig: t.ShareSig(id, o.Root)}
		if e.kind != kGood && e.kind != kWrongSlotEnv && e.mask&(1<<uint(k)) != 0 {
			switch e.kind {
			case kGarbage:
				it.Sig = garbage96
			case kOtherSig:
				it.Sig = t.ShareSig(id, otherRoot(o.Root)) // valid signature of this member, wrong root
			case kWrongRootEnv:
				it.Root = otherRoot(o.Root)
				it.Sig = t.ShareSig(id, it.Root) // valid for the root it names; only the root is wrong
			case kForeignKey:
				other := spectypes.OperatorID(int(e.member)%x.cfg.N + 1)
				it.Sig = t.ShareSig(other, o.Root) // valid signature over the right root, another member's key
			case kInfinity:
				it.Sig = infinity96
			}
		}
		items[k] = it
	}
	if e.kind == kWrongSlotEnv {
		slot++
	}
	m := t.PartialMsg(id, t.MsgType, slot, items)
	b, err := m.Encode()
	if err != nil {
		ev.Fatal("encode: %v", err)
	}
	x.msgs.Store(e, b)
	return b
}

func (x *explorer) message(e event) *spectypes.SignedPartialSignatureMessage {
	m := &spectypes.SignedPartialSignatureMessage{}
	if err := m.Decode(x.encoded(e)); err != nil {
		ev.Fatal("decode: %v", err)
	}
	return m
}

// harness bookkeeping, one byte per member: bits 0-1 = messages delivered (0..2),
// bit 2 = the latest delivered message was entirely correct, bit 3 = some delivered message was.
type hstate []byte

func (h hstate) count(i int) int   { return int(h[i-1] & 3) }
func (h hstate) latest(i int) bool { return h[i-1]&4 != 0 }
func (h hstate) ever(i int) bool   { return h[i-1]&8 != 0 }
func (h hstate) deviated(i int) bool {
	c := h.count(i)
	return c == 2 || (c == 1 && !h.latest(i))
}
func (h hstate) devSet() (mask uint16, n int) {
	for i := 1; i <= len(h); i++ {
		if h.deviated(i) {
			mask |= 1 << uint(i-1)
			n++
		}
	}
	return
}
func (h hstate) apply(e event) hstate {
	o := append(hstate{}, h...)
	i := int(e.member)
	c := o.count(i) + 1
	b := byte(c)
	if e.kind == kGood {
		b |= 4 | 8
	} else if o.ever(i) {
		b |= 8
	}
	o[i-1] = b
	return o
}
func (h hstate) numLatest() (n int) {
	for i := 1; i <= len(h); i++ {
		if h.latest(i) {
			n++
		}
	}
	return
}
func (h hstate) numEver() (n int) {
	for i := 1; i <= len(h); i++ {
		if h.ever(i) {
			n++
		}
	}
	return
}

func (x *explorer) masks() []uint8 {
	n := len(x.tmpl.Objects)
	if n == 1 {
		return []uint8{1}
	}
	var out []uint8
	for k := 0; k < n; k++ {
		out = append(out, 1<<uint(k))
	}
	return append(out, uint8(1<<uint(n))-1)
}

// menu: every member may send its correct message once; at most f members deviate, a deviating
// member sends up to two messages of any kinds (bad, bad→good, good→bad, duplicates).
func (x *explorer) menu(h hstate) []event {
	var out []event
	_, ndev := h.devSet()
	blocked := false // HonestInOrder: a lower non-candidate member has not delivered yet
	for i := 1; i <= x.cfg.N; i++ {
		c := h.count(i)
		if x.cfg.HonestInOrder && !x.candidate(i) {
			if blocked {
				continue
			}
			if c == 0 {
				blocked = true
			}
		}
		if c >= 2 {
			continue
		}
		mayDeviate := x.candidate(i) && (h.deviated(i) || ndev < x.cfg.f())
		if c == 0 || mayDeviate {
			out = append(out, event{member: uint8(i), kind: kGood, mask: 1})
		}
		if !mayDeviate {
			continue
		}
		for _, k := range x.cfg.Kinds {
			if k == kWrongSlotEnv {
				out = append(out, event{member: uint8(i), kind: uint8(k), mask: 1})
				continue
			}
			for _, m := range x.masks() {
				out = append(out, event{member: uint8(i), kind: uint8(k), mask: m})
			}
		}
	}
	return out
}

func (x *explorer) candidate(i int) bool {
	if len(x.cfg.Faulty) == 0 {
		return true
	}
	for _, m := range x.cfg.Faulty {
		if m == i {
			return true
		}
	}
	return false
}

func logDigest(log []run5.Submission) [32]byte {
	h := sha256.New()
	for _, s := range log {
		h.Write([]byte(s.Call))
		if s.Obj != nil {
			r, _ := s.Obj.HashTreeRoot()
			h.Write(r[:])
		}
		h.Write(s.Sig[:])
		h.Write(s.AggregationBits)
		binary.Write(h, binary.LittleEndian, uint64(s.Version))
		h.Write(s.Pubkey)
		h.Write(s.FeeRecipient[:])
		h.Write([]byte{0xff})
	}
	var out [32]byte
	copy(out[:], h.Sum(nil))
	return out
}

func stateKey(env *run5.Env, h hstate) (key, impl [32]byte) {
	impl, err := env.Runner.GetRoot()
	if err != nil {
		ev.Fatal("runner.GetRoot: %v", err)
	}
	d := logDigest(env.Beacon.Log)
	s := sha256.New()
	s.Write(impl[:])
	s.Write(d[:])
	s.Write(h)
	copy(key[:], s.Sum(nil))
	return
}

type node struct {
	key  [32]byte
	path []event
	h    hstate
}

type result struct {
	e       event
	key     [32]byte
	h       hstate
	label   string
	viols   []violation
	obliged bool // ≥ 2f+1 members' latest message correct (the oracle's liveness premise)
	strong  bool // ≥ 2f+1 members have delivered a correct message at some point
	done    bool // every decided object submitted
	nsub    int
	finish  bool
}

// fresh builds a runner, runs the prefix and replays path.
func (x *explorer) fresh(path []event, stores *ibftstorage.QBFTStores) *run5.Env {
	env := run5.NewWith(x.cfg.Role, x.cfg.N, x.cfg.Mode, stores)
	env.AltDecided = x.cfg.AltDecided
	if err := env.Prefix(); err != nil {
		ev.Fatal("prefix of %s failed: %v", x.cfg, err)
	}
	for _, e := range path {
		_ = env.Deliver(x.message(e))
	}
	return env
}

func classify(err error, submitted, changed bool) string {
	switch {
	case err == nil && submitted:
		return "quorum: reconstructed, submitted"
	case err == nil && changed:
		return "stored"
	case err == nil:
		return "accepted, state unchanged"
	}
	s := err.Error()
	for _, p := range []struct{ sub, label string }{
		{"no running duty", "rejected: no running duty (finished)"},
		{"invalid partial sig slot", "rejected: wrong slot"},
		{"wrong signing root", "rejected: wrong signing root"},
		{"has invalid signatures", "quorum: reconstruction failed, fallback eviction"},
		{"unknown signer", "rejected: unknown signer"},
	} {
		if strings.Contains(s, p.sub) {
			if submitted {
				return p.label + " (+submission)"
			}
			return p.label
		}
	}
	if len(s) > 90 {
		s = s[:90]
	}
	if submitted {
		s += " (+submission)"
	}
	return "error: " + s
}

// expand applies every enabled event of n. A successor is computed on a fresh runner (prefix +
// replay of n.path, re-validated against the recorded state key). If an event leaves the runner
// in the very same canonical state (same runner.GetRoot(), same submission log: a rejected
// message), the runner is by the merging criterion still in state n and is reused for the next
// event; after any event that changed it, it is discarded and a fresh one is built.
func (x *explorer) expand(n *node, stores *ibftstorage.QBFTStores) (out []result, builds int) {
	var env *run5.Env
	var implBefore [32]byte
	for _, e := range x.menu(n.h) {
		if env == nil {
			env = x.fresh(n.path, stores)
			builds++
			k, impl := stateKey(env, n.h)
			if k != n.key {
				ev.Fatal("replay of %v diverged from the recorded state (%s): the run is not deterministic", pathStrings(n.path), x.cfg)
			}
			implBefore = impl
		}
		nsub := len(env.Beacon.Log)
		err := env.Deliver(x.message(e))
		h2 := n.h.apply(e)
		key, impl := stateKey(env, h2)
		changed := impl != implBefore || len(env.Beacon.Log) != nsub
		res := result{e: e, key: key, h: h2, nsub: len(env.Beacon.Log), finish: env.Finished()}
		res.label = kindNames[e.kind] + " → " + classify(err, len(env.Beacon.Log) > nsub, changed)
		res.viols, res.done = x.orc.check(env, h2, x.q)
		res.obliged = h2.numLatest() >= x.q
		res.strong = h2.numEver() >= x.q
		out = append(out, res)
		if changed {
			env = nil
		}
	}
	return out, builds
}

type stats struct {
	States, Transitions, Depth          int
	Complete                            bool
	Outcomes                            map[string]int
	DevSets                             map[uint16]bool
	ObligedStates, ObligedDone          int
	StrongOnlyStates, StrongOnlyNotDone int
	StatesWithSubmission, FinishedSt    int
	MaxSubs                             int
	Builds                              int // fresh runners built (prefix + replay)
}

var workerStores []*ibftstorage.QBFTStores // shared by the configurations of one run
var sampled = map[string]bool{}

func (x *explorer) run(workers int) stats {
	st := stats{Outcomes: map[string]int{}, DevSets: map[uint16]bool{}, Complete: true}
	h0 := make(hstate, x.cfg.N)
	env0 := x.fresh(nil, nil)
	// one private in-memory instance store per 4 workers (each badger runs background tickers)
	for len(workerStores) < (workers+3)/4 {
		workerStores = append(workerStores, run5.NewStores())
	}
	x.stores = nil
	for w := 0; w < workers; w++ {
		x.stores = append(x.stores, workerStores[w%len(workerStores)])
	}
	k0, _ := stateKey(env0, h0)
	seen := map[[32]byte]struct{}{k0: {}}
	frontier := []*node{{key: k0, h: h0}}
	st.DevSets[0] = true
	capped := false

	for depth := 0; len(frontier) > 0; depth++ {
		results := make([][]result, len(frontier))
		var next int64 = -1
		var expired int32
		var builds int64
		var wg sync.WaitGroup
		for w := 0; w < workers; w++ {
			wg.Add(1)
			go func(stores *ibftstorage.QBFTStores) {
				defer wg.Done()
				for {
					i := int(atomic.AddInt64(&next, 1))
					if i >= len(frontier) {
						return
					}
					if i%64 == 0 && x.r.Expired() {
						atomic.StoreInt32(&expired, 1)
					}
					if atomic.LoadInt32(&expired) != 0 {
						return
					}
					var b int
					results[i], b = x.expand(frontier[i], stores)
					atomic.AddInt64(&builds, int64(b))
				}
			}(x.stores[w])
		}
		wg.Wait()
		if expired != 0 {
			x.r.CapHit(fmt.Sprintf("deadline at depth %d (%s)", depth, x.cfg))
			st.Complete = false
			break
		}
		st.Builds += int(builds)
		var nextFrontier []*node
		for i, rs := range results {
			parent := frontier[i]
			if len(rs) > 0 {
				st.Depth = depth + 1
			}
			for _, res := range rs {
				st.Transitions++
				st.Outcomes[res.label]++
				for _, v := range res.viols {
					trace := map[string]interface{}{"config": x.cfg, "events": pathStrings(append(append([]event{}, parent.path...), res.e))}
					x.r.Violate(v.sig, v.what, "c05", trace, v.observed, v.expected)
				}
				if _, ok := seen[res.key]; ok {
					continue
				}
				if x.cfg.Cap > 0 && len(seen) >= x.cfg.Cap {
					capped = true
					continue
				}
				seen[res.key] = struct{}{}
				nn := &node{key: res.key, h: res.h, path: append(append(make([]event, 0, len(parent.path)+1), parent.path...), res.e)}
				nextFrontier = append(nextFrontier, nn)
				dm, _ := res.h.devSet()
				st.DevSets[dm] = true
				if res.obliged {
					st.ObligedStates++
					if res.done {
						st.ObligedDone++
					}
				} else if res.strong {
					st.StrongOnlyStates++
					if !res.done {
						st.StrongOnlyNotDone++
					}
				}
				if res.nsub > 0 {
					st.StatesWithSubmission++
				}
				if res.nsub > st.MaxSubs {
					st.MaxSubs = res.nsub
				}
				if res.finish {
					st.FinishedSt++
				}
				if !sampled[res.label] && len(nn.path) >= 3 {
					// one really explored case per distinct outcome (ev keeps the first 8)
					sampled[res.label] = true
					x.r.Sample(map[string]interface{}{"config": x.cfg.String(), "events_from_decided_state": pathStrings(nn.path), "result_of_last_event": res.label,
						"submissions": res.nsub, "finished": res.finish, "members_with_latest_message_correct": res.h.numLatest()})
				}
			}
		}
		frontier = nextFrontier
	}
	if capped {
		x.r.CapHit(fmt.Sprintf("state cap %d (%s)", x.cfg.Cap, x.cfg))
		st.Complete = false
	}
	st.States = len(seen)
	return st
}

func pathStrings(p []event) []string {
	out := make([]string, len(p))
	for i, e := range p {
		out[i] = e.String()
	}
	return out
}

func binom(n, k int) int {
	r := 1
	for i := 0; i < k; i++ {
		r = r * (n - i) / (i + 1)
	}
	return r
}

func main() {
	r := ev.Start("C05", "model_checking")
	if pf := envOr("C05_CPUPROFILE", ""); pf != "" { // development aid
		f, _ := os.Create(pf)
		pprof.StartCPUProfile(f)
		defer pprof.StopCPUProfile()
		stopProfile = pprof.StopCPUProfile
	}
	if r.Replay != "" {
		replay(r)
		return
	}
	base := []int{kGarbage, kOtherSig, kWrongRootEnv, kWrongSlotEnv}
	all := []int{kGarbage, kOtherSig, kWrongRootEnv, kWrongSlotEnv, kForeignKey, kInfinity}
	reduced := []int{kGarbage, kOtherSig}
	var cfgs []config
	if !r.Thorough() {
		cfgs = []config{
			{Role: run5.Attester, N: 4, Mode: run5.ByMessages, Kinds: base},
			{Role: run5.Attester, N: 4, Mode: run5.ByDecided, Kinds: base},
			// the committee decides attestation data that differs from this operator's own input
			{Role: run5.Attester, N: 4, Mode: run5.ByMessages, Kinds: reduced, AltDecided: true},
			{Role: run5.Proposer, N: 4, Mode: run5.ByMessages, Kinds: base},
			{Role: run5.VoluntaryExit, N: 4, Mode: run5.ByMessages, Kinds: base},
			{Role: run5.Registration, N: 4, Mode: run5.ByMessages, Kinds: base},
			{Role: run5.Attester, N: 7, Mode: run5.ByDecided, Kinds: base},
			// committees of 10 and 13 (operator ids with two decimal digits take part in the quorum):
			// the low ids are the possibly faulty ones and arrive at any time, the others deliver in
			// id order, so that the quorum is completed by members 10, 11, ...
			{Role: run5.VoluntaryExit, N: 10, Mode: run5.ByMessages, Kinds: reduced, Faulty: []int{1, 2}, HonestInOrder: true},
			{Role: run5.VoluntaryExit, N: 13, Mode: run5.ByMessages, Kinds: reduced, Faulty: []int{1, 2}, HonestInOrder: true},
			{Role: run5.Attester, N: 13, Mode: run5.ByDecided, Kinds: reduced, Faulty: []int{1, 2}, HonestInOrder: true},
		}
	} else {
		for _, role := range []string{run5.Attester, run5.Proposer, run5.ProposerBlinded, run5.VoluntaryExit, run5.Registration, run5.Aggregator, run5.SyncCommittee} {
			cfgs = append(cfgs, config{Role: role, N: 4, Mode: run5.ByMessages, Kinds: all})
		}
		cfgs = append(cfgs, config{Role: run5.Attester, N: 4, Mode: run5.ByDecided, Kinds: all})
		cfgs = append(cfgs, config{Role: run5.Contribution, N: 4, Mode: run5.ByMessages, Kinds: reduced})
		for _, role := range []string{run5.Attester, run5.VoluntaryExit, run5.Registration} {
			cfgs = append(cfgs, config{Role: role, N: 7, Mode: run5.ByMessages, Kinds: base})
		}
		// n=10, 13: the full product over all faulty subsets is 3*10^6 states at n=10 already; explored instead:
		// fixed candidate sets of faulty members (one containing the runner's own operator id, one not) with all
		// their subsets, mutation kinds reduced to the two that are stored in the container, and a state cap;
		// n=13 with all f=4 faulty members only with the other members delivering in id order, and with every
		// arrival order for 2 faulty candidates.
		cfgs = append(cfgs, config{Role: run5.Attester, N: 10, Mode: run5.ByDecided, Kinds: reduced, Cap: 400000, Faulty: []int{8, 9, 10}})
		cfgs = append(cfgs, config{Role: run5.Attester, N: 10, Mode: run5.ByDecided, Kinds: reduced, Cap: 400000, Faulty: []int{1, 2, 3}})
		cfgs = append(cfgs, config{Role: run5.Attester, N: 13, Mode: run5.ByDecided, Kinds: reduced, Cap: 400000, Faulty: []int{10, 11, 12, 13}, HonestInOrder: true})
		cfgs = append(cfgs, config{Role: run5.Attester, N: 13, Mode: run5.ByDecided, Kinds: reduced, Cap: 400000, Faulty: []int{1, 2, 3, 4}, HonestInOrder: true})
		cfgs = append(cfgs, config{Role: run5.Proposer, N: 7, Mode: run5.ByDecided, Kinds: base})
		cfgs = append(cfgs, config{Role: run5.Attester, N: 13, Mode: run5.ByDecided, Kinds: reduced, Cap: 400000, Faulty: []int{12, 13}})
		cfgs = append(cfgs, config{Role: run5.Attester, N: 13, Mode: run5.ByDecided, Kinds: reduced, Cap: 400000, Faulty: []int{1, 2}})
	}
	if only := envOr("C05_ONLY", ""); only != "" { // development aid: C05_ONLY=role:n
		var keep []config
		for _, c := range cfgs {
			if fmt.Sprintf("%s:%d", c.Role, c.N) == only || fmt.Sprintf("*:%d", c.N) == only {
				keep = append(keep, c)
			}
		}
		cfgs = keep
	}

	exhaustive := true
	outcomes := map[string]int{}
	var bounds []map[string]interface{}
	for _, c := range cfgs {
		if r.Expired() {
			r.CapHit("deadline before " + c.String())
			exhaustive = false
			break
		}
		x := newExplorer(r, c)
		st := x.run(16)
		r.Add("states", st.States)
		r.Add("transitions", st.Transitions)
		exhaustive = exhaustive && st.Complete
		for k, v := range st.Outcomes {
			outcomes[k] += v
		}
		wantSets := 0
		pool := c.N
		if len(c.Faulty) > 0 {
			pool = len(c.Faulty)
		}
		for k := 0; k <= c.f() && k <= pool; k++ {
			wantSets += binom(pool, k)
		}
		bounds = append(bounds, map[string]interface{}{
			"config": c.String(), "objects": len(x.tmpl.Objects), "states": st.States, "transitions": st.Transitions, "depth": st.Depth,
			"complete": st.Complete, "every_subset_of_the_committee_may_be_faulty": len(c.Faulty) == 0, "faulty_sets_reached": len(st.DevSets), "faulty_sets_possible": wantSets,
			"states_with_2f+1_latest_correct": st.ObligedStates, "of_which_all_objects_submitted": st.ObligedDone,
			"states_2f+1_ever_correct_but_not_latest": st.StrongOnlyStates, "of_which_not_submitted": st.StrongOnlyNotDone,
			"fresh_runner_replays": st.Builds, "states_with_submission": st.StatesWithSubmission, "states_finished": st.FinishedSt, "max_submissions_in_a_state": st.MaxSubs,
		})
		fmt.Printf("  %s: states=%d transitions=%d depth=%d complete=%v replays=%d obliged=%d/%d strong-only-unsubmitted=%d/%d\n", c, st.States, st.Transitions, st.Depth, st.Complete, st.Builds,
			st.ObligedDone, st.ObligedStates, st.StrongOnlyNotDone, st.StrongOnlyStates)
	}
	r.Set("traces_validated_against_impl", r.Get("transitions"))
	r.Set("bounds", bounds)
	r.Set("distinct_outcomes", len(outcomes))
	r.Set("outcome_histogram", outcomes)
	r.Assume(
		"explored phase = partial-signature collection after the fixed real prefix (StartNewDuty, real pre-consensus quorum where the role has one, consensus decided through real proposal/prepare/commit messages or a real decided message); consensus-less roles (voluntary exit, validator registration): the pre-consensus container",
		"a runner is operator 1 of the spec testing key set; messages are delivered through ProcessPostConsensus/ProcessPreConsensus routed as validator.ProcessMessage routes them; every envelope is signed with the sender's real share key",
		"at most f members deviate (every subset is reached, see faulty_sets_reached); a deviating member sends at most two messages (any kind, so bad→good, good→bad and duplicates are covered), a non-deviating member sends its correct message once",
		"reading of \"2f+1 correct partial signatures have arrived\" (weakest): there are 2f+1 distinct members whose LATEST delivered partial-signature message is entirely correct (right slot, right roots, every share signature valid); a member that replaced a good message by a bad one is not counted, a message with one bad entry does not count for any root. The stronger, literal reading (a member counts once it has ever delivered a correct message, whatever it sent afterwards) is asserted as well (signature liveness-unsubmitted(correct share replaced later)); states_2f+1_ever_correct_but_not_latest / of_which_not_submitted count those states",
		"oracle uses herumi BLS directly on the arguments of Submit*: signature verifies under the validator public key over ComputeETHSigningRoot(decided object, ComputeETHDomain(domain, genesis fork, genesis validators root)), as the spec testing beacon node defines the domain; memoised BLS (bls_memo) is a pure-function cache",
		"successor computation: fresh runner + prefix + replay of the state's event path, re-validated against the recorded state key on every build (mismatch = engine error); a runner is reused for the next event of the same state only when the previous event left runner.GetRoot() and the submission log unchanged (rejected message), i.e. when it is still in that very canonical state",
		"state merging assumes that runner.GetRoot() (JSON of all exported runner state: containers, Finished, decided value, controller and instance) plus the submission log determines future behaviour; unexported runner fields are set by the prefix only",
		"instance storage is the real ibft store on a private in-memory badger per group of workers; beacon node, network, key manager are the ssv-spec testing doubles (beacon node wrapped by a recorder)",
	)
	stopProfile()
	r.Finish(exhaustive)
}

var stopProfile = func() {}

func envOr(k, d string) string {
	if v := osGetenv(k); v != "" {
		return v
	}
	return d
}

func hexs(b []byte) string { return hex.EncodeToString(b) }

func sortedKeys(m map[string]int) []string {
	var out []string
	for k := range m {
		out = append(out, k)
	}
	sort.Strings(out)
	return out
}
