package main

import (
	"bytes"
	"fmt"
	"os"

	v1 "github.com/attestantio/go-eth2-client/api/v1"
	"github.com/attestantio/go-eth2-client/spec/phase0"
	spectypes "github.com/bloxapp/ssv-spec/types"
	"github.com/herumi/bls-eth-go-binary/bls"
	"github.com/prysmaticlabs/go-bitfield"

	"verifharness/lib/ev"
	"verifharness/lib/run5"
)

func osGetenv(k string) string { return os.Getenv(k) }

type violation struct {
	sig, what          string
	observed, expected interface{}
}

// oracle is independent of the runner: expected objects/roots come from run5 (derived from the
// duty and the value the prefix had decided), signatures are checked with herumi directly.
type oracle struct {
	role     string
	call     string
	objs     []run5.Object
	htr      [][32]byte
	valPK    *bls.PublicKey
	memberPK map[spectypes.OperatorID]*bls.PublicKey
	duty     *spectypes.Duty
	feeRcpt  [20]byte
}

var callOf = map[string]string{
	run5.Attester:        "SubmitAttestation",
	run5.Proposer:        "SubmitBeaconBlock",
	run5.ProposerBlinded: "SubmitBlindedBeaconBlock",
	run5.Aggregator:      "SubmitSignedAggregateSelectionProof",
	run5.SyncCommittee:   "SubmitSyncMessage",
	run5.Contribution:    "SubmitSignedContributionAndProof",
	run5.VoluntaryExit:   "SubmitVoluntaryExit",
	run5.Registration:    "SubmitValidatorRegistration",
}

func newOracle(t *run5.Env) *oracle {
	o := &oracle{role: t.Role, call: callOf[t.Role], objs: t.Objects, memberPK: map[spectypes.OperatorID]*bls.PublicKey{}, duty: t.Duty}
	for _, ob := range t.Objects {
		h, err := ob.Obj.HashTreeRoot()
		if err != nil {
			ev.Fatal("hash tree root: %v", err)
		}
		o.htr = append(o.htr, h)
	}
	pk := &bls.PublicKey{}
	if err := pk.Deserialize(t.KS.ValidatorPK.Serialize()); err != nil {
		ev.Fatal("validator pk: %v", err)
	}
	o.valPK = pk
	for id, sk := range t.KS.Shares {
		o.memberPK[id] = sk.GetPublicKey()
	}
	copy(o.feeRcpt[:], t.Share.FeeRecipientAddress[:])
	return o
}

func verify(pk *bls.PublicKey, sig []byte, root [32]byte) bool {
	s := &bls.Sign{}
	buf := append(make([]byte, 0, len(sig)), sig...) // cgo: a plain byte buffer, not the inside of a struct holding pointers
	if err := s.Deserialize(buf); err != nil {
		return false
	}
	return s.VerifyByte(pk, root[:])
}

// check evaluates the three clauses of C05 in the current state of env. done reports whether
// every decided object has been submitted.
func (o *oracle) check(env *run5.Env, h hstate, q int) (viols []violation, done bool) {
	tag := fmt.Sprintf("role=%s roots=%d", o.role, len(o.objs))
	count := make([]int, len(o.objs))
	for si, s := range env.Beacon.Log {
		if s.Call != o.call {
			viols = append(viols, violation{sig: "unexpected-submit-call " + tag, what: fmt.Sprintf("submission %d went through %s, the %s duty submits through %s", si, s.Call, o.role, o.call), observed: s.Call, expected: o.call})
			continue
		}
		var got [32]byte
		if o.role == run5.Registration {
			// the call carries (pubkey, fee recipient, signature); the registration is rebuilt the way the
			// spec defines it for the duty's epoch
			pk := phase0.BLSPubKey{}
			copy(pk[:], s.Pubkey)
			epoch := spectypes.BeaconTestNetwork.EstimatedEpochAtSlot(o.duty.Slot)
			vr := &v1.ValidatorRegistration{FeeRecipient: s.FeeRecipient, GasLimit: spectypes.DefaultGasLimit, Timestamp: spectypes.BeaconTestNetwork.EpochStartTime(epoch), Pubkey: pk}
			got, _ = vr.HashTreeRoot()
		} else if s.Obj != nil {
			got, _ = s.Obj.HashTreeRoot()
		}
		k := -1
		for i := range o.htr {
			if o.htr[i] == got {
				k = i
			}
		}
		if k < 0 {
			viols = append(viols, violation{sig: "submitted-object-not-decided " + tag, what: fmt.Sprintf("submission %d carries an object that is not a decided duty object", si), observed: hexs(got[:])})
			continue
		}
		count[k]++
		if !verify(o.valPK, s.Sig[:], o.objs[k].Root) {
			viols = append(viols, violation{sig: "invalid-signature-submitted " + tag,
				what:     fmt.Sprintf("%s: the signature handed to the beacon node for %s does not verify under the validator public key over the decided object's signing root", s.Call, o.objs[k].Name),
				observed: hexs(s.Sig[:]), expected: "BLS signature by " + hexs(o.valPK.Serialize()) + " over " + hexs(o.objs[k].Root[:])})
		}
		if o.role == run5.Attester {
			want := bitfield.NewBitlist(o.duty.CommitteeLength)
			want.SetBitAt(o.duty.ValidatorCommitteeIndex, true)
			if !bytes.Equal(want, s.AggregationBits) {
				viols = append(viols, violation{sig: "malformed-aggregation-bits " + tag, what: "submitted attestation does not carry exactly the validator's committee bit", observed: hexs(s.AggregationBits), expected: hexs(want)})
			}
		}
	}
	if !env.Runner.GetBaseRunner().VerifMutexFree() {
		// no handler of the runner is executing here: a held state mutex was leaked, and the next
		// duty's StartNewDuty (write lock) blocks for ever - no later duty is ever submitted
		viols = append(viols, violation{sig: "runner-mutex-held-between-messages " + tag, what: "the runner's state mutex is still held after the handler returned: the next StartNewDuty blocks for ever, so no following duty of this validator and role can be signed or submitted",
			observed: "BaseRunner.mtx held", expected: "free"})
	}
	done = true
	for k, c := range count {
		if c > 1 {
			viols = append(viols, violation{sig: "duplicate-submission " + tag, what: fmt.Sprintf("%s was submitted %d times", o.objs[k].Name, c), observed: c, expected: 1})
		}
		if c == 0 {
			done = false
		}
	}
	if done && !env.Finished() {
		// auxiliary mechanism invariant (anchor "Finished flag: duty completed"): once everything is
		// submitted the runner must stop processing partial signatures of this duty
		viols = append(viols, violation{sig: "submitted-but-not-finished " + tag, what: "every decided object has been submitted but the runner still reports a running duty (Finished not set)",
			observed: "Finished=false", expected: "Finished=true"})
	}
	// "once 2f+1 correct partial signatures have arrived": asserted in both readings - 2f+1 members'
	// latest message is correct, and (stronger, the literal one) 2f+1 members have at some point
	// delivered a correct message, whatever they sent afterwards
	if (h.numLatest() >= q || h.numEver() >= q) && !done {
		// classify by what the container holds for the first missing object
		cont := env.Container()
		var missing []string
		class := ""
		for k, c := range count {
			if c != 0 {
				continue
			}
			missing = append(missing, o.objs[k].Name)
			if class != "" {
				continue
			}
			sigs := cont.GetSignatures(o.objs[k].Root)
			valid, invalid := 0, 0
			for id, sg := range sigs {
				if pk := o.memberPK[id]; pk != nil && verify(pk, sg, o.objs[k].Root) {
					valid++
				} else {
					invalid++
				}
			}
			switch {
			case invalid > 0:
				class = "invalid-share-retained"
			case valid >= q:
				class = "valid-quorum-present"
			case env.Finished():
				class = "finished-before-quorum" // the duty was closed while this object was still collecting shares
			default:
				class = "correct-share-missing"
			}
		}
		sigName, whatHead := "liveness-unsubmitted ", fmt.Sprintf("%d members' latest partial-signature message is entirely correct (quorum %d)", h.numLatest(), q)
		if h.numLatest() < q {
			sigName, whatHead = "liveness-unsubmitted(correct share replaced later) ", fmt.Sprintf("%d members have delivered an entirely correct partial-signature message (quorum %d; only %d of them did not send something else afterwards)", h.numEver(), q, h.numLatest())
		}
		viols = append(viols, violation{sig: sigName + tag + " container=" + class,
			what: fmt.Sprintf("%s but %v was not submitted (container of the first missing object: %s, finished=%v)",
				whatHead, missing, class, env.Finished()),
			observed: map[string]interface{}{"submitted_per_object": count, "finished": env.Finished()}, expected: "one submission per decided object"})
	}
	return viols, done
}
