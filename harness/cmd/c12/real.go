package main

// Recovery through the node's REAL setupEventHandling (cli/operator/node.go): the resume point,
// the event syncer and the execution client are the production ones; only the Ethereum endpoint
// is a fake in-process JSON-RPC service that serves the history's chain.

import (
	"context"
	"fmt"
	"math/big"
	"runtime"
	"sync"
	"time"

	"github.com/attestantio/go-eth2-client/spec/phase0"
	spectypes "github.com/bloxapp/ssv-spec/types"
	ethcommon "github.com/ethereum/go-ethereum/common"
	"github.com/ethereum/go-ethereum/common/hexutil"
	ethtypes "github.com/ethereum/go-ethereum/core/types"
	"github.com/ethereum/go-ethereum/ethclient"
	"github.com/ethereum/go-ethereum/rpc"
	"go.uber.org/zap"
	"go.uber.org/zap/zapcore"

	clioperator "github.com/bloxapp/ssv/cli/operator"
	"github.com/bloxapp/ssv/eth/executionclient"
	"github.com/bloxapp/ssv/operator/validator"
	ssvtypes "github.com/bloxapp/ssv/protocol/v2/types"

	"verifharness/lib/reg"
)

// ---- fake execution endpoint ----

type fakeEth struct {
	blocks []executionclient.BlockLogs
	head   uint64
	mu     sync.Mutex
	asked  []uint64 // fromBlock of every eth_getLogs
}

func (f *fakeEth) BlockNumber() hexutil.Uint64 { return hexutil.Uint64(f.head) }

func (f *fakeEth) ChainId() *hexutil.Big { return (*hexutil.Big)(big.NewInt(1)) }

type logQuery struct {
	FromBlock *hexutil.Big `json:"fromBlock"`
	ToBlock   *hexutil.Big `json:"toBlock"`
}

func (f *fakeEth) GetLogs(q logQuery) ([]ethtypes.Log, error) {
	if q.FromBlock == nil || q.ToBlock == nil {
		return nil, fmt.Errorf("fake endpoint: open ranges are not served")
	}
	from, to := q.FromBlock.ToInt().Uint64(), q.ToBlock.ToInt().Uint64()
	f.mu.Lock()
	f.asked = append(f.asked, from)
	f.mu.Unlock()
	out := []ethtypes.Log{}
	for _, b := range f.blocks {
		if b.BlockNumber >= from && b.BlockNumber <= to {
			out = append(out, b.Logs...)
		}
	}
	return out, nil
}

// NewHeads is the newHeads subscription; the fake chain does not grow during a life.
func (f *fakeEth) NewHeads(ctx context.Context) (*rpc.Subscription, error) {
	notifier, ok := rpc.NotifierFromContext(ctx)
	if !ok {
		return nil, rpc.ErrNotificationsUnsupported
	}
	return notifier.CreateSubscription(), nil
}

// ---- validator controller stub (only the task executor part is ever called) ----

type stubCtrl struct {
	validator.Controller // nil: any other call would panic, none is made by setupEventHandling
	rec                  *reg.TaskRecorder
}

func (s stubCtrl) StartValidator(share *ssvtypes.SSVShare) error { return s.rec.StartValidator(share) }
func (s stubCtrl) StopValidator(pk spectypes.ValidatorPK) error  { return s.rec.StopValidator(pk) }
func (s stubCtrl) LiquidateCluster(o ethcommon.Address, ids []uint64, l []*ssvtypes.SSVShare) error {
	return s.rec.LiquidateCluster(o, ids, l)
}
func (s stubCtrl) ReactivateCluster(o ethcommon.Address, ids []uint64, l []*ssvtypes.SSVShare) error {
	return s.rec.ReactivateCluster(o, ids, l)
}
func (s stubCtrl) UpdateFeeRecipient(o, r ethcommon.Address) error {
	return s.rec.UpdateFeeRecipient(o, r)
}
func (s stubCtrl) ExitValidator(pk phase0.BLSPubKey, b uint64, i phase0.ValidatorIndex) error {
	return s.rec.ExitValidator(pk, b, i)
}

// ---- logger.Fatal = the process dies ----

type fatalHook struct {
	mu  sync.Mutex
	msg string
}

func (h *fatalHook) OnWrite(ce *zapcore.CheckedEntry, fields []zapcore.Field) {
	h.mu.Lock()
	if h.msg == "" {
		h.msg = ce.Message
		for _, f := range fields {
			if f.Type == zapcore.ErrorType {
				if e, ok := f.Interface.(error); ok {
					h.msg += ": " + e.Error()
				}
			}
		}
	}
	h.mu.Unlock()
	runtime.Goexit()
}

// cfgMu serialises the real lives: setupEventHandling reads the package-global cfg of cli/operator.
var cfgMu sync.Mutex

// realLife is one process life in which everything from the handler construction to the end of
// the historical sync is done by the real setupEventHandling.
func (w *world) realLife(ctl *reg.Ctl) (res lifeResult) {
	cfgMu.Lock()
	defer cfgMu.Unlock()

	db := &reg.ProxyDB{Base: w.base, C: ctl}
	var n *reg.Node
	// node storage, operator data, key manager, QBFT stores: as node.go builds them before setupEventHandling
	func() {
		defer func() {
			if r := recover(); r != nil {
				if _, ok := r.(reg.Crash); ok {
					res = lifeResult{end: crashed}
					return
				}
				res = lifeResult{end: panicked, err: fmt.Sprint(r)}
			}
		}()
		var err error
		n, err = reg.NewNode(w.fx, reg.Config{OwnKey: w.h.own}, db, w.clk, reg.WrapKM(ctl))
		if err != nil {
			res = lifeResult{end: startupError, err: err.Error()}
			n = nil
		}
	}()
	if n == nil {
		return res
	}
	// the environment catches up with what was committed before the restart
	if last, found, err := n.Storage.GetLastProcessedBlock(nil); err == nil && found && last != nil {
		w.env(n, ctl, last.Uint64())
	}
	ctl.OnCommit = func() {
		ctl.Off = true
		last, found, err := n.Storage.GetLastProcessedBlock(nil)
		ctl.Off = false
		if err == nil && found {
			w.env(n, ctl, last.Uint64())
		}
	}
	defer func() { ctl.OnCommit = nil }()

	lastChain := w.blocks[len(w.blocks)-1].BlockNumber
	fake := &fakeEth{blocks: w.blocks, head: lastChain + executionclient.DefaultFollowDistance}
	srv := rpc.NewServer()
	if err := srv.RegisterName("eth", fake); err != nil {
		panic(err)
	}
	defer srv.Stop()
	client := ethclient.NewClient(rpc.DialInProc(srv))

	hook := &fatalHook{}
	logger := zap.NewNop().WithOptions(zap.WithFatalHook(hook))
	ec := executionclient.VerifNewWithClient(client, ethcommon.Address{}, logger)
	net := n.Net
	net.RegistrySyncOffset = big.NewInt(firstBlock)
	ctx, cancel := context.WithCancel(context.Background())

	type outcome struct {
		res lifeResult
	}
	done := make(chan outcome, 1)
	go func() {
		finished := false
		defer func() {
			r := recover()
			switch {
			case r != nil:
				if _, ok := r.(reg.Crash); ok {
					done <- outcome{lifeResult{end: crashed}}
				} else {
					done <- outcome{lifeResult{end: panicked, err: fmt.Sprint(r)}}
				}
			case !finished: // runtime.Goexit from logger.Fatal
				hook.mu.Lock()
				msg := hook.msg
				hook.mu.Unlock()
				done <- outcome{lifeResult{end: handlerError, err: "logger.Fatal: " + msg, node: n}}
			default:
				done <- outcome{lifeResult{end: completed, node: n}}
			}
		}()
		clioperator.VerifSetupEventHandling(ctx, logger, ec, stubCtrl{rec: n.Exec}, n.Stores, net, n.Storage, n.ODS, w.fx.OpKeys[w.h.own], n.KM)
		finished = true
	}()
	var out outcome
	select {
	case out = <-done:
	case <-time.After(60 * time.Second): // hang detector, 4 orders of magnitude above a life's normal cost
		out = outcome{lifeResult{end: panicked, err: "setupEventHandling did not return within 60 s"}}
	}
	cancel()       // stops the ongoing sync goroutine (its logger.Fatal only ends that goroutine)
	_ = ec.Close() // and makes every retry loop of the execution client exit
	res = out.res
	res.resumeAsked = append([]uint64{}, fake.asked...)
	return res
}
