// C12 — block event processing is atomic and exactly-once across crashes.
//
// Fault enumeration (E3) on the real eventhandler.EventHandler + operator/storage +
// registry/storage + ekm + ibft stores over one in-memory badger, through recording proxies
// around basedb.Database / basedb.Txn and the key manager. For every history and every proxied
// call k of its uninterrupted run: crash before k, crash after k, error returned by k. A crash is
// a panic recovered at top level; then every in-memory object is thrown away, the node is
// rebuilt on the SAME badger (cli/operator/node.go order), resumes from
// GetLastProcessedBlock+1 like setupEventHandling, finishes the history and is compared with
// the uninterrupted run. Thorough adds a second fault during the recovery life.
package main

import (
	"crypto/sha256"
	"encoding/json"
	"errors"
	"fmt"
	"os"
	"regexp"
	"sort"
	"strings"
	"sync"

	ethtypes "github.com/ethereum/go-ethereum/core/types"

	"github.com/bloxapp/ssv/eth/eventhandler"
	"github.com/bloxapp/ssv/eth/executionclient"
	"github.com/bloxapp/ssv/storage/kv"

	"verifharness/lib/ev"
	"verifharness/lib/reg"
)

// ---- histories ----

type step struct {
	block   []string // event names of one block
	decided int      // env step: 1-based validator whose decided instance gets stored (0: none)
}

type history struct {
	name      string
	own       int
	steps     []step
	faultFrom int // faults are enumerated from this step on (earlier steps are a shared prefix)
}

var opsBlock = []string{"opAdd(1,K1)", "opAdd(2,K2)", "opAdd(3,K3)", "opAdd(4,K4)"}

func blk(names ...string) step { return step{block: names} }
func decided(v int) step       { return step{decided: v} }

func curated() []history {
	p := blk(opsBlock...)
	add1 := blk("vAdd(V1,A)")
	return []history{
		{"operators-then-add-own", 1, []step{p, add1}, 0},
		{"add-two-own", 1, []step{p, blk("vAdd(V1,A)", "vAdd(V2,A)")}, 1},
		{"add-then-remove", 1, []step{p, add1, decided(1), blk("vRemove(V1,A)")}, 2},
		{"add-remove-one-block", 1, []step{p, blk("vAdd(V1,A)", "vRemove(V1,A)")}, 1},
		{"liquidate-reactivate", 1, []step{p, add1, blk("liquidate(A)"), blk("reactivate(A)")}, 2},
		{"liquidate-reactivate-one-block", 1, []step{p, add1, blk("liquidate(A)", "reactivate(A)")}, 2},
		{"remove-readd-one-block", 1, []step{p, add1, decided(1), blk("vRemove(V1,A)", "vAdd(V1,A)")}, 2},
		{"malformed-valid-recipient", 1, []step{p, blk("vAdd(V1,A,badsig)", "vAdd(V1,A)", "feeRecipient(A,R1)")}, 1},
		{"two-validators-remove-liquidate", 1, []step{p, blk("vAdd(V1,A)", "vAdd(V2,A)"), decided(2), blk("vRemove(V1,A)", "liquidate(A)")}, 2},
		{"recipient-undecryptable-valid", 1, []step{p, blk("feeRecipient(A,R1)", "vAdd(V1,A,undecryptable)", "vAdd(V1,A)")}, 1},
		{"foreign-owner", 1, []step{p, add1, blk("vAdd(V1,B)", "vRemove(V1,B)", "vRemove(V1,A)")}, 2},
		{"all-in-one-block", 1, []step{blk(append(append([]string{}, opsBlock...), "vAdd(V1,A)", "vExit(V1,A)")...), blk("reactivate(A)", "vAdd(V1,A,keyMismatch)", "vAdd(V2,A)")}, 0},
		{"reactivate-remove-one-block", 1, []step{p, add1, decided(1), blk("reactivate(A)", "vRemove(V1,A)")}, 2},
		{"not-a-member", 5, []step{blk(append(append([]string{}, opsBlock...), "opAdd(5,K5)")...), blk("vAdd(V1,A)", "liquidate(A)"), blk("vRemove(V1,A)")}, 1},
	}
}

func generated() []history {
	se := []string{"vAdd(V1,A)", "vAdd(V2,A)", "vRemove(V1,A)", "liquidate(A)", "reactivate(A)", "vAdd(V1,A,keyMismatch)", "feeRecipient(A,R1)"}
	var out []history
	for _, a := range se {
		for _, b := range se {
			out = append(out, history{fmt.Sprintf("pair %s + %s", a, b), 1,
				[]step{blk(opsBlock...), blk("vAdd(V1,A)"), decided(1), blk(a, b)}, 3})
		}
	}
	return out
}

// ---- one process life ----

const firstBlock = 100

type world struct { // what survives a crash: the database, the chain, the environment's progress
	fx      *reg.Fixture
	h       *history
	base    *kv.BadgerDB
	clk     *reg.Clock
	blocks  []executionclient.BlockLogs // chain content (fixed per history)
	stepBlk []int                       // step index -> index into blocks (-1 for env steps)
	envDone []bool
}

type lifeEnd int

const (
	completed lifeEnd = iota
	crashed
	handlerError
	startupError
	panicked
)

func (e lifeEnd) String() string {
	return [...]string{"completed", "crashed", "handler-error", "startup-error", "panicked"}[e]
}

type lifeResult struct {
	end         lifeEnd
	err         string
	node        *reg.Node
	tasks       []string
	resumeAsked []uint64 // real lives: fromBlock of every eth_getLogs the node issued
}

// buildChain fixes the chain content of a history: the logs are built along the reference
// model so that "valid at this nonce" adds carry the right signature.
func buildChain(fx *reg.Fixture, h *history) ([]executionclient.BlockLogs, []int) {
	m := reg.NewModel(h.own)
	var blocks []executionclient.BlockLogs
	idx := make([]int, len(h.steps))
	num := uint64(firstBlock)
	for i, s := range h.steps {
		idx[i] = -1
		if s.block == nil {
			continue
		}
		var logs []ethtypes.Log
		for _, name := range s.block {
			ei, ok := fx.ByName[name]
			if !ok {
				ev.Fatal("unknown event %q", name)
			}
			e := fx.Events[ei]
			logs = append(logs, fx.Log(e, m.NextNonce(e.Owner)))
			m.Apply(fx, e, num)
		}
		m.EndBlock(num)
		idx[i] = len(blocks)
		blocks = append(blocks, reg.Block(num, logs))
		num += 3 // block numbers with gaps, as on a real chain
	}
	return blocks, idx
}

// env performs the pending environment steps whose preceding block has been processed.
func (w *world) env(n *reg.Node, ctl *reg.Ctl, lastProcessed uint64) {
	ctl.Off = true
	defer func() { ctl.Off = false }()
	prev := uint64(0)
	for i, s := range w.h.steps {
		if s.block != nil {
			prev = w.blocks[w.stepBlk[i]].BlockNumber
			continue
		}
		if !w.envDone[i] && prev <= lastProcessed {
			if err := n.SaveDecided(s.decided-1, 7); err != nil {
				ev.Fatal("environment step failed: %v", err)
			}
			w.envDone[i] = true
		}
	}
}

// life is one process life: start the node on the surviving database, resume from the last
// processed block + 1 the way cli/operator/node.go setupEventHandling does, feed the rest of
// the chain block by block.
func (w *world) life(ctl *reg.Ctl) (res lifeResult) {
	defer func() {
		if r := recover(); r != nil {
			if _, ok := r.(reg.Crash); ok {
				res = lifeResult{end: crashed}
				return
			}
			// a panic of the code under test (e.g. after an injected error) also ends the process
			res = lifeResult{end: panicked, err: fmt.Sprint(r)}
		}
	}()
	db := &reg.ProxyDB{Base: w.base, C: ctl}
	n, err := reg.NewNode(w.fx, reg.Config{OwnKey: w.h.own}, db, w.clk, reg.WrapKM(ctl))
	if err != nil {
		return lifeResult{end: startupError, err: err.Error()}
	}
	// setupEventHandling: fromBlock = last processed + 1, or the sync offset when nothing was processed
	from := uint64(firstBlock)
	last, found, err := n.Storage.GetLastProcessedBlock(nil)
	if err != nil {
		return lifeResult{end: startupError, err: "get last processed block: " + err.Error()}
	}
	if found {
		if last == nil {
			return lifeResult{end: startupError, err: "last processed block is nil"}
		}
		from = last.Uint64() + 1
	}
	if found {
		w.env(n, ctl, last.Uint64())
	}
	var tasks []string
	for _, b := range w.blocks {
		if b.BlockNumber < from {
			continue
		}
		t, err := n.ProcessBlock(b)
		tasks = append(tasks, t...)
		if err != nil {
			// HandleBlockEventsStream error -> SyncHistory/SyncOngoing error -> logger.Fatal
			return lifeResult{end: handlerError, err: err.Error(), node: n}
		}
		w.env(n, ctl, b.BlockNumber)
	}
	return lifeResult{end: completed, node: n, tasks: tasks}
}

// ---- observation of the final state ----

type final struct {
	Other []reg.KV // everything outside the key manager's key space, raw
	KM    reg.KMView
	Mem   []string
	Raw   []string
}

func observe(w *world, n *reg.Node, ctl *reg.Ctl) final {
	ctl.Off = true
	defer func() { ctl.Off = false }()
	var f final
	for _, e := range reg.TakeSnapshot(w.base) {
		if !strings.HasPrefix(e.K, reg.SignerPrefix()) {
			f.Other = append(f.Other, e)
		}
	}
	f.KM = n.ObserveKM(true)
	f.Mem = n.DescribeMemory()
	f.Raw = reg.MemoryLines(reg.DescribeRaw(w.fx, f.Other, w.h.own, n.Net.Domain, "", false))
	return f
}

// compare returns the differences between the final state of a faulted execution and the
// uninterrupted one ("" = equal under the property's notion of equality).
func compare(got, want final) []string {
	d, _ := compareStale(got, want)
	return d
}

func compareStale(got, want final) (d []string, stale int) {
	g, w := map[string]string{}, map[string]string{}
	for _, e := range got.Other {
		g[e.K] = e.V
	}
	for _, e := range want.Other {
		w[e.K] = e.V
	}
	var keys []string
	for k := range g {
		keys = append(keys, k)
	}
	for k := range w {
		if _, ok := g[k]; !ok {
			keys = append(keys, k)
		}
	}
	sort.Strings(keys)
	for _, k := range keys {
		gv, gok := g[k]
		wv, wok := w[k]
		switch {
		case !gok:
			d = append(d, fmt.Sprintf("database: key %q missing", printable(k)))
		case !wok:
			d = append(d, fmt.Sprintf("database: extra key %q", printable(k)))
		case gv != wv:
			d = append(d, fmt.Sprintf("database: value of %q differs", printable(k)))
		}
	}
	if fmt.Sprint(got.KM.Usable) != fmt.Sprint(want.KM.Usable) {
		d = append(d, fmt.Sprintf("key manager: usable share keys %v, uninterrupted %v", got.KM.Usable, want.KM.Usable))
	}
	cmpSP := func(what string, a, b map[string]uint64) {
		var ks []string
		for k := range a {
			ks = append(ks, k)
		}
		for k := range b {
			if _, ok := a[k]; !ok {
				ks = append(ks, k)
			}
		}
		sort.Strings(ks)
		for _, k := range ks {
			av, aok := a[k]
			bv, bok := b[k]
			switch {
			case !aok:
				d = append(d, fmt.Sprintf("slashing protection: %s record of %s missing", what, k))
			case !bok:
				// a record the uninterrupted run does not have is on the safe side of ">=" (it can only
				// raise the protection of a key that is added again): counted, not a violation
				stale++
			case av < bv:
				d = append(d, fmt.Sprintf("slashing protection: %s of %s is %d, below the uninterrupted %d", what, k, av, bv))
			}
		}
	}
	cmpSP("highest attestation", got.KM.HighAtt, want.KM.HighAtt)
	cmpSP("highest proposal", got.KM.HighProp, want.KM.HighProp)
	if !reg.Equal(got.Mem, got.Raw) {
		d = append(d, "in-memory view differs from the database: "+strings.Join(reg.Diff(got.Mem, got.Raw), " ; "))
	}
	return d, stale
}

func printable(k string) string {
	b := []byte(k)
	for i, c := range b {
		if c < 0x20 || c > 0x7e {
			return fmt.Sprintf("%s<%x>", b[:i], b[i:])
		}
	}
	return k
}

func orphans(km reg.KMView) int {
	n := 0
	use := map[string]bool{}
	for _, u := range km.Usable {
		use[u] = true
	}
	for k, c := range km.Accounts {
		if use[k] {
			n += c - 1
		} else {
			n += c
		}
	}
	return n
}

// ---- canonical form of a surviving database (dedup of recovery starting points) ----

var uuidRe = regexp.MustCompile(`[0-9a-f]{8}-[0-9a-f]{4}-[0-9a-f]{4}-[0-9a-f]{4}-[0-9a-f]{12}`)

func restartKey(base *kv.BadgerDB, clk *reg.Clock, envDone []bool) string {
	snap := reg.TakeSnapshot(base)
	alias := map[string]string{}
	walletKey := reg.SignerPrefix() + "wallet-wallet"
	for _, e := range snap {
		if e.K == walletKey {
			var wj struct {
				ID          string            `json:"id"`
				IndexMapper map[string]string `json:"indexMapper"`
			}
			_ = json.Unmarshal([]byte(e.V), &wj)
			alias[wj.ID] = "W"
			var pks []string
			for pk := range wj.IndexMapper {
				pks = append(pks, pk)
			}
			sort.Strings(pks)
			for i, pk := range pks {
				alias[wj.IndexMapper[pk]] = fmt.Sprintf("U%d", i)
			}
		}
	}
	ren := func(s string) string {
		return uuidRe.ReplaceAllStringFunc(s, func(u string) string {
			if a, ok := alias[u]; ok {
				return a
			}
			return "ORPHAN"
		})
	}
	h := sha256.New()
	var lines []string
	for _, e := range snap {
		if strings.HasPrefix(e.K, reg.SignerPrefix()+"accounts-") {
			lines = append(lines, ren(e.K)+"=<row>") // AES-GCM cipher text with a random nonce
			continue
		}
		lines = append(lines, fmt.Sprintf("%d:%s=%s", len(e.K), ren(e.K), ren(e.V)))
	}
	sort.Strings(lines)
	for _, l := range lines {
		fmt.Fprintf(h, "%d:%s;", len(l), l)
	}
	fmt.Fprintf(h, "clk=%d;env=%v", clk.Slot, envDone)
	return fmt.Sprintf("%x", h.Sum(nil)[:12])
}

// ---- executions ----

type fault struct {
	k    int
	mode reg.Mode
}

func (f fault) String() string { return fmt.Sprintf("%s@%d", f.mode, f.k) }

type execResult struct {
	faults   []fault
	sites    []string
	ends     []lifeEnd
	errs     []string
	logs     [][]string // proxied call log of every life
	fired    []bool
	final    final
	diffs    []string
	problem  string   // recovery failed etc.
	inferior string   // "" if the ErrInferiorBlock guard held
	midKeys  []string // canonical surviving database at every restart
	asked    []uint64 // real lives: block numbers the node asked the chain for
	real     bool
}

type runner struct {
	fx   *reg.Fixture
	db   *kv.BadgerDB
	uses int
}

func (r *runner) freshDB() *kv.BadgerDB {
	r.uses++
	if r.db == nil || r.uses%reopenEvery == 0 {
		if r.db != nil {
			old := r.db
			go old.Close()
		}
		r.db = reg.NewDB()
	} else {
		reg.WipeDB(r.db)
	}
	return r.db
}

var reopenEvery = 150

// execute runs the history with the given faults (fault i is planted in life i), restarts after
// every life that did not complete, and observes the final state.
// Lives with index >= realFrom go through the node's real setupEventHandling (realFrom < 0: none).
func (r *runner) execute(h *history, blocks []executionclient.BlockLogs, stepBlk []int, faults []fault, realFrom int) execResult {
	w := &world{fx: r.fx, h: h, base: r.freshDB(), clk: &reg.Clock{Slot: reg.StartSlot}, blocks: blocks, stepBlk: stepBlk, envDone: make([]bool, len(h.steps))}
	res := execResult{faults: faults}
	var last lifeResult
	var ctl *reg.Ctl
	for life := 0; ; life++ {
		ctl = &reg.Ctl{}
		if life < len(faults) {
			ctl.At, ctl.Mode = faults[life].k, faults[life].mode
		}
		if realFrom >= 0 && life >= realFrom {
			last = w.realLife(ctl)
			res.asked = append(res.asked, last.resumeAsked...)
		} else {
			last = w.life(ctl)
		}
		res.ends = append(res.ends, last.end)
		res.errs = append(res.errs, last.err)
		res.logs = append(res.logs, ctl.Log)
		res.fired = append(res.fired, ctl.Fired)
		res.sites = append(res.sites, ctl.Site)
		if last.end == completed && life >= len(faults) {
			break
		}
		if last.end != completed && !ctl.Fired {
			res.problem = fmt.Sprintf("life %d ended with %s (%s) although no fault was injected in it", life+1, last.end, last.err)
			return res
		}
		// (a life that completed although its error-return fault fired has swallowed the error; the
		// property still demands the uninterrupted result after a restart, so we go on)
		// restart: the process is gone, time has passed
		w.clk.Slot += 32
		res.midKeys = append(res.midKeys, restartKey(w.base, w.clk, w.envDone))
	}
	res.final = observe(w, last.node, ctl)
	// a block that is not newer than the last processed block is refused and changes nothing
	ctl.Off = true
	for _, b := range []executionclient.BlockLogs{blocks[len(blocks)-1], blocks[0]} {
		_, err := last.node.ProcessBlock(b)
		if !errors.Is(err, eventhandler.ErrInferiorBlock) {
			res.inferior = fmt.Sprintf("block %d re-delivered after block %d: handler returned %v, want ErrInferiorBlock", b.BlockNumber, blocks[len(blocks)-1].BlockNumber, err)
		}
	}
	if after := observe(w, last.node, ctl); res.inferior == "" && (fmt.Sprint(after.Other) != fmt.Sprint(res.final.Other) || fmt.Sprint(after.KM) != fmt.Sprint(res.final.KM)) {
		res.inferior = "a refused (inferior) block changed the state"
	}
	// ... also when a storage operation fails while the not-newer block is looked at: every
	// proxied call of the re-delivery gets an error-return fault in turn; the handler must
	// return an error (the guard's or the storage's) and nothing may change
	if res.inferior == "" && len(faults) == 0 {
		b := blocks[len(blocks)-1]
		for k := 1; k <= 12 && res.inferior == ""; k++ {
			fc := ctl
			saved := *fc
			fc.Off, fc.Fired, fc.Site, fc.Log, fc.At, fc.Mode = false, false, "", nil, k, reg.ErrorReturn
			_, err := last.node.ProcessBlock(b)
			fired, site, calls := fc.Fired, fc.Site, len(fc.Log)
			*fc = saved
			fc.Off = true
			if fired && err == nil {
				res.inferior = fmt.Sprintf("block %d re-delivered after it was processed, %s fails: handler returned nil, want an error", b.BlockNumber, site)
			}
			if after := observe(w, last.node, ctl); res.inferior == "" && (fmt.Sprint(after.Other) != fmt.Sprint(res.final.Other) || fmt.Sprint(after.KM) != fmt.Sprint(res.final.KM)) {
				res.inferior = fmt.Sprintf("block %d re-delivered after it was processed, %s fails: the refused block changed the state", b.BlockNumber, site)
			}
			if k > calls {
				break
			}
		}
	}
	return res
}

func equalLogs(a, b []string) bool {
	if len(a) != len(b) {
		return false
	}
	for i := range a {
		if a[i] != b[i] {
			return false
		}
	}
	return true
}

func stepsDesc(h *history) []string {
	var out []string
	for _, s := range h.steps {
		if s.block != nil {
			out = append(out, "["+strings.Join(s.block, ", ")+"]")
		} else {
			out = append(out, fmt.Sprintf("<decided instance of V%d stored>", s.decided))
		}
	}
	return out
}

type job struct {
	hi       int
	faults   []fault
	realFrom int
}

func main() {
	r := ev.Start("C12", "fault_enumeration")
	fx := reg.NewFixture()
	if r.Replay != "" {
		replay(r, fx)
		return
	}
	nWorkers := 16
	if v := os.Getenv("C12_WORKERS"); v != "" {
		fmt.Sscan(v, &nWorkers)
	}
	hs := curated()
	if r.Thorough() {
		hs = append(hs, generated()...)
	}
	type hinfo struct {
		blocks  []executionclient.BlockLogs
		stepBlk []int
		base    execResult
		kFrom   int
	}
	infos := make([]*hinfo, len(hs))
	r0 := &runner{fx: fx}
	outcomes := map[string]int{}
	siteHist := map[string]int{}
	swallowed := map[string]int{}
	for i := range hs {
		h := &hs[i]
		in := &hinfo{}
		in.blocks, in.stepBlk = buildChain(fx, h)
		in.base = r0.execute(h, in.blocks, in.stepBlk, nil, -1)
		if in.base.problem != "" || in.base.inferior != "" || len(in.base.ends) != 1 {
			r.Violate("uninterrupted "+h.name, "the uninterrupted run of the history fails: "+in.base.problem+in.base.inferior, "c12",
				map[string]interface{}{"history": h.name, "steps": stepsDesc(h), "faults": []string{}}, in.base.errs, nil)
			continue
		}
		// the uninterrupted run itself must leave memory and database in agreement: whatever is only in
		// one of them differs from the uninterrupted run as soon as the node restarts
		if self := compare(in.base.final, in.base.final); len(self) > 0 {
			r.Violate("uninterrupted-run-memory-differs-from-database "+h.name, "after the uninterrupted run of the history the in-memory registry view and the database disagree (a restart alone changes the state): "+strings.Join(self, " ; "), "c12",
				map[string]interface{}{"history": h.name, "steps": stepsDesc(h), "faults": []string{}}, self, "memory == database")
			continue
		}
		// determinism of the call log (the fault points are indexes into it)
		again := r0.execute(h, in.blocks, in.stepBlk, nil, -1)
		if !equalLogs(again.logs[0], in.base.logs[0]) {
			for i := range again.logs[0] {
				if i < len(in.base.logs[0]) && again.logs[0][i] != in.base.logs[0][i] {
					fmt.Fprintf(os.Stderr, "call %d: %q vs %q\n", i+1, in.base.logs[0][i], again.logs[0][i])
				}
			}
		}
		if !equalLogs(again.logs[0], in.base.logs[0]) || len(compare(again.final, in.base.final)) > 0 {
			ev.Fatal("history %q: two uninterrupted runs differ (non-determinism): logs equal=%v (%d vs %d) diff=%v", h.name, equalLogs(again.logs[0], in.base.logs[0]), len(again.logs[0]), len(in.base.logs[0]), compare(again.final, in.base.final))
		}
		// first call index of the first enumerated step: count the calls of a run cut there
		if h.faultFrom > 0 {
			cut := *h
			cut.steps = h.steps[:h.faultFrom]
			cb, cs := buildChain(fx, &cut)
			cr := r0.execute(&cut, cb, cs, nil, -1)
			n := len(cr.logs[0])
			if n > len(in.base.logs[0]) || !equalLogs(cr.logs[0], in.base.logs[0][:n]) {
				ev.Fatal("history %q: the call log of the prefix is not a prefix of the call log", h.name)
			}
			in.kFrom = n
		}
		infos[i] = in
	}
	if r.NumViolations() > 0 {
		r.Finish(false)
	}

	var mu sync.Mutex
	evaluations := 0
	nontrivial := map[string]bool{}
	nontrivialSites := map[string]bool{}
	partial := 0
	orphanRuns := 0
	realRuns := 0
	staleRuns := 0
	asked := map[string]int{}
	var bounds []string

	report := func(h *history, in *hinfo, x execResult) {
		// called with mu held
		evaluations++
		var fdesc []string
		for i, f := range x.faults {
			site := ""
			if i < len(x.sites) {
				site = x.sites[i]
			}
			fdesc = append(fdesc, fmt.Sprintf("life %d: %s at call %d (%s)", i+1, f.mode, f.k, site))
		}
		var first fault
		site0 := ""
		if len(x.faults) > 0 {
			first, site0 = x.faults[0], x.sites[0]
		}
		label := fmt.Sprintf("%s -> %s", first.mode, x.ends[0])
		if len(x.faults) > 1 && len(x.ends) > 1 {
			label = fmt.Sprintf("%s -> %s ; %s -> %s", first.mode, x.ends[0], x.faults[1].mode, x.ends[1])
		}
		realFrom := -1
		if x.real {
			realFrom = 1
			if len(x.faults) == 0 {
				realFrom = 0
			}
			label = "real setupEventHandling: " + label
			realRuns++
			for _, a := range x.asked {
				asked[fmt.Sprint(a)]++
			}
		} else {
			if !equalLogs(x.logs[0], in.base.logs[0]) {
				nontrivial[fmt.Sprintf("%s|%d|%s", h.name, first.k, first.mode)] = true
				nontrivialSites[fmt.Sprintf("%s|%s|%s", h.name, site0, first.mode)] = true
			}
			if first.mode == reg.ErrorReturn && x.ends[0] == completed && x.fired[0] {
				swallowed[site0]++
			}
			siteHist[first.mode.String()+" "+site0]++
		}
		outcomes[label]++
		trace := map[string]interface{}{"history": h.name, "own_key": fmt.Sprintf("K%d", h.own), "steps": stepsDesc(h), "faults": fdesc,
			"fault_points": faultsJSON(x.faults), "life_ends": fmt.Sprint(x.ends), "errors": x.errs, "real_from": realFrom}
		sig := func(class string) string {
			var s []string
			if x.real {
				class = "real-resume " + class
			}
			for i, f := range x.faults {
				st := ""
				if i < len(x.sites) {
					st = x.sites[i]
				}
				s = append(s, fmt.Sprintf("%s %s", f.mode, st))
			}
			return fmt.Sprintf("%s | %s", class, strings.Join(s, " ; "))
		}
		if x.problem != "" {
			r.Violate(sig("recovery"), x.problem, "c12", trace, x.errs, nil)
			return
		}
		if o := orphans(x.final.KM); o > 0 {
			orphanRuns++
		}
		// account rows: the third-party wallet writes the account row and then the wallet index; only a
		// fault between these two writes may leave an orphan row behind. Any other surplus row means
		// that a key share was stored twice.
		allowed := 0
		for i, f := range x.faults {
			if i >= len(x.sites) || !x.fired[i] {
				continue
			}
			row, index := strings.HasSuffix(x.sites[i], "accounts-accounts_") && strings.HasPrefix(x.sites[i], "db.Set "), strings.HasSuffix(x.sites[i], "wallet-wallet") && strings.HasPrefix(x.sites[i], "db.Set ")
			if (row && f.mode == reg.CrashAfter) || (index && (f.mode == reg.CrashBefore || f.mode == reg.ErrorReturn)) {
				allowed++
			}
		}
		if o := orphans(x.final.KM); o > allowed {
			r.Violate(sig("key-share-rows"), fmt.Sprintf("the key manager holds %d surplus account row(s) for share keys (rows per key: %v, usable: %v) although only %d fault(s) hit the window between the account row and the wallet index: a key share was stored more than once",
				o, x.final.KM.Accounts, x.final.KM.Usable, allowed), "c12", trace, x.final.KM.Accounts, nil)
		}
		d, stale := compareStale(x.final, in.base.final)
		if stale > 0 {
			staleRuns++
		}
		if len(d) > 0 {
			r.Violate(sig("final-state"), "after restart and resumption the final state differs from the uninterrupted run: "+strings.Join(d, " ; "), "c12", trace, d, nil)
		}
		if x.inferior != "" {
			r.Violate(sig("inferior-block"), x.inferior, "c12", trace, nil, nil)
		}
	}

	for hi := range hs {
		h, in := &hs[hi], infos[hi]
		n := len(in.base.logs[0])
		// ---- single faults ----
		var jobs []job
		for k := in.kFrom + 1; k <= n; k++ {
			for _, m := range []reg.Mode{reg.CrashBefore, reg.CrashAfter, reg.ErrorReturn} {
				if m == reg.ErrorReturn && reg.NoErrorResult(in.base.logs[0][k-1]) {
					continue
				}
				jobs = append(jobs, job{hi, []fault{{k, m}}, -1})
			}
		}
		results := runJobs(r, fx, hs, func(hi int) ([]executionclient.BlockLogs, []int) { return infos[hi].blocks, infos[hi].stepBlk }, jobs, nWorkers)
		mu.Lock()
		seenRestart := map[string]bool{}
		var second []job
		for ji, x := range results {
			if x == nil {
				continue
			}
			report(h, in, *x)
			if len(x.midKeys) > 0 && len(x.logs) > 1 {
				// partial state: the database at restart is neither a block boundary of the uninterrupted run
				if !seenRestart[x.midKeys[0]] {
					seenRestart[x.midKeys[0]] = true
					if r.Thorough() {
						for k2 := 1; k2 <= len(x.logs[1]); k2++ {
							for _, m := range []reg.Mode{reg.CrashBefore, reg.CrashAfter, reg.ErrorReturn} {
								if m == reg.ErrorReturn && reg.NoErrorResult(x.logs[1][k2-1]) {
									continue
								}
								second = append(second, job{hi, []fault{jobs[ji].faults[0], {k2, m}}, -1})
							}
						}
					}
				}
			}
		}
		partial += len(seenRestart)
		mu.Unlock()
		single := len(jobs)
		// ---- the same recoveries through the node's real setupEventHandling (one per distinct
		// surviving database) and the whole history through it without any fault ----
		realJobs := []job{{hi, nil, 0}}
		seenReal := map[string]bool{}
		for ji, x := range results {
			if x != nil && len(x.midKeys) > 0 && !seenReal[x.midKeys[0]] {
				seenReal[x.midKeys[0]] = true
				realJobs = append(realJobs, job{hi, jobs[ji].faults, 1})
			}
		}
		if !r.Expired() {
			resultsR := runJobs(r, fx, hs, func(hi int) ([]executionclient.BlockLogs, []int) { return infos[hi].blocks, infos[hi].stepBlk }, realJobs, nWorkers)
			mu.Lock()
			for _, x := range resultsR {
				if x != nil {
					report(h, in, *x)
				}
			}
			mu.Unlock()
		}
		// ---- a second fault during recovery (thorough) ----
		if len(second) > 0 && !r.Expired() {
			results2 := runJobs(r, fx, hs, func(hi int) ([]executionclient.BlockLogs, []int) { return infos[hi].blocks, infos[hi].stepBlk }, second, nWorkers)
			mu.Lock()
			for _, x := range results2 {
				if x != nil {
					report(h, in, *x)
				}
			}
			mu.Unlock()
		}
		bounds = append(bounds, fmt.Sprintf("%s: calls=%d enumerated from call %d, single faults=%d, distinct restart states=%d, double faults=%d", h.name, n, in.kFrom+1, single, len(seenRestart), len(second)))
		if hi < 8 {
			r.Sample(map[string]interface{}{"history": h.name, "steps": stepsDesc(h), "calls": n, "call_log_excerpt": excerpt(in.base.logs[0], in.kFrom)})
		}
		if r.Expired() {
			r.CapHit("deadline after history " + h.name)
			break
		}
	}

	r.Set("evaluations", evaluations)
	r.Set("distinct_nontrivial", len(nontrivial))
	r.Set("distinct_nontrivial_by_site", len(nontrivialSites))
	r.Set("distinct_restart_states", partial)
	r.Set("runs_leaving_orphan_account_rows", orphanRuns)
	r.Set("runs_leaving_stale_slashing_records_for_removed_keys", staleRuns)
	r.Set("histories", len(hs))
	r.Set("runs_through_real_setupEventHandling", realRuns)
	r.Set("blocks_requested_by_real_resume", asked)
	r.Set("rule", "for every history, every proxied Database/Txn/KeyManager call k of the uninterrupted run and every mode in {crash-before, crash-after, error-return}: run with the fault at k, restart on the same badger, resume from last processed block + 1, finish; for every distinct surviving database the recovery is repeated through the node's real setupEventHandling + EventSyncer + ExecutionClient on a fake in-process chain endpoint; thorough: for every distinct surviving database, every call of the recovery life x every mode as a second fault")
	r.Set("bounds", bounds)
	r.Set("distinct_outcomes", len(outcomes))
	r.Set("outcome_histogram", outcomes)
	r.Set("fault_site_histogram", siteHist)
	r.Set("injected_errors_not_reported_by_the_handler", swallowed)
	r.Assume("badger transactions are atomic and durable (trusted base); torn writes inside one transaction are out of scope",
		"a handler error ends the process (cli/operator/node.go: logger.Fatal) and is followed by a restart",
		"error-return faults: the call is not executed and returns an error (a failing Commit commits nothing)",
		"key shares are compared as the set of keys the key manager can sign with; orphan account rows are counted, not violations",
		"the beacon clock advances one epoch per restart; slashing-protection records must be >= the uninterrupted ones; a record for a key the uninterrupted run has none for (left behind when RemoveShare finds the account already deleted) counts as >= and is only counted")
	r.Finish(!r.Expired())
}

func excerpt(log []string, from int) []string {
	to := from + 40
	if to > len(log) {
		to = len(log)
	}
	return log[from:to]
}

func faultsJSON(f []fault) []map[string]interface{} {
	var out []map[string]interface{}
	for _, x := range f {
		out = append(out, map[string]interface{}{"k": x.k, "mode": int(x.mode)})
	}
	return out
}

func runJobs(r *ev.Run, fx *reg.Fixture, hs []history, chain func(int) ([]executionclient.BlockLogs, []int), jobs []job, nWorkers int) []*execResult {
	results := make([]*execResult, len(jobs))
	ch := make(chan int, len(jobs))
	for i := range jobs {
		ch <- i
	}
	close(ch)
	var wg sync.WaitGroup
	for w := 0; w < nWorkers; w++ {
		wg.Add(1)
		go func() {
			defer wg.Done()
			run := &runner{fx: fx}
			for i := range ch {
				if r.Expired() {
					return
				}
				j := jobs[i]
				b, s := chain(j.hi)
				x := run.execute(&hs[j.hi], b, s, j.faults, j.realFrom)
				x.real = j.realFrom >= 0
				results[i] = &x
			}
			if run.db != nil {
				run.db.Close()
			}
		}()
	}
	wg.Wait()
	return results
}

func replay(r *ev.Run, fx *reg.Fixture) {
	v, err := ev.LoadReplay(r.Replay)
	if err != nil {
		ev.Fatal("%v", err)
	}
	fmt.Printf("replay %s: %s\n", r.Replay, v.What)
	tr, _ := v.Trace.(map[string]interface{})
	name := fmt.Sprint(tr["history"])
	var h *history
	all := append(curated(), generated()...)
	for i := range all {
		if all[i].name == name {
			h = &all[i]
		}
	}
	if h == nil {
		ev.Fatal("unknown history %q", name)
	}
	var faults []fault
	if l, ok := tr["fault_points"].([]interface{}); ok {
		for _, x := range l {
			m := x.(map[string]interface{})
			faults = append(faults, fault{int(m["k"].(float64)), reg.Mode(int(m["mode"].(float64)))})
		}
	}
	run := &runner{fx: fx}
	blocks, stepBlk := buildChain(fx, h)
	realFrom := -1
	if v, ok := tr["real_from"].(float64); ok {
		realFrom = int(v)
	}
	base := run.execute(h, blocks, stepBlk, nil, -1)
	x := run.execute(h, blocks, stepBlk, faults, realFrom)
	fmt.Println("history:", stepsDesc(h))
	for i, f := range x.faults {
		fmt.Printf("life %d: %s at call %d (%s) -> %s %s\n", i+1, f.mode, f.k, x.sites[i], x.ends[i], x.errs[i])
	}
	fmt.Println("uninterrupted: usable keys", base.final.KM.Usable, "memory", base.final.Mem)
	fmt.Println("faulted:       usable keys", x.final.KM.Usable, "memory", x.final.Mem)
	var d []string
	if x.problem != "" {
		d = append(d, x.problem)
	} else {
		d = compare(x.final, base.final)
		if o := orphans(x.final.KM); o > 0 {
			fmt.Printf("account rows per share key: %v (surplus %d)\n", x.final.KM.Accounts, o)
			if strings.HasPrefix(v.Signature, "key-share-rows") || strings.HasPrefix(v.Signature, "real-resume key-share-rows") {
				d = append(d, fmt.Sprintf("%d surplus account row(s): a key share was stored more than once", o))
			}
		}
	}
	if x.inferior != "" {
		d = append(d, x.inferior)
	}
	for _, l := range d {
		fmt.Println("  difference:", l)
	}
	if len(d) > 0 {
		fmt.Printf("VIOLATION property=C12 replay=%s\n", r.Replay)
		os.Exit(1)
	}
	fmt.Println("not reproduced")
	r.Finish(false)
}
