package main

// seq.go — sequential half: every sequence p1..pk, x with p_i honest and accepted, x ∈ H ∪ μ(H),
// each evaluated on a FRESH real messageValidator that is fed the prefix first. Plain bounded
// enumeration (no pruning by validator state). Work is sharded over worker processes because the
// virtual clock is process-global.

import (
	"fmt"
	"sort"
	"time"

	spectypes "github.com/bloxapp/ssv-spec/types"

	"verifharness/lib/ev"
)

type task struct {
	Era   int
	Role  spectypes.BeaconRole
	First int // index of the first prefix element; -1 = the empty history only
}

type violation struct {
	Order     int // global task number of the first occurrence (for a deterministic representative)
	Count     int // occurrences with this signature
	Signature string
	What      string
	Trace     map[string]interface{}
	Observed  string
	Expected  string
}

type reachRow struct {
	Era, Role, Name, Class string
	WantBroken, GotBroken  string
	WantReason, Got        string
}

type classStat struct {
	Evaluated int
	Answers   map[string]int // what the validator answered
	Broken    map[string]int // which clauses the oracle saw broken
}

type result struct {
	Evaluations  int
	Validations  int
	Sequences    map[string]int // prefix length -> number of accepted prefixes explored
	Classes      map[string]*classStat
	Outcomes     map[string]int        // "class | broken clauses | answer"
	Violations   map[string]*violation // by signature
	Reach        []reachRow
	HonestFailed []string
	Samples      []map[string]interface{}
	Expired      bool
}

func newResult() *result {
	return &result{Sequences: map[string]int{}, Classes: map[string]*classStat{}, Outcomes: map[string]int{}, Violations: map[string]*violation{}}
}

func (r *result) merge(o *result) {
	r.Evaluations += o.Evaluations
	r.Validations += o.Validations
	for k, v := range o.Sequences {
		r.Sequences[k] += v
	}
	for k, c := range o.Classes {
		d := r.Classes[k]
		if d == nil {
			d = &classStat{Answers: map[string]int{}, Broken: map[string]int{}}
			r.Classes[k] = d
		}
		d.Evaluated += c.Evaluated
		for a, n := range c.Answers {
			d.Answers[a] += n
		}
		for a, n := range c.Broken {
			d.Broken[a] += n
		}
	}
	for k, v := range o.Outcomes {
		r.Outcomes[k] += v
	}
	for sig, v := range o.Violations {
		if cur := r.Violations[sig]; cur == nil {
			c := *v
			r.Violations[sig] = &c
		} else {
			n := cur.Count + v.Count
			if v.Order < cur.Order {
				c := *v
				r.Violations[sig] = &c
			}
			r.Violations[sig].Count = n
		}
	}
	r.Reach = append(r.Reach, o.Reach...)
	r.HonestFailed = append(r.HonestFailed, o.HonestFailed...)
	if len(r.Samples) < 8 {
		r.Samples = append(r.Samples, o.Samples...)
	}
	r.Expired = r.Expired || o.Expired
}

type explorer struct {
	w     *world
	g     *gen
	eras  []era
	depth int
	run   *ev.Run
	wide  bool
	order int // global number of the task being run

	alpha map[string][]*elem // era/role -> alphabet
	ow    map[int]*oWorld
}

func newExplorer(run *ev.Run, w *world, depth int, wide bool) *explorer {
	x := &explorer{w: w, eras: w.eras(), depth: depth, run: run, wide: wide, alpha: map[string][]*elem{}, ow: map[int]*oWorld{}}
	x.g = &gen{w: w, k7: testing7(), wide: wide}
	for i, e := range x.eras {
		x.ow[i] = newOracleWorld(w, e)
	}
	return x
}

func (x *explorer) alphabet(era int, role spectypes.BeaconRole) []*elem {
	k := fmt.Sprintf("%d/%d", era, role)
	if a, ok := x.alpha[k]; ok {
		return a
	}
	a := x.g.alphabet(role, x.eras[era])
	for _, el := range a {
		el.facts = x.ow[era].decode(el.data, x.eras[era].signed)
	}
	x.alpha[k] = a
	return a
}

func (x *explorer) tasks(roles []spectypes.BeaconRole) []task {
	var out []task
	for ei := range x.eras {
		for _, role := range roles {
			out = append(out, task{ei, role, -1})
			for _, el := range x.alphabet(ei, role) {
				if el.honest {
					out = append(out, task{ei, role, el.idx})
				}
			}
		}
	}
	return out
}

type evalOut struct {
	ans    answer
	broken []string
	at     time.Time
}

// evaluate feeds the prefix and then x to a fresh real validator and asks the oracle about x.
func (x *explorer) evaluate(res *result, era int, prefix []*elem, last *elem) evalOut {
	e := x.eras[era]
	o := x.ow[era]
	s := x.w.newValidator(e)
	rec := record{}
	base := x.w.slotStart(x.w.s0)
	var now time.Time
	step := func(el *elem) time.Time {
		t := base.Add(el.at)
		if t.Before(now) {
			t = now // the clock never runs backwards within a history
		}
		now = t
		if o.envelopesActive(t) != e.signed {
			ev.Fatal("instant %v is on the wrong side of the envelope fork for era %s", t, e.name)
		}
		return t
	}
	for _, p := range prefix {
		t := step(p)
		a := s.validate(p.topic, p.data, t)
		res.Validations++
		if a.verdict != "accept" {
			ev.Fatal("prefix replay diverged: %s answered %s", p.name, a)
		}
		rec.accepted(p.facts)
	}
	t := step(last)
	a := s.validate(last.topic, last.data, t)
	res.Validations++
	return evalOut{a, o.broken(last.topic, last.facts, t, rec), t}
}

func kindOf(f *facts) string {
	switch {
	case f.malformed != "":
		return "malformed"
	case f.partial:
		return "partial-signature"
	case len(f.signers) > 1:
		return "multi-signer-" + typeWord[f.typ%4]
	}
	return typeWord[f.typ%4]
}

func names(p []*elem) []string {
	out := []string{}
	for _, e := range p {
		out = append(out, e.name)
	}
	return out
}

func (x *explorer) runTask(t task) *result {
	res := newResult()
	alpha := x.alphabet(t.Era, t.Role)
	eraName, role := x.eras[t.Era].name, roleName(t.Role)

	var visit func(prefix []*elem)
	visit = func(prefix []*elem) {
		if x.run.Expired() {
			res.Expired = true
			return
		}
		res.Sequences[fmt.Sprint(len(prefix))]++
		var extend []*elem
		for _, el := range alpha {
			out := x.evaluate(res, t.Era, prefix, el)
			res.Evaluations++
			bk := brokenKey(out.broken)
			cs := res.Classes[el.class]
			if cs == nil {
				cs = &classStat{Answers: map[string]int{}, Broken: map[string]int{}}
				res.Classes[el.class] = cs
			}
			cs.Evaluated++
			cs.Answers[out.ans.String()]++
			cs.Broken[bk]++
			res.Outcomes[el.class+" | "+bk+" | "+out.ans.String()]++
			if len(prefix) == 0 {
				// generator self-check from the empty history
				if el.honest && out.ans.verdict != "accept" {
					res.HonestFailed = append(res.HonestFailed, fmt.Sprintf("%s/%s/%s: %s", eraName, role, el.name, out.ans))
				}
				if !el.honest {
					res.Reach = append(res.Reach, reachRow{eraName, role, el.name, el.class, el.spec.wantBroken, bk, el.spec.wantReason, out.ans.String()})
				}
			}
			if out.ans.verdict == "accept" && len(out.broken) > 0 {
				sig := fmt.Sprintf("accepted %s breaking %s", kindOf(el.facts), bk)
				if cur := res.Violations[sig]; cur != nil {
					cur.Count++
				} else {
					res.Violations[sig] = &violation{Order: x.order, Count: 1, Signature: sig,
						What: fmt.Sprintf("validator accepted %s (%s, %s) although it breaks: %s; history: %v",
							el.name, role, eraName, bk, names(prefix)),
						Trace: map[string]interface{}{"era": eraName, "role": int(t.Role), "role_name": role, "wide": x.wide,
							"prefix": names(prefix), "x": el.name, "x_class": el.class, "received_at_unix_ms": out.at.UnixMilli()},
						Observed: out.ans.String(), Expected: "ignore or reject (broken: " + bk + ")",
					}
				}
			}
			if len(res.Samples) < 1 && len(prefix) == x.depth && len(out.broken) > 0 && !el.honest && el.class != "edge-ok" && (x.order+el.idx)%7 == 0 {
				res.Samples = append(res.Samples, map[string]interface{}{"era": eraName, "role": role, "history": names(prefix),
					"x": el.name, "oracle_broken": out.broken, "validator": out.ans.String()})
			}
			if el.honest && out.ans.verdict == "accept" && len(out.broken) == 0 && len(prefix) < x.depth {
				extend = append(extend, el)
			}
		}
		for _, el := range extend {
			visit(append(append([]*elem{}, prefix...), el))
		}
	}

	if t.First < 0 {
		// only the empty history (its extensions are the other tasks)
		d := x.depth
		x.depth = 0
		visit(nil)
		x.depth = d
		return res
	}
	first := alpha[t.First]
	out := x.evaluate(res, t.Era, nil, first)
	if out.ans.verdict == "accept" && len(out.broken) == 0 && x.depth >= 1 {
		visit([]*elem{first})
	}
	return res
}

func sortedKeys(m map[string]int) []string {
	var k []string
	for s := range m {
		k = append(k, s)
	}
	sort.Strings(k)
	return k
}
