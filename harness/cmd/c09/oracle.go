package main

// oracle.go — the INDEPENDENT predicate. It is written from the sentence of property C09 and
// shares no code with message/validation: it decodes the raw pubsub bytes with the ssv-spec codecs,
// verifies the envelope with crypto/rsa against its own operator table, computes topic, leader,
// windows and hashes itself, and keeps its own per-(validator, role, signer) record of what the
// validator accepted before.
//
//   "A pubsub message is accepted only if it is for a known, active, non-liquidated validator and
//    sent on that validator's topic, carries (once signed envelopes are active) a valid signature
//    of a registered operator over exactly its payload, has signers that are sorted, distinct,
//    non-zero committee members (one signer unless it is a quorum-sized commit), comes from the
//    round leader if it is a proposal, has any attached full data matching its root, and fits the
//    slot and round windows of its role. Consensus messages must also respect the per-signer
//    limits: no going back in slot or round, one proposal, prepare, commit and round-change per
//    signer per round, and no second proposal with different data."
//
// The oracle is used one way only: Accept => no clause broken.

import (
	"bytes"
	"crypto"
	"crypto/rsa"
	"crypto/sha256"
	"encoding/binary"
	"encoding/hex"
	"fmt"
	"sort"
	"strconv"
	"strings"
	"time"

	specqbft "github.com/bloxapp/ssv-spec/qbft"
	spectypes "github.com/bloxapp/ssv-spec/types"
)

// ---- what the oracle knows about the world (its own tables) ----

type oValidator struct {
	liquidated bool
	hasMeta    bool
	attesting  bool   // beacon status is one of the attesting states
	pending    bool   // pending_queued
	activation uint64 // activation epoch (for pending)
}

type oWorld struct {
	validators map[string]oValidator // hex(pubkey) -> registry facts; absent = unknown
	committee  []uint64              // operator ids of the validator's committee, in share order
	quorum     int
	registered map[uint64]*rsa.PublicKey
	forkEpoch  uint64 // envelopes are active in epochs strictly after this one
	genesis    int64  // unix seconds
}

const (
	oSlotSeconds   = 12
	oSlotsPerEpoch = 32
	// windows (the sentence says "the slot and round windows of its role" without numbers; these
	// are the protocol's: a duty's messages live for 32+2 slots (attestation-like duties) or 1+2
	// slots (block / sync-committee duties); rounds last 2 s up to round 8 and 2 min afterwards,
	// one round ahead of the local estimate is tolerated; 12 resp. 6 rounds fit into the window)
	oClockTolerance = 50 * time.Millisecond
	oQuickRound     = 2 * time.Second
	oSlowRound      = 2 * time.Minute
	oQuickRounds    = 8
)

func oTTL(role spectypes.BeaconRole) (slots int64, limited bool) {
	switch role {
	case spectypes.BNRoleAttester, spectypes.BNRoleAggregator:
		return 32 + 2, true
	case spectypes.BNRoleProposer, spectypes.BNRoleSyncCommittee, spectypes.BNRoleSyncCommitteeContribution:
		return 1 + 2, true
	}
	return 0, false // registration / exit: no duty slot to be late for
}

func oMaxRound(role spectypes.BeaconRole) uint64 {
	switch role {
	case spectypes.BNRoleAttester, spectypes.BNRoleAggregator:
		return 12
	}
	return 6
}

func newOracleWorld(w *world, e era) *oWorld {
	o := &oWorld{validators: map[string]oValidator{}, committee: []uint64{1, 2, 3, 4}, quorum: 3,
		registered: map[uint64]*rsa.PublicKey{}, forkEpoch: uint64(e.forkEpoch), genesis: 1616508000 /* Prater */}
	cur := uint64(w.s0) / oSlotsPerEpoch
	hx := func(k int) string { return hex.EncodeToString(w.valPK[k]) }
	o.validators[hx(vMain)] = oValidator{hasMeta: true, attesting: true}
	o.validators[hx(vLiq)] = oValidator{hasMeta: true, attesting: true, liquidated: true}
	o.validators[hx(vNoMeta)] = oValidator{}
	o.validators[hx(vExited)] = oValidator{hasMeta: true}
	o.validators[hx(vPending)] = oValidator{hasMeta: true, pending: true, activation: cur + 100}
	o.validators[hx(vPendingOK)] = oValidator{hasMeta: true, pending: true, activation: cur - 100}
	for id := uint64(1); id <= nOps; id++ {
		o.registered[id] = &w.rsaKeys[id].PublicKey
	}
	return o
}

func (o *oWorld) slotAt(t time.Time) int64 {
	d := t.Unix() - o.genesis
	if d < 0 {
		return 0
	}
	return d / oSlotSeconds
}

func (o *oWorld) slotStart(slot uint64) time.Time {
	return time.Unix(o.genesis+int64(slot)*oSlotSeconds, 0)
}

func (o *oWorld) envelopesActive(t time.Time) bool {
	return uint64(o.slotAt(t))/oSlotsPerEpoch > o.forkEpoch
}

// ---- decoding (ssv-spec codecs only) ----

type facts struct {
	malformed string
	// envelope
	enveloped bool
	envOp     uint64
	envSigOK  map[uint64]bool // operator id -> signature verifies under that registered key
	// message
	valPK   []byte
	role    spectypes.BeaconRole
	partial bool
	slot    uint64
	// consensus
	typ      specqbft.MessageType
	round    uint64
	signers  []uint64
	root     [32]byte
	fullData []byte
	// partial signature
	psType spectypes.PartialSigMsgType
	inner  []uint64
}

func (o *oWorld) decode(data []byte, enveloped bool) *facts {
	f := &facts{enveloped: enveloped}
	payload := data
	if enveloped {
		if len(data) < 256+8 {
			f.malformed = "envelope too short"
			return f
		}
		sig := data[:256]
		f.envOp = binary.LittleEndian.Uint64(data[256:264])
		payload = data[264:]
		f.envSigOK = map[uint64]bool{}
		if pk, ok := o.registered[f.envOp]; ok {
			h := sha256.Sum256(payload)
			f.envSigOK[f.envOp] = rsa.VerifyPKCS1v15(pk, crypto.SHA256, h[:], sig) == nil
		}
	}
	var m spectypes.SSVMessage
	if err := m.Decode(payload); err != nil {
		f.malformed = "ssv message: " + err.Error()
		return f
	}
	id := m.GetID()
	f.valPK = append([]byte{}, id.GetPubKey()...)
	f.role = id.GetRoleType()
	switch m.MsgType {
	case spectypes.SSVConsensusMsgType:
		var sm specqbft.SignedMessage
		if err := sm.Decode(m.Data); err != nil {
			f.malformed = "signed message: " + err.Error()
			return f
		}
		f.typ = sm.Message.MsgType
		f.slot = uint64(sm.Message.Height)
		f.round = uint64(sm.Message.Round)
		f.signers = append([]uint64{}, sm.Signers...)
		f.root = sm.Message.Root
		f.fullData = sm.FullData
	case spectypes.SSVPartialSignatureMsgType:
		var pm spectypes.SignedPartialSignatureMessage
		if err := pm.Decode(m.Data); err != nil {
			f.malformed = "partial signature message: " + err.Error()
			return f
		}
		f.partial = true
		f.psType = pm.Message.Type
		f.slot = uint64(pm.Message.Slot)
		f.signers = []uint64{pm.Signer}
		for _, in := range pm.Message.Messages {
			f.inner = append(f.inner, in.Signer)
		}
	default:
		f.malformed = "message type " + strconv.FormatUint(uint64(m.MsgType), 10)
	}
	return f
}

// ---- the record of accepted messages ----

type signerKey struct {
	pk     string
	role   spectypes.BeaconRole
	signer uint64
}

type signerRec struct {
	slot, round uint64
	seen        [4]bool // single-signer proposal / prepare / commit / round-change accepted in (slot, round)
	proposal    []byte  // full data of the accepted proposal of (slot, round)
}

type record map[signerKey]*signerRec

func (r record) accepted(f *facts) {
	if f.partial || f.malformed != "" {
		return
	}
	for _, s := range f.signers {
		k := signerKey{hex.EncodeToString(f.valPK), f.role, s}
		rec := r[k]
		if rec == nil {
			rec = &signerRec{slot: f.slot, round: f.round}
			r[k] = rec
		} else if f.slot > rec.slot || (f.slot == rec.slot && f.round > rec.round) {
			*rec = signerRec{slot: f.slot, round: f.round}
		}
		if len(f.signers) == 1 && f.slot == rec.slot && f.round == rec.round && int(f.typ) < 4 {
			rec.seen[f.typ] = true
			if f.typ == specqbft.ProposalMsgType {
				rec.proposal = f.fullData
			}
		}
	}
}

// ---- the predicate ----

var typeWord = [...]string{"proposal", "prepare", "commit", "round-change"}

// broken returns the clauses of the property that the message (topic, data) received at instant
// `at` breaks, given the record of earlier accepted messages. Empty = acceptable.
func (o *oWorld) broken(topic string, f *facts, at time.Time, rec record) []string {
	set := map[string]bool{}
	if f.malformed != "" {
		return []string{"malformed"}
	}
	// known, active, non-liquidated validator
	v, known := o.validators[hex.EncodeToString(f.valPK)]
	switch {
	case !known:
		set["validator-unknown"] = true
	case v.liquidated:
		set["validator-liquidated"] = true
	case !v.hasMeta, !(v.attesting || (v.pending && v.activation <= uint64(o.slotAt(at))/oSlotsPerEpoch)):
		set["validator-not-active"] = true
	}
	// that validator's topic: subnet = first 40 bits of the public key mod 128
	if len(f.valPK) >= 5 {
		var x uint64
		for _, b := range f.valPK[:5] {
			x = x<<8 | uint64(b)
		}
		if topic != fmt.Sprintf("ssv.v2.%d", x%128) {
			set["wrong-topic"] = true
		}
	} else {
		set["wrong-topic"] = true
	}
	// envelope
	if f.enveloped {
		if _, reg := o.registered[f.envOp]; !reg {
			set["envelope-operator-unregistered"] = true
		} else if !f.envSigOK[f.envOp] {
			set["envelope-signature-invalid"] = true
		}
	}
	// signers
	all := append(append([]uint64{}, f.signers...), f.inner...)
	inCommittee := func(s uint64) bool {
		for _, c := range o.committee {
			if c == s {
				return true
			}
		}
		return false
	}
	if len(f.signers) == 0 {
		set["signers-none"] = true
	}
	for _, s := range all {
		if s == 0 {
			set["signer-zero"] = true
		} else if !inCommittee(s) {
			set["signer-not-in-committee"] = true
		}
	}
	if !f.partial {
		for i := 1; i < len(f.signers); i++ {
			if f.signers[i] < f.signers[i-1] {
				set["signers-unsorted"] = true
			}
			for j := 0; j < i; j++ {
				if f.signers[j] == f.signers[i] {
					set["signers-duplicate"] = true
				}
			}
		}
		if n := len(f.signers); n > 1 && !(f.typ == specqbft.CommitMsgType && n >= o.quorum && n <= len(o.committee)) {
			set["signer-count"] = true
		}
		// leader of (height, round): round-robin over the committee starting at height
		if f.typ == specqbft.ProposalMsgType && len(f.signers) == 1 && f.round >= 1 {
			leader := o.committee[(f.slot+f.round-1)%uint64(len(o.committee))]
			if f.signers[0] != leader {
				set["not-leader"] = true
			}
		}
		// attached full data matches the root
		if len(f.fullData) != 0 && sha256.Sum256(f.fullData) != f.root {
			set["fulldata-root-mismatch"] = true
		}
	}
	// slot window of the role
	cur := o.slotAt(at)
	if o.slotStart(f.slot).Add(-oClockTolerance).After(at) {
		set["slot-early"] = true
	}
	if ttl, limited := oTTL(f.role); limited && cur > int64(f.slot)+ttl {
		set["slot-late"] = true
	}
	if !f.partial {
		// round window of the role
		if f.round < 1 {
			set["round-below-first"] = true
		}
		if f.round > oMaxRound(f.role) {
			set["round-above-role-max"] = true
		}
		est := uint64(1)
		if since := at.Sub(o.slotStart(f.slot)); since > 0 {
			if q := uint64(since / oQuickRound); q < oQuickRounds {
				est = 1 + q
			} else {
				est = oQuickRounds + 1 + uint64((since-oQuickRounds*oQuickRound)/oSlowRound)
			}
		}
		if f.round > est+1 {
			set["round-too-far-ahead"] = true
		}
		// per-signer limits
		for _, s := range f.signers {
			r := rec[signerKey{hex.EncodeToString(f.valPK), f.role, s}]
			if r == nil {
				continue
			}
			switch {
			case f.slot < r.slot:
				set["slot-regression"] = true
			case f.slot == r.slot && f.round < r.round:
				set["round-regression"] = true
			case f.slot == r.slot && f.round == r.round && len(f.signers) == 1 && int(f.typ) < 4 && r.seen[f.typ]:
				set["second-"+typeWord[f.typ]+"-in-round"] = true
				if f.typ == specqbft.ProposalMsgType && !bytes.Equal(r.proposal, f.fullData) {
					set["second-proposal-different-data"] = true
				}
			}
		}
	}
	var out []string
	for k := range set {
		out = append(out, k)
	}
	sort.Strings(out)
	return out
}

func brokenKey(b []string) string {
	if len(b) == 0 {
		return "-"
	}
	return strings.Join(b, "+")
}
