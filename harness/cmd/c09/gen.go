package main

// gen.go — the alphabet: honest messages H (real BLS share keys, real RSA operator keys) and the
// rule-breaking mutations μ(H). A mutation rebuilds the message from its specification and
// re-signs (BLS and RSA) so that the mutant differs from an acceptable message in ONE clause only.

import (
	"crypto"
	"crypto/rsa"
	"crypto/sha256"
	"encoding/binary"
	"encoding/hex"
	"fmt"
	"strconv"
	"time"

	"github.com/attestantio/go-eth2-client/spec/phase0"
	specqbft "github.com/bloxapp/ssv-spec/qbft"
	spectypes "github.com/bloxapp/ssv-spec/types"
	"github.com/bloxapp/ssv-spec/types/testingutils"
	"github.com/herumi/bls-eth-go-binary/bls"

	"verifharness/lib/ev"
)

type opid = spectypes.OperatorID

const (
	envNormal     = iota
	envBitflip    // one bit of the RSA signature flipped
	envNoEnvelope // plain payload although envelopes are active
	envForce      // envelope although envelopes are not active yet
)

// mspec is the structured description a message is built from.
type mspec struct {
	name  string
	class string // "honest" | "honest-alt" | "edge-ok" | mutation class
	base  string
	// expectations from the EMPTY history at the element's own instant (generator self-check):
	wantBroken string // the one clause of the property this mutant breaks ("" = none)
	wantReason string // the validator's error text naming that rule (informational)

	val        int
	role       spectypes.BeaconRole
	topicShift int

	envMode int
	envOp   opid   // claimed operator id (0 = the sender: first signer if registered, else 1)
	envKey  opid   // whose RSA key signs (0 = envOp)
	sigOver *mspec // RSA-sign the payload of that message instead of this one

	partial bool
	// consensus
	typ       specqbft.MessageType
	slot      phase0.Slot
	round     specqbft.Round
	signers   []opid
	value     []byte // Root = sha256(value); nil = zero root
	fullData  []byte
	dataRound specqbft.Round
	rcj, pj   []*mspec
	// partial signature
	psType spectypes.PartialSigMsgType
	inner  []opid // signer field of the inner messages (default: the outer signer)

	at time.Duration // receive instant, offset from the start of the base slot
}

// elem is one letter of the alphabet, ready to be sent.
type elem struct {
	idx    int
	name   string
	class  string
	base   string
	topic  string
	data   []byte
	at     time.Duration
	honest bool // may be used as a prefix element
	spec   *mspec
	facts  *facts // what the ORACLE decoded from topic+data (oracle.go), per era
}

type gen struct {
	w    *world
	k7   *testingutils.TestKeySet
	wide bool
}

var (
	valueA = testingutils.TestingQBFTFullData
	valueB = testingutils.DifferentFullData
)

func roleName(r spectypes.BeaconRole) string {
	switch r {
	case spectypes.BNRoleAttester:
		return "attester"
	case spectypes.BNRoleAggregator:
		return "aggregator"
	case spectypes.BNRoleProposer:
		return "proposer"
	case spectypes.BNRoleSyncCommittee:
		return "sync-committee"
	case spectypes.BNRoleSyncCommitteeContribution:
		return "sync-contribution"
	case spectypes.BNRoleValidatorRegistration:
		return "validator-registration"
	case spectypes.BNRoleVoluntaryExit:
		return "voluntary-exit"
	}
	return "role" + strconv.Itoa(int(r))
}

func hasConsensus(r spectypes.BeaconRole) bool {
	return r != spectypes.BNRoleValidatorRegistration && r != spectypes.BNRoleVoluntaryExit
}

func preType(r spectypes.BeaconRole) (spectypes.PartialSigMsgType, bool) {
	switch r {
	case spectypes.BNRoleAggregator:
		return spectypes.SelectionProofPartialSig, true
	case spectypes.BNRoleProposer:
		return spectypes.RandaoPartialSig, true
	case spectypes.BNRoleSyncCommitteeContribution:
		return spectypes.ContributionProofs, true
	case spectypes.BNRoleValidatorRegistration:
		return spectypes.ValidatorRegistrationPartialSig, true
	case spectypes.BNRoleVoluntaryExit:
		return spectypes.VoluntaryExitPartialSig, true
	}
	return 0, false
}

// role windows as used by the GENERATOR to aim its mutants (the oracle has its own table)
func genTTL(r spectypes.BeaconRole) int {
	switch r {
	case spectypes.BNRoleAttester, spectypes.BNRoleAggregator:
		return 34
	case spectypes.BNRoleProposer, spectypes.BNRoleSyncCommittee, spectypes.BNRoleSyncCommitteeContribution:
		return 3
	}
	return -1
}

func genMaxRound(r spectypes.BeaconRole) specqbft.Round {
	switch r {
	case spectypes.BNRoleAttester, spectypes.BNRoleAggregator:
		return 12
	}
	return 6
}

// first instant at which the estimated round is r (2 s rounds up to 8, then 2 min rounds)
func roundStart(r specqbft.Round) time.Duration {
	if r <= 8 {
		return time.Duration(r-1) * 2 * time.Second
	}
	return 16*time.Second + time.Duration(r-9)*120*time.Second
}

func (g *gen) leader(slot phase0.Slot, round specqbft.Round) opid {
	return opid((uint64(slot)+uint64(round)-1)%nOps) + 1
}

func (g *gen) slotOff(slot phase0.Slot) time.Duration {
	return time.Duration(int64(slot)-int64(g.w.s0)) * 12 * time.Second
}

func (g *gen) consAt(slot phase0.Slot, round specqbft.Round) time.Duration {
	return g.slotOff(slot) + roundStart(round) + 500*time.Millisecond
}

// ---- honest messages of one duty (validator, role, slot) ----

type duty struct {
	g    *gen
	val  int
	role spectypes.BeaconRole
	slot phase0.Slot
}

func (d duty) cons(typ specqbft.MessageType, round specqbft.Round, signers []opid, value []byte) *mspec {
	return &mspec{class: "honest", val: d.val, role: d.role, typ: typ, slot: d.slot, round: round, signers: signers, value: value,
		at: d.g.consAt(d.slot, round)}
}

func tn(t specqbft.MessageType) string {
	return [...]string{"proposal", "prepare", "commit", "round-change"}[t]
}

func ids(s []opid) string {
	out := ""
	for _, x := range s {
		out += strconv.FormatUint(x, 10)
	}
	if out == "" {
		return "none"
	}
	return out
}

func vn(v []byte) string {
	if v == nil {
		return "nil"
	}
	if string(v) == string(valueA) {
		return "A"
	}
	return "B"
}

func (d duty) prepare(round specqbft.Round, s opid, v []byte) *mspec {
	m := d.cons(specqbft.PrepareMsgType, round, []opid{s}, v)
	m.name = fmt.Sprintf("prepare.r%d.s%d.%s", round, s, vn(v))
	return m
}

func (d duty) commit(round specqbft.Round, s opid, v []byte) *mspec {
	m := d.cons(specqbft.CommitMsgType, round, []opid{s}, v)
	m.name = fmt.Sprintf("commit.r%d.s%d.%s", round, s, vn(v))
	return m
}

func (d duty) decided(round specqbft.Round, signers []opid, v []byte) *mspec {
	m := d.cons(specqbft.CommitMsgType, round, signers, v)
	m.fullData = v
	m.name = fmt.Sprintf("decided.r%d.s%s.%s", round, ids(signers), vn(v))
	m.at += 300 * time.Millisecond
	return m
}

// unprepared round change
func (d duty) rc(round specqbft.Round, s opid) *mspec {
	m := d.cons(specqbft.RoundChangeMsgType, round, []opid{s}, nil)
	m.name = fmt.Sprintf("round-change.r%d.s%d.unprepared", round, s)
	return m
}

// round change carrying a value prepared in round pr, justified by a quorum of prepares
func (d duty) rcPrepared(round specqbft.Round, s opid, pr specqbft.Round, v []byte) *mspec {
	m := d.cons(specqbft.RoundChangeMsgType, round, []opid{s}, v)
	m.fullData = v
	m.dataRound = pr
	for _, p := range []opid{1, 2, 3} {
		m.rcj = append(m.rcj, d.prepare(pr, p, v))
	}
	m.name = fmt.Sprintf("round-change.r%d.s%d.prepared-r%d", round, s, pr)
	return m
}

func (d duty) proposal(round specqbft.Round, v []byte, prepared specqbft.Round) *mspec {
	l := d.g.leader(d.slot, round)
	m := d.cons(specqbft.ProposalMsgType, round, []opid{l}, v)
	m.fullData = v
	kind := ""
	if round > 1 {
		for _, s := range []opid{1, 2, 3} {
			if prepared > 0 {
				m.rcj = append(m.rcj, d.rcPrepared(round, s, prepared, v))
			} else {
				m.rcj = append(m.rcj, d.rc(round, s))
			}
		}
		kind = ".unprepared-justified"
		if prepared > 0 {
			for _, s := range []opid{1, 2, 3} {
				m.pj = append(m.pj, d.prepare(prepared, s, v))
			}
			kind = fmt.Sprintf(".prepared-r%d-justified", prepared)
		}
	}
	m.name = fmt.Sprintf("proposal.r%d.s%d.%s%s", round, l, vn(v), kind)
	return m
}

func (d duty) partialSig(t spectypes.PartialSigMsgType, s opid) *mspec {
	m := &mspec{class: "honest", val: d.val, role: d.role, partial: true, psType: t, slot: d.slot, signers: []opid{s}}
	if t == spectypes.PostConsensusPartialSig {
		m.name = fmt.Sprintf("post-consensus.s%d", s)
		m.at = d.g.slotOff(d.slot) + 1500*time.Millisecond
	} else {
		m.name = fmt.Sprintf("pre-consensus.s%d", s)
		m.at = d.g.slotOff(d.slot) + 100*time.Millisecond
	}
	return m
}

// all honest messages of the duty (rounds 1..3)
func (d duty) all() []*mspec {
	var out []*mspec
	if pt, ok := preType(d.role); ok {
		out = append(out, d.partialSig(pt, 1))
	}
	if !hasConsensus(d.role) {
		if pt, ok := preType(d.role); ok {
			out = append(out, d.partialSig(pt, 2))
		}
		return out
	}
	alt := func(m *mspec) *mspec { m.class = "honest-alt"; return m }
	out = append(out,
		d.proposal(1, valueA, 0),
		alt(d.proposal(1, valueB, 0)), // fine on its own; a SECOND proposal with different data after the first
		d.prepare(1, 1, valueA),
		d.prepare(1, 2, valueA),
		alt(d.prepare(1, 1, valueB)),
		d.commit(1, 1, valueA),
		d.commit(1, 2, valueA),
		d.decided(1, []opid{1, 2, 3}, valueA),
		d.decided(1, []opid{1, 2, 3, 4}, valueA),
		d.rc(2, 1),
		d.rcPrepared(2, 2, 1, valueA),
		d.proposal(2, valueA, 0),
		d.proposal(2, valueA, 1),
		d.prepare(2, 1, valueA),
		d.commit(2, 1, valueA),
		d.decided(2, []opid{1, 2, 3}, valueA),
		d.rc(3, 1),
		d.rcPrepared(3, 3, 2, valueA),
		d.proposal(3, valueA, 0),
		d.prepare(3, 1, valueA),
		d.commit(3, 1, valueA),
		d.partialSig(spectypes.PostConsensusPartialSig, 1),
	)
	return out
}

func (d duty) get(name string) *mspec {
	for _, m := range d.all() {
		if m.name == name {
			return m
		}
	}
	ev.Fatal("no honest message %q for role %s", name, roleName(d.role))
	return nil
}

// ---- the alphabet of one role ----

func (g *gen) specs(role spectypes.BeaconRole, e era) (honest []*mspec, mutants []*mspec) {
	s0 := g.w.s0
	main := duty{g, vMain, role, s0}
	next := duty{g, vMain, role, s0 + 1}
	honest = main.all()
	// the next duty (slot advance): a short list
	var nextNames []string
	if hasConsensus(role) {
		nextNames = []string{"proposal.r1.s2.A", "prepare.r1.s1.A", "commit.r1.s1.A", "decided.r1.s123.A", "post-consensus.s1"}
	} else {
		nextNames = []string{"pre-consensus.s1"}
	}
	for _, n := range nextNames {
		m := next.get(n)
		m.name = "next-slot/" + m.name
		honest = append(honest, m)
	}

	// representative bases for the message-independent clauses
	var reps []string
	if hasConsensus(role) {
		reps = []string{"proposal.r1.s1.A", "prepare.r1.s1.A", "decided.r1.s123.A", "round-change.r2.s2.prepared-r1", "post-consensus.s1"}
	}
	if _, ok := preType(role); ok {
		reps = append(reps, "pre-consensus.s1")
	}
	if g.wide {
		reps = nil
		for _, m := range main.all() {
			reps = append(reps, m.name)
		}
	}
	add := func(m *mspec, class, tag, wantBroken, wantReason string) *mspec {
		m.base = m.name
		m.class = class
		m.name = class + "/" + tag + m.base
		m.wantBroken, m.wantReason = wantBroken, wantReason
		mutants = append(mutants, m)
		return m
	}

	// -- validator clauses
	for _, v := range []struct {
		kind           int
		class, br, rsn string
	}{
		{vUnknown, "val-unknown", "validator-unknown", "unknown validator"},
		{vLiq, "val-liquidated", "validator-liquidated", "validator is liquidated"},
		{vNoMeta, "val-no-metadata", "validator-not-active", "share has no metadata"},
		{vExited, "val-exited", "validator-not-active", "validator is not attesting"},
		{vPending, "val-pending-future", "validator-not-active", "validator is not attesting"},
		{vPendingOK, "edge-ok", "", ""},
	} {
		d := duty{g, v.kind, role, s0}
		for _, n := range reps {
			tag := ""
			if v.class == "edge-ok" {
				tag = "val-pending-activated:"
			}
			add(d.get(n), v.class, tag, v.br, v.rsn)
		}
	}
	// -- topic
	for i, n := range reps {
		m := add(main.get(n), "topic-wrong-subnet", "", "wrong-topic", "topic not found")
		m.topicShift = 1
		if i == 0 {
			// every other advertised topic, for one representative message (a topic whose number merely
			// ends in the digits of the validator's subnet is among them for subnets 0..27)
			for shift := 2; shift < 128; shift++ {
				m := add(main.get(n), fmt.Sprintf("topic-wrong-subnet+%d", shift), "", "wrong-topic", "topic not found")
				m.topicShift = shift
			}
		}
	}
	// -- envelope
	var envReps []string
	if hasConsensus(role) {
		envReps = []string{"proposal.r1.s1.A", "prepare.r1.s1.A", "post-consensus.s1"}
	} else {
		envReps = []string{"pre-consensus.s1"}
	}
	if g.wide {
		envReps = reps
	}
	if e.signed {
		for _, n := range envReps {
			add(main.get(n), "rsa-sig-bitflip", "", "envelope-signature-invalid", "signature verification").envMode = envBitflip
			m := add(main.get(n), "rsa-payload-swapped", "", "envelope-signature-invalid", "signature verification")
			cands := []string{"commit.r1.s2.A", "commit.r1.s1.A"}
			if !hasConsensus(role) {
				cands = []string{"pre-consensus.s2", "pre-consensus.s1"}
			}
			other := cands[0]
			if n == other {
				other = cands[1]
			}
			m.sigOver = main.get(other)
			m = add(main.get(n), "rsa-unregistered-operator", "", "envelope-operator-unregistered", "operator not found")
			m.envOp = unregisteredOp
			m = add(main.get(n), "rsa-wrong-key", "", "envelope-signature-invalid", "signature verification")
			m.envOp, m.envKey = 1, 2
			add(main.get(n), "rsa-missing-envelope", "", "malformed", "pub-sub message is malformed").envMode = envNoEnvelope
			m = add(main.get(n), "edge-ok", "rsa-other-registered-operator:", "", "")
			m.envOp = 3
		}
	} else {
		for _, n := range envReps {
			add(main.get(n), "envelope-before-fork", "", "malformed", "pub-sub message is malformed").envMode = envForce
		}
	}

	// -- partial-signature signer clauses
	var psNames []string
	if hasConsensus(role) {
		psNames = append(psNames, "post-consensus.s1")
	}
	if _, ok := preType(role); ok {
		psNames = append(psNames, "pre-consensus.s1")
	}
	for _, n := range psNames {
		m := add(main.get(n), "partial-signer-zero", "", "signer-zero", "zero signer ID")
		m.signers = []opid{0}
		m = add(main.get(n), "partial-signer-foreign", "", "signer-not-in-committee", "signer is not in committee")
		m.signers = []opid{5}
		m = add(main.get(n), "partial-inner-signer-foreign", "", "signer-not-in-committee", "signer is not expected")
		m.inner = []opid{5}
		m = add(main.get(n), "partial-inner-signer-zero", "", "signer-zero", "signer is not expected")
		m.inner = []opid{0}
	}

	// -- slot window (all message kinds)
	ttl := genTTL(role)
	var winReps []string
	if hasConsensus(role) {
		winReps = []string{"proposal.r1.s%d.A", "prepare.r1.s1.A", "decided.r1.s123.A", "post-consensus.s1"}
	}
	if _, ok := preType(role); ok {
		winReps = append(winReps, "pre-consensus.s1")
	}
	atSlot := func(slot phase0.Slot, n string) *mspec {
		if n == "proposal.r1.s%d.A" {
			n = fmt.Sprintf(n, g.leader(slot, 1))
		}
		return duty{g, vMain, role, slot}.get(n)
	}
	for _, n := range winReps {
		m := atSlot(s0+1, n)
		m.at -= 12 * time.Second // arrives one slot before its own
		add(m, "slot-early", "", "slot-early", "early message")
		if ttl >= 0 {
			m = atSlot(s0-phase0.Slot(ttl+1), n)
			m.at += time.Duration(ttl+1) * 12 * time.Second
			add(m, "slot-late", "old-slot:", "slot-late", "late message")
			m = atSlot(s0, n)
			m.at = time.Duration(ttl+1)*12*time.Second + time.Second
			add(m, "slot-late", "late-arrival:", "slot-late", "late message")
			// last slot in which the message is still in its window
			m = atSlot(s0-phase0.Slot(ttl), n)
			m.at += time.Duration(ttl) * 12 * time.Second
			add(m, "edge-ok", "slot-last-valid:", "", "")
		}
	}

	if !hasConsensus(role) {
		return honest, mutants
	}

	// -- consensus signer clauses
	dec := "decided.r1.s123.A"
	for _, s := range [][]opid{{2, 1, 3}, {1, 3, 2}, {1, 2, 4, 3}} {
		add(main.get(dec), "signers-unsorted", ids(s)+":", "signers-unsorted", "signers are not sorted").signers = s
	}
	for _, s := range [][]opid{{1, 2, 2}, {1, 1, 2}, {1, 2, 3, 3}} {
		add(main.get(dec), "signers-duplicate", ids(s)+":", "signers-duplicate", "signer is duplicated").signers = s
	}
	singles := []string{"prepare.r1.s1.A", "commit.r1.s1.A", "round-change.r2.s1.unprepared"}
	for _, n := range singles {
		add(main.get(n), "signer-zero", "", "signer-zero", "zero signer ID").signers = []opid{0}
		add(main.get(n), "signer-foreign", "", "signer-not-in-committee", "signer is not in committee").signers = []opid{5}
		add(main.get(n), "no-signers", "", "signers-none", "no signers").signers = []opid{}
	}
	add(main.get(dec), "signer-zero", "012:", "signer-zero", "zero signer ID").signers = []opid{0, 1, 2}
	add(main.get(dec), "signer-foreign", "125:", "signer-not-in-committee", "signer is not in committee").signers = []opid{1, 2, 5}
	add(main.get(dec), "signer-foreign", "2345:", "signer-not-in-committee", "signer is not in committee").signers = []opid{2, 3, 4, 5}
	for _, c := range []struct {
		n string
		s []opid
	}{
		{"prepare.r1.s1.A", []opid{1, 2}}, {"prepare.r1.s1.A", []opid{1, 2, 3}}, {"proposal.r1.s1.A", []opid{1, 2, 3}},
		{"round-change.r2.s1.unprepared", []opid{1, 2, 3}}, {"round-change.r2.s2.prepared-r1", []opid{2, 3, 4}},
	} {
		add(main.get(c.n), "multi-signer-non-commit", ids(c.s)+":", "signer-count", "non-decided with multiple signers").signers = c.s
	}
	add(main.get(dec), "decided-sub-quorum", "12:", "signer-count", "decided signers size is not between quorum and committee size").signers = []opid{1, 2}
	add(main.get("commit.r1.s1.A"), "decided-sub-quorum", "12:", "signer-count", "decided signers size is not between quorum and committee size").signers = []opid{1, 2}
	add(main.get("decided.r1.s1234.A"), "decided-over-committee-size", "12345:", "signer-count+signer-not-in-committee", "decided signers size is not between quorum and committee size").signers = []opid{1, 2, 3, 4, 5}

	// -- leader
	for _, c := range []struct {
		n  string
		by opid
	}{
		{"proposal.r1.s1.A", 2}, {"proposal.r1.s1.A", 3}, {"proposal.r1.s1.A", 4},
		{"proposal.r2.s2.A.unprepared-justified", 1}, {"proposal.r2.s2.A.prepared-r1-justified", 3}, {"proposal.r3.s3.A.unprepared-justified", 1},
	} {
		add(main.get(c.n), "proposal-non-leader", fmt.Sprintf("by%d:", c.by), "not-leader", "signer is not leader").signers = []opid{c.by}
	}

	// -- full data vs root
	for _, n := range []string{"proposal.r1.s1.A", "proposal.r2.s2.A.prepared-r1-justified", "round-change.r2.s2.prepared-r1", dec, "decided.r1.s1234.A"} {
		add(main.get(n), "fulldata-root-mismatch", "", "fulldata-root-mismatch", "root doesn't match full data hash").fullData = valueB
	}
	for _, n := range []string{"prepare.r1.s1.A", "commit.r1.s1.A"} {
		// full data attached to a message type that normally carries none, not matching the root
		add(main.get(n), "fulldata-root-mismatch-on-prepare-commit", "", "fulldata-root-mismatch", "root doesn't match full data hash").fullData = valueB
		add(main.get(n), "edge-ok", "fulldata-attached-matching:", "", "").fullData = valueA
	}

	// -- round window
	maxR := genMaxRound(role)
	{
		d := main
		hi := []*mspec{d.prepare(maxR+1, 1, valueA), d.commit(maxR+1, 1, valueA), d.rc(maxR+1, 1), d.proposal(maxR+1, valueA, 0)}
		for _, m := range hi {
			// arrive while the estimated round is maxR, so that round maxR+1 is "one ahead" (allowed
			// by the estimate) and only the role's maximum is exceeded
			m.at = roundStart(maxR) + 500*time.Millisecond
			add(m, "round-above-role-max", "", "round-above-role-max", "round is too high for this role")
		}
		ok := d.prepare(maxR, 1, valueA)
		ok.at = roundStart(maxR) + 500*time.Millisecond
		add(ok, "edge-ok", "round-role-max:", "", "")
	}
	for _, n := range []string{"prepare.r3.s1.A", "round-change.r3.s1.unprepared", "proposal.r3.s3.A.unprepared-justified"} {
		m := main.get(n)
		m.at = 500 * time.Millisecond // estimated round 1: rounds 1 and 2 are allowed
		add(m, "round-too-far-ahead", "", "round-too-far-ahead", "message round is too far from estimated")
	}
	// the same clause at both edges of every estimated-round window of the role (2 s rounds, then
	// 2 min rounds): a prepare two rounds ahead of the estimate must be refused, one round ahead is fine
	for e := specqbft.Round(1); e+2 <= maxR; e++ {
		for _, edge := range []struct {
			name string
			at   time.Duration
		}{{"start", roundStart(e) + time.Millisecond}, {"end", roundStart(e+1) - time.Millisecond}} {
			far := main.prepare(e+2, 1, valueA)
			far.at = edge.at
			add(far, fmt.Sprintf("round-too-far-ahead@est%d-%s", e, edge.name), "", "round-too-far-ahead", "message round is too far from estimated")
			ok := main.prepare(e+1, 1, valueA)
			ok.at = edge.at
			add(ok, "edge-ok", fmt.Sprintf("round-one-ahead@est%d-%s:", e, edge.name), "", "")
		}
	}
	{
		m := main.get("prepare.r2.s1.A")
		m.at = 500 * time.Millisecond
		add(m, "edge-ok", "round-one-ahead:", "", "")
		// round 0 (below the first round). A round-0 proposal used to crash the leader computation
		// (C08's finding, repaired in /repo d6559b644: answered "signer is not leader" now); a crash
		// would be recorded as outcome "panic", never as an accept.
		for _, z := range []*mspec{main.prepare(0, 1, valueA), main.commit(0, 1, valueA), main.proposal(0, valueA, 0)} {
			z.at = 500 * time.Millisecond
			add(z, "round-zero", "", "round-below-first", "message round is too far from estimated")
		}
	}
	return honest, mutants
}

// ---- building the bytes ----

func (g *gen) blsKey(id opid) *bls.SecretKey {
	if k, ok := g.w.ks.Shares[id]; ok {
		return k
	}
	if k, ok := g.k7.Shares[id]; ok {
		return k // a real key of somebody who is not in this committee
	}
	return g.w.ks.Shares[1]
}

func (g *gen) msgID(sp *mspec) spectypes.MessageID {
	return spectypes.NewMsgID(g.w.domain, g.w.valPK[sp.val], sp.role)
}

func (g *gen) signedQBFT(sp *mspec) *specqbft.SignedMessage {
	id := g.msgID(sp)
	msg := &specqbft.Message{MsgType: sp.typ, Height: specqbft.Height(sp.slot), Round: sp.round, Identifier: id[:], DataRound: sp.dataRound}
	if sp.value != nil {
		msg.Root = sha256.Sum256(sp.value)
	}
	just := func(l []*mspec) [][]byte {
		if len(l) == 0 {
			return nil
		}
		var ms []*specqbft.SignedMessage
		for _, j := range l {
			ms = append(ms, g.signedQBFT(j))
		}
		b, err := specqbft.MarshalJustifications(ms)
		if err != nil {
			ev.Fatal("justifications: %v", err)
		}
		return b
	}
	msg.RoundChangeJustification = just(sp.rcj)
	msg.PrepareJustification = just(sp.pj)
	root, err := spectypes.ComputeSigningRoot(msg, spectypes.ComputeSignatureDomain(g.w.domain, spectypes.QBFTSignatureType))
	if err != nil {
		ev.Fatal("signing root: %v", err)
	}
	by := sp.signers
	if len(by) == 0 {
		by = []opid{1}
	}
	var agg *bls.Sign
	for _, s := range by {
		sig := g.blsKey(s).SignByte(root[:])
		if agg == nil {
			agg = sig
		} else {
			agg.Add(sig)
		}
	}
	return &specqbft.SignedMessage{Signature: agg.Serialize(), Signers: append([]opid{}, sp.signers...), Message: *msg, FullData: sp.fullData}
}

func (g *gen) signedPartial(sp *mspec) *spectypes.SignedPartialSignatureMessage {
	signer := sp.signers[0]
	inner := sp.inner
	if inner == nil {
		inner = []opid{signer}
	}
	key := g.blsKey(signer)
	msgs := spectypes.PartialSignatureMessages{Type: sp.psType, Slot: sp.slot}
	for i, is := range inner {
		// a real partial signature of the share key over a (synthetic, per duty) beacon signing root
		var seed [48]byte
		binary.LittleEndian.PutUint64(seed[0:], uint64(sp.slot))
		binary.LittleEndian.PutUint64(seed[8:], uint64(sp.role))
		binary.LittleEndian.PutUint64(seed[16:], uint64(sp.psType))
		binary.LittleEndian.PutUint64(seed[24:], uint64(i))
		r := sha256.Sum256(seed[:])
		msgs.Messages = append(msgs.Messages, &spectypes.PartialSignatureMessage{
			PartialSignature: key.SignByte(r[:]).Serialize(), SigningRoot: r, Signer: is})
	}
	root, err := spectypes.ComputeSigningRoot(msgs, spectypes.ComputeSignatureDomain(g.w.domain, spectypes.PartialSignatureType))
	if err != nil {
		ev.Fatal("signing root: %v", err)
	}
	return &spectypes.SignedPartialSignatureMessage{Message: msgs, Signature: key.SignByte(root[:]).Serialize(), Signer: signer}
}

// payload = encoded SSVMessage
func (g *gen) payload(sp *mspec) []byte {
	var data []byte
	var err error
	mt := spectypes.SSVConsensusMsgType
	if sp.partial {
		mt = spectypes.SSVPartialSignatureMsgType
		data, err = g.signedPartial(sp).Encode()
	} else {
		data, err = g.signedQBFT(sp).Encode()
	}
	if err != nil {
		ev.Fatal("encode %s: %v", sp.name, err)
	}
	b, err := (&spectypes.SSVMessage{MsgType: mt, MsgID: g.msgID(sp), Data: data}).Encode()
	if err != nil {
		ev.Fatal("encode ssv message %s: %v", sp.name, err)
	}
	return b
}

func subnetOf(pk []byte) uint64 {
	v, err := strconv.ParseUint(hex.EncodeToString(pk)[:10], 16, 64)
	if err != nil {
		ev.Fatal("subnet: %v", err)
	}
	return v % 128
}

func (g *gen) build(sp *mspec, e era) *elem {
	p := g.payload(sp)
	data := p
	enveloped := (e.signed && sp.envMode != envNoEnvelope) || sp.envMode == envForce
	if enveloped {
		op := sp.envOp
		if op == 0 {
			op = 1
			if len(sp.signers) > 0 && sp.signers[0] >= 1 && sp.signers[0] <= nOps {
				op = sp.signers[0]
			}
		}
		keyOf := sp.envKey
		if keyOf == 0 {
			keyOf = op
		}
		over := p
		if sp.sigOver != nil {
			over = g.payload(sp.sigOver)
		}
		h := sha256.Sum256(over)
		sig, err := rsa.SignPKCS1v15(nil, g.w.rsaKeys[keyOf], crypto.SHA256, h[:])
		if err != nil || len(sig) != 256 {
			ev.Fatal("rsa sign: %v", err)
		}
		if sp.envMode == envBitflip {
			sig[100] ^= 0x04
		}
		data = make([]byte, 0, 264+len(p))
		data = append(data, sig...)
		var le [8]byte
		binary.LittleEndian.PutUint64(le[:], op)
		data = append(data, le[:]...)
		data = append(data, p...)
	}
	topic := fmt.Sprintf("ssv.v2.%d", (subnetOf(g.w.valPK[sp.val])+uint64(sp.topicShift))%128)
	return &elem{name: sp.name, class: sp.class, base: sp.base, topic: topic, data: data, at: sp.at,
		honest: sp.class == "honest" || sp.class == "honest-alt", spec: sp}
}

// alphabet of one (role, era): honest elements first (they are the prefix alphabet), then mutants
func (g *gen) alphabet(role spectypes.BeaconRole, e era) []*elem {
	h, m := g.specs(role, e)
	var out []*elem
	seen := map[string]bool{}
	for _, sp := range append(h, m...) {
		if seen[sp.name] {
			ev.Fatal("duplicate element name %s", sp.name)
		}
		seen[sp.name] = true
		el := g.build(sp, e)
		el.idx = len(out)
		out = append(out, el)
	}
	return out
}
