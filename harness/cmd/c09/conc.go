package main

import "verifharness/lib/ev"

// Concurrent half of C09 (E2: 2–3 goroutines validating on one messageValidator under the
// cooperative scheduler; oracle = the multiset of results equals that of some sequential order).
// Added once the scheduler exists. It can reuse world.go (newWorld, newValidator), gen.go
// (alphabet) and oracle.go unchanged.
func conc(r *ev.Run, exhaustive *bool) {}

func replayConc(r *ev.Run, v ev.Violation) { ev.Fatal("no concurrent replay yet") }
