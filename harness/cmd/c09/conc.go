package main

// Concurrent half of C09: 2-3 goroutines validate messages through one real validator whose
// package (message/validation) is built with sync -> vsync, so every mutex / sync.Map operation
// is a scheduling point. Every interleaving with <= B preemptions is executed; the multiset of
// verdicts must equal that of SOME sequential order on a fresh validator, i.e. the per-message-id
// lock makes read-check-update atomic.

import (
	"fmt"
	"sort"
	"strings"
	"time"

	spectypes "github.com/bloxapp/ssv-spec/types"

	"github.com/bloxapp/ssv/zzverif/vsched"

	"verifharness/lib/dfs"
	"verifharness/lib/ev"
)

type concScenario struct {
	name  string
	elems []string
}

var concScenarios = []concScenario{
	{"same prepare twice", []string{"prepare.r1.s1.A", "prepare.r1.s1.A"}},
	{"same prepare three times", []string{"prepare.r1.s1.A", "prepare.r1.s1.A", "prepare.r1.s1.A"}},
	{"two proposals with different data", []string{"proposal.r1.s1.A", "proposal.r1.s1.B"}},
	{"prepare and commit of one signer + duplicate prepare", []string{"prepare.r1.s1.A", "commit.r1.s1.A", "prepare.r1.s1.A"}},
	{"round 1 and round 2 of one signer", []string{"prepare.r1.s1.A", "prepare.r2.s1.A"}},
	{"two signers of one validator", []string{"prepare.r1.s1.A", "prepare.r1.s2.A", "prepare.r1.s1.A"}},
	{"decided twice", []string{"decided.r1.s123.A", "decided.r1.s123.A"}},
	{"prepare A and prepare B of one signer", []string{"prepare.r1.s1.A", "prepare.r1.s1.B"}},
	{"partial signature twice", []string{"post-consensus.s1", "post-consensus.s1"}},
	{"round-change and proposal of the leader", []string{"round-change.r2.s1.unprepared", "proposal.r2.s2.A.unprepared-justified", "round-change.r2.s1.unprepared"}},
}

func (c concScenario) pick(alpha []*elem) []*elem {
	var out []*elem
	for _, n := range c.elems {
		var found *elem
		for _, e := range alpha {
			if e.name == n {
				found = e
			}
		}
		if found == nil {
			return nil
		}
		out = append(out, found)
	}
	return out
}

func multiset(v []string) string {
	s := append([]string(nil), v...)
	sort.Strings(s)
	return strings.Join(s, " | ")
}

func permutations(n int) [][]int {
	if n == 1 {
		return [][]int{{0}}
	}
	var out [][]int
	for _, p := range permutations(n - 1) {
		for pos := 0; pos <= len(p); pos++ {
			q := append(append(append([]int{}, p[:pos]...), n-1), p[pos:]...)
			out = append(out, q)
		}
	}
	return out
}

func conc(r *ev.Run, exhaustive *bool) {
	bound := 2
	if r.Thorough() {
		bound = 3
	}
	w := newWorld()
	g := &gen{w: w, k7: testing7()}
	schedules, scenarios, maxPoints := 0, 0, 0
	outcomes := map[string]int{}
	for ei, e := range w.eras() {
		alpha := g.alphabet(spectypes.BNRoleAttester, e)
		for si, sc := range concScenarios {
			els := sc.pick(alpha)
			if els == nil {
				ev.Fatal("concurrent scenario %q: message not in the alphabet", sc.name)
			}
			at := time.Duration(0)
			for _, el := range els {
				if el.at > at {
					at = el.at
				}
			}
			instant := w.slotStart(w.s0).Add(at)
			// reference: verdict multisets of all sequential orders, each on a fresh validator
			allowed := map[string][]int{}
			for _, p := range permutations(len(els)) {
				s := w.newValidator(e)
				res := make([]string, len(els))
				for _, i := range p {
					res[i] = els[i].name + "=>" + s.validate(els[i].topic, els[i].data, instant).verdict
				}
				allowed[multiset(res)] = p
			}
			var got []string
			var s *sut
			ex := &dfs.Explorer{Bound: bound, Stop: r.Expired,
				Body: func() {
					s = w.newValidator(e)
					got = make([]string, len(els))
					s.clockAt(instant)
					for i := range els {
						i := i
						vsched.Go(func() {
							got[i] = els[i].name + "=>" + s.validateNoClock(els[i].topic, els[i].data).verdict
						})
					}
				},
				Check: func(x *vsched.Execution, choices []int) {
					ms := multiset(got)
					outcomes[fmt.Sprintf("%s/%s: %s", e.name, sc.name, ms)]++
					for _, race := range x.Races {
						// two validations touch a Go map without any synchronisation between them: the
						// runtime aborts the process on such an overlap ("concurrent map read and map
						// write"), and the verdicts stop being a function of a sequential order
						r.Violate("conc-validation-data-race "+race, fmt.Sprintf("concurrent validation of [%s] (%s): %s", strings.Join(sc.elems, ", "), e.name, race), "c09-conc",
							map[string]interface{}{"era": ei, "scenario": si, "choices": choices}, race, "every access to a shared map ordered by a lock")
					}
					if x.Deadlock {
						r.Violate("conc-validation-deadlock", fmt.Sprintf("concurrent validation deadlocked (%v) in scenario %q", x.Blocked, sc.name), "c09-conc",
							map[string]interface{}{"era": ei, "scenario": si, "choices": choices}, ms, nil)
						return
					}
					if _, ok := allowed[ms]; !ok {
						var al []string
						for k := range allowed {
							al = append(al, k)
						}
						sort.Strings(al)
						r.Violate("conc-validation-not-serialisable "+sc.name, fmt.Sprintf("concurrent validation of [%s] (%s) gave verdicts {%s}, which no sequential order produces", strings.Join(sc.elems, ", "), e.name, ms), "c09-conc",
							map[string]interface{}{"era": ei, "scenario": si, "choices": choices}, ms, al)
					}
				}}
			ex.Explore()
			schedules += ex.Executions
			if ex.MaxPoints > maxPoints {
				maxPoints = ex.MaxPoints
			}
			if ex.EngineErr != "" {
				ev.Fatal("scheduler: %s (scenario %s)", ex.EngineErr, sc.name)
			}
			if ex.Capped {
				*exhaustive = false
				r.CapHit("deadline in the concurrent scenarios")
				break
			}
			scenarios++
		}
	}
	r.Add("evaluations", schedules)
	r.Set("concurrent_scenarios", scenarios)
	r.Set("concurrent_schedules", schedules)
	r.Set("concurrent_preemption_bound", bound)
	r.Set("concurrent_max_choice_points", maxPoints)
	r.Set("concurrent_outcomes", outcomes)
	r.Assume("concurrent half: message/validation built with sync -> vsync (every Mutex/RWMutex/sync.Map operation is a scheduling point), 2-3 validating goroutines, preemption-bounded; verdict multiset must match a sequential order on a fresh validator",
		"data races: validation.go is instrumented so that every read/write of a map reached as x.field[...] reports to the scheduler's happens-before check (vector clocks over vsync locks, sync.Map operations, atomics, spawn); a conflicting pair without happens-before order in any explored schedule is a violation. Plain (non-map) variables are not watched")
}

func replayConc(r *ev.Run, v ev.Violation) {
	ev.Fatal("concurrent artefacts: re-run the check with the recorded scenario (choices are listed in the artefact)")
}
