package main

// world.go — the fixed environment every sequence runs in: node storage (in-memory badger) with
// the shares and operator records, duty store, network config for one "era" (before / after the
// signed-envelope epoch), and a factory for fresh real messageValidators.

import (
	"context"
	"crypto/rsa"
	"fmt"
	"time"

	eth2apiv1 "github.com/attestantio/go-eth2-client/api/v1"
	"github.com/attestantio/go-eth2-client/spec/phase0"
	specqbft "github.com/bloxapp/ssv-spec/qbft"
	spectypes "github.com/bloxapp/ssv-spec/types"
	"github.com/bloxapp/ssv-spec/types/testingutils"
	"github.com/ethereum/go-ethereum/common"
	"github.com/herumi/bls-eth-go-binary/bls"
	pubsub "github.com/libp2p/go-libp2p-pubsub"
	pspb "github.com/libp2p/go-libp2p-pubsub/pb"
	"go.uber.org/zap"

	"github.com/bloxapp/ssv/message/validation"
	"github.com/bloxapp/ssv/monitoring/metricsreporter"
	"github.com/bloxapp/ssv/networkconfig"
	"github.com/bloxapp/ssv/operator/duties/dutystore"
	operatorstorage "github.com/bloxapp/ssv/operator/storage"
	beaconprotocol "github.com/bloxapp/ssv/protocol/v2/blockchain/beacon"
	ssvtypes "github.com/bloxapp/ssv/protocol/v2/types"
	registrystorage "github.com/bloxapp/ssv/registry/storage"
	"github.com/bloxapp/ssv/storage/basedb"
	"github.com/bloxapp/ssv/storage/kv"
	"github.com/bloxapp/ssv/utils/rsaencryption"
	"github.com/bloxapp/ssv/zzverif/vtime"

	"verifharness/lib/ev"
)

// validator kinds in storage
const (
	vMain      = iota // known, active, not liquidated
	vLiq              // liquidated
	vNoMeta           // share without beacon metadata
	vExited           // status exited_unslashed (not attesting)
	vPending          // pending_queued, activation epoch in the future
	vPendingOK        // pending_queued, activation epoch already reached (counts as active)
	vUnknown          // not in storage
	nVals
)

var valNames = []string{"main", "liquidated", "nometa", "exited", "pending-future", "pending-activated", "unknown"}

const (
	validatorIndex = 123
	nOps           = 4 // committee 1..4
	unregisteredOp = 5 // has a real RSA key, is not in the registry
)

type world struct {
	ks      *testingutils.TestKeySet
	valPK   [nVals][]byte
	ns      operatorstorage.Storage
	duties  *dutystore.Store
	rsaKeys map[spectypes.OperatorID]*rsa.PrivateKey
	beacon  beaconprotocol.Network
	domain  spectypes.DomainType
	s0      phase0.Slot // base slot, multiple of 4 (=> leader of round r is operator r)
	genesis int64
}

type era struct {
	name      string
	forkEpoch phase0.Epoch // PermissionlessActivationEpoch
	signed    bool         // whether envelopes are active at every instant used
}

func fixedPK(seed string) []byte {
	var sk bls.SecretKey
	b := make([]byte, 32)
	copy(b, []byte(seed))
	b[31] = 0 // keep below the group order
	if err := sk.SetLittleEndian(b); err != nil {
		ev.Fatal("bls key: %v", err)
	}
	return sk.GetPublicKey().Serialize()
}

func newWorld() *world {
	spectypes.InitBLS()
	w := &world{ks: testingutils.Testing4SharesSet(), rsaKeys: map[spectypes.OperatorID]*rsa.PrivateKey{}}
	w.beacon = beaconprotocol.NewNetwork(spectypes.PraterNetwork)
	w.domain = networkconfig.TestNetwork.Domain
	w.genesis = int64(w.beacon.MinGenesisTime())
	// base slot: some epoch far from genesis, 8 slots into the epoch, multiple of 4
	w.s0 = phase0.Slot(220000*32 + 8) // after the virtual clock's origin (1.7e9 s)

	logger := zap.NewNop()
	db, err := kv.NewInMemory(logger, basedb.Options{})
	if err != nil {
		ev.Fatal("badger: %v", err)
	}
	w.ns, err = operatorstorage.NewNodeStorage(logger, db)
	if err != nil {
		ev.Fatal("node storage: %v", err)
	}
	w.valPK[vMain] = w.ks.ValidatorPK.Serialize()
	for i, seed := range map[int]string{vLiq: "c09-liquidated", vNoMeta: "c09-nometa", vExited: "c09-exited", vPending: "c09-pending", vPendingOK: "c09-pending-ok", vUnknown: "c09-unknown"} {
		w.valPK[i] = fixedPK(seed)
	}
	curEpoch := phase0.Epoch(w.s0 / 32)
	mk := func(kind int, meta *beaconprotocol.ValidatorMetadata, liq bool) {
		sh := &ssvtypes.SSVShare{
			Share:    *testingutils.TestingShare(w.ks),
			Metadata: ssvtypes.Metadata{BeaconMetadata: meta, Liquidated: liq},
		}
		sh.ValidatorPubKey = append([]byte{}, w.valPK[kind]...)
		if err := w.ns.Shares().Save(nil, sh); err != nil {
			ev.Fatal("save share: %v", err)
		}
	}
	active := func() *beaconprotocol.ValidatorMetadata {
		return &beaconprotocol.ValidatorMetadata{Status: eth2apiv1.ValidatorStateActiveOngoing, Index: validatorIndex}
	}
	mk(vMain, active(), false)
	mk(vLiq, active(), true)
	mk(vNoMeta, nil, false)
	mk(vExited, &beaconprotocol.ValidatorMetadata{Status: eth2apiv1.ValidatorStateExitedUnslashed, Index: validatorIndex}, false)
	mk(vPending, &beaconprotocol.ValidatorMetadata{Status: eth2apiv1.ValidatorStatePendingQueued, Index: validatorIndex, ActivationEpoch: curEpoch + 100}, false)
	mk(vPendingOK, &beaconprotocol.ValidatorMetadata{Status: eth2apiv1.ValidatorStatePendingQueued, Index: validatorIndex, ActivationEpoch: curEpoch - 100}, false)

	// operators 1..4 registered with real RSA keys; operator 5 has a key but no registry record
	k7 := testingutils.Testing7SharesSet()
	for id := spectypes.OperatorID(1); id <= unregisteredOp; id++ {
		key := k7.DKGOperators[id].EncryptionKey
		if key == nil || key.Size() != 256 {
			ev.Fatal("operator %d: need a 2048-bit RSA key", id)
		}
		w.rsaKeys[id] = key
		if id > nOps {
			continue
		}
		pub, err := rsaencryption.ExtractPublicKey(&key.PublicKey)
		if err != nil {
			ev.Fatal("rsa pub: %v", err)
		}
		if _, err := w.ns.SaveOperatorData(nil, &registrystorage.OperatorData{ID: id, PublicKey: []byte(pub), OwnerAddress: common.Address{}}); err != nil {
			ev.Fatal("save operator: %v", err)
		}
	}

	// duties: proposer duty at every slot the alphabet uses, sync committee duty for the period
	w.duties = dutystore.New()
	for d := -40; d <= 40; d++ {
		s := phase0.Slot(int64(w.s0) + int64(d))
		w.duties.Proposer.Add(phase0.Epoch(s/32), s, validatorIndex, &eth2apiv1.ProposerDuty{Slot: s, ValidatorIndex: validatorIndex}, true)
	}
	for p := uint64(curEpoch)/256 - 1; p <= uint64(curEpoch)/256+1; p++ {
		w.duties.SyncCommittee.Add(p, validatorIndex, &eth2apiv1.SyncCommitteeDuty{ValidatorIndex: validatorIndex}, true)
	}
	return w
}

func (w *world) eras() []era {
	e := phase0.Epoch(w.s0 / 32)
	return []era{
		{name: "pre-envelope", forkEpoch: e + 1000, signed: false},
		{name: "post-envelope", forkEpoch: e - 1000, signed: true},
	}
}

func (w *world) slotStart(s phase0.Slot) time.Time {
	return time.Unix(w.genesis+int64(s)*12, 0)
}

// ---- real validator under test ----

type capture struct {
	metricsreporter.MetricsReporter
	verdict string
	reason  string
}

func (c *capture) MessageAccepted(spectypes.BeaconRole, specqbft.Round) {
	c.verdict, c.reason = "accept", ""
}
func (c *capture) MessageIgnored(reason string, _ spectypes.BeaconRole, _ specqbft.Round) {
	c.verdict, c.reason = "ignore", reason
}
func (c *capture) MessageRejected(reason string, _ spectypes.BeaconRole, _ specqbft.Round) {
	c.verdict, c.reason = "reject", reason
}

type sut struct {
	mv  validation.MessageValidator
	cap *capture
}

func (w *world) newValidator(e era) *sut {
	cfg := networkconfig.TestNetwork
	cfg.Beacon = w.beacon
	cfg.PermissionlessActivationEpoch = e.forkEpoch
	c := &capture{MetricsReporter: metricsreporter.NewNop()}
	mv := validation.NewMessageValidator(cfg,
		validation.WithNodeStorage(w.ns),
		validation.WithDutyStore(w.duties),
		validation.WithMetrics(c),
	)
	return &sut{mv: mv, cap: c}
}

type answer struct {
	verdict string // accept | ignore | reject | panic
	reason  string
}

func (a answer) String() string {
	if a.reason == "" {
		return a.verdict
	}
	return a.verdict + ": " + a.reason
}

// validate feeds one pubsub message to the real validator at virtual instant `at`.
func (s *sut) validate(topic string, data []byte, at time.Time) (ans answer) {
	vtime.ResetClock()
	vtime.Set(at)
	if !vtime.Now().Equal(at) {
		ev.Fatal("virtual clock not at %v", at)
	}
	defer func() {
		if p := recover(); p != nil {
			// crashes are C08's property; recorded as their own outcome, never as an accept
			ans = answer{"panic", fmt.Sprint(p)}
		}
	}()
	t := topic
	pm := &pubsub.Message{Message: &pspb.Message{Topic: &t, Data: data}}
	s.cap.verdict, s.cap.reason = "", ""
	res := s.mv.ValidatePubsubMessage(context.Background(), "c09-peer", pm)
	var v string
	switch res {
	case pubsub.ValidationAccept:
		v = "accept"
	case pubsub.ValidationIgnore:
		v = "ignore"
	case pubsub.ValidationReject:
		v = "reject"
	default:
		ev.Fatal("unknown validation result %v", res)
	}
	if s.cap.verdict != v {
		ev.Fatal("metrics verdict %q disagrees with result %q", s.cap.verdict, v)
	}
	return answer{v, s.cap.reason}
}

// clockAt / validateNoClock: the concurrent half freezes the clock once per execution.
func (s *sut) clockAt(at time.Time) {
	vtime.ResetClock()
	vtime.Set(at)
}

func (s *sut) validateNoClock(topic string, data []byte) (ans answer) {
	defer func() {
		if p := recover(); p != nil {
			ans = answer{"panic", fmt.Sprint(p)}
		}
	}()
	t := topic
	pm := &pubsub.Message{Message: &pspb.Message{Topic: &t, Data: data}}
	switch s.mv.ValidatePubsubMessage(context.Background(), "c09-peer", pm) {
	case pubsub.ValidationAccept:
		return answer{verdict: "accept"}
	case pubsub.ValidationIgnore:
		return answer{verdict: "ignore"}
	}
	return answer{verdict: "reject"}
}
