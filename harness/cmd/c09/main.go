// C09 — message validation never accepts a message that breaks a gossip rule.
// Sequential half (seq.go): bounded-exhaustive enumeration of histories × (honest ∪ mutated)
// messages on the real messageValidator against an independent predicate (oracle.go).
// Concurrent half: conc.go (E2, cooperative scheduler) — stub.
package main

import (
	"bytes"
	"encoding/json"
	"flag"
	"fmt"
	"os"
	"os/exec"
	"runtime"
	"sort"
	"strconv"
	"sync"
	"time"

	spectypes "github.com/bloxapp/ssv-spec/types"
	"github.com/bloxapp/ssv-spec/types/testingutils"

	"verifharness/lib/ev"
)

func testing7() *testingutils.TestKeySet { return testingutils.Testing7SharesSet() }

var (
	shard   = flag.Int("shard", -1, "internal: worker index")
	nshards = flag.Int("nshards", 0, "internal: number of workers")
)

// pass = one bounded enumeration: all accepted honest prefixes up to `depth`, each followed by every
// element of the alphabet; `wide` derives the message-independent mutants (validator, topic,
// envelope clauses) from every honest message instead of from one representative per kind.
type pass struct {
	Roles []spectypes.BeaconRole
	Depth int
	Wide  bool
}

func passes(thorough bool) []pass {
	if thorough {
		all := []spectypes.BeaconRole{spectypes.BNRoleAttester, spectypes.BNRoleAggregator, spectypes.BNRoleProposer,
			spectypes.BNRoleSyncCommittee, spectypes.BNRoleSyncCommitteeContribution,
			spectypes.BNRoleValidatorRegistration, spectypes.BNRoleVoluntaryExit}
		return []pass{{all, 3, false}, {all, 2, true}}
	}
	return []pass{{[]spectypes.BeaconRole{spectypes.BNRoleAttester, spectypes.BNRoleProposer}, 2, false}}
}

func main() {
	r := ev.Start("C09", "exploration")
	if r.Replay != "" {
		replay(r)
		return
	}
	if *shard >= 0 {
		worker(r)
		return
	}
	exhaustive := true
	seq(r, &exhaustive)
	conc(r, &exhaustive)
	r.Finish(exhaustive)
}

// worker: one process of the sequential exploration; prints its merged result as JSON.
func worker(r *ev.Run) {
	t0 := time.Now()
	w := newWorld()
	total := newResult()
	n := 0
	for _, p := range passes(r.Thorough()) {
		x := newExplorer(r, w, p.Depth, p.Wide)
		for _, t := range x.tasks(p.Roles) {
			n++
			if n%*nshards != *shard || (os.Getenv("C09_ROOTS_ONLY") != "" && t.First >= 0) {
				continue
			}
			x.order = n
			total.merge(x.runTask(t))
			if total.Expired {
				break
			}
		}
	}
	if os.Getenv("C09_TIMING") != "" {
		fmt.Fprintf(os.Stderr, "worker %d: %v: %d evaluations, %d validations\n", *shard, time.Since(t0), total.Evaluations, total.Validations)
	}
	b, err := json.Marshal(total)
	if err != nil {
		ev.Fatal("%v", err)
	}
	os.Stdout.Write(b)
	os.Exit(0)
}

func seq(r *ev.Run, exhaustive *bool) {
	n := runtime.NumCPU()
	if n > 16 {
		n = 16
	}
	if n < 1 {
		n = 1
	}
	exe, err := os.Executable()
	if err != nil {
		ev.Fatal("%v", err)
	}
	results := make([]*result, n)
	errs := make([]error, n)
	var wg sync.WaitGroup
	for i := 0; i < n; i++ {
		wg.Add(1)
		go func(i int) {
			defer wg.Done()
			// VERIF_SEED only rotates which worker gets which tasks
			cmd := exec.Command(exe, "--tier", r.Tier, "--budget", r.Remaining().String(),
				"-shard", strconv.Itoa((i+r.Seed)%n), "-nshards", strconv.Itoa(n))
			var out, errb bytes.Buffer
			cmd.Stdout, cmd.Stderr = &out, &errb
			if err := cmd.Run(); err != nil {
				errs[i] = fmt.Errorf("worker %d: %v: %s", i, err, errb.String())
				return
			}
			var res result
			if err := json.Unmarshal(out.Bytes(), &res); err != nil {
				errs[i] = fmt.Errorf("worker %d: bad output: %v", i, err)
				return
			}
			results[(i+r.Seed)%n] = &res
		}(i)
	}
	wg.Wait()
	for _, e := range errs {
		if e != nil {
			ev.Fatal("%v", e)
		}
	}
	total := newResult()
	for _, res := range results {
		total.merge(res)
	}
	report(r, total, passes(r.Thorough()), n)
	if total.Expired {
		r.CapHit("internal deadline reached before the sequence bound was completed")
		*exhaustive = false
	}
}

func report(r *ev.Run, t *result, ps []pass, workers int) {
	if len(t.HonestFailed) > 0 {
		sort.Strings(t.HonestFailed)
		ev.Fatal("honest messages not accepted from the empty history (the prefix alphabet is broken): %v", t.HonestFailed)
	}
	// generator isolation: from the empty history every mutant breaks exactly its own clause
	var isolation, notReached []string
	reached := map[string]bool{}
	classes := map[string]bool{}
	sort.Slice(t.Reach, func(i, j int) bool {
		a, b := t.Reach[i], t.Reach[j]
		return a.Era+a.Role+a.Name < b.Era+b.Role+b.Name
	})
	for _, row := range t.Reach {
		want := row.WantBroken
		if want == "" {
			want = "-"
		}
		if row.GotBroken != want {
			isolation = append(isolation, fmt.Sprintf("%s/%s/%s: oracle sees %s, generator meant %s", row.Era, row.Role, row.Name, row.GotBroken, want))
		}
		if row.Class == "edge-ok" {
			continue
		}
		classes[row.Class] = true
		if row.WantReason != "" && len(row.Got) >= len(row.WantReason) && row.Got[len(row.Got)-len(row.WantReason):] == row.WantReason {
			reached[row.Class] = true
		} else {
			notReached = append(notReached, fmt.Sprintf("%s/%s/%s: validator answered %q, the rule's own answer would be %q", row.Era, row.Role, row.Name, row.Got, row.WantReason))
		}
	}
	if len(isolation) > 0 {
		ev.Fatal("mutants that do not break exactly their own clause from the empty history: %v", isolation)
	}
	var boundsDone []string
	for _, p := range ps {
		var roleNames []string
		for _, ro := range p.Roles {
			roleNames = append(roleNames, roleName(ro))
		}
		boundsDone = append(boundsDone, fmt.Sprintf("prefix length <= %d, roles %v, eras [pre-envelope post-envelope], mutation bases wide=%v", p.Depth, roleNames, p.Wide))
	}
	nontrivial := 0
	for k := range t.Outcomes {
		var cls, bk string
		parts := bytes.Split([]byte(k), []byte(" | "))
		cls, bk = string(parts[0]), string(parts[1])
		_ = cls
		if bk != "-" {
			nontrivial++
		}
	}
	r.Add("evaluations", t.Evaluations)
	r.Set("distinct_nontrivial", nontrivial)
	r.Set("rule", "Accept => the message breaks no clause of the C09 sentence (independent predicate with its own per-(validator,role,signer) record); evaluated for x in H ∪ μ(H) after every accepted honest prefix up to the depth bound, each on a fresh real messageValidator")
	r.Set("seq_bounds", boundsDone)
	r.Set("seq_accepted_prefixes_by_length", t.Sequences)
	r.Set("seq_real_validations", t.Validations)
	r.Set("seq_workers", workers)
	r.Set("distinct_outcomes", len(t.Outcomes))
	r.Set("outcome_histogram", t.Outcomes)
	r.Set("mutation_classes", t.Classes)
	r.Set("mutation_classes_total", len(classes))
	nr := []string{}
	for c := range classes {
		if !reached[c] {
			nr = append(nr, c)
		}
	}
	sort.Strings(nr)
	r.Set("classes_never_reaching_their_rule", nr)
	{
		// the wide pass repeats the narrow pass's mutants: list each once
		seen := map[string]bool{}
		uniq := []string{}
		for _, l := range notReached {
			if !seen[l] {
				seen[l] = true
				uniq = append(uniq, l)
			}
		}
		notReached = uniq
	}
	if len(notReached) > 40 {
		notReached = append(notReached[:40], fmt.Sprintf("... %d more", len(notReached)-40))
	}
	r.Set("mutants_answered_by_another_rule_from_empty_history", notReached)
	for _, s := range t.Samples {
		r.Sample(s)
	}
	r.Assume(
		"time is the harness's: the `time` import of message/validation/{validation,signer_state}.go and protocol/v2/blockchain/beacon/network.go is redirected to the virtual clock",
		"receive instants: each message at its canonical instant (slot start + round start + 0.5 s), never earlier than the previous message of the history",
		"BLS signatures are real but not checked by message validation (qbftConfig.VerifySignatures=false); the envelope RSA signature is checked by the oracle with crypto/rsa",
		"windows used by the oracle: early = slot starts more than 50 ms after the receive instant; late = current slot > message slot + 34 (attester, aggregator) / + 3 (proposer, sync committee, contribution); rounds: <= 12 / 6 per role and <= estimated round + 1 (2 s rounds up to 8, 2 min afterwards)",
		"per-signer record = messages the validator itself accepted earlier in the history (consensus messages only)",
		"a panic inside validation is recorded as its own outcome (C08's property), never as an accept",
	)
	var sigs []string
	counts := map[string]int{}
	for sig, v := range t.Violations {
		sigs = append(sigs, sig)
		counts[sig] = v.Count
	}
	sort.Strings(sigs)
	r.Set("accepts_with_broken_clause_by_signature", counts)
	for _, sig := range sigs {
		v := t.Violations[sig]
		r.Violate(v.Signature, fmt.Sprintf("%s (%d evaluations with this signature)", v.What, v.Count), "c09-seq", v.Trace, v.Observed, v.Expected)
	}
}

func replay(r *ev.Run) {
	v, err := ev.LoadReplay(r.Replay)
	if err != nil {
		ev.Fatal("%v", err)
	}
	fmt.Printf("replay %s: %s\n", r.Replay, v.What)
	if v.Harness != "c09-seq" {
		replayConc(r, v)
		return
	}
	tr, _ := v.Trace.(map[string]interface{})
	wide, _ := tr["wide"].(bool)
	role := spectypes.BeaconRole(tr["role"].(float64))
	x := newExplorer(r, newWorld(), 0, wide)
	era := -1
	for i, e := range x.eras {
		if e.name == tr["era"].(string) {
			era = i
		}
	}
	if era < 0 {
		ev.Fatal("unknown era %v", tr["era"])
	}
	alpha := x.alphabet(era, role)
	find := func(n string) *elem {
		for _, e := range alpha {
			if e.name == n {
				return e
			}
		}
		ev.Fatal("element %q is not in the alphabet any more", n)
		return nil
	}
	var prefix []*elem
	for _, n := range tr["prefix"].([]interface{}) {
		prefix = append(prefix, find(n.(string)))
	}
	last := find(tr["x"].(string))
	// show every step on a fresh real validator
	res := newResult()
	for i := range prefix {
		o := x.evaluate(res, era, prefix[:i], prefix[i])
		fmt.Printf("  history[%d] %-60s at %s -> %s\n", i, prefix[i].name, o.at.UTC().Format(time.RFC3339Nano), o.ans)
	}
	o := x.evaluate(res, era, prefix, last)
	if f := last.facts; f.malformed == "" {
		fmt.Printf("  x decoded by the oracle: validator=%x.. role=%s kind=%s slot=%d (base slot %d) round=%d signers=%v inner=%v fulldata=%dB envelope=%v(op %d) topic=%s\n",
			f.valPK[:4], roleName(f.role), kindOf(f), f.slot, x.w.s0, f.round, f.signers, f.inner, len(f.fullData), f.enveloped, f.envOp, last.topic)
	}
	fmt.Printf("  x          %-60s at %s -> %s ; oracle: broken=%v\n", last.name, o.at.UTC().Format(time.RFC3339Nano), o.ans, o.broken)
	if o.ans.verdict == "accept" && len(o.broken) > 0 {
		fmt.Printf("VIOLATION property=C09 replay=%s\n", r.Replay)
		os.Exit(1)
	}
	fmt.Println("not reproduced")
	os.Exit(0)
}
