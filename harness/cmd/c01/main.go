// C01 — consensus agreement: honest operators never decide different values.
// Deviation-bounded explicit-state search over n real controllers + a Byzantine policy library.
package main

import (
	"bytes"
	"encoding/json"
	"flag"
	"fmt"
	"os"
	"runtime"
	"runtime/pprof"
	"sort"
	"strings"

	specqbft "github.com/bloxapp/ssv-spec/qbft"
	spectypes "github.com/bloxapp/ssv-spec/types"
	"github.com/herumi/bls-eth-go-binary/bls"

	"verifharness/lib/ev"
	"verifharness/lib/qnet"
)

type job struct {
	cfg *qnet.Cfg
	k   int
}

type result struct {
	states, transitions, executions, maxDepth int
	aborted                                   bool
	outcomes                                  map[string]int
}

func outcome(w *qnet.World) string {
	var parts []string
	for _, o := range w.Ops {
		s := o.Inst(w.C.Height).State
		if s.Decided {
			parts = append(parts, fmt.Sprintf("%s@%d", qnet.ValName(s.DecidedValue), s.Round))
		} else {
			parts = append(parts, fmt.Sprintf("u@%d", s.Round))
		}
	}
	sort.Strings(parts)
	return fmt.Sprint(parts)
}

// checkAgreement is the literal statement: any two honest decisions are equal, every decided
// value passes the value check, and what ProcessMsg reported agrees with the state.
func checkAgreement(r *ev.Run, w *qnet.World, reps []qnet.Report) bool {
	var first []byte
	var firstOp spectypes.OperatorID
	ok := true
	for _, o := range w.Ops {
		inst := o.Inst(w.C.Height)
		if inst == nil || !inst.State.Decided {
			continue
		}
		v := inst.State.DecidedValue
		if qnet.ValueCheck(v) != nil {
			r.Violate("decided-invalid-value", fmt.Sprintf("operator %d decided a value that fails the value check", o.ID), "c01-qnet", artefact(w), qnet.ValName(v), nil)
			ok = false
		}
		if first == nil {
			first, firstOp = v, o.ID
		} else if !bytes.Equal(first, v) {
			r.Violate("agreement", fmt.Sprintf("honest operators %d and %d decided different values (%s vs %s)", firstOp, o.ID, qnet.ValName(first), qnet.ValName(v)),
				"c01-qnet", artefact(w), w.Summary(), "equal decided values")
			ok = false
		}
	}
	for _, rep := range reps {
		if rep.DecidedMsg != nil {
			st := w.Op(rep.Op).Inst(rep.DecidedMsg.Message.Height)
			if st == nil || !st.State.Decided || !bytes.Equal(st.State.DecidedValue, rep.DecidedMsg.FullData) {
				r.Violate("reported-decision-differs-from-state", fmt.Sprintf("operator %d: ProcessMsg returned a decided message that does not match its instance state", rep.Op), "c01-qnet", artefact(w), nil, nil)
				ok = false
			}
		}
	}
	return ok
}

func artefact(w *qnet.World) map[string]interface{} { return qnet.Artefact(w) }

func runJob(r *ev.Run, j job) result {
	pool := qnet.NewPool()
	w, init := qnet.NewWorld(j.cfg, pool)
	res := result{outcomes: map[string]int{}}
	s := &qnet.Search{K: j.k,
		OnStep: func(w *qnet.World, reps []qnet.Report) bool { return checkAgreement(r, w, reps) },
		OnEnd:  func(w *qnet.World) { res.outcomes[outcome(w)]++ },
		Stop:   r.Expired,
	}
	s.Run(w, init)
	res.states, res.transitions, res.executions, res.aborted, res.maxDepth = s.States, s.Transitions, s.Executions, s.Aborted, s.MaxDepth
	return res
}

var (
	cfgFilter = flag.String("cfg", "", "debug: only configurations whose description contains this")
	kOverride = flag.Int("k", -1, "debug: deviation bound override")
)

func main() {
	r := ev.Start("C01", "model_checking")
	bls.Init(bls.BLS12_381)
	if r.Replay != "" {
		replay(r)
		return
	}
	if pf := os.Getenv("VERIF_PROF"); pf != "" {
		f, _ := os.Create(pf)
		pprof.StartCPUProfile(f)
		c := qnet.Configs(4, 3, []specqbft.Height{0})[40]
		fmt.Println(c.String())
		res := runJob(r, job{c, 1})
		pprof.StopCPUProfile()
		fmt.Printf("%+v\n", res)
		return
	}
	var jobs []job
	cfgs := qnet.Configs(4, 3, []specqbft.Height{0})
	for i, c := range cfgs {
		k := 1
		if r.Thorough() {
			k = 2
			if i%6 == 0 {
				k = 3
			}
		} else if i%6 == 0 {
			k = 2
		}
		if *kOverride >= 0 {
			k = *kOverride
		}
		if *cfgFilter == "" || strings.Contains(c.String(), *cfgFilter) {
			jobs = append(jobs, job{c, k})
		}
	}
	if r.Thorough() {
		extra := qnet.Configs(4, 3, []specqbft.Height{1, 2, 3})
		// n=7 (quorum 5, one Byzantine member): k<=1
		extra = append(extra, qnet.Configs(7, 3, []specqbft.Height{0})...)
		// n=7 with f=2 faulty members (one Byzantine policy + one silent operator)
		extra = append(extra, qnet.ConfigsTwoFaulty(3)...)
		for _, c := range extra {
			k := 1
			if *kOverride >= 0 {
				k = *kOverride
			}
			if *cfgFilter == "" || strings.Contains(c.String(), *cfgFilter) {
				jobs = append(jobs, job{c, k})
			}
		}
	}
	if len(jobs) == 0 {
		ev.Fatal("no configuration matches the filter")
	}
	// larger budgets first so the tail is short
	sort.SliceStable(jobs, func(a, b int) bool { return jobs[a].k > jobs[b].k })
	type jobOut struct {
		K                                         int
		States, Transitions, Executions, MaxDepth int
		Aborted                                   bool
		Outcomes                                  map[string]int
	}
	if _, _, ok := r.IsWorker(); ok {
		for i, j := range jobs {
			if !r.Mine(i) || r.Expired() {
				if r.Mine(i) {
					r.Emit(jobOut{K: j.k, Aborted: true})
				}
				continue
			}
			res := runJob(r, j)
			r.Emit(jobOut{j.k, res.states, res.transitions, res.executions, res.maxDepth, res.aborted, res.outcomes})
		}
		r.WorkerDone()
	}
	outcomes := map[string]int{}
	byK := map[int]int{}
	aborted := 0
	r.Cov["states"], r.Cov["transitions"], r.Cov["executions"], r.Cov["max_depth"] = 0, 0, 0, 0
	r.Spawn(runtime.NumCPU(), []string{"--cfg", *cfgFilter, "--k", fmt.Sprint(*kOverride)}, func(raw []byte) {
		var o jobOut
		if err := json.Unmarshal(raw, &o); err != nil {
			ev.Fatal("bad shard output: %v", err)
		}
		r.Add("states", o.States)
		r.Add("transitions", o.Transitions)
		r.Add("executions", o.Executions)
		if o.MaxDepth > r.Get("max_depth") {
			r.Set("max_depth", o.MaxDepth)
		}
		for k, v := range o.Outcomes {
			outcomes[k] += v
		}
		if o.Aborted {
			aborted++
		} else {
			byK[o.K]++
		}
	})
	r.Set("traces_validated_against_impl", r.Get("executions"))
	r.Set("configurations", len(jobs))
	r.Set("configurations_completed_by_deviation_bound", byK)
	r.Set("distinct_outcomes", len(outcomes))
	r.Set("outcome_histogram", outcomes)
	if aborted > 0 {
		r.CapHit(fmt.Sprintf("deadline: %d of %d configurations not completed", aborted, len(jobs)))
	}
	r.Sample(map[string]interface{}{"configuration": jobs[0].cfg.String(), "deviation_bound": jobs[0].k, "events": "every placement of <=k {DROP,DEFER,TIMEOUT,REDELIVER} around the canonical schedule"})
	r.Assume("n=4 (f=1), rounds <= 3, values {A,B}; Byzantine behaviours drawn from the policy library of lib/qnet/byz.go (faces per recipient, eager commits, early round-changes, impersonation), enumerated completely",
		"deviation-bounded: every placement of <= k deviations around the canonical FIFO schedule; k per configuration is in configurations_completed_by_deviation_bound",
		"BLS verification is on (memoised pure function); states are cloned the way the node rebuilds instances from stored state")
	// exhaustive within the stated deviation bound
	r.Finish(aborted == 0)
}

func replay(r *ev.Run) {
	v, err := ev.LoadReplay(r.Replay)
	if err != nil {
		ev.Fatal("%v", err)
	}
	c, evs, err := qnet.FromArtefact(v.Trace.(map[string]interface{}))
	if err != nil {
		ev.Fatal("%v", err)
	}
	w, init := qnet.NewWorld(c, qnet.NewPool())
	ok := checkAgreement(r, w, init)
	for _, e := range evs {
		reps := w.Apply(e)
		ok = checkAgreement(r, w, reps) && ok
	}
	for _, l := range w.DescribeTrace() {
		fmt.Println("  ", l)
	}
	fmt.Println("final:", w.Summary())
	if ok {
		fmt.Println("not reproduced")
	}
	r.Finish(false)
}
