package main

import (
	"context"
	"errors"
	"sync"
	"sync/atomic"
	"time"

	eth2client "github.com/attestantio/go-eth2-client"
	eth2apiv1 "github.com/attestantio/go-eth2-client/api/v1"
	"github.com/attestantio/go-eth2-client/spec/phase0"
	spectypes "github.com/bloxapp/ssv-spec/types"
	"go.uber.org/zap"

	"github.com/bloxapp/ssv/protocol/v2/blockchain/beacon"
	ssvtypes "github.com/bloxapp/ssv/protocol/v2/types"
)

// Geometry of the fake chain: 8 slots per epoch, 2 epochs per sync-committee period. The duty
// handlers take every one of these numbers from the BeaconNetwork interface.
const (
	slotsPerEpoch   = 8
	epochsPerPeriod = 2
	slotsPerPeriod  = slotsPerEpoch * epochsPerPeriod
)

// slot start times lie in the far future of the real clock, so the context deadlines the handlers
// derive from them (slot end + 100 ms) never fire: real time plays no role in any run.
var farFuture = time.Date(2100, 1, 1, 0, 0, 0, 0, time.UTC)

// ---- world: the harness-owned environment of one run ----

type recKind int

const (
	recFetch recKind = iota
	recDispatch
)

// rec is one observable action of the handler, in the program order of its goroutine.
type rec struct {
	kind recKind
	// fetch
	epoch     int   // epoch handed to the beacon node
	ok        bool  // fetch succeeded
	committee []int // committee-active validators at the time of the fetch
	handed    []int // indices handed to the beacon node
	pairs     [][2]int
	// dispatch
	role spectypes.BeaconRole
	v    int
	slot int
	// clock when the action was recorded (a slow fetch moves it inside a tick)
	clock int
}

type world struct {
	clock atomic.Uint64 // current slot ("EstimatedCurrentSlot")

	mu       sync.Mutex
	version  int  // assignment version of the beacon node
	vcSet    int  // 0: committee {1}, others {3}; 1: committee {1,2}, others {3}
	failNext bool // the next duties fetch fails (one shot)
	slowNext bool // the next duties fetch made while a tick is processed overruns the slot (one shot)
	inTick   bool // a tick is being processed
	log      []rec
}

func (w *world) committeeSet() []int {
	if w.vcSet == 0 {
		return []int{1}
	}
	return []int{1, 2}
}

func (w *world) allSet() []int { return append(w.committeeSet(), 3) }

func (w *world) takeLog() []rec {
	w.mu.Lock()
	defer w.mu.Unlock()
	l := w.log
	w.log = nil
	return l
}

// ---- versioned duty assignment (what the fake beacon node answers) ----

func attesterSlot(v, epoch, ver int) int {
	return epoch*slotsPerEpoch + (2*v+3*epoch+3*ver)%slotsPerEpoch
}

func proposerSlot(v, epoch, ver int) (int, bool) {
	// every third version of the assignment has no proposal for any of the validators (a successful
	// but empty answer must replace what was stored before)
	if ver%3 == 1 || (v+epoch+ver)%3 == 2 {
		return 0, false
	}
	return epoch*slotsPerEpoch + (5*v+epoch+3*ver)%slotsPerEpoch, true
}

// (version 2, 5, ...: nobody is in the sync committee)
func inSyncCommittee(v, period, ver int) bool { return ver%3 != 2 && (v+period+ver)%3 != 1 }

func pubKey(v int) (pk phase0.BLSPubKey) {
	pk[0] = byte(v)
	return
}

// ---- BeaconNetwork ----

type fakeNet struct{ w *world }

var _ beacon.BeaconNetwork = (*fakeNet)(nil)

func (n *fakeNet) ForkVersion() [4]byte           { return [4]byte{} }
func (n *fakeNet) MinGenesisTime() uint64         { return uint64(farFuture.Unix()) }
func (n *fakeNet) SlotDurationSec() time.Duration { return 12 * time.Second }
func (n *fakeNet) SlotsPerEpoch() uint64          { return slotsPerEpoch }
func (n *fakeNet) EstimatedCurrentSlot() phase0.Slot {
	return phase0.Slot(n.w.clock.Load())
}
func (n *fakeNet) EstimatedSlotAtTime(t int64) phase0.Slot {
	g := farFuture.Unix()
	if t < g {
		return 0
	}
	return phase0.Slot((t - g) / 12)
}
func (n *fakeNet) EstimatedTimeAtSlot(slot phase0.Slot) int64 {
	return farFuture.Unix() + int64(slot)*12
}
func (n *fakeNet) EstimatedCurrentEpoch() phase0.Epoch {
	return n.EstimatedEpochAtSlot(n.EstimatedCurrentSlot())
}
func (n *fakeNet) EstimatedEpochAtSlot(slot phase0.Slot) phase0.Epoch {
	return phase0.Epoch(slot / slotsPerEpoch)
}
func (n *fakeNet) FirstSlotAtEpoch(epoch phase0.Epoch) phase0.Slot {
	return phase0.Slot(uint64(epoch) * slotsPerEpoch)
}
func (n *fakeNet) EpochStartTime(epoch phase0.Epoch) time.Time {
	return n.GetSlotStartTime(n.FirstSlotAtEpoch(epoch))
}
func (n *fakeNet) GetSlotStartTime(slot phase0.Slot) time.Time {
	return farFuture.Add(time.Duration(slot) * 12 * time.Second)
}
func (n *fakeNet) GetSlotEndTime(slot phase0.Slot) time.Time { return n.GetSlotStartTime(slot + 1) }
func (n *fakeNet) IsFirstSlotOfEpoch(slot phase0.Slot) bool  { return uint64(slot)%slotsPerEpoch == 0 }
func (n *fakeNet) GetEpochFirstSlot(epoch phase0.Epoch) phase0.Slot {
	return n.FirstSlotAtEpoch(epoch)
}
func (n *fakeNet) EpochsPerSyncCommitteePeriod() uint64 { return epochsPerPeriod }
func (n *fakeNet) EstimatedSyncCommitteePeriodAtEpoch(epoch phase0.Epoch) uint64 {
	return uint64(epoch) / epochsPerPeriod
}
func (n *fakeNet) FirstEpochOfSyncPeriod(period uint64) phase0.Epoch {
	return phase0.Epoch(period * epochsPerPeriod)
}

// LastSlotOfSyncPeriod: same formula as beacon.Network (the last slot of the period minus one).
func (n *fakeNet) LastSlotOfSyncPeriod(period uint64) phase0.Slot {
	lastEpoch := n.FirstEpochOfSyncPeriod(period+1) - 1
	return n.GetEpochFirstSlot(lastEpoch+1) - 2
}
func (n *fakeNet) GetNetwork() beacon.Network {
	return beacon.Network{BeaconNetwork: spectypes.BeaconTestNetwork}
}
func (n *fakeNet) GetBeaconNetwork() spectypes.BeaconNetwork { return spectypes.BeaconTestNetwork }

// ---- SlotTicker ----

type fakeTicker struct {
	c    chan time.Time // unbuffered: a tick is delivered only when the handler selects it
	slot atomic.Uint64
}

func (t *fakeTicker) Next() <-chan time.Time { return t.c }
func (t *fakeTicker) Slot() phase0.Slot      { return phase0.Slot(t.slot.Load()) }

// ---- ValidatorController ----

type fakeVC struct{ w *world }

func toIdx(vs []int) []phase0.ValidatorIndex {
	out := make([]phase0.ValidatorIndex, len(vs))
	for i, v := range vs {
		out[i] = phase0.ValidatorIndex(v)
	}
	return out
}

func (c *fakeVC) CommitteeActiveIndices(phase0.Epoch) []phase0.ValidatorIndex {
	c.w.mu.Lock()
	defer c.w.mu.Unlock()
	return toIdx(c.w.committeeSet())
}
func (c *fakeVC) AllActiveIndices(phase0.Epoch, bool) []phase0.ValidatorIndex {
	c.w.mu.Lock()
	defer c.w.mu.Unlock()
	return toIdx(c.w.allSet())
}
func (c *fakeVC) GetOperatorShares() []*ssvtypes.SSVShare { return nil }

// ---- BeaconNode ----

type fakeBN struct{ w *world }

var errFetch = errors.New("c16: beacon node unavailable")

// begin records the fetch and decides whether it fails; the caller fills pairs on success.
func (b *fakeBN) begin(ctx context.Context, epoch phase0.Epoch, indices []phase0.ValidatorIndex) (ver int, r *rec, err error) {
	w := b.w
	handed := make([]int, len(indices))
	for i, x := range indices {
		handed[i] = int(x)
	}
	r = &rec{kind: recFetch, epoch: int(epoch), committee: w.committeeSet(), handed: handed}
	if e := ctx.Err(); e != nil {
		return 0, r, e
	}
	if w.slowNext && w.inTick {
		// the answer arrives after the next slot has begun
		w.slowNext = false
		w.clock.Store(w.clock.Load() + 1)
	}
	r.clock = int(w.clock.Load())
	if w.failNext {
		w.failNext = false
		return 0, r, errFetch
	}
	r.ok = true
	return w.version, r, nil
}

func (b *fakeBN) AttesterDuties(ctx context.Context, epoch phase0.Epoch, indices []phase0.ValidatorIndex) ([]*eth2apiv1.AttesterDuty, error) {
	b.w.mu.Lock()
	defer b.w.mu.Unlock()
	ver, r, err := b.begin(ctx, epoch, indices)
	defer func() { b.w.log = append(b.w.log, *r) }()
	if err != nil {
		return nil, err
	}
	var out []*eth2apiv1.AttesterDuty
	for _, idx := range indices {
		v := int(idx)
		s := attesterSlot(v, int(epoch), ver)
		r.pairs = append(r.pairs, [2]int{v, s})
		out = append(out, &eth2apiv1.AttesterDuty{PubKey: pubKey(v), Slot: phase0.Slot(s), ValidatorIndex: idx,
			CommitteeIndex: 1, CommitteeLength: 128, CommitteesAtSlot: 4, ValidatorCommitteeIndex: uint64(v)})
	}
	return out, nil
}

func (b *fakeBN) ProposerDuties(ctx context.Context, epoch phase0.Epoch, indices []phase0.ValidatorIndex) ([]*eth2apiv1.ProposerDuty, error) {
	b.w.mu.Lock()
	defer b.w.mu.Unlock()
	ver, r, err := b.begin(ctx, epoch, indices)
	defer func() { b.w.log = append(b.w.log, *r) }()
	if err != nil {
		return nil, err
	}
	var out []*eth2apiv1.ProposerDuty
	for _, idx := range indices {
		v := int(idx)
		if s, ok := proposerSlot(v, int(epoch), ver); ok {
			r.pairs = append(r.pairs, [2]int{v, s})
			out = append(out, &eth2apiv1.ProposerDuty{PubKey: pubKey(v), Slot: phase0.Slot(s), ValidatorIndex: idx})
		}
	}
	return out, nil
}

func (b *fakeBN) SyncCommitteeDuties(ctx context.Context, epoch phase0.Epoch, indices []phase0.ValidatorIndex) ([]*eth2apiv1.SyncCommitteeDuty, error) {
	b.w.mu.Lock()
	defer b.w.mu.Unlock()
	ver, r, err := b.begin(ctx, epoch, indices)
	defer func() { b.w.log = append(b.w.log, *r) }()
	if err != nil {
		return nil, err
	}
	period := int(epoch) / epochsPerPeriod
	var out []*eth2apiv1.SyncCommitteeDuty
	for _, idx := range indices {
		v := int(idx)
		if inSyncCommittee(v, period, ver) {
			r.pairs = append(r.pairs, [2]int{v, 0})
			out = append(out, &eth2apiv1.SyncCommitteeDuty{PubKey: pubKey(v), ValidatorIndex: idx,
				ValidatorSyncCommitteeIndices: []phase0.CommitteeIndex{phase0.CommitteeIndex(v)}})
		}
	}
	return out, nil
}

func (b *fakeBN) Events(context.Context, []string, eth2client.EventHandlerFunc) error { return nil }

// the two subscription calls are made from goroutines the handlers spawn and forget; they carry
// no state and are not part of anything observed.
func (b *fakeBN) SubmitBeaconCommitteeSubscriptions(context.Context, []*eth2apiv1.BeaconCommitteeSubscription) error {
	return nil
}
func (b *fakeBN) SubmitSyncCommitteeSubscriptions(context.Context, []*eth2apiv1.SyncCommitteeSubscription) error {
	return nil
}

// executeDuties is the ExecuteDutiesFunc handed to the handler: "dispatch" = one duty in one call.
func (w *world) executeDuties(_ *zap.Logger, ds []*spectypes.Duty) {
	w.mu.Lock()
	defer w.mu.Unlock()
	for _, d := range ds {
		w.log = append(w.log, rec{kind: recDispatch, role: d.Type, v: int(d.ValidatorIndex), slot: int(d.Slot), clock: int(w.clock.Load())})
	}
}
