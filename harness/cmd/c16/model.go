package main

import (
	"fmt"
	"sort"
	"strings"

	spectypes "github.com/bloxapp/ssv-spec/types"
)

// Reference model of the property sentence (not of the handlers' code).
//
// Per handler it remembers, for every epoch (attester, proposer) or period (sync committee) that is
// not in the past, the most recently *successfully* fetched assignment, the committee-active set
// that was in force at that fetch, and whether a notice that concerns this epoch/period has arrived
// since ("dirty", see notice()). From that it decides, for every dispatch, the three unconditional
// safety clauses, and at the end of every tick the "exactly once" clause (see judge()).

type handlerKind int

const (
	kindAttester handlerKind = iota
	kindProposer
	kindSync
)

var kindNames = []string{"attester", "proposer", "sync_committee"}

func (k handlerKind) roles() []spectypes.BeaconRole {
	switch k {
	case kindAttester:
		return []spectypes.BeaconRole{spectypes.BNRoleAttester, spectypes.BNRoleAggregator}
	case kindProposer:
		return []spectypes.BeaconRole{spectypes.BNRoleProposer}
	}
	return []spectypes.BeaconRole{spectypes.BNRoleSyncCommittee, spectypes.BNRoleSyncCommitteeContribution}
}

// unitOfSlot: the epoch / period whose assignment covers the slot.
func (k handlerKind) unitOfSlot(slot int) int {
	if k == kindSync {
		return slot / slotsPerPeriod
	}
	return slot / slotsPerEpoch
}

// unitOfFetch: the epoch / period a fetch for `epoch` delivers the assignment of.
func (k handlerKind) unitOfFetch(epoch int) int {
	if k == kindSync {
		return epoch / epochsPerPeriod
	}
	return epoch
}

// window: how many slots after its own slot a duty may still be dispatched (the handlers' own
// documented tolerances: one epoch for attestations, none for proposals and sync messages).
func (k handlerKind) window() int {
	if k == kindAttester {
		return slotsPerEpoch
	}
	return 0
}

type assignment struct {
	pairs     map[[2]int]bool // (validator, slot); slot = 0 for sync committee (every slot of the period)
	committee map[int]bool
	// dirty: a notice that entitles the handler to drop this assignment arrived after the fetch.
	dirty bool
	// dirtyAfterTick: an indices-change notice arrived; the handlers' contract is "execute, reset,
	// fetch", so the assignment of the current epoch/period stays binding for the next tick and
	// becomes dirty when that tick has been processed.
	dirtyAfterTick bool
	// refetchFailed: after the notice a re-fetch of this epoch/period was attempted and failed.
	refetchFailed bool
}

func (a *assignment) has(k handlerKind, v, slot int) bool {
	if k == kindSync {
		return a.pairs[[2]int{v, 0}]
	}
	return a.pairs[[2]int{v, slot}]
}

type model struct {
	kind    handlerKind
	fetched map[int]*assignment
}

func newModel(k handlerKind) *model { return &model{kind: k, fetched: map[int]*assignment{}} }

func (m *model) applyFetch(r rec) *assignment {
	a := &assignment{pairs: map[[2]int]bool{}, committee: map[int]bool{}}
	for _, p := range r.pairs {
		a.pairs[p] = true
	}
	for _, v := range r.committee {
		a.committee[v] = true
	}
	m.fetched[m.kind.unitOfFetch(r.epoch)] = a
	return a
}

// notice records a reorg / indices-change notice. Which assignments it entitles the handler to
// drop follows the handlers' documented contract (the comments on HandleDuties) and what the
// dependent roots mean:
//
//	attester  reorg-previous: the epoch of the notice and later ones; reorg-current: later epochs
//	          only (the current epoch's attester duties depend on the previous root)
//	proposer  reorg-current: the epoch of the notice (and later); reorg-previous: nothing
//	sync      reorg-current: later periods only; reorg-previous: nothing
//	all       indices-change: later epochs/periods at once; the current one only after the next
//	          tick has executed from it ("1. execute 2. reset 3. fetch")
//
// slot is the slot the notice carries (= the clock).
func (m *model) notice(e byte, slot int) {
	cur := m.kind.unitOfSlot(slot)
	for u, a := range m.fetched {
		switch e {
		case evReorgPrev:
			if m.kind == kindAttester && u >= cur {
				a.dirty = true
			}
		case evReorgCur:
			if (m.kind == kindProposer && u >= cur) || (m.kind != kindProposer && u > cur) {
				a.dirty = true
			}
		case evIndices:
			if u > cur {
				a.dirty = true
			} else if u == cur {
				a.dirtyAfterTick = true
			}
		}
	}
}

func (m *model) prune(curSlot int) {
	u := m.kind.unitOfSlot(curSlot)
	for k := range m.fetched {
		if k < u {
			delete(m.fetched, k)
		}
	}
}

func (m *model) dump() string {
	var us []int
	for u := range m.fetched {
		us = append(us, u)
	}
	sort.Ints(us)
	var b strings.Builder
	for _, u := range us {
		a := m.fetched[u]
		var ps []string
		for p := range a.pairs {
			ps = append(ps, fmt.Sprintf("%d@%02d", p[0], p[1]))
		}
		sort.Strings(ps)
		var cs []int
		for v := range a.committee {
			cs = append(cs, v)
		}
		sort.Ints(cs)
		fmt.Fprintf(&b, "u%d%v c%v d%t", u, ps, cs, a.dirty)
		if a.dirtyAfterTick {
			b.WriteString(" dirty-after-tick")
		}
		if a.refetchFailed {
			b.WriteString(" refetch-failed")
		}
		b.WriteString(";")
	}
	return b.String()
}

// labelLate: the handler dropped an assignment on a notice and fetched it again only after the
// execution step of the duty's tick (excused: the handler is re-fetching; one trace per handler is
// kept in the evidence as an observation).
const labelLate = "not-dispatched/dropped-on-notice,re-fetched-after-execution-in-this-tick(excused)"

type violation struct {
	clause string
	what   string
}

// judge evaluates one event: `log` is what the handler did while processing it, in order.
// isTick/slot describe the event; the clock equals slot during a tick.
// It returns the first violation (or nil) and the outcome labels of this event for the histogram.
// held: the duties (validator, slot) - slot 0 for sync committee - of the tick's epoch/period that
// the real duty store contained, marked in-committee, when the tick was delivered.
func (m *model) judge(isTick bool, slot int, log []rec, held map[[2]int]bool) (*violation, []string) {
	k := m.kind
	var labels []string
	var snap *assignment
	var inTick []*assignment
	if isTick {
		m.prune(slot)
		snap = m.fetched[k.unitOfSlot(slot)]
	}
	// overrun: a fetch of this tick returned after the next slot had begun; a role without
	// tolerance may (must, if it executes after that fetch) skip the duties of the tick's slot
	overrun := false
	for _, r := range log {
		if isTick && r.kind == recFetch && r.clock > slot {
			overrun = true
		}
	}
	count := map[string]int{}
	dkey := func(role spectypes.BeaconRole, v int) string { return fmt.Sprintf("%s/%d", role.String(), v) }
	var viol *violation
	fail := func(clause, format string, a ...interface{}) {
		if viol == nil {
			viol = &violation{clause: clause, what: fmt.Sprintf(format, a...)}
		}
	}
	for _, r := range log {
		switch r.kind {
		case recFetch:
			if !r.ok {
				labels = append(labels, "fetch-failed")
				if a := m.fetched[k.unitOfFetch(r.epoch)]; a != nil && (a.dirty || a.dirtyAfterTick) {
					a.refetchFailed = true
				}
				continue
			}
			a := m.applyFetch(r)
			if isTick && k.unitOfFetch(r.epoch) == k.unitOfSlot(slot) {
				inTick = append(inTick, a)
				labels = append(labels, "fetch-ok-current-unit")
			} else if isTick {
				labels = append(labels, "fetch-ok-next-unit")
			} else {
				labels = append(labels, "fetch-ok-outside-tick")
			}
		case recDispatch:
			roleOK := false
			for _, ro := range k.roles() {
				if ro == r.role {
					roleOK = true
				}
			}
			if !roleOK {
				fail("dispatch-foreign-role", "%s handler dispatched a %s duty", kindNames[k], r.role)
				continue
			}
			if !isTick {
				fail("dispatch-outside-tick", "%s duty of validator %d for slot %d dispatched while processing a non-tick event (clock %d)", r.role, r.v, r.slot, slot)
				continue
			}
			if r.clock-r.slot > k.window() {
				// (a slow fetch earlier in this tick has moved the clock past the duty's slot)
				fail("dispatch-outside-window", "%s duty of validator %d for slot %d dispatched while the clock is already at slot %d, outside the role's window", r.role, r.v, r.slot, r.clock)
				continue
			}
			if r.slot != slot {
				if slot < r.slot || slot-r.slot > k.window() {
					fail("dispatch-outside-window", "%s duty of validator %d for slot %d dispatched at slot %d, outside the role's window", r.role, r.v, r.slot, slot)
				} else {
					fail("dispatch-not-at-its-slot", "%s duty of validator %d for slot %d dispatched at the tick of slot %d", r.role, r.v, r.slot, slot)
				}
				continue
			}
			count[dkey(r.role, r.v)]++
			if count[dkey(r.role, r.v)] > 1 {
				fail("double-dispatch", "%s duty of validator %d for slot %d dispatched %d times", r.role, r.v, r.slot, count[dkey(r.role, r.v)])
			}
			if snap == nil || !snap.has(k, r.v, r.slot) {
				labels = append(labels, "dispatched/assignment-fetched-in-this-tick")
			}
			cur := m.fetched[k.unitOfSlot(r.slot)]
			if cur == nil {
				fail("dispatch-without-assignment", "%s duty of validator %d for slot %d dispatched, but no assignment of that epoch/period was ever fetched successfully", r.role, r.v, r.slot)
			} else if !cur.has(k, r.v, r.slot) {
				fail("dispatch-not-in-latest-assignment", "%s duty of validator %d for slot %d dispatched, but the most recently fetched assignment (%s) does not contain it", r.role, r.v, r.slot, m.dump())
			}
		}
	}
	if !isTick {
		return viol, labels
	}
	// "exactly once". A duty binds at tick(slot) when it is in the assignment of its epoch/period
	// that was fetched successfully before this tick, its validator was committee-active at that
	// fetch, every re-fetch inside this tick confirmed it (a re-fetch that drops the duty makes not
	// dispatching right), and
	//   (a) no notice entitling the handler to drop that assignment has arrived since (notice()), or
	//   (b) the handler still held the duty in its store when the tick was delivered: whatever
	//       arrived, a duty that is still there at its own tick must be executed before any reset.
	// A duty that does not bind because of a notice is excused only while the handler is fetching
	// again: if no fetch of that epoch/period has been attempted between the notice and the end of
	// this tick, the assignment was dropped for good ("assignment-dropped-never-refetched").
	if snap == nil && len(inTick) == 0 {
		labels = append(labels, "tick-without-assignment")
	}
	if snap != nil {
		var vs []int
		for p := range snap.pairs {
			if snap.has(k, p[0], slot) && (k == kindSync || p[1] == slot) {
				vs = append(vs, p[0])
			}
		}
		sort.Ints(vs)
		for _, v := range vs {
			if !snap.committee[v] {
				if count[dkey(k.roles()[0], v)] > 0 {
					labels = append(labels, "dispatched/not-committee-at-fetch")
				} else {
					labels = append(labels, "not-dispatched/not-committee")
				}
				continue
			}
			confirmed := true
			for _, a := range inTick {
				if !a.has(k, v, slot) || !a.committee[v] {
					confirmed = false
				}
			}
			isHeld := held[[2]int{v, slot}] || (k == kindSync && held[[2]int{v, 0}])
			obligated := confirmed && (!snap.dirty || isHeld)
			for _, ro := range k.roles() {
				n := count[dkey(ro, v)]
				switch {
				case n == 0 && overrun && k.window() == 0:
					labels = append(labels, "not-dispatched/fetch-overran-the-slot(window closed)")
				case n >= 1 && obligated && !snap.dirty:
					labels = append(labels, "dispatched/obligated")
				case n >= 1 && obligated:
					labels = append(labels, "dispatched/obligated(still-held-after-notice)")
				case n >= 1 && snap.dirty:
					labels = append(labels, "dispatched/not-obligated(notice-since-fetch)")
				case n >= 1:
					labels = append(labels, "dispatched/then-dropped-by-refetch-in-tick")
				case obligated && !snap.dirty:
					fail("missed-dispatch", "%s duty of validator %d at slot %d not dispatched although its assignment was fetched before the tick and no notice concerning it arrived since", ro, v, slot)
				case obligated:
					fail("missed-dispatch", "%s duty of validator %d at slot %d not dispatched although the handler still held it in its duty store when the tick of its slot was delivered", ro, v, slot)
				case !confirmed:
					labels = append(labels, "not-dispatched/dropped-by-refetch-in-tick")
				case len(inTick) > 0:
					labels = append(labels, labelLate)
				case snap.refetchFailed:
					labels = append(labels, "not-dispatched/dropped-on-notice,re-fetch-failed(excused)")
				default:
					fail("assignment-dropped-never-refetched", "%s duty of validator %d at slot %d not dispatched: its assignment had been fetched successfully, a notice made the handler drop it, and no fetch of that epoch/period has been attempted since", ro, v, slot)
				}
			}
		}
	}
	// an indices-change notice takes effect on the current epoch/period once a tick has executed
	for _, a := range m.fetched {
		if a.dirtyAfterTick {
			a.dirtyAfterTick = false
			a.dirty = true
		}
	}
	sort.Strings(labels)
	return viol, labels
}
