package main

import (
	"fmt"
	"sort"
	"strings"

	spectypes "github.com/bloxapp/ssv-spec/types"
)

// Reference model of the property sentence (not of the handlers' code).
//
// Per handler it remembers, for every epoch (attester, proposer) or period (sync committee) that is
// not in the past, the most recently *successfully* fetched assignment, the committee-active set
// that was in force at that fetch, and whether a reorg / indices-change notice has arrived since
// ("dirty"). From that it decides, for every dispatch, the three unconditional safety clauses, and
// at the end of every tick the "exactly once" clause in its weakest reading (DESIGN §3 C16).

type handlerKind int

const (
	kindAttester handlerKind = iota
	kindProposer
	kindSync
)

var kindNames = []string{"attester", "proposer", "sync_committee"}

func (k handlerKind) roles() []spectypes.BeaconRole {
	switch k {
	case kindAttester:
		return []spectypes.BeaconRole{spectypes.BNRoleAttester, spectypes.BNRoleAggregator}
	case kindProposer:
		return []spectypes.BeaconRole{spectypes.BNRoleProposer}
	}
	return []spectypes.BeaconRole{spectypes.BNRoleSyncCommittee, spectypes.BNRoleSyncCommitteeContribution}
}

// unitOfSlot: the epoch / period whose assignment covers the slot.
func (k handlerKind) unitOfSlot(slot int) int {
	if k == kindSync {
		return slot / slotsPerPeriod
	}
	return slot / slotsPerEpoch
}

// unitOfFetch: the epoch / period a fetch for `epoch` delivers the assignment of.
func (k handlerKind) unitOfFetch(epoch int) int {
	if k == kindSync {
		return epoch / epochsPerPeriod
	}
	return epoch
}

// window: how many slots after its own slot a duty may still be dispatched (the handlers' own
// documented tolerances: one epoch for attestations, none for proposals and sync messages).
func (k handlerKind) window() int {
	if k == kindAttester {
		return slotsPerEpoch
	}
	return 0
}

type assignment struct {
	pairs     map[[2]int]bool // (validator, slot); slot = 0 for sync committee (every slot of the period)
	committee map[int]bool
	dirty     bool // a reorg / indices-change notice arrived after this fetch
	// refetchFailed: after that notice a re-fetch of this epoch/period was attempted and failed.
	// Only used to split the "excused" outcomes in the histogram; it never makes a verdict.
	refetchFailed bool
}

func (a *assignment) has(k handlerKind, v, slot int) bool {
	if k == kindSync {
		return a.pairs[[2]int{v, 0}]
	}
	return a.pairs[[2]int{v, slot}]
}

type model struct {
	kind    handlerKind
	fetched map[int]*assignment
}

func newModel(k handlerKind) *model { return &model{kind: k, fetched: map[int]*assignment{}} }

func (m *model) applyFetch(r rec) *assignment {
	a := &assignment{pairs: map[[2]int]bool{}, committee: map[int]bool{}}
	for _, p := range r.pairs {
		a.pairs[p] = true
	}
	for _, v := range r.committee {
		a.committee[v] = true
	}
	m.fetched[m.kind.unitOfFetch(r.epoch)] = a
	return a
}

func (m *model) markDirty() {
	for _, a := range m.fetched {
		a.dirty = true
	}
}

func (m *model) prune(curSlot int) {
	u := m.kind.unitOfSlot(curSlot)
	for k := range m.fetched {
		if k < u {
			delete(m.fetched, k)
		}
	}
}

func (m *model) dump() string {
	var us []int
	for u := range m.fetched {
		us = append(us, u)
	}
	sort.Ints(us)
	var b strings.Builder
	for _, u := range us {
		a := m.fetched[u]
		var ps []string
		for p := range a.pairs {
			ps = append(ps, fmt.Sprintf("%d@%02d", p[0], p[1]))
		}
		sort.Strings(ps)
		var cs []int
		for v := range a.committee {
			cs = append(cs, v)
		}
		sort.Ints(cs)
		fmt.Fprintf(&b, "u%d%v c%v d%t", u, ps, cs, a.dirty)
		if a.refetchFailed {
			b.WriteString(" refetch-failed")
		}
		b.WriteString(";")
	}
	return b.String()
}

// labelDropped: the handler dropped an assignment on a notice and has not tried to fetch it again
// up to and including the duty's tick. Excused by the weakest reading of "exactly once" (DESIGN);
// counted, and one trace per handler is kept in the evidence as an observation.
const labelDropped = "not-dispatched/notice-since-fetch,no-re-fetch-attempted(excused-by-weakest-reading)"

type violation struct {
	clause string
	what   string
}

// judge evaluates one event: `log` is what the handler did while processing it, in order.
// isTick/slot describe the event; the clock equals slot during a tick.
// It returns the first violation (or nil) and the outcome labels of this event for the histogram.
func (m *model) judge(isTick bool, slot int, log []rec) (*violation, []string) {
	k := m.kind
	var labels []string
	var snap *assignment
	var inTick []*assignment
	if isTick {
		m.prune(slot)
		snap = m.fetched[k.unitOfSlot(slot)]
	}
	count := map[string]int{}
	dkey := func(role spectypes.BeaconRole, v int) string { return fmt.Sprintf("%s/%d", role.String(), v) }
	var viol *violation
	fail := func(clause, format string, a ...interface{}) {
		if viol == nil {
			viol = &violation{clause: clause, what: fmt.Sprintf(format, a...)}
		}
	}
	for _, r := range log {
		switch r.kind {
		case recFetch:
			if !r.ok {
				labels = append(labels, "fetch-failed")
				if a := m.fetched[k.unitOfFetch(r.epoch)]; a != nil && a.dirty {
					a.refetchFailed = true
				}
				continue
			}
			a := m.applyFetch(r)
			if isTick && k.unitOfFetch(r.epoch) == k.unitOfSlot(slot) {
				inTick = append(inTick, a)
				labels = append(labels, "fetch-ok-current-unit")
			} else if isTick {
				labels = append(labels, "fetch-ok-next-unit")
			} else {
				labels = append(labels, "fetch-ok-outside-tick")
			}
		case recDispatch:
			roleOK := false
			for _, ro := range k.roles() {
				if ro == r.role {
					roleOK = true
				}
			}
			if !roleOK {
				fail("dispatch-foreign-role", "%s handler dispatched a %s duty", kindNames[k], r.role)
				continue
			}
			if !isTick {
				fail("dispatch-outside-tick", "%s duty of validator %d for slot %d dispatched while processing a non-tick event (clock %d)", r.role, r.v, r.slot, slot)
				continue
			}
			if r.slot != slot {
				if slot < r.slot || slot-r.slot > k.window() {
					fail("dispatch-outside-window", "%s duty of validator %d for slot %d dispatched at slot %d, outside the role's window", r.role, r.v, r.slot, slot)
				} else {
					fail("dispatch-not-at-its-slot", "%s duty of validator %d for slot %d dispatched at the tick of slot %d", r.role, r.v, r.slot, slot)
				}
				continue
			}
			count[dkey(r.role, r.v)]++
			if count[dkey(r.role, r.v)] > 1 {
				fail("double-dispatch", "%s duty of validator %d for slot %d dispatched %d times", r.role, r.v, r.slot, count[dkey(r.role, r.v)])
			}
			if snap == nil || !snap.has(k, r.v, r.slot) {
				labels = append(labels, "dispatched/assignment-fetched-in-this-tick")
			}
			cur := m.fetched[k.unitOfSlot(r.slot)]
			if cur == nil {
				fail("dispatch-without-assignment", "%s duty of validator %d for slot %d dispatched, but no assignment of that epoch/period was ever fetched successfully", r.role, r.v, r.slot)
			} else if !cur.has(k, r.v, r.slot) {
				fail("dispatch-not-in-latest-assignment", "%s duty of validator %d for slot %d dispatched, but the most recently fetched assignment (%s) does not contain it", r.role, r.v, r.slot, m.dump())
			}
		}
	}
	if !isTick {
		return viol, labels
	}
	// "exactly once", weakest reading: the duty was in an assignment fetched successfully before
	// this tick, no reorg / indices-change notice has arrived since that fetch, and every re-fetch
	// inside this tick confirmed it (a re-fetch that drops the duty makes not dispatching right).
	if snap == nil && len(inTick) == 0 {
		labels = append(labels, "tick-without-assignment")
	}
	if snap != nil {
		var vs []int
		for p := range snap.pairs {
			if snap.has(k, p[0], slot) && (k == kindSync || p[1] == slot) {
				vs = append(vs, p[0])
			}
		}
		sort.Ints(vs)
		for _, v := range vs {
			if !snap.committee[v] {
				if count[dkey(k.roles()[0], v)] > 0 {
					labels = append(labels, "dispatched/not-committee-at-fetch")
				} else {
					labels = append(labels, "not-dispatched/not-committee")
				}
				continue
			}
			confirmed := true
			for _, a := range inTick {
				if !a.has(k, v, slot) || !a.committee[v] {
					confirmed = false
				}
			}
			obligated := !snap.dirty && confirmed
			for _, ro := range k.roles() {
				n := count[dkey(ro, v)]
				switch {
				case n >= 1 && obligated:
					labels = append(labels, "dispatched/obligated")
				case n >= 1 && snap.dirty:
					labels = append(labels, "dispatched/not-obligated(notice-since-fetch)")
				case n >= 1:
					labels = append(labels, "dispatched/then-dropped-by-refetch-in-tick")
				case obligated:
					fail("missed-dispatch", "%s duty of validator %d at slot %d not dispatched although its assignment was fetched before the tick and no reorg/indices notice arrived since", ro, v, slot)
				case !confirmed:
					labels = append(labels, "not-dispatched/dropped-by-refetch-in-tick")
				case len(inTick) > 0:
					labels = append(labels, "not-dispatched/notice-since-fetch,re-fetched-after-execution-in-this-tick(excused)")
				case snap.refetchFailed:
					labels = append(labels, "not-dispatched/notice-since-fetch,re-fetch-failed(excused)")
				default:
					labels = append(labels, labelDropped)
				}
			}
		}
	}
	sort.Strings(labels)
	return viol, labels
}
