package main

import (
	"context"
	"fmt"
	"os"
	"sort"
	"strings"

	eth2apiv1 "github.com/attestantio/go-eth2-client/api/v1"
	"github.com/attestantio/go-eth2-client/spec/phase0"
	"go.uber.org/zap"

	"github.com/bloxapp/ssv/networkconfig"
	"github.com/bloxapp/ssv/operator/duties"
	"github.com/bloxapp/ssv/operator/slotticker"

	"verifharness/lib/ev"
)

// Second search: the real Scheduler.HandleHeadEvent turns head events into the reorg notices the
// handlers above are fed with. Every sequence of head events (same slot / next slot / first slot of
// the next epoch, previous and current dependent root each one of two values, plus a stale head
// event and one without data) up to a depth is run on a fresh real Scheduler; the notices written
// to its private reorg channel are compared with the dependent-root contract:
//   same epoch:  previous root changed -> {Previous}, current root changed -> {Current} (in that order)
//   epoch + 1:   new previous root != old current root -> {Previous}
//   every notice carries the head event's slot (= current slot); nothing else is ever emitted.

type headEvent struct {
	move int // 0 same slot, 1 next slot, 2 first slot of next epoch, 3 stale (slot-1), 4 no data
	p, c byte
}

func (h headEvent) String() string {
	switch h.move {
	case 3:
		return fmt.Sprintf("stale-head(prev=%c,cur=%c)", h.p, h.c)
	case 4:
		return "head-without-data"
	}
	return fmt.Sprintf("head(%s,prev=%c,cur=%c)", []string{"same-slot", "next-slot", "next-epoch"}[h.move], h.p, h.c)
}

func headAlphabet() []headEvent {
	var out []headEvent
	for move := 0; move < 3; move++ {
		for _, p := range []byte{'A', 'B'} {
			for _, c := range []byte{'A', 'B'} {
				out = append(out, headEvent{move, p, c})
			}
		}
	}
	out = append(out, headEvent{3, 'B', 'B'}, headEvent{3, 'A', 'A'}, headEvent{move: 4})
	return out
}

const headStartSlot = 2*slotsPerEpoch + 5

type headRun struct {
	w     *world
	s     *duties.Scheduler
	fn    func(*eth2apiv1.Event)
	reorg chan duties.ReorgEvent
	// reference
	have         bool
	epoch        int
	lastP, lastC byte
}

func newHeadRun() *headRun {
	w := &world{}
	w.clock.Store(headStartSlot)
	tk := &fakeTicker{}
	s := duties.NewScheduler(&duties.SchedulerOptions{Ctx: context.Background(), BeaconNode: &fakeBN{w: w},
		Network: networkconfig.NetworkConfig{Name: "c16", Beacon: &fakeNet{w: w}}, ValidatorController: &fakeVC{w: w},
		IndicesChg: make(chan struct{}), SlotTickerProvider: func() slotticker.SlotTicker { return tk }})
	duties.VerifSchedulerNoPropagationSleep(s)
	return &headRun{w: w, s: s, fn: s.HandleHeadEvent(zap.NewNop()), reorg: duties.VerifSchedulerReorgChan(s)}
}

func root(b byte) (r phase0.Root) {
	r[0] = b
	return
}

// step delivers one head event to the real callback and returns (observed, expected) notices.
func (h *headRun) step(e headEvent) (got, want []string) {
	clock := int(h.w.clock.Load())
	slot := clock
	switch e.move {
	case 1:
		slot = clock + 1
	case 2:
		slot = (clock/slotsPerEpoch + 1) * slotsPerEpoch
	case 3:
		slot = clock - 1
	}
	if e.move == 1 || e.move == 2 {
		h.w.clock.Store(uint64(slot))
	}
	evt := &eth2apiv1.Event{Topic: "head"}
	if e.move != 4 {
		evt.Data = &eth2apiv1.HeadEvent{Slot: phase0.Slot(slot), PreviousDutyDependentRoot: root(e.p), CurrentDutyDependentRoot: root(e.c)}
	}
	done := make(chan struct{})
	go func() { defer close(done); h.fn(evt) }()
loop:
	for {
		select {
		case n := <-h.reorg:
			got = append(got, fmt.Sprintf("{slot=%d previous=%t current=%t}", n.Slot, n.Previous, n.Current))
		case <-done:
			break loop
		}
	}
	if e.move >= 3 {
		return got, nil
	}
	epoch := slot / slotsPerEpoch
	if h.have {
		if epoch > h.epoch {
			if h.lastC != e.p {
				want = append(want, fmt.Sprintf("{slot=%d previous=true current=false}", slot))
			}
		} else {
			if h.lastP != e.p {
				want = append(want, fmt.Sprintf("{slot=%d previous=true current=false}", slot))
			}
			if h.lastC != e.c {
				want = append(want, fmt.Sprintf("{slot=%d previous=false current=true}", slot))
			}
		}
	}
	h.have, h.epoch, h.lastP, h.lastC = true, epoch, e.p, e.c
	return got, want
}

func (h *headRun) key() string {
	return fmt.Sprintf("clock=%d %s", h.w.clock.Load(), duties.VerifSchedulerHeadState(h.s))
}

func exploreHead(r *ev.Run, outcomes map[string]int) (states, transitions int, complete bool) {
	depth := 5
	if r.Thorough() {
		depth = 7
	}
	alpha := headAlphabet()
	type hnode struct {
		key  string
		path []int
	}
	root := newHeadRun()
	seen := map[string]bool{root.key(): true}
	frontier := []hnode{{key: root.key()}}
	for d := 0; d < depth && len(frontier) > 0; d++ {
		var next []hnode
		for _, n := range frontier {
			if r.Expired() {
				r.CapHit("deadline in HandleHeadEvent search")
				return len(seen), transitions, false
			}
			for ai, a := range alpha {
				h := newHeadRun()
				for _, pi := range n.path {
					h.step(alpha[pi])
				}
				if h.key() != n.key {
					ev.Fatal("head search: replay diverged: %s vs %s", h.key(), n.key)
				}
				got, want := h.step(a)
				transitions++
				label := "head: no notice"
				if len(got) > 0 {
					label = "head: " + strings.Join(got, "+")
					label = strings.NewReplacer(fmt.Sprintf("slot=%d ", int(h.w.clock.Load())), "").Replace(label)
				}
				outcomes[label]++
				path := append(append([]int{}, n.path...), ai)
				if strings.Join(got, " ") != strings.Join(want, " ") {
					var names []string
					for _, pi := range path {
						names = append(names, alpha[pi].String())
					}
					sig := "scheduler head-event-notice-mismatch " + a.String()
					r.Violate(sig, fmt.Sprintf("HandleHeadEvent emitted %v, dependent-root contract expects %v", got, want), "c16-head",
						map[string]interface{}{"events": names, "path": path}, got, want)
					continue
				}
				if k := h.key(); !seen[k] {
					seen[k] = true
					next = append(next, hnode{key: k, path: path})
				}
			}
		}
		frontier = next
	}
	return len(seen), transitions, true
}

func replayHead(r *ev.Run, tr map[string]interface{}) {
	alpha := headAlphabet()
	h := newHeadRun()
	bad := false
	for _, x := range tr["path"].([]interface{}) {
		a := alpha[int(x.(float64))]
		got, want := h.step(a)
		sort.Strings(nil)
		fmt.Printf("  %-36s -> emitted %v expected %v ; %s\n", a, got, want, h.key())
		if strings.Join(got, " ") != strings.Join(want, " ") {
			bad = true
		}
	}
	if bad {
		fmt.Printf("VIOLATION property=C16 replay=%s\n", r.Replay)
		os.Exit(1)
	}
	fmt.Println("not reproduced")
	os.Exit(0)
}
