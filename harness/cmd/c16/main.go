// C16 — each assigned beacon duty is dispatched exactly once, at its slot.
//
// Explicit-state search (E1) over the REAL duty handlers of operator/duties: for each of
// AttesterHandler, ProposerHandler and SyncCommitteeHandler the real HandleDuties loop runs in its
// goroutine and the harness feeds exactly one of its three unbuffered channels at a time (fake
// SlotTicker, reorg, indices-change). An event is complete when the loop accepts the next send
// (two no-op reorg notices are used as barrier). Live handlers cannot be cloned, so the search is
// by state with replay of the event path on fresh real handlers. Every dispatch and every fetch is
// compared with the reference model in model.go.
//
// A second, small search drives the real Scheduler.HandleHeadEvent (head event -> reorg notice).
package main

import (
	"context"
	"fmt"
	"os"
	"runtime"
	"runtime/pprof"
	"sort"
	"strings"
	"sync"
	"time"

	"github.com/attestantio/go-eth2-client/spec/phase0"
	"go.uber.org/zap"

	"github.com/bloxapp/ssv/networkconfig"
	"github.com/bloxapp/ssv/operator/duties"
	"github.com/bloxapp/ssv/operator/duties/dutystore"
	"github.com/bloxapp/ssv/operator/slotticker"

	"verifharness/lib/ev"
)

// ---- events ----

const (
	evTick byte = iota
	evReorgPrev
	evReorgCur
	evIndices
	evFailNext
	evBump
	evAdvance // only in "early notice" configurations: the clock reaches the next slot, its tick is still pending
	evSlow    // only in "slow fetch" configurations: the next fetch inside a tick returns after the next slot has begun
	numEvents
)

var eventNames = []string{"tick", "reorg-previous", "reorg-current", "indices-change", "next-fetch-fails", "bump-assignment-version", "clock-reaches-next-slot", "next-fetch-overruns-the-slot"}

func pathString(p []byte) []string {
	out := make([]string, len(p))
	for i, e := range p {
		out[i] = eventNames[e]
	}
	return out
}

type config struct {
	kind      handlerKind
	startSlot int  // clock when the handler is set up (HandleInitialDuties runs here); first tick = startSlot+1
	initFail  bool // the first fetch (possibly the one of HandleInitialDuties) fails
	ticks     int  // number of ticks of a complete run
	budget    int  // max number of non-tick events per run
	// early: the clock reaching slot s and the handler taking tick(s) are two events, so notices
	// (stamped with the new slot, as HandleHeadEvent does) can be processed before the tick of
	// their slot - the order the handler's select produces when both channels are ready.
	early bool
	// slow (not together with early): a fetch made while a tick is processed may return only after
	// the next slot has begun (the beacon node is slow). The clock is then one slot ahead for the
	// rest of that tick, and - as operator/slotticker computes the next tick from the clock - the
	// tick of the overrun slot never happens: the next tick is the one of the slot after it.
	slow bool
}

func (c config) String() string {
	e := ""
	if c.early {
		e = " early-notices"
	}
	if c.slow {
		e += " slow-fetches"
	}
	return fmt.Sprintf("%s start=%d initFail=%t ticks=%d nonTick<=%d%s", kindNames[c.kind], c.startSlot, c.initFail, c.ticks, c.budget, e)
}

// ---- one live run: real handler + fakes + reference model ----

type run struct {
	cfg    config
	w      *world
	ticker *fakeTicker
	reorg  chan duties.ReorgEvent
	idx    chan struct{}
	cancel context.CancelFunc
	done   chan struct{}
	store  *dutystore.Store
	att    *duties.AttesterHandler
	prop   *duties.ProposerHandler
	sync   *duties.SyncCommitteeHandler
	m      *model

	ticksDone int
	used      int
	pending   bool // early configurations: the clock is at the slot of a tick not yet delivered
	hung      bool
	timer     *time.Timer // hang detector, re-armed per send
}

// hang detector for a send the handler never accepts: 60 s, against the microseconds an honest
// handler needs (it only ever shows on a modified tree; it is reported as a violation).
const hangAfter = 60 * time.Second

func sendOrHang[T any](t *time.Timer, ch chan T, v T) bool {
	select {
	case ch <- v:
		return true
	default:
	}
	t.Reset(hangAfter)
	defer t.Stop()
	select {
	case ch <- v:
		return true
	case <-t.C:
		return false
	}
}

// barrier: a reorg notice with neither flag set is a no-op for every handler (checked by selfCheck).
// It is accepted only when the loop is back in its select, i.e. after the previous event has been
// processed completely - this is how completion of an event is observed. A second one (quiesce)
// is sent before the handler's private state is read, so that the no-op itself is over as well.
func (r *run) barrier() bool {
	if !sendOrHang(r.timer, r.reorg, duties.ReorgEvent{Slot: phase0.Slot(r.w.clock.Load())}) {
		r.hung = true
		return false
	}
	return true
}

func newRun(c config) (*run, *violation) {
	w := &world{}
	w.clock.Store(uint64(c.startSlot))
	w.failNext = c.initFail
	r := &run{cfg: c, w: w, ticker: &fakeTicker{c: make(chan time.Time)}, reorg: make(chan duties.ReorgEvent),
		idx: make(chan struct{}), done: make(chan struct{}), store: dutystore.New(), m: newModel(c.kind), timer: time.NewTimer(hangAfter)}
	r.timer.Stop()
	netCfg := networkconfig.NetworkConfig{Name: "c16", Beacon: &fakeNet{w: w}}
	provider := func() slotticker.SlotTicker { return r.ticker }
	ctx, cancel := context.WithCancel(context.Background())
	r.cancel = cancel
	logger := zap.NewNop()
	type handler interface {
		Setup(string, *zap.Logger, duties.BeaconNode, duties.ExecutionClient, networkconfig.NetworkConfig, duties.ValidatorController, duties.ExecuteDutiesFunc, slotticker.Provider, chan duties.ReorgEvent, chan struct{})
		HandleDuties(context.Context)
		HandleInitialDuties(context.Context)
		Name() string
	}
	var h handler
	switch c.kind {
	case kindAttester:
		r.att = duties.NewAttesterHandler(r.store.Attester)
		h = r.att
	case kindProposer:
		r.prop = duties.NewProposerHandler(r.store.Proposer)
		h = r.prop
	case kindSync:
		r.sync = duties.NewSyncCommitteeHandler(r.store.SyncCommittee)
		h = r.sync
	}
	// exactly what Scheduler.Start does per handler: Setup, HandleInitialDuties (blocking), HandleDuties
	h.Setup(h.Name(), logger, &fakeBN{w: w}, nil, netCfg, &fakeVC{w: w}, w.executeDuties, provider, r.reorg, r.idx)
	h.HandleInitialDuties(ctx)
	viol, _ := r.m.judge(false, c.startSlot, w.takeLog(), nil)
	go func() {
		defer close(r.done)
		h.HandleDuties(ctx)
	}()
	if !r.barrier() {
		return r, &violation{"handler-hung", "handler did not reach its select after start"}
	}
	if v, _ := r.m.judge(false, c.startSlot, w.takeLog(), nil); viol == nil {
		viol = v
	}
	return r, viol
}

func (r *run) close() {
	r.cancel()
	if !r.hung {
		<-r.done
	}
}

func (r *run) enabled(e byte) bool {
	if r.ticksDone >= r.cfg.ticks {
		return false // nothing is observable after the last tick
	}
	if e == evAdvance {
		return r.cfg.early && !r.pending
	}
	if e == evSlow {
		return r.cfg.slow && r.used < r.cfg.budget && !r.w.slowNext
	}
	if e == evTick {
		return !r.cfg.early || r.pending
	}
	if r.used >= r.cfg.budget {
		return false
	}
	switch e {
	case evFailNext:
		return !r.w.failNext
	case evBump:
		return true
	}
	return true
}

// step applies one event to the real handler, waits for its completion and judges what happened.
func (r *run) step(e byte) (*violation, []string) {
	w := r.w
	isTick := e == evTick
	tickSlot := 0
	ok := true
	var held map[[2]int]bool
	switch e {
	case evAdvance:
		w.clock.Store(w.clock.Load() + 1)
		r.pending = true
	case evTick:
		s := w.clock.Load()
		if !r.cfg.early {
			s++
			w.clock.Store(s)
		}
		r.pending = false
		held = r.heldAt(int(s))
		tickSlot = int(s)
		w.mu.Lock()
		w.inTick = true
		w.mu.Unlock()
		r.ticker.slot.Store(s)
		ok = sendOrHang(r.timer, r.ticker.c, time.Time{})
		r.ticksDone++
	case evReorgPrev:
		ok = sendOrHang(r.timer, r.reorg, duties.ReorgEvent{Slot: phase0.Slot(w.clock.Load()), Previous: true})
	case evReorgCur:
		ok = sendOrHang(r.timer, r.reorg, duties.ReorgEvent{Slot: phase0.Slot(w.clock.Load()), Current: true})
	case evIndices:
		w.mu.Lock()
		w.vcSet = 1 // validator 2 joins the operator's committee set, then the notice is sent
		w.mu.Unlock()
		ok = sendOrHang(r.timer, r.idx, struct{}{})
	case evFailNext:
		w.mu.Lock()
		w.failNext = true
		w.mu.Unlock()
	case evBump:
		w.mu.Lock()
		w.version++
		w.mu.Unlock()
	case evSlow:
		w.mu.Lock()
		w.slowNext = true
		w.mu.Unlock()
	}
	if !isTick && e != evAdvance {
		r.used++
	}
	if !ok || (e != evFailNext && e != evBump && e != evAdvance && e != evSlow && !r.barrier()) {
		r.hung = true
		return &violation{"handler-hung", fmt.Sprintf("handler did not accept / complete %s within %v", eventNames[e], hangAfter)}, nil
	}
	if e == evReorgPrev || e == evReorgCur || e == evIndices {
		r.m.notice(e, int(w.clock.Load()))
	}
	if isTick {
		w.mu.Lock()
		w.inTick = false
		w.mu.Unlock()
		return r.m.judge(true, tickSlot, w.takeLog(), held)
	}
	return r.m.judge(false, int(w.clock.Load()), w.takeLog(), held)
}

func (r *run) flags() string {
	switch r.cfg.kind {
	case kindAttester:
		return duties.VerifAttesterFlags(r.att)
	case kindProposer:
		return duties.VerifProposerFlags(r.prop)
	}
	return duties.VerifSyncCommitteeFlags(r.sync)
}

func (r *run) storeDump() string {
	var b strings.Builder
	switch r.cfg.kind {
	case kindAttester:
		for _, e := range dutystore.VerifDump(r.store.Attester) {
			fmt.Fprintf(&b, "%d/%d/%d/%t>%d,%d;", e.Epoch, e.Slot, e.Validator, e.InCommittee, e.Duty.ValidatorIndex, e.Duty.Slot)
		}
	case kindProposer:
		for _, e := range dutystore.VerifDump(r.store.Proposer) {
			fmt.Fprintf(&b, "%d/%d/%d/%t>%d,%d;", e.Epoch, e.Slot, e.Validator, e.InCommittee, e.Duty.ValidatorIndex, e.Duty.Slot)
		}
	default:
		for _, e := range dutystore.VerifDumpSync(r.store.SyncCommittee) {
			fmt.Fprintf(&b, "%d/%d/%t>%d;", e.Epoch, e.Validator, e.InCommittee, e.Duty.ValidatorIndex)
		}
	}
	return b.String()
}

// heldAt: the in-committee duties of the epoch/period of slot that the real store contains for that
// slot, read just before the tick is delivered (the handler is parked or finishing a no-op
// barrier notice; it does not write the store).
func (r *run) heldAt(slot int) map[[2]int]bool {
	out := map[[2]int]bool{}
	u := uint64(r.cfg.kind.unitOfSlot(slot))
	switch r.cfg.kind {
	case kindAttester:
		for _, e := range dutystore.VerifDump(r.store.Attester) {
			if e.Epoch == u && e.Slot == uint64(slot) && e.InCommittee {
				out[[2]int{int(e.Validator), slot}] = true
			}
		}
	case kindProposer:
		for _, e := range dutystore.VerifDump(r.store.Proposer) {
			if e.Epoch == u && e.Slot == uint64(slot) && e.InCommittee {
				out[[2]int{int(e.Validator), slot}] = true
			}
		}
	default:
		for _, e := range dutystore.VerifDumpSync(r.store.SyncCommittee) {
			if e.Epoch == u && e.InCommittee {
				out[[2]int{int(e.Validator), 0}] = true
			}
		}
	}
	return out
}

// key: harness-owned environment + the handler's private flags and duty store (both read from the
// real objects) + the reference model. Equal keys have equal futures.
func (r *run) key() string {
	if !r.hung && !r.barrier() {
		ev.Fatal("%s: handler stopped accepting notices while its state was read", r.cfg)
	}
	w := r.w
	w.mu.Lock()
	env := fmt.Sprintf("slot=%d used=%d ver=%d vc=%d fail=%t", w.clock.Load(), r.used, w.version, w.vcSet, w.failNext)
	if w.slowNext {
		env += " slow-next"
	}
	if r.pending {
		env += " tick-pending"
	}
	w.mu.Unlock()
	return env + " | " + r.flags() + " | " + r.storeDump() + " | " + r.m.dump()
}

// ---- explorer ----

// observations: first explored trace per handler of the labelLate outcome (informational).
var observations = map[handlerKind]map[string]interface{}{}

type node struct {
	key  string
	path []byte
}

type result struct {
	key    string
	path   []byte
	viol   *violation
	labels []string
}

// expand replays n.path on a fresh real handler, then applies event e.
func expand(c config, n node, e byte) (res result, ok bool) {
	r, v := newRun(c)
	defer r.close()
	if v != nil {
		ev.Fatal("%s: violation %s while replaying the start of an already explored path", c, v.clause)
	}
	for _, pe := range n.path {
		if v, _ := r.step(pe); v != nil {
			ev.Fatal("%s: violation %s while replaying an already explored prefix %v", c, v.clause, pathString(n.path))
		}
	}
	if k := r.key(); k != n.key {
		ev.Fatal("%s: replay diverged after %v:\n recorded %s\n replayed %s", c, pathString(n.path), n.key, k)
	}
	if !r.enabled(e) {
		return res, false
	}
	viol, labels := r.step(e)
	res = result{path: append(append(make([]byte, 0, len(n.path)+1), n.path...), e), viol: viol, labels: labels}
	if viol == nil {
		res.key = r.key()
	}
	return res, true
}

type stats struct {
	states, transitions, maxDepth int
	complete                      bool
}

func explore(r *ev.Run, c config, outcomes map[string]int, workers int) stats {
	root, v := newRun(c)
	rootKey := root.key()
	root.close()
	if v != nil {
		report(r, c, nil, v)
		return stats{complete: true}
	}
	seen := map[string]bool{rootKey: true}
	frontier := []node{{key: rootKey}}
	st := stats{states: 1, complete: true}
	var last node
	for depth := 0; len(frontier) > 0; depth++ {
		if r.Expired() {
			r.CapHit(fmt.Sprintf("deadline in %s at depth %d", c, depth))
			st.complete = false
			return st
		}
		st.maxDepth = depth
		// rotate the frontier by the seed: only permutes which worker gets which state
		if r.Seed != 0 && len(frontier) > 1 {
			k := r.Seed % len(frontier)
			if k < 0 {
				k += len(frontier)
			}
			frontier = append(frontier[k:], frontier[:k]...)
		}
		results := make([][]result, len(frontier))
		var wg sync.WaitGroup
		next := make(chan int, len(frontier))
		for i := range frontier {
			next <- i
		}
		close(next)
		expired := false
		var emu sync.Mutex
		for wkr := 0; wkr < workers; wkr++ {
			wg.Add(1)
			go func() {
				defer wg.Done()
				for i := range next {
					if i%64 == 0 && r.Expired() {
						emu.Lock()
						expired = true
						emu.Unlock()
					}
					emu.Lock()
					x := expired
					emu.Unlock()
					if x {
						continue
					}
					for e := byte(0); e < numEvents; e++ {
						if res, ok := expand(c, frontier[i], e); ok {
							results[i] = append(results[i], res)
						}
					}
				}
			}()
		}
		wg.Wait()
		if expired {
			r.CapHit(fmt.Sprintf("deadline in %s at depth %d", c, depth))
			st.complete = false
			return st
		}
		// merge deterministically: by (key, path)
		var all []result
		for _, rs := range results {
			all = append(all, rs...)
		}
		sort.Slice(all, func(i, j int) bool {
			if all[i].key != all[j].key {
				return all[i].key < all[j].key
			}
			return string(all[i].path) < string(all[j].path)
		})
		var nf []node
		for _, res := range all {
			st.transitions++
			for _, l := range res.labels {
				outcomes[kindNames[c.kind]+": "+l]++
				if l == labelLate && observations[c.kind] == nil && !c.early {
					observations[c.kind] = map[string]interface{}{"handler": kindNames[c.kind], "config": c.String(), "events": pathString(res.path),
						"observation": "at the last tick a duty of an assignment that had been fetched successfully was not dispatched: a notice made the handler drop the assignment and it fetched it again only after the execution step of the duty's tick (excused: the handler is re-fetching)"}
				}
			}
			if res.viol != nil {
				report(r, c, res.path, res.viol)
				continue
			}
			if !seen[res.key] {
				seen[res.key] = true
				st.states++
				nf = append(nf, node{key: res.key, path: res.path})
				last = nf[len(nf)-1]
			}
		}
		frontier = nf
	}
	if last.path != nil {
		// one complete explored run per configuration (the last state reached at the deepest level)
		r.Sample(map[string]interface{}{"config": c.String(), "events": pathString(last.path), "final_state": last.key})
	}
	return st
}

// report re-runs the path (determinism) and records the violation.
func report(r *ev.Run, c config, path []byte, v *violation) {
	for i := 0; i < 4; i++ {
		v2 := rerun(c, path, false)
		if v2 == nil || v2.clause != v.clause {
			ev.Fatal("%s: violation %s after %v does not reproduce on re-run", c, v.clause, pathString(path))
		}
	}
	sig := fmt.Sprintf("%s %s", kindNames[c.kind], v.clause)
	r.Violate(sig, v.what, "c16-"+kindNames[c.kind], map[string]interface{}{
		"handler": kindNames[c.kind], "start_slot": c.startSlot, "init_fetch_fails": c.initFail,
		"ticks": c.ticks, "budget": c.budget, "early_notices": c.early, "slow_fetches": c.slow, "events": pathString(path), "path": encodePath(path),
		"slots_per_epoch": slotsPerEpoch, "epochs_per_sync_period": epochsPerPeriod,
	}, v.clause, "no violation of the C16 clauses")
}

func encodePath(p []byte) string {
	var b strings.Builder
	for _, e := range p {
		b.WriteByte('0' + e)
	}
	return b.String()
}

// rerun executes a path on a fresh handler; verbose prints every step.
func rerun(c config, path []byte, verbose bool) *violation {
	r, v := newRun(c)
	defer r.close()
	if verbose {
		fmt.Printf("  start: %s\n", r.key())
	}
	if v != nil {
		return v
	}
	for i, e := range path {
		if !r.enabled(e) {
			ev.Fatal("event %d (%s) of the path is not enabled", i, eventNames[e])
		}
		v, labels := r.step(e)
		if verbose {
			fmt.Printf("  %2d %-24s -> %s  %v\n", i, eventNames[e], r.key(), labels)
		}
		if v != nil {
			return v
		}
	}
	return nil
}

// selfCheck: the barrier notice must be a no-op on the real handler, otherwise completion of an
// event could not be observed this way (engine error, not a verdict).
func selfCheck(c config) {
	r, _ := newRun(c)
	defer r.close()
	for i := 0; i < 4; i++ {
		if c.early {
			r.step(evAdvance)
		}
		r.step(evTick)
	}
	k1 := r.key()
	for i := 0; i < 3; i++ {
		if !r.barrier() {
			ev.Fatal("self-check: %s does not accept the barrier notice", c)
		}
	}
	if l := r.w.takeLog(); len(l) != 0 {
		ev.Fatal("self-check: barrier notice made the %s handler act: %+v", kindNames[c.kind], l)
	}
	if k2 := r.key(); k1 != k2 {
		ev.Fatal("self-check: barrier notice is not a no-op for the %s handler:\n %s\n %s", kindNames[c.kind], k1, k2)
	}
}

func main() {
	r := ev.Start("C16", "model_checking")
	if pf := os.Getenv("C16_CPUPROFILE"); pf != "" {
		f, _ := os.Create(pf)
		pprof.StartCPUProfile(f)
		defer pprof.StopCPUProfile()
	}
	if r.Replay != "" {
		replay(r)
		return
	}
	workers := runtime.NumCPU()
	if workers > 16 {
		workers = 16
	}
	// plan: start slot, budget of non-tick events, early notices, which (handler, initial fetch
	// fails) combinations. With start slot 15 the fetch of HandleInitialDuties concerns an epoch /
	// period that is over at the first tick, so a failing initial fetch is only distinct for the
	// attester (which has no initial fetch: its first tick's fetch fails instead).
	type combo struct {
		kind     handlerKind
		initFail bool
	}
	type planEntry struct {
		start, budget int
		early         bool
		combos        []combo
		slow          bool
	}
	all := []combo{{kindAttester, false}, {kindAttester, true}, {kindProposer, false}, {kindProposer, true}, {kindSync, false}, {kindSync, true}}
	noFail := []combo{{kindAttester, false}, {kindProposer, false}, {kindSync, false}}
	plan := []planEntry{
		{15, 3, false, []combo{{kindAttester, false}, {kindAttester, true}, {kindProposer, false}, {kindSync, false}}, false},
		{18, 3, false, []combo{{kindProposer, true}, {kindSync, true}}, false}, // mid-epoch start, failing initial fetch
		{15, 2, true, noFail, false},
		{15, 2, false, noFail, true}, // fetches that overrun their slot
	}
	if r.Thorough() {
		plan = []planEntry{{15, 5, false, all, false}, {18, 5, false, all, false}, {15, 4, true, noFail, false}, {15, 4, false, noFail, true}}
	}
	if s := os.Getenv("C16_PLAN"); s != "" { // development aid: "start,budget,early;..."
		plan = nil
		for _, f := range strings.Split(s, ";") {
			pe := planEntry{combos: all}
			var e int
			fmt.Sscanf(f, "%d,%d,%d", &pe.start, &pe.budget, &e)
			pe.early = e != 0
			plan = append(plan, pe)
		}
	}
	const ticks = 3 * slotsPerEpoch
	outcomes := map[string]int{}
	exhaustive := true
	var bounds []string
	for _, pe := range plan {
		for _, cb := range pe.combos {
			{
				c := config{kind: cb.kind, startSlot: pe.start, initFail: cb.initFail, ticks: ticks, budget: pe.budget, early: pe.early, slow: pe.slow}
				selfCheck(c)
				t0 := time.Now()
				st := explore(r, c, outcomes, workers)
				r.Add("states", st.states)
				r.Add("transitions", st.transitions)
				exhaustive = exhaustive && st.complete
				bounds = append(bounds, fmt.Sprintf("%s: states=%d transitions=%d depth=%d complete=%v", c, st.states, st.transitions, st.maxDepth, st.complete))
				fmt.Fprintf(os.Stderr, "c16: %s: states=%d transitions=%d depth=%d complete=%v (%.1fs)\n", c, st.states, st.transitions, st.maxDepth, st.complete, time.Since(t0).Seconds())
			}
		}
	}
	headStates, headTransitions, headComplete := exploreHead(r, outcomes)
	r.Add("states", headStates)
	r.Add("transitions", headTransitions)
	exhaustive = exhaustive && headComplete
	bounds = append(bounds, fmt.Sprintf("scheduler.HandleHeadEvent: states=%d transitions=%d complete=%v", headStates, headTransitions, headComplete))

	r.Set("traces_validated_against_impl", r.Get("transitions"))
	r.Set("bounds", bounds)
	r.Set("alphabet", eventNames)
	r.Set("distinct_outcomes", len(outcomes))
	r.Set("outcome_histogram", outcomes)
	var obs []interface{}
	for _, k := range []handlerKind{kindAttester, kindProposer, kindSync} {
		if o := observations[k]; o != nil {
			obs = append(obs, o)
		}
	}
	r.Set("observations_beyond_the_property", obs)
	r.Assume(
		"handlers are driven directly through Setup/HandleInitialDuties/HandleDuties as Scheduler.Start does, one handler at a time (they share no state); the scheduler's two fan-out goroutines are replaced by the explicit enumeration of the order of reorg and indices-change notices",
		"dispatch = one duty in one call of the ExecuteDutiesFunc handed to the handler (Scheduler.ExecuteDuties' waiting for one third of the slot is not part of this check)",
		"the clock advances exactly at a tick (tick(s) is processed with EstimatedCurrentSlot = s); notices carry the current slot, as HandleHeadEvent guarantees",
		"exactly-once: a duty binds when its assignment was fetched successfully before the tick and either no notice concerning that epoch/period (per the handlers' documented contract) has arrived since, or the handler still held the duty in its store when the tick was delivered; a duty released by a notice is excused only if a re-fetch of its epoch/period has been attempted by the end of its tick",
		"indices-change adds validator 2 to the committee-active set and then notifies; validator 3 is active but not in the operator's committee",
		"8 slots per epoch, 2 epochs per sync-committee period, taken by the handlers from the BeaconNetwork interface; slot start times lie in the far future of the real clock so no context deadline fires",
	)
	pprof.StopCPUProfile()
	r.Finish(exhaustive)
}

func replay(r *ev.Run) {
	v, err := ev.LoadReplay(r.Replay)
	if err != nil {
		ev.Fatal("%v", err)
	}
	fmt.Printf("replay %s: %s\n", r.Replay, v.What)
	tr, _ := v.Trace.(map[string]interface{})
	if v.Harness == "c16-head" {
		replayHead(r, tr)
		return
	}
	c := config{startSlot: int(tr["start_slot"].(float64)), initFail: tr["init_fetch_fails"].(bool),
		ticks: int(tr["ticks"].(float64)), budget: int(tr["budget"].(float64))}
	if e, ok := tr["early_notices"].(bool); ok {
		c.early = e
	}
	if e, ok := tr["slow_fetches"].(bool); ok {
		c.slow = e
	}
	for i, n := range kindNames {
		if n == tr["handler"].(string) {
			c.kind = handlerKind(i)
		}
	}
	var path []byte
	for _, ch := range tr["path"].(string) {
		path = append(path, byte(ch-'0'))
	}
	fmt.Printf("config: %s\n", c)
	got := rerun(c, path, true)
	if got != nil {
		fmt.Printf("reproduced: %s: %s\n", got.clause, got.what)
		fmt.Printf("VIOLATION property=C16 replay=%s\n", r.Replay)
		os.Exit(1)
	}
	fmt.Println("not reproduced")
	os.Exit(0)
}
