package main

import (
	"context"
	"crypto/sha256"
	"encoding/hex"
	"errors"
	"fmt"
	"sort"
	"strings"
	"time"

	"github.com/attestantio/go-eth2-client/spec/phase0"
	spectypes "github.com/bloxapp/ssv-spec/types"
	"github.com/bloxapp/ssv-spec/types/testingutils"
	"github.com/herumi/bls-eth-go-binary/bls"
	"go.uber.org/zap"

	"github.com/bloxapp/ssv/ekm"
	"github.com/bloxapp/ssv/networkconfig"
	"github.com/bloxapp/ssv/protocol/v2/blockchain/beacon"
	"github.com/bloxapp/ssv/storage/basedb"
	"github.com/bloxapp/ssv/storage/kv"

	"verifharness/lib/ev"
)

// ---------------------------------------------------------------------------------------------
// fake beacon network: the harness owns the clock. No method reads real time.
// ---------------------------------------------------------------------------------------------

const (
	slotsPerEpoch = 2 // small on purpose: "+1 slot" then changes the epoch every other step
	// the share's network name: eth2-key-manager derives its real-time "far future" bound from
	// core.Network(name).MinGenesisTime(), which exists only for real networks. Prater's genesis is
	// 2021, so the bound is > 10^5 epochs / > 10^6 slots at any wall-clock time after genesis; the
	// harness uses epochs <= 6 and slots <= 13, so the guard is constant-true and time never decides.
	netName = spectypes.PraterNetwork
)

type fakeNet struct{ w *world }

func (n fakeNet) ForkVersion() [4]byte                    { return netName.ForkVersion() }
func (n fakeNet) MinGenesisTime() uint64                  { return 0 }
func (n fakeNet) SlotDurationSec() time.Duration          { return 12 * time.Second }
func (n fakeNet) SlotsPerEpoch() uint64                   { return slotsPerEpoch }
func (n fakeNet) EstimatedCurrentSlot() phase0.Slot       { return phase0.Slot(n.w.clock) }
func (n fakeNet) EstimatedSlotAtTime(t int64) phase0.Slot { return phase0.Slot(t / 12) }
func (n fakeNet) EstimatedTimeAtSlot(s phase0.Slot) int64 { return int64(s) * 12 }
func (n fakeNet) EstimatedCurrentEpoch() phase0.Epoch {
	return phase0.Epoch(n.w.clock / slotsPerEpoch)
}
func (n fakeNet) EstimatedEpochAtSlot(s phase0.Slot) phase0.Epoch {
	return phase0.Epoch(uint64(s) / slotsPerEpoch)
}
func (n fakeNet) FirstSlotAtEpoch(e phase0.Epoch) phase0.Slot {
	return phase0.Slot(uint64(e) * slotsPerEpoch)
}
func (n fakeNet) EpochStartTime(e phase0.Epoch) time.Time {
	return time.Unix(int64(uint64(e)*slotsPerEpoch*12), 0)
}
func (n fakeNet) GetSlotStartTime(s phase0.Slot) time.Time { return time.Unix(int64(s)*12, 0) }
func (n fakeNet) GetSlotEndTime(s phase0.Slot) time.Time   { return time.Unix(int64(s+1)*12, 0) }
func (n fakeNet) IsFirstSlotOfEpoch(s phase0.Slot) bool    { return uint64(s)%slotsPerEpoch == 0 }
func (n fakeNet) GetEpochFirstSlot(e phase0.Epoch) phase0.Slot {
	return phase0.Slot(uint64(e) * slotsPerEpoch)
}
func (n fakeNet) EpochsPerSyncCommitteePeriod() uint64 { return 256 }
func (n fakeNet) EstimatedSyncCommitteePeriodAtEpoch(e phase0.Epoch) uint64 {
	return uint64(e) / 256
}
func (n fakeNet) FirstEpochOfSyncPeriod(p uint64) phase0.Epoch { return phase0.Epoch(p * 256) }
func (n fakeNet) LastSlotOfSyncPeriod(p uint64) phase0.Slot {
	return phase0.Slot((p+1)*256*slotsPerEpoch - 2)
}
func (n fakeNet) GetNetwork() beacon.Network                { return beacon.NewNetwork(netName) }
func (n fakeNet) GetBeaconNetwork() spectypes.BeaconNetwork { return netName }

var _ beacon.BeaconNetwork = fakeNet{}

// ---------------------------------------------------------------------------------------------
// E3 proxy around basedb.Database: records every call of the current op, and can crash before /
// after call k or fail call k.
// ---------------------------------------------------------------------------------------------

type dbCall struct {
	Kind  string `json:"kind"`
	Key   string `json:"key"`
	Write bool   `json:"write,omitempty"`
}

type fault struct {
	K    int    `json:"k"`
	Mode string `json:"mode"` // crash-before | crash-after | error
}

type crashSentinel struct{}

var errInjected = errors.New("verif: injected storage error")

type proxyDB struct {
	inner      *kv.BadgerDB
	calls      []dbCall
	plan       *fault
	errNext    bool // pending read fault: the next read fails
	crashAfter bool
	injected   []int // indices of calls that were failed
	dirty      bool  // a write was attempted (or the harness changed the DB) since the last reset
	// every (prefix, key) written through the proxy since the last wipe. The key manager has no
	// other handle on the database, so this is the set of keys that can exist; dumps and wipes use
	// point reads on it instead of badger iterators (whose cost grows with every stale version in
	// the in-memory memtable). Cross-checked against a real iteration (world.crossCheck) at the end.
	keys    map[string]trackedKey
	version int // bumped on every write attempt / harness-side change of the database
}

type trackedKey struct{ prefix, key []byte }

func (p *proxyDB) track(prefix, key []byte) {
	k := string(prefix) + string(key)
	if _, ok := p.keys[k]; !ok {
		p.keys[k] = trackedKey{append([]byte(nil), prefix...), append([]byte(nil), key...)}
	}
}

func (p *proxyDB) begin(f *fault) {
	p.calls = p.calls[:0]
	p.injected = p.injected[:0]
	p.plan = f
	p.crashAfter = false
}

func short(prefix, key []byte) string {
	s := strings.TrimPrefix(string(prefix), string(netName))
	s = strings.TrimPrefix(s, "signer_data-")
	switch {
	case strings.HasPrefix(s, "highest_att-"), strings.HasPrefix(s, "highest_prop-"):
		k := hex.EncodeToString(key)
		if len(k) > 8 {
			k = k[:8]
		}
		return s + k
	case strings.HasPrefix(s, "accounts-"):
		return "accounts-*"
	}
	return s + string(key)
}

func (p *proxyDB) step(kind string, prefix, key []byte, write bool) error {
	i := len(p.calls)
	p.calls = append(p.calls, dbCall{Kind: kind, Key: short(prefix, key), Write: write})
	if write {
		p.dirty = true
		p.version++
	}
	if p.plan != nil && p.plan.K == i {
		switch p.plan.Mode {
		case "crash-before":
			panic(crashSentinel{})
		case "crash-after":
			p.crashAfter = true
		case "error":
			p.injected = append(p.injected, i)
			return errInjected
		}
	}
	if !write && p.errNext {
		p.errNext = false
		p.dirty = true
		p.injected = append(p.injected, i)
		return errInjected
	}
	return nil
}

func (p *proxyDB) after() {
	if p.crashAfter {
		p.crashAfter = false
		panic(crashSentinel{})
	}
}

// reads: on failure the proxy answers exactly like kv.badgerTxn.Get does for a non-NotFound
// badger error: (empty, found=true, err).
func (p *proxyDB) Get(prefix, key []byte) (basedb.Obj, bool, error) {
	if err := p.step("get", prefix, key, false); err != nil {
		return basedb.Obj{}, true, err
	}
	o, f, e := p.inner.Get(prefix, key)
	p.after()
	return o, f, e
}
func (p *proxyDB) GetMany(prefix []byte, keys [][]byte, it func(basedb.Obj) error) error {
	if err := p.step("getmany", prefix, nil, false); err != nil {
		return err
	}
	e := p.inner.GetMany(prefix, keys, it)
	p.after()
	return e
}
func (p *proxyDB) GetAll(prefix []byte, h func(int, basedb.Obj) error) error {
	if err := p.step("getall", prefix, nil, false); err != nil {
		return err
	}
	e := p.inner.GetAll(prefix, h)
	p.after()
	return e
}
func (p *proxyDB) Set(prefix, key, value []byte) error {
	if err := p.step("set", prefix, key, true); err != nil {
		return err
	}
	p.track(prefix, key)
	e := p.inner.Set(prefix, key, value)
	p.after()
	return e
}
func (p *proxyDB) SetMany(prefix []byte, n int, next func(int) (basedb.Obj, error)) error {
	if err := p.step("setmany", prefix, nil, true); err != nil {
		return err
	}
	ev.Fatal("key manager used SetMany: extend the proxy's key tracking")
	e := p.inner.SetMany(prefix, n, next)
	p.after()
	return e
}
func (p *proxyDB) Delete(prefix, key []byte) error {
	if err := p.step("delete", prefix, key, true); err != nil {
		return err
	}
	e := p.inner.Delete(prefix, key)
	p.after()
	return e
}
func (p *proxyDB) CountPrefix(prefix []byte) (int64, error) {
	if err := p.step("count", prefix, nil, false); err != nil {
		return 0, err
	}
	n, e := p.inner.CountPrefix(prefix)
	p.after()
	return n, e
}
func (p *proxyDB) DeletePrefix(prefix []byte) (int, error) {
	if err := p.step("deleteprefix", prefix, nil, true); err != nil {
		return 0, err
	}
	n, e := p.inner.DeletePrefix(prefix)
	p.after()
	return n, e
}
func (p *proxyDB) DropPrefix(prefix []byte) error {
	if err := p.step("dropprefix", prefix, nil, true); err != nil {
		return err
	}
	e := p.inner.DropPrefix(prefix)
	p.after()
	return e
}

// The key manager does not open transactions itself; if a future version does, the calls are
// logged as one fault point each and passed through (the inner transaction is not proxied).
func (p *proxyDB) Begin() basedb.Txn {
	ev.Fatal("key manager opened a transaction: extend the proxy's key tracking")
	_ = p.step("begin", nil, nil, true)
	return p.inner.Begin()
}
func (p *proxyDB) BeginRead() basedb.ReadTxn {
	_ = p.step("beginread", nil, nil, false)
	return p.inner.BeginRead()
}
func (p *proxyDB) Update(fn func(basedb.Txn) error) error {
	if err := p.step("update", nil, nil, true); err != nil {
		return err
	}
	ev.Fatal("key manager used Update: extend the proxy's key tracking")
	e := p.inner.Update(fn)
	p.after()
	return e
}
func (p *proxyDB) Using(rw basedb.ReadWriter) basedb.ReadWriter {
	if rw == nil {
		return p
	}
	return rw
}
func (p *proxyDB) UsingReader(r basedb.Reader) basedb.Reader {
	if r == nil {
		return p
	}
	return r
}
func (p *proxyDB) Close() error { return nil }

var _ basedb.Database = (*proxyDB)(nil)

// ---------------------------------------------------------------------------------------------
// ops
// ---------------------------------------------------------------------------------------------

type op struct {
	K     string `json:"op"` // add remove reactivate att blk slot+ epoch+ restart del-att del-prop err-read
	Sh    int    `json:"share,omitempty"`
	S     int    `json:"s,omitempty"`    // att: source epoch
	T     int    `json:"t,omitempty"`    // att: target epoch
	Slot  int    `json:"slot,omitempty"` // blk
	V     int    `json:"v,omitempty"`    // variant (0=A, 1=B): different object root
	Fault *fault `json:"fault,omitempty"`
}

func (o op) String() string {
	var s string
	switch o.K {
	case "att":
		s = fmt.Sprintf("att(sh%d,%d->%d,%c)", o.Sh, o.S, o.T, 'A'+rune(o.V))
	case "blk":
		s = fmt.Sprintf("blk(sh%d,slot%d,%c)", o.Sh, o.Slot, 'A'+rune(o.V))
	case "add", "remove", "reactivate", "del-att", "del-prop":
		s = fmt.Sprintf("%s(sh%d)", o.K, o.Sh)
	default:
		s = o.K
	}
	if o.Fault != nil {
		s += fmt.Sprintf("!%s@%d+restart", o.Fault.Mode, o.Fault.K)
	}
	return s
}

type relAtt struct {
	Sh, S, T int
	Root     string // hex of the signing root that was signed
}
type relBlk struct {
	Sh, Slot int
	Root     string
}

type outcome struct {
	Label    string // short outcome class (histogram key)
	Err      string
	Released bool
	Crashed  bool
	Viol     string // violation kind, "" if none
	What     string
	Calls    []dbCall
	// for sign ops
	RecordPresent bool   // protection record of this kind existed when the op started
	RefVerdict    string // reference verdict on the request against the released set ("" = safe)
	Compared      int    // number of previously released signatures of the same kind and share
}

// ---------------------------------------------------------------------------------------------
// world: one real key manager on one real in-memory badger, plus the harness-owned environment
// ---------------------------------------------------------------------------------------------

var shareSKHex = []string{
	"3548db63ab5701878daf25fa877638dc7809778815b9d9ecd5369da33ca9e64f",
	"66dd37ae71b35c81022cdde98370e881cff896b689fa9136917f45afce43fd3b",
}

type share struct {
	sk    *bls.SecretKey
	pk    []byte
	pkHex string
}

var shares []share

func initShares() {
	for _, h := range shareSKHex {
		sk := &bls.SecretKey{}
		if err := sk.SetHexString(h); err != nil {
			ev.Fatal("share key: %v", err)
		}
		pk := sk.GetPublicKey().Serialize()
		shares = append(shares, share{sk: sk, pk: pk, pkHex: hex.EncodeToString(pk)})
	}
}

type world struct {
	inner *kv.BadgerDB
	px    *proxyDB
	clock uint64 // current slot
	km    spectypes.KeyManager
	atts  []relAtt
	blks  []relBlk
	start uint64
	// shut: the node context has been cancelled (shutdown began) but the database is still open;
	// requests that are in flight keep arriving until the restart
	shut bool

	dumpCache   [][2][]byte
	dumpVersion int
}

// dump returns the stored signer data as sorted (key-without-network-prefix, value) pairs.
func (w *world) dump() (out [][2][]byte) {
	if w.dumpVersion == w.px.version && w.dumpCache != nil {
		return w.dumpCache
	}
	defer func() { w.dumpCache, w.dumpVersion = out, w.px.version }()
	ks := make([]string, 0, len(w.px.keys))
	for k := range w.px.keys {
		ks = append(ks, k)
	}
	sort.Strings(ks)
	for _, k := range ks {
		t := w.px.keys[k]
		o, found, err := w.inner.Get(t.prefix, t.key)
		if err != nil {
			ev.Fatal("dump: %v", err)
		}
		if found {
			out = append(out, [2][]byte{[]byte(strings.TrimPrefix(k, string(dbPrefix))), o.Value})
		}
	}
	return out
}

// crossCheck compares the tracked dump with a real prefix iteration over the whole database.
func (w *world) crossCheck() {
	var it []string
	err := w.inner.GetAll(nil, func(_ int, o basedb.Obj) error {
		it = append(it, string(o.Key)+"="+string(o.Value))
		return nil
	})
	if err != nil {
		ev.Fatal("iterate: %v", err)
	}
	var tr []string
	for _, kv := range w.dump() {
		tr = append(tr, string(dbPrefix)+string(kv[0])+"="+string(kv[1]))
	}
	sort.Strings(it)
	sort.Strings(tr)
	if strings.Join(it, "\n") != strings.Join(tr, "\n") {
		ev.Fatal("tracked key set differs from the database content:\niterated %q\ntracked  %q", it, tr)
	}
}

func newWorld() *world {
	db, err := kv.NewInMemory(zap.NewNop(), basedb.Options{})
	if err != nil {
		ev.Fatal("badger: %v", err)
	}
	w := &world{inner: db}
	w.px = &proxyDB{inner: db, keys: map[string]trackedKey{}}
	return w
}

var dbPrefix = []byte(string(netName) + "signer_data-")

// reset brings the world to the initial state: empty DB, clock at start, a key manager freshly
// constructed on it (which creates and stores the empty wallet, as a first boot does).
func (w *world) reset(start uint64) {
	w.setShut(false)
	w.px.version++
	if len(w.px.keys) > 0 {
		err := w.inner.Update(func(txn basedb.Txn) error {
			for _, k := range w.px.keys {
				if err := txn.Delete(k.prefix, k.key); err != nil {
					return err
				}
			}
			return nil
		})
		if err != nil {
			ev.Fatal("wipe: %v", err)
		}
		w.px.keys = map[string]trackedKey{}
	}
	w.px.errNext = false
	w.px.begin(nil)
	w.clock, w.start = start, start
	w.atts, w.blks = nil, nil
	w.km = nil
	w.restart()
	if w.km == nil {
		ev.Fatal("key manager cannot be constructed on an empty database")
	}
}

// snapshot of a *clean* state (the in-memory key manager is what a restart on the stored data
// gives): stored data byte for byte + the harness-owned environment. Restoring it = writing the
// bytes back and constructing the key manager on them, which is how the node itself gets from a
// database to a running signer. Every restore is verified against the canonical state.
type snapshot struct {
	shut    bool
	kvs     []trackedKV
	clock   uint64
	errNext bool
	down    bool
	atts    []relAtt
	blks    []relBlk
}

type trackedKV struct {
	t     trackedKey
	value []byte
}

// clean reports whether the in-memory wallet equals the stored one (or the key manager is down).
func (w *world) clean() bool {
	if w.km == nil {
		return true
	}
	mem, err := ekm.VerifWalletJSON(w.km)
	if err != nil {
		return false
	}
	for _, t := range w.px.keys {
		if strings.HasSuffix(string(t.prefix), "wallet-") {
			o, found, err := w.inner.Get(t.prefix, t.key)
			return err == nil && found && string(o.Value) == string(mem)
		}
	}
	return false
}

func (w *world) snapshot() *snapshot {
	sn := &snapshot{clock: w.clock, errNext: w.px.errNext, down: w.km == nil, atts: w.atts, blks: w.blks, shut: w.shut}
	ks := make([]string, 0, len(w.px.keys))
	for k := range w.px.keys {
		ks = append(ks, k)
	}
	sort.Strings(ks)
	for _, k := range ks {
		t := w.px.keys[k]
		o, found, err := w.inner.Get(t.prefix, t.key)
		if err != nil {
			ev.Fatal("snapshot: %v", err)
		}
		if found {
			sn.kvs = append(sn.kvs, trackedKV{t, o.Value})
		}
	}
	return sn
}

// setShut cancels / renews the database's context.
func (w *world) setShut(shut bool) {
	w.shut = shut
	ctx, cancel := context.WithCancel(context.Background())
	if shut {
		cancel()
	}
	_ = cancel
	w.inner.VerifSetCtx(ctx)
}

func (w *world) restore(sn *snapshot) {
	w.setShut(false)
	err := w.inner.Update(func(txn basedb.Txn) error {
		for _, k := range w.px.keys {
			if err := txn.Delete(k.prefix, k.key); err != nil {
				return err
			}
		}
		for _, kv := range sn.kvs {
			if err := txn.Set(kv.t.prefix, kv.t.key, kv.value); err != nil {
				return err
			}
		}
		return nil
	})
	if err != nil {
		ev.Fatal("restore: %v", err)
	}
	w.px.version++
	w.px.keys = map[string]trackedKey{}
	for _, kv := range sn.kvs {
		w.px.keys[string(kv.t.prefix)+string(kv.t.key)] = kv.t
	}
	w.clock, w.atts, w.blks = sn.clock, sn.atts, sn.blks
	w.px.begin(nil)
	w.px.errNext = false
	w.km = nil
	if !sn.down {
		if e := w.restart(); e != "" {
			ev.Fatal("restore: key manager cannot be constructed: %s", e)
		}
	}
	w.px.errNext = sn.errNext
	if sn.shut {
		w.setShut(true)
	}
}

// restart = what a process restart is for the key manager: every in-memory object is dropped and
// NewETHKeyManagerSigner runs again on the same database.
func (w *world) restart() (errStr string) {
	w.setShut(false) // the database is opened again
	w.km = nil
	w.px.dirty = true
	net := networkconfig.NetworkConfig{Beacon: fakeNet{w}, Domain: networkconfig.TestNetwork.Domain}
	km, err := ekm.NewETHKeyManagerSigner(zap.NewNop(), w.px, net, true, "")
	if err != nil {
		return err.Error()
	}
	w.km = km
	return ""
}

func (w *world) epoch() int { return int(w.clock / slotsPerEpoch) }

func attData(s, t, v int) *phase0.AttestationData {
	return &phase0.AttestationData{
		Slot:            phase0.Slot(t * slotsPerEpoch),
		Index:           1,
		BeaconBlockRoot: phase0.Root{0xA0 + byte(v)},
		Source:          &phase0.Checkpoint{Epoch: phase0.Epoch(s)},
		Target:          &phase0.Checkpoint{Epoch: phase0.Epoch(t)},
	}
}

// block variants — A: a full capella block; B: a *blinded* capella block with another state root
// (the builder path of signBeaconObject). Two different blocks for the slot. Built in do().

func classify(err error) string {
	if err == nil {
		return "ok"
	}
	m := err.Error()
	for _, c := range []struct{ sub, class string }{
		{"injected storage error", "injected-error"},
		{"slashable attestation", "refused-slashable-att"},
		{"slashable proposal", "refused-slashable-prop"},
		{"is not found, can't determine", "refused-record-missing"},
		{"data is nil, can't determine", "refused-record-nil"},
		{"account not found", "refused-no-account"},
		{"slot can not be 0", "refused-slot0"},
		{"slot could not be 0", "refused-slot0"},
		{"far into the future", "refused-far-future"},
	} {
		if strings.Contains(m, c.sub) {
			return c.class
		}
	}
	if len(m) > 60 {
		m = m[:60]
	}
	return "err:" + m
}

func (w *world) recordPresent(prefix string, sh int) bool {
	_, found, err := w.inner.Get([]byte(string(netName)+"signer_data-"+prefix), shares[sh].pk)
	return found && err == nil
}

func protectionCall(c dbCall, kind string) bool {
	if kind == "att" {
		return strings.HasPrefix(c.Key, "highest_att-")
	}
	return strings.HasPrefix(c.Key, "highest_prop-")
}

// apply executes one op on the real objects and evaluates the oracle on its result.
func (w *world) apply(o op) (out outcome) {
	w.px.begin(o.Fault)
	crashed := func() (crashed bool) {
		defer func() {
			if r := recover(); r != nil {
				if _, ok := r.(crashSentinel); ok {
					crashed = true
					return
				}
				panic(r)
			}
		}()
		w.do(o, &out)
		return false
	}()
	w.px.plan, w.px.crashAfter = nil, false
	out.Calls = append([]dbCall(nil), w.px.calls...)
	if crashed {
		out = outcome{Label: o.K + ":crashed", Crashed: true, Calls: out.Calls}
	}
	if o.Fault != nil {
		// E3: the fault is followed by a restart on the surviving database
		if e := w.restart(); e != "" {
			out.Label += "+restart-failed"
		}
	}
	return out
}

func (w *world) do(o op, out *outcome) {
	needKM := func() bool {
		if w.km == nil {
			ev.Fatal("op %s applied while the key manager is down", o)
		}
		return true
	}
	switch o.K {
	case "slot+":
		w.clock++
		w.px.dirty = true
		out.Label = "clock"
	case "epoch+":
		w.clock += slotsPerEpoch
		w.px.dirty = true
		out.Label = "clock"
	case "restart":
		if e := w.restart(); e != "" {
			out.Label, out.Err = "restart:"+classify(errors.New(e)), e
		} else {
			out.Label = "restart:ok"
		}
	case "del-att":
		_ = w.inner.Delete([]byte(string(netName)+"signer_data-highest_att-"), shares[o.Sh].pk)
		w.px.dirty = true
		w.px.version++
		out.Label = "del-att"
	case "del-prop":
		_ = w.inner.Delete([]byte(string(netName)+"signer_data-highest_prop-"), shares[o.Sh].pk)
		w.px.dirty = true
		w.px.version++
		out.Label = "del-prop"
	case "shutdown":
		w.setShut(true)
		w.px.dirty = true
		out.Label = "shutdown-begins"
	case "err-read":
		w.px.errNext = true
		w.px.dirty = true
		out.Label = "err-read"
	case "add":
		needKM()
		err := w.km.AddShare(shares[o.Sh].sk)
		out.Label = "add:" + classify(err)
	case "remove":
		needKM()
		err := w.km.RemoveShare(shares[o.Sh].pkHex)
		out.Label = "remove:" + classify(err)
	case "reactivate":
		needKM()
		// eth/eventhandler/handlers.go handleClusterReactivated
		err := w.km.(ekm.StorageProvider).BumpSlashingProtection(shares[o.Sh].pk)
		out.Label = "reactivate:" + classify(err)
	case "att":
		needKM()
		out.RecordPresent = w.recordPresent("highest_att-", o.Sh)
		sig, root, err := w.km.SignBeaconObject(attData(o.S, o.T, o.V), phase0.Domain{}, shares[o.Sh].pk, spectypes.DomainAttester)
		cand := relAtt{Sh: o.Sh, S: o.S, T: o.T, Root: hex.EncodeToString(root[:])}
		out.RefVerdict, out.Compared = refAttestation(w.atts, cand)
		w.signed(o, out, err, len(sig) > 0, func() { w.atts = addAtt(w.atts, cand) })
	case "blk":
		needKM()
		out.RecordPresent = w.recordPresent("highest_prop-", o.Sh)
		var sig spectypes.Signature
		var root [32]byte
		var err error
		if o.V == 0 {
			b := *testingutils.TestingBeaconBlockCapella
			b.Slot = phase0.Slot(o.Slot)
			sig, root, err = w.km.SignBeaconObject(&b, phase0.Domain{}, shares[o.Sh].pk, spectypes.DomainProposer)
		} else {
			b := *testingutils.TestingBlindedBeaconBlockCapella
			b.Slot = phase0.Slot(o.Slot)
			b.StateRoot = phase0.Root{0xB1}
			sig, root, err = w.km.SignBeaconObject(&b, phase0.Domain{}, shares[o.Sh].pk, spectypes.DomainProposer)
		}
		cand := relBlk{Sh: o.Sh, Slot: o.Slot, Root: hex.EncodeToString(root[:])}
		out.RefVerdict, out.Compared = refBlock(w.blks, cand)
		w.signed(o, out, err, len(sig) > 0, func() { w.blks = addBlk(w.blks, cand) })
	default:
		ev.Fatal("unknown op %q", o.K)
	}
}

// signed evaluates the oracle on the result of one signing request.
func (w *world) signed(o op, out *outcome, err error, hasSig bool, record func()) {
	out.Released = err == nil && hasSig
	if err != nil {
		out.Err = err.Error()
	}
	if !out.Released {
		c := classify(err)
		if err == nil {
			c = "nil-error-without-signature"
		}
		if out.RefVerdict == "" && (c == "refused-slashable-att" || c == "refused-slashable-prop") {
			c += "(conservative)"
		}
		out.Label = o.K + ":" + c
		return
	}
	record()
	out.Label = o.K + ":released"
	if out.Compared > 0 {
		out.Label += "(after-others)"
	}
	injectedOnRecord := false
	for _, i := range w.px.injected {
		// only failed *reads* of the record count here ("cannot be read"); a signature released
		// after a failed *write* of the mark is judged by what it leads to (the pairwise oracle)
		if i < len(w.px.calls) && !w.px.calls[i].Write && protectionCall(w.px.calls[i], o.K) {
			injectedOnRecord = true
		}
	}
	switch {
	case out.RefVerdict != "":
		out.Viol, out.What = out.RefVerdict, fmt.Sprintf("%s released a signature that is slashable together with an earlier released one (%s)", o, out.RefVerdict)
	case !out.RecordPresent:
		out.Viol, out.What = "signed-with-record-missing:"+o.K, fmt.Sprintf("%s released a signature although the share had no protection record of that kind", o)
	case injectedOnRecord:
		out.Viol, out.What = "signed-with-record-unreadable:"+o.K, fmt.Sprintf("%s released a signature although reading the protection record failed", o)
	}
}

func addAtt(l []relAtt, a relAtt) []relAtt {
	for _, x := range l {
		if x == a {
			return l
		}
	}
	l = append(append([]relAtt(nil), l...), a)
	sort.Slice(l, func(i, j int) bool { return fmt.Sprint(l[i]) < fmt.Sprint(l[j]) })
	return l
}

func addBlk(l []relBlk, b relBlk) []relBlk {
	for _, x := range l {
		if x == b {
			return l
		}
	}
	l = append(append([]relBlk(nil), l...), b)
	sort.Slice(l, func(i, j int) bool { return fmt.Sprint(l[i]) < fmt.Sprint(l[j]) })
	return l
}

// ---------------------------------------------------------------------------------------------
// canonical state
// ---------------------------------------------------------------------------------------------

// uuidSpans returns the start offsets of every canonical lower-case UUID (8-4-4-4-12) in s.
func uuidSpans(s string) []int {
	var out []int
	for i := 0; i+36 <= len(s); i++ {
		if s[i+8] != '-' || s[i+13] != '-' || s[i+18] != '-' || s[i+23] != '-' {
			continue
		}
		ok := true
		for j := 0; j < 36 && ok; j++ {
			c := s[i+j]
			switch j {
			case 8, 13, 18, 23:
			default:
				ok = (c >= '0' && c <= '9') || (c >= 'a' && c <= 'f')
			}
		}
		if ok {
			out = append(out, i)
			i += 35
		}
	}
	return out
}

func findUUIDs(s string) []string {
	sp := uuidSpans(s)
	out := make([]string, len(sp))
	for i, p := range sp {
		out[i] = s[p : p+36]
	}
	return out
}

func replaceUUIDs(s string, f func(string) string) string {
	sp := uuidSpans(s)
	if len(sp) == 0 {
		return s
	}
	var sb strings.Builder
	last := 0
	for _, p := range sp {
		sb.WriteString(s[last:p])
		sb.WriteString(f(s[p : p+36]))
		last = p + 36
	}
	sb.WriteString(s[last:])
	return sb.String()
}

// canon = the stored signer data (all keys under <network>signer_data-, i.e. wallet, accounts,
// highest attestation, highest proposal) + the in-memory wallet + clock + pending read fault +
// released signatures. Account/wallet/key ids are random UUIDs: they are renamed in a canonical
// order (a UUID that occurs once links nothing and becomes "?").
func (w *world) canon() string {
	h := sha256.Sum256([]byte(w.canonText()))
	return hex.EncodeToString(h[:16])
}

func (w *world) canonText() string {
	var walletDB string
	var accounts, others []string
	for _, kv := range w.dump() {
		k := string(kv[0])
		switch {
		case strings.HasPrefix(k, "wallet-"):
			walletDB = k + "=" + string(kv[1])
		case strings.HasPrefix(k, "accounts-"):
			accounts = append(accounts, k+"="+string(kv[1]))
		default: // highest_att-<pk>, highest_prop-<pk>: raw bytes as stored
			i := strings.Index(k, "-") + 1
			others = append(others, k[:i]+hex.EncodeToString(kv[0][i:])+"="+hex.EncodeToString(kv[1]))
		}
	}
	mem := "down"
	if w.km != nil {
		b, err := ekm.VerifWalletJSON(w.km)
		if err != nil {
			ev.Fatal("wallet json: %v", err)
		}
		mem = string(b)
	}
	count := map[string]int{}
	for _, s := range append([]string{walletDB, mem}, accounts...) {
		for _, u := range findUUIDs(s) {
			count[u]++
		}
	}
	names := map[string]string{}
	name := func(s string) {
		for _, u := range findUUIDs(s) {
			if _, ok := names[u]; !ok {
				if count[u] == 1 {
					names[u] = "?"
				} else {
					names[u] = fmt.Sprintf("U%d", len(names))
				}
			}
		}
	}
	rename := func(s string) string {
		return replaceUUIDs(s, func(u string) string {
			if n, ok := names[u]; ok {
				return n
			}
			return "_"
		})
	}
	name(walletDB)
	name(mem)
	// accounts not reachable from either wallet index: order them by their content with every
	// still-unnamed id blanked, then name in that order
	sort.Slice(accounts, func(i, j int) bool { return rename(accounts[i]) < rename(accounts[j]) })
	for _, a := range accounts {
		name(a)
	}
	for i := range accounts {
		accounts[i] = rename(accounts[i])
	}
	sort.Strings(accounts)
	var sb strings.Builder
	fmt.Fprintf(&sb, "clock=%d errNext=%v shut=%v\n", w.clock, w.px.errNext, w.shut)
	sb.WriteString("db " + rename(walletDB) + "\n")
	for _, a := range accounts {
		sb.WriteString("db " + a + "\n")
	}
	for _, o := range others {
		sb.WriteString("db " + o + "\n")
	}
	sb.WriteString("mem " + rename(mem) + "\n")
	fmt.Fprintf(&sb, "released atts=%v blks=%v\n", w.atts, w.blks)
	return sb.String()
}
