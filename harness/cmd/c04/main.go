// C04 — an operator never signs a slashable attestation or block, across restarts.
// Sequential + crash-point half: seq.go (E1 explicit-state search by canonical state over the real
// ekm key manager on a real in-memory badger, E3 fault points at every storage call).
// Concurrent half: conc.go (E2).
package main

import (
	"encoding/json"
	"fmt"
	"os"
	"runtime"
	"runtime/pprof"
	"sort"
	"strconv"

	"github.com/bloxapp/ssv/utils/threshold"

	"verifharness/lib/ev"
)

const rule = "over the set of released signatures (SignBeaconObject returned nil error and a signature) of one share: " +
	"no two different attestations with equal target epoch, no surrounding/surrounded pair, no two different blocks for one slot " +
	"(identical source/target/signing-root counts once); and no signature is released while the share's protection record " +
	"of that kind is missing or cannot be read"

func configs(thorough bool) []cfg {
	if !thorough {
		return []cfg{
			{Name: "1share", Shares: 1, Start: 2, Depth: 6, Faults: 1, MaxEpoch: 4},
			// deeper, fault-free: remove / re-add / sign histories of length 7 (re-registration
			// inside one epoch followed by a clock advance needs 7 ops)
			{Name: "1share-deep-no-faults", Shares: 1, Start: 2, Depth: 7, Faults: 0, MaxEpoch: 4},
		}
	}
	return []cfg{
		{Name: "1share", Shares: 1, Start: 2, Depth: 8, Faults: 1, MaxEpoch: 5},
		{Name: "1share-genesis", Shares: 1, Start: 0, Depth: 6, Faults: 1, MaxEpoch: 3},
		{Name: "2shares", Shares: 2, Start: 2, Depth: 5, Faults: 1, MaxEpoch: 3},
		{Name: "1share-2faults", Shares: 1, Start: 2, Depth: 6, Faults: 2, MaxEpoch: 3},
	}
}

func main() {
	if os.Getenv(childEnv) != "" {
		threshold.Init()
		initShares()
		if pf := os.Getenv("VERIF_C04_CHILD_PROF"); pf != "" { // developer aid only
			f, _ := os.Create(fmt.Sprintf("%s.%d", pf, os.Getpid()))
			pprof.StartCPUProfile(f)
			defer pprof.StopCPUProfile()
		}
		childMain()
		return
	}
	r := ev.Start("C04", "exploration")
	threshold.Init()
	initShares()
	if pf := os.Getenv("VERIF_C04_PROF"); pf != "" { // developer aid only
		f, _ := os.Create(pf)
		pprof.StartCPUProfile(f)
		defer pprof.StopCPUProfile()
		stopProf = pprof.StopCPUProfile
	}
	if r.Replay != "" {
		replay(r)
		return
	}
	workers := runtime.NumCPU()
	if workers > 16 {
		workers = 16
	}
	// On an oversubscribed box more worker processes make the run slower, not faster (measured at
	// load average 150 on 16 cores: 2 workers 30 s, 16 workers 140 s for the same 34 CPU-seconds of
	// work), so only the cores that are actually free are used. The worker count changes no count.
	if b, err := os.ReadFile("/proc/loadavg"); err == nil {
		var load float64
		fmt.Sscan(string(b), &load)
		if free := runtime.NumCPU() - int(load); free < workers {
			workers = free
		}
		if workers < 2 {
			workers = 2
		}
	}
	if n, _ := strconv.Atoi(os.Getenv("VERIF_C04_WORKERS")); n > 0 { // developer aid only
		workers = n
	}
	hist, faultHist := map[string]int{}, map[string]int{}
	nontrivial := map[string]bool{}
	violKinds := map[string]int{}
	exhaustive := true
	var bounds []interface{}
	p := newPool(workers)
	r.Set("worker_processes", workers)
	cfgs := configs(r.Thorough())
	if n, _ := strconv.Atoi(os.Getenv("VERIF_C04_LOOKAHEAD")); n > 0 {
		// experiment outside the property's quantifier; its result is not a verdict on C04
		for i := range cfgs {
			cfgs[i].Lookahead = n
		}
		r.Assume(fmt.Sprintf("EXPERIMENT: signing requests up to %d epoch(s)/slot(s) beyond the clock are in the alphabet — outside the property's quantifier", n))
	}
	for _, c := range cfgs {
		if only := os.Getenv("VERIF_C04_ONLY"); only != "" && only != c.Name { // developer aid only
			continue
		}
		st := explore(r, c, p, hist, faultHist, nontrivial, violKinds)
		r.Add("states", st.States)
		r.Add("transitions", st.Transitions)
		r.Add("fault_runs", st.FaultRuns)
		r.Add("replays", st.Replays)
		r.Add("snapshot_restores", st.Restores)
		exhaustive = exhaustive && st.Complete
		bounds = append(bounds, map[string]interface{}{"config": c, "states": st.States, "transitions": st.Transitions,
			"fault_runs": st.FaultRuns, "per_depth": st.PerDepth, "complete": st.Complete})
	}
	p.close()
	r.Set("evaluations", r.Get("transitions"))
	r.Set("traces_validated_against_impl", r.Get("transitions"))
	r.Set("distinct_nontrivial", len(nontrivial))
	r.Set("distinct_nontrivial_definition", "distinct (canonical state, signing request) pairs evaluated while the share already had >= 1 released signature of that kind (the pairwise oracle compared something), plus fault runs that released a signature")
	r.Set("rule", rule)
	r.Set("seq_bounds", bounds)
	r.Set("outcome_histogram", hist)
	r.Set("distinct_outcomes", len(hist))
	r.Set("fault_outcome_histogram", faultHist)
	r.Set("distinct_fault_outcomes", len(faultHist))
	if len(violKinds) > 0 {
		r.Set("violating_transitions_by_kind", violKinds)
	}
	r.Assume(
		"a crash is a stop between two storage calls; badger's per-call atomicity/durability is trusted",
		"a failing read answers like kv.badgerTxn.Get does for a non-NotFound badger error: (empty, found=true, err)",
		"attestation targets and block slots never exceed the harness clock at signing time (the property's quantifier); the clock never goes back",
		fmt.Sprintf("fake beacon network with %d slots per epoch named %q; eth2-key-manager's real-time far-future guard is constant-true for the epochs/slots used", slotsPerEpoch, netName),
		"a fault (crash-before / crash-after / error at one storage call) is followed by a restart; at most fault_budget of them per history; the read faults del-att / del-prop / err-read are ordinary ops without budget",
		"canonical state = stored signer data (wallet, accounts, highest attestation, highest proposal) + in-memory wallet + clock + pending read fault + released signatures; random UUIDs renamed canonically",
	)
	conc(r, &exhaustive)
	stopProf()
	r.Finish(exhaustive)
}

var stopProf = func() {}

func replay(r *ev.Run) {
	v, err := ev.LoadReplay(r.Replay)
	if err != nil {
		ev.Fatal("%v", err)
	}
	fmt.Printf("replay %s: %s\n", r.Replay, v.What)
	if v.Harness != "c04-seq" {
		replayConc(r, v)
		return
	}
	b, _ := json.Marshal(v.Trace)
	var tr struct {
		Config cfg  `json:"config"`
		Ops    []op `json:"ops"`
	}
	if err := json.Unmarshal(b, &tr); err != nil {
		ev.Fatal("trace: %v", err)
	}
	w := newWorld()
	kind, what := runTrace(w, tr.Config, tr.Ops, true)
	fmt.Println("final state:")
	fmt.Print(w.canonText())
	keys := []string{}
	for _, a := range w.atts {
		keys = append(keys, fmt.Sprintf("att share%d %d->%d root=%s", a.Sh, a.S, a.T, a.Root[:16]))
	}
	for _, a := range w.blks {
		keys = append(keys, fmt.Sprintf("blk share%d slot %d root=%s", a.Sh, a.Slot, a.Root[:16]))
	}
	sort.Strings(keys)
	fmt.Println("released:", keys)
	if kind != "" {
		fmt.Printf("reproduced: %s — %s\n", kind, what)
		fmt.Printf("VIOLATION property=C04 replay=%s\n", r.Replay)
		r.Finish(false)
	}
	fmt.Println("not reproduced")
	r.Finish(false)
}
