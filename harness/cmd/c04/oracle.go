package main

// Reference oracle, written from the property sentence only (no knowledge of high-water marks):
// "the set of attestation and block signatures released by the operator's signer never contains
// two attestations with the same target epoch, a surrounding or surrounded pair, or two blocks
// for the same slot". A byte-identical request (same source, target and signing root) is the same
// attestation / the same block, not a second one.

// refAttestation: verdict on releasing c given the released set; "" = not slashable.
func refAttestation(released []relAtt, c relAtt) (verdict string, compared int) {
	for _, p := range released {
		if p.Sh != c.Sh {
			continue
		}
		compared++
		switch {
		case p == c:
		case p.T == c.T:
			verdict = "double-vote"
		case c.S < p.S && p.T < c.T:
			verdict = "surrounding-vote"
		case p.S < c.S && c.T < p.T:
			verdict = "surrounded-vote"
		}
	}
	return
}

func refBlock(released []relBlk, c relBlk) (verdict string, compared int) {
	for _, p := range released {
		if p.Sh != c.Sh {
			continue
		}
		compared++
		if p.Slot == c.Slot && p.Root != c.Root {
			verdict = "double-proposal"
		}
	}
	return
}
