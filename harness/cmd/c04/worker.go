package main

import (
	"bufio"
	"encoding/json"
	"fmt"
	"os"
	"os/exec"
	"sync"

	"verifharness/lib/ev"
)

// Worker processes. The key manager is re-entrant per instance, but 16 in-memory badgers inside
// one Go runtime do not scale (every badger commit is a goroutine hand-off; with many Ps the
// scheduler spends its time waking and stealing: measured 1 worker 32 s, 16 goroutine workers
// 56-90 s for the same work). So the frontier is sharded over child processes of this binary,
// each with GOMAXPROCS=1 and its own database; the parent merges their results in frontier order,
// which keeps every count independent of scheduling.

type request struct {
	Cfg  cfg  `json:"cfg"`
	Node node `json:"node"`
}

const childEnv = "VERIF_C04_CHILD"

func childMain() {
	in := bufio.NewReaderSize(os.Stdin, 1<<20)
	out := bufio.NewWriterSize(os.Stdout, 1<<20)
	w := newWorld()
	dec := json.NewDecoder(in)
	enc := json.NewEncoder(out)
	for {
		var rq request
		if err := dec.Decode(&rq); err != nil {
			w.crossCheck()
			return // parent closed the pipe
		}
		e := expand(w, rq.Cfg, rq.Node)
		if err := enc.Encode(e); err != nil {
			ev.Fatal("worker: %v", err)
		}
		out.Flush()
	}
}

type child struct {
	cmd *exec.Cmd
	enc *json.Encoder
	dec *json.Decoder
	in  interface{ Close() error }
}

type pool struct{ kids []*child }

func newPool(n int) *pool {
	p := &pool{}
	for i := 0; i < n; i++ {
		cmd := exec.Command(os.Args[0])
		cmd.Env = append(os.Environ(), childEnv+"=1", "GOMAXPROCS=1")
		cmd.Stderr = os.Stderr
		in, err := cmd.StdinPipe()
		if err != nil {
			ev.Fatal("worker pipe: %v", err)
		}
		out, err := cmd.StdoutPipe()
		if err != nil {
			ev.Fatal("worker pipe: %v", err)
		}
		if err := cmd.Start(); err != nil {
			ev.Fatal("worker start: %v", err)
		}
		p.kids = append(p.kids, &child{cmd: cmd, enc: json.NewEncoder(in), dec: json.NewDecoder(bufio.NewReaderSize(out, 1<<20)), in: in})
	}
	return p
}

func (p *pool) close() {
	for _, k := range p.kids {
		k.in.Close()
		if err := k.cmd.Wait(); err != nil {
			ev.Fatal("worker exited with %v", err)
		}
	}
}

// expandAll expands every node of the frontier on the pool; results[i] belongs to frontier[i].
// stop() is polled before each dispatch; unexpanded nodes stay nil.
func (p *pool) expandAll(c cfg, frontier []node, stop func() bool) []*expansion {
	results := make([]*expansion, len(frontier))
	var mu sync.Mutex
	next := 0
	var wg sync.WaitGroup
	var failed error
	for _, k := range p.kids {
		wg.Add(1)
		go func(k *child) {
			defer wg.Done()
			for {
				mu.Lock()
				j := next
				next++
				halt := failed != nil
				mu.Unlock()
				if halt || j >= len(frontier) || stop() {
					return
				}
				var e expansion
				err := k.enc.Encode(request{Cfg: c, Node: frontier[j]})
				if err == nil {
					err = k.dec.Decode(&e)
				}
				if err != nil {
					mu.Lock()
					failed = fmt.Errorf("worker failed on %v: %v", pathStrings(frontier[j].Path), err)
					mu.Unlock()
					return
				}
				results[j] = &e
			}
		}(k)
	}
	wg.Wait()
	if failed != nil {
		ev.Fatal("%v (see the worker's ENGINE-ERROR above)", failed)
	}
	return results
}
