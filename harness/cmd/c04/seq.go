package main

import (
	"crypto/sha256"
	"encoding/hex"
	"fmt"
	"sort"
	"strings"

	"verifharness/lib/ev"
)

// Sequential + crash-point half: breadth-first search over all op sequences up to a depth, by
// canonical state (E1), with every storage call of every op as a fault point (E3).

type cfg struct {
	Name     string `json:"name"`
	Shares   int    `json:"shares"`
	Start    uint64 `json:"start_slot"`
	Depth    int    `json:"depth"`
	Faults   int    `json:"fault_budget"` // E3 faults (crash-before / crash-after / error at one storage call, then restart) per history
	MaxEpoch int    `json:"max_clock_epoch"`
	// Lookahead > 0 leaves the property's quantifier (targets / slots beyond the clock at signing
	// time). Never set by a tier; only by the VERIF_C04_LOOKAHEAD experiment switch.
	Lookahead int `json:"lookahead,omitempty"`
}

var faultModes = []string{"crash-before", "crash-after", "error"}

// menu lists every op enabled in the world's current state.
func menu(w *world, c cfg) []op {
	var m []op
	if w.km != nil {
		for sh := 0; sh < c.Shares; sh++ {
			m = append(m, op{K: "add", Sh: sh}, op{K: "remove", Sh: sh}, op{K: "reactivate", Sh: sh})
		}
		for sh := 0; sh < c.Shares; sh++ {
			for t := 1; t <= w.epoch()+c.Lookahead; t++ {
				for s := 0; s < t; s++ {
					for v := 0; v < 2; v++ {
						m = append(m, op{K: "att", Sh: sh, S: s, T: t, V: v})
					}
				}
			}
			for slot := 0; slot <= int(w.clock)+c.Lookahead; slot++ {
				for v := 0; v < 2; v++ {
					m = append(m, op{K: "blk", Sh: sh, Slot: slot, V: v})
				}
			}
		}
	}
	m = append(m, op{K: "restart"})
	if int((w.clock+1)/slotsPerEpoch) <= c.MaxEpoch {
		m = append(m, op{K: "slot+"})
	}
	if int((w.clock+slotsPerEpoch)/slotsPerEpoch) <= c.MaxEpoch {
		m = append(m, op{K: "epoch+"})
	}
	for sh := 0; sh < c.Shares; sh++ {
		m = append(m, op{K: "del-att", Sh: sh}, op{K: "del-prop", Sh: sh})
	}
	if !w.px.errNext {
		m = append(m, op{K: "err-read"})
	}
	if !w.shut && w.km != nil {
		m = append(m, op{K: "shutdown"}) // the node context is cancelled; requests in flight still arrive until the restart
	}
	return m
}

// materialise replays a path on fresh state (real objects keep private state, so a state is
// reached by replaying the shortest known path to it).
func (w *world) materialise(c cfg, path []op) {
	w.reset(c.Start)
	for _, o := range path {
		w.apply(o)
	}
	w.px.dirty = false
}

type node struct {
	Path   []op   `json:"path"`
	Key    string `json:"key"`
	Budget int    `json:"budget"`
}

type violation struct {
	Kind  string
	What  string
	Trace []op
	Out   outcome
}

type expansion struct {
	Cands       []node
	Hist        map[string]int
	FaultHist   map[string]int
	Transitions int
	FaultRuns   int
	Replays     int
	Restores    int
	Nontrivial  []string // hashes of the (state, op) pairs of non-trivial evaluations
	Viols       []violation
	Sample      interface{}
}

func pathStrings(p []op) []string {
	out := make([]string, len(p))
	for i, o := range p {
		out[i] = o.String()
	}
	return out
}

func withOp(p []op, o op) []op { return append(append(make([]op, 0, len(p)+1), p...), o) }

// expand applies every enabled op (and, while the fault budget lasts, every op × storage call ×
// fault mode, followed by restart) to the state reached by n.Path.
func expand(w *world, c cfg, n node) *expansion {
	e := &expansion{Hist: map[string]int{}, FaultHist: map[string]int{}}
	live := false
	diverged := false
	var snap *snapshot
	ensure := func() {
		if live || diverged {
			return
		}
		how := "replay"
		if snap != nil {
			w.restore(snap)
			e.Restores++
			how = "snapshot restore"
		} else {
			w.materialise(c, n.Path)
			e.Replays++
		}
		if k := w.canon(); k != n.Key {
			// The state was first reached by applying the last operation to a world restored from a
			// snapshot (the database bytes + a freshly constructed key manager = a process restarted
			// before that operation); now the whole history ran in one process (or the other way
			// round). On the unchanged tree the two always coincide - a restart on the same database
			// is transparent - so a difference means that what is stored depends on the lifetime of
			// the process (state kept in memory and not written through).
			e.Viols = append(e.Viols, violation{Kind: "restart-not-transparent", Trace: n.Path,
				What: fmt.Sprintf("after %v the canonical state (stored signer data + wallet + released signatures) differs between a process that ran the whole history and one restarted on the same database before the last operation (%s)\nnow:\n%s", pathStrings(n.Path), how, w.canonText())})
			diverged = true
			return
		}
		if snap == nil && w.clean() {
			snap = w.snapshot()
		}
		w.px.dirty = false
		live = true
	}
	ensure()
	if diverged {
		return e
	}
	ops := menu(w, c)
	record := func(o op, out outcome, budget int) {
		if out.Viol != "" {
			e.Viols = append(e.Viols, violation{Kind: out.Viol, What: out.What, Trace: withOp(n.Path, o), Out: out})
			live = false // do not continue from a violating state
			return
		}
		if !w.px.dirty {
			return // nothing written, nothing restarted: same state
		}
		k := w.canon()
		if k == n.Key {
			w.px.dirty = false
			return
		}
		live = false
		e.Cands = append(e.Cands, node{Path: withOp(n.Path, o), Key: k, Budget: budget})
	}
	for _, o := range ops {
		ensure()
		if diverged {
			return e
		}
		out := w.apply(o)
		e.Transitions++
		e.Hist[out.Label]++
		if (o.K == "att" || o.K == "blk") && out.Compared > 0 {
			e.Nontrivial = append(e.Nontrivial, short16(n.Key+"|"+o.String()))
		}
		if e.Sample == nil && out.Released && out.Compared > 0 {
			e.Sample = map[string]interface{}{"ops": pathStrings(withOp(n.Path, o)), "outcome": out.Label, "storage_calls": out.Calls}
		}
		calls := out.Calls
		record(o, out, n.Budget)
		if n.Budget == 0 {
			continue
		}
		// E3: every storage call of this op is a fault point
		for k := range calls {
			for _, mode := range faultModes {
				ensure()
				if diverged {
					return e
				}
				fo := o
				fo.Fault = &fault{K: k, Mode: mode}
				fout := w.apply(fo)
				e.FaultRuns++
				e.Transitions++
				lbl := o.K + "!" + mode + "@" + calls[k].Kind + ":" + strings.SplitN(calls[k].Key, "-", 2)[0] + " -> " + strings.TrimPrefix(fout.Label, o.K+":")
				e.FaultHist[lbl]++
				if fout.Released {
					e.Nontrivial = append(e.Nontrivial, short16(n.Key+"|"+fo.String()))
				}
				record(fo, fout, n.Budget-1)
			}
		}
	}
	return e
}

type seqStats struct {
	States, Transitions, FaultRuns, Replays, Restores int
	PerDepth                                          []string
	Complete                                          bool
}

func short16(x string) string {
	h := sha256.Sum256([]byte(x))
	return hex.EncodeToString(h[:8])
}

func explore(r *ev.Run, c cfg, p *pool, hist, faultHist map[string]int, nontrivial map[string]bool, violKinds map[string]int) seqStats {
	w0 := newWorld()
	w0.reset(c.Start)
	init := node{Key: w0.canon(), Budget: c.Faults}
	w0.inner.Close()
	seen := map[string]int{init.Key: init.Budget} // canonical state -> largest fault budget it was expanded with
	frontier := []node{init}
	st := seqStats{Complete: true}
	for d := 0; d < c.Depth && len(frontier) > 0; d++ {
		results := p.expandAll(c, frontier, r.Expired)
		if r.Expired() {
			r.CapHit(fmt.Sprintf("deadline in config %s at depth %d", c.Name, d+1))
			st.Complete = false
		}
		// deterministic merge in frontier order; higher budgets first so that a state is kept
		// with the largest budget it was reached with at this depth
		var cands []node
		for _, e := range results {
			if e == nil {
				continue
			}
			st.Transitions += e.Transitions
			st.FaultRuns += e.FaultRuns
			st.Replays += e.Replays
			st.Restores += e.Restores
			for k, v := range e.Hist {
				hist[k] += v
			}
			for k, v := range e.FaultHist {
				faultHist[k] += v
			}
			for _, k := range e.Nontrivial {
				nontrivial[k] = true
			}
			if e.Sample != nil {
				r.Sample(e.Sample)
			}
			for _, v := range e.Viols {
				violKinds[v.Kind]++
				if violKinds[v.Kind] == 1 {
					report(r, c, v)
				}
			}
			cands = append(cands, e.Cands...)
		}
		sort.SliceStable(cands, func(i, j int) bool { return cands[i].Budget > cands[j].Budget })
		var nf []node
		for _, cd := range cands {
			if b, ok := seen[cd.Key]; ok && b >= cd.Budget {
				continue
			}
			seen[cd.Key] = cd.Budget
			nf = append(nf, cd)
		}
		st.PerDepth = append(st.PerDepth, fmt.Sprintf("d%d: expanded=%d new=%d", d+1, len(frontier), len(nf)))
		frontier = nf
		if !st.Complete {
			break
		}
	}
	st.States = len(seen)
	return st
}

// report confirms a violation by re-running its trace twice on fresh real objects, then records it.
func report(r *ev.Run, c cfg, v violation) {
	if v.Kind == "restart-not-transparent" {
		// differential finding (two ways of reaching the state disagree): the comparison itself is
		// the reproduction
		var kinds []string
		for _, o := range v.Trace {
			kinds = append(kinds, o.K)
		}
		r.Violate(v.Kind+" via "+strings.Join(kinds, ","), v.What, "c04-seq",
			map[string]interface{}{"config": c, "ops": v.Trace, "ops_readable": pathStrings(v.Trace)},
			"stored state depends on whether the process was restarted", "a restart on the same database is transparent")
		return
	}
	for i := 0; i < 2; i++ {
		w := newWorld()
		kind, _ := runTrace(w, c, v.Trace, false)
		w.inner.Close()
		if kind != v.Kind {
			ev.Fatal("violation %s did not reproduce on replay of %v (got %q)", v.Kind, pathStrings(v.Trace), kind)
		}
	}
	var kinds []string
	for _, o := range v.Trace {
		k := o.K
		if o.Fault != nil {
			k += "!" + o.Fault.Mode
		}
		kinds = append(kinds, k)
	}
	sig := v.Kind + " via " + strings.Join(kinds, ",")
	r.Violate(sig, v.What, "c04-seq",
		map[string]interface{}{"config": c, "ops": v.Trace, "ops_readable": pathStrings(v.Trace), "storage_calls_of_last_op": v.Out.Calls},
		map[string]interface{}{"outcome": v.Out.Label, "violation": v.Kind},
		"no released pair of signatures is slashable; no signature while the protection record is missing or unreadable")
}

// runTrace re-applies a recorded op list on fresh real objects; returns the first violation.
func runTrace(w *world, c cfg, trace []op, verbose bool) (kind, what string) {
	w.reset(c.Start)
	for i, o := range trace {
		out := w.apply(o)
		if verbose {
			fmt.Printf("  %2d %-40s -> %-40s %s\n", i+1, o, out.Label, out.Err)
		}
		if out.Viol != "" {
			return out.Viol, out.What
		}
	}
	return "", ""
}
