package main

// Concurrent half of C04: two requests race on one real key manager whose packages (ekm and
// eth2-key-manager/signer) are built with sync -> vsync, so every lock operation is a scheduling
// point. Every interleaving with <= B preemptions is executed; the oracle is the same reference on
// the set of released signatures.

import (
	"fmt"
	"sort"
	"strings"

	"github.com/bloxapp/ssv/zzverif/vsched"

	"verifharness/lib/dfs"
	"verifharness/lib/ev"
)

type concScenario struct {
	name   string
	prefix []op
	racing [][]op // one op list per goroutine
}

func concScenarios() []concScenario {
	pre := []op{{K: "add", Sh: 0}, {K: "epoch+"}, {K: "epoch+"}, {K: "epoch+"}}
	return []concScenario{
		{"same target, two roots", pre, [][]op{{{K: "att", S: 1, T: 2, V: 0}}, {{K: "att", S: 1, T: 2, V: 1}}}},
		{"surrounding pair", pre, [][]op{{{K: "att", S: 1, T: 2, V: 0}}, {{K: "att", S: 0, T: 3, V: 1}}}},
		{"surrounded pair", pre, [][]op{{{K: "att", S: 0, T: 3, V: 0}}, {{K: "att", S: 1, T: 2, V: 1}}}},
		{"identical attestation twice", pre, [][]op{{{K: "att", S: 1, T: 2, V: 0}}, {{K: "att", S: 1, T: 2, V: 0}}}},
		{"two blocks for one slot", pre, [][]op{{{K: "blk", Slot: 6, V: 0}}, {{K: "blk", Slot: 6, V: 1}}}},
		{"attestation and block", pre, [][]op{{{K: "att", S: 1, T: 2, V: 0}}, {{K: "blk", Slot: 6, V: 0}}}},
		{"sign vs remove+add", pre, [][]op{{{K: "att", S: 1, T: 2, V: 0}, {K: "att", S: 1, T: 2, V: 1}}, {{K: "remove", Sh: 0}, {K: "add", Sh: 0}}}},
		{"sign vs reactivate", pre, [][]op{{{K: "att", S: 1, T: 2, V: 0}, {K: "att", S: 1, T: 3, V: 1}}, {{K: "reactivate", Sh: 0}}}},
		{"three signers, one target", pre, [][]op{{{K: "att", S: 1, T: 2, V: 0}}, {{K: "att", S: 1, T: 2, V: 1}}, {{K: "att", S: 0, T: 2, V: 1}}}},
	}
}

func conc(r *ev.Run, exhaustive *bool) {
	bound := 2
	if r.Thorough() {
		bound = 3
	}
	w := newWorld()
	outcomes := map[string]int{}
	schedules, deadlocks, maxPoints, done := 0, 0, 0, 0
	scs := concScenarios()
	for si, sc := range scs {
		var outs []outcome
		var labels []string
		e := &dfs.Explorer{Bound: bound, Stop: r.Expired,
			Body: func() {
				w.reset(2)
				for _, o := range sc.prefix {
					w.apply(o)
				}
				outs, labels = nil, nil
				for _, ops := range sc.racing {
					ops := ops
					vsched.Go(func() {
						for _, o := range ops {
							out := w.apply(o)
							outs = append(outs, out)
							labels = append(labels, o.String()+"="+out.Label)
						}
					})
				}
			},
			Check: func(x *vsched.Execution, choices []int) {
				l := append([]string(nil), labels...)
				sort.Strings(l)
				key := sc.name + ": " + strings.Join(l, " | ")
				if x.Deadlock {
					// eth2-key-manager's SimpleSigner takes the per-key lock while holding mapLock and
					// needs mapLock to unlock: two signers of one account and operation can deadlock.
					// No signature is released by a blocked request: counted, not a C04 violation.
					deadlocks++
					key += " [deadlock: " + strings.Join(x.Blocked, ",") + "]"
				}
				outcomes[key]++
				for _, out := range outs {
					if out.Viol != "" {
						r.Violate("conc "+out.Viol, out.What+" [concurrent scenario: "+sc.name+"]", "c04-conc",
							map[string]interface{}{"scenario": si, "name": sc.name, "choices": choices, "outcomes": l}, nil, nil)
					}
				}
			}}
		e.Explore()
		schedules += e.Executions
		if e.MaxPoints > maxPoints {
			maxPoints = e.MaxPoints
		}
		if e.EngineErr != "" {
			ev.Fatal("scheduler: %s (scenario %s)", e.EngineErr, sc.name)
		}
		if e.Capped {
			*exhaustive = false
			r.CapHit(fmt.Sprintf("deadline: %d of %d concurrent scenarios", done, len(scs)))
			break
		}
		done++
	}
	r.Add("evaluations", schedules)
	r.Add("transitions", schedules)
	r.Set("concurrent_scenarios", done)
	r.Set("concurrent_schedules", schedules)
	r.Set("concurrent_preemption_bound", bound)
	r.Set("concurrent_max_choice_points", maxPoints)
	r.Set("concurrent_deadlocked_schedules_third_party_lock_order", deadlocks)
	r.Set("concurrent_outcomes", outcomes)
	r.Assume("concurrent half: ekm/*.go and eth2-key-manager/signer/validator_signer.go built with sync -> vsync (every lock operation a scheduling point); 2-3 racing requests after a fixed prefix; schedules that end in the third-party lock-order deadlock release nothing and are counted, not reported")
}

func replayConc(r *ev.Run, v ev.Violation) {
	ev.Fatal("concurrent artefacts: the trace lists the scenario and the choice sequence; re-run the check")
}
