package main

import "verifharness/lib/ev"

// Concurrent half of C04 (E2, cooperative scheduler over ekm + eth2-key-manager/signer:
// concurrent signing requests for one share, Sign ∥ RemoveShare+AddShare) — added separately.
// It reuses world/apply and the reference oracle (refAttestation / refBlock) of this package.
func conc(r *ev.Run, exhaustive *bool) {}

func replayConc(r *ev.Run, v ev.Violation) { ev.Fatal("no concurrent replay yet") }
