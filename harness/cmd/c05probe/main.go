package main

import (
	"fmt"
	"time"

	spectypes "github.com/bloxapp/ssv-spec/types"
	qbftstorage "github.com/bloxapp/ssv/protocol/v2/qbft/storage"

	"verifharness/lib/run5"
)

func main() {
	st := run5.NewStores()
	e := run5.NewWith(run5.Attester, 7, run5.ByDecided, st)
	if err := e.Prefix(); err != nil {
		panic(err)
	}
	inst := e.Runner.GetBaseRunner().State.RunningInstance
	s := st.Get(spectypes.BNRoleAttester)
	for round := 0; round < 5; round++ {
		t0 := time.Now()
		for i := 0; i < 2000; i++ {
			if err := s.SaveHighestInstance(&qbftstorage.StoredInstance{State: inst.State}); err != nil {
				panic(err)
			}
		}
		fmt.Println("SaveHighestInstance", time.Since(t0)/2000)
	}
	t0 := time.Now()
	for i := 0; i < 2000; i++ {
		e.KS.Shares[1].GetPublicKey()
	}
	fmt.Println("GetPublicKey", time.Since(t0)/2000)
	t0 = time.Now()
	for i := 0; i < 500; i++ {
		x := run5.NewWith(run5.Attester, 7, run5.ByDecided, st)
		_ = x
	}
	fmt.Println("NewWith", time.Since(t0)/500)
	t0 = time.Now()
	for i := 0; i < 500; i++ {
		x := run5.NewWith(run5.Attester, 7, run5.ByDecided, st)
		x.Prefix()
	}
	fmt.Println("NewWith+Prefix", time.Since(t0)/500)
	t0 = time.Now()
	for i := 0; i < 500; i++ {
		e.Runner.GetRoot()
	}
	fmt.Println("GetRoot", time.Since(t0)/500)
}
