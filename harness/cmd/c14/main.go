// C14 — the validator message queue neither loses nor duplicates messages.
// Sequential half: complete explicit-state search over the real priorityQueue (E1).
// Concurrent half: see conc.go (E2, cooperative scheduler).
package main

import (
	"context"
	"fmt"
	"strings"
	"time"

	specqbft "github.com/bloxapp/ssv-spec/qbft"
	spectypes "github.com/bloxapp/ssv-spec/types"

	"github.com/bloxapp/ssv/protocol/v2/ssv/queue"
	ssvtypes "github.com/bloxapp/ssv/protocol/v2/types"
	"github.com/bloxapp/ssv/zzverif/vsched"
	"github.com/bloxapp/ssv/zzverif/vtime"

	"verifharness/lib/ev"
)

const (
	curHeight = 5
	curRound  = 2
	curSlot   = 5
	quorum    = 3
)

var kindNames = []string{"execDuty", "timeout", "proposal", "prepare", "commit", "commitLowerH", "decidedHigherH", "roundChange", "postPartialSig", "prepareOldRound"}

func mk(kind int) *queue.DecodedSSVMessage {
	cons := func(t specqbft.MessageType, h, r int, signers ...spectypes.OperatorID) *queue.DecodedSSVMessage {
		return &queue.DecodedSSVMessage{SSVMessage: &spectypes.SSVMessage{MsgType: spectypes.SSVConsensusMsgType},
			Body: &specqbft.SignedMessage{Signers: signers, Message: specqbft.Message{MsgType: t, Height: specqbft.Height(h), Round: specqbft.Round(r)}}}
	}
	switch kind {
	case 0:
		return &queue.DecodedSSVMessage{SSVMessage: &spectypes.SSVMessage{MsgType: 100}, Body: &ssvtypes.EventMsg{Type: ssvtypes.ExecuteDuty}}
	case 1:
		return &queue.DecodedSSVMessage{SSVMessage: &spectypes.SSVMessage{MsgType: 100}, Body: &ssvtypes.EventMsg{Type: ssvtypes.Timeout}}
	case 2:
		return cons(specqbft.ProposalMsgType, curHeight, curRound, 1)
	case 3:
		return cons(specqbft.PrepareMsgType, curHeight, curRound, 1)
	case 4:
		return cons(specqbft.CommitMsgType, curHeight, curRound, 1)
	case 5:
		return cons(specqbft.CommitMsgType, curHeight-1, 1, 1)
	case 6:
		return cons(specqbft.CommitMsgType, curHeight+1, 1, 1, 2, 3, 4)
	case 7:
		return cons(specqbft.RoundChangeMsgType, curHeight, curRound+1, 1)
	case 8:
		return &queue.DecodedSSVMessage{SSVMessage: &spectypes.SSVMessage{MsgType: spectypes.SSVPartialSignatureMsgType},
			Body: &spectypes.SignedPartialSignatureMessage{Signer: 1, Message: spectypes.PartialSignatureMessages{Type: spectypes.PostConsensusPartialSig, Slot: curSlot}}}
	case 9:
		return cons(specqbft.PrepareMsgType, curHeight, curRound-1, 1)
	}
	panic("kind")
}

var docClassNames = []string{"duty start", "timeout", "current height/slot", "other height/slot"}

// docClass: the class of a message in the documented priority order (C14: "duty start, then
// timeout, then current-height consensus traffic before other heights"), computed from the
// message alone.
func docClass(m *queue.DecodedSSVMessage) int {
	switch b := m.Body.(type) {
	case *ssvtypes.EventMsg:
		if b.Type == ssvtypes.ExecuteDuty {
			return 0
		}
		return 1
	case *specqbft.SignedMessage:
		if b.Message.Height == curHeight {
			return 2
		}
	case *spectypes.SignedPartialSignatureMessage:
		if b.Message.Slot == curSlot {
			return 2
		}
	}
	return 3
}

type filterDef struct {
	name string
	f    queue.Filter
}

var filters = []filterDef{
	{"any", queue.FilterAny},
	{"none", func(*queue.DecodedSSVMessage) bool { return false }},
	// the two filters of Validator.ConsumeQueue, copied literally
	{"onlyExecuteDuty", func(m *queue.DecodedSSVMessage) bool {
		e, ok := m.Body.(*ssvtypes.EventMsg)
		if !ok {
			return false
		}
		return e.Type == ssvtypes.ExecuteDuty
	}},
	{"noPrepareCommitOfCurrentRound", func(m *queue.DecodedSSVMessage) bool {
		sm, ok := m.Body.(*specqbft.SignedMessage)
		if !ok {
			return true
		}
		if sm.Message.Height != curHeight || sm.Message.Round != curRound {
			return true
		}
		return sm.Message.MsgType != specqbft.PrepareMsgType && sm.Message.MsgType != specqbft.CommitMsgType
	}},
}

var prios = []queue.MessagePrioritizer{
	queue.NewMessagePrioritizer(&queue.State{HasRunningInstance: true, Height: curHeight, Round: curRound, Slot: curSlot, Quorum: quorum}),
	queue.NewMessagePrioritizer(&queue.State{HasRunningInstance: false, Height: curHeight, Round: curRound, Slot: curSlot, Quorum: quorum}),
}
var prioNames = []string{"running", "idle"}

// ---- state ----

type state struct {
	list  []int // kinds, head first
	inbox []int // kinds, oldest first
	fresh bool
}

func (s state) key() string {
	return fmt.Sprintf("%v|%v|%v", s.list, s.inbox, s.fresh)
}

type op struct {
	kind string // push trypush trypop pop popcancel advance
	k    int    // message kind
	p, f int
	c    int // popcancel: index of the ready select case taken
}

func (o op) String() string {
	switch o.kind {
	case "push", "trypush":
		return fmt.Sprintf("%s(%s)", o.kind, kindNames[o.k])
	case "advance":
		return "advance(2ms)"
	}
	if o.kind == "popcancel" {
		return fmt.Sprintf("%s(%s,%s,case%d)", o.kind, prioNames[o.p], filters[o.f].name, o.c)
	}
	return fmt.Sprintf("%s(%s,%s)", o.kind, prioNames[o.p], filters[o.f].name)
}

// live builds a real queue in state s; msgs maps each real message to its kind.
type live struct {
	q     queue.Queue
	kind  map[*queue.DecodedSSVMessage]int
	list  []*queue.DecodedSSVMessage
	inbox []*queue.DecodedSSVMessage
}

func build(s state, capacity int) *live {
	vtime.ResetClock()
	l := &live{kind: map[*queue.DecodedSSVMessage]int{}}
	// the list is built through the real inbox + real readInbox (which prepends), in chunks that fit
	l.q = queue.New(capacity)
	for i := len(s.list) - 1; i >= 0; i-- {
		m := mk(s.list[i])
		l.kind[m] = s.list[i]
		l.q.Push(m)
		queue.VerifReadInbox(l.q)
	}
	if len(s.list) == 0 {
		queue.VerifReadInbox(l.q)
	}
	for _, k := range s.inbox {
		m := mk(k)
		l.kind[m] = k
		l.q.Push(m)
	}
	if !s.fresh {
		vtime.Advance(2 * time.Millisecond)
	}
	l.list, l.inbox = queue.VerifDump(l.q)
	return l
}

func (l *live) observe() state {
	a, b := queue.VerifDump(l.q)
	s := state{fresh: queue.VerifFresh(l.q)}
	for _, m := range a {
		s.list = append(s.list, l.kind[m])
	}
	for _, m := range b {
		s.inbox = append(s.inbox, l.kind[m])
	}
	return s
}

type explorer struct {
	r        *ev.Run
	capacity int
	nk       int
	depth    int
	outcomes map[string]int
}

func (e *explorer) ops(s state) []op {
	var out []op
	for k := 0; k < e.nk; k++ {
		if len(s.inbox) < e.capacity {
			out = append(out, op{kind: "push", k: k})
		}
		out = append(out, op{kind: "trypush", k: k})
	}
	for p := range prios {
		for f := range filters {
			out = append(out, op{kind: "trypop", p: p, f: f})
			adm := false
			for _, k := range append(append([]int{}, s.list...), s.inbox...) {
				if filters[f].f(mk(k)) {
					adm = true
				}
			}
			if adm {
				out = append(out, op{kind: "pop", p: p, f: f})
			}
			// cancelled context: with a non-empty inbox both select cases of Pop are ready; the
			// scheduler makes the choice explicit (c = which ready case is taken at every select)
			out = append(out, op{kind: "popcancel", p: p, f: f, c: 0})
			if len(s.inbox) > 0 {
				out = append(out, op{kind: "popcancel", p: p, f: f, c: 1})
			}
		}
	}
	if s.fresh {
		out = append(out, op{kind: "advance"})
	}
	return out
}

type result struct {
	next  state
	viol  string // signature, "" if fine
	what  string
	label string
}

// apply runs one op on a fresh real queue in state s and checks the oracle against the
// reference model (two slices).
func (e *explorer) apply(s state, o op) result {
	l := build(s, e.capacity)
	got := l.observe()
	if got.key() != s.key() {
		// the state is rebuilt with the queue's own Push and readInbox; on the unchanged tree the
		// result always is the wanted state. The only way to differ is readInbox not doing what pop
		// relies on: moving every message it finds in the inbox into the scanned list.
		if len(got.list)+len(got.inbox) == len(s.list)+len(s.inbox) && len(got.inbox) > len(s.inbox) {
			return result{viol: "read-inbox-left-messages-unread", what: fmt.Sprintf("after Push + readInbox for every message of the list, %d message(s) are still in the inbox (layout list|inbox|fresh: wanted %s, got %s): a pop scans the list only, so they cannot be returned however admissible and prior they are", len(got.inbox)-len(s.inbox), s.key(), got.key())}
		}
		ev.Fatal("state reconstruction diverged: want %s got %s", s.key(), got.key())
	}
	all := append(append([]*queue.DecodedSSVMessage{}, l.list...), l.inbox...)
	var res result
	expectRemoved := (*queue.DecodedSSVMessage)(nil)
	var added *queue.DecodedSSVMessage
	// every op runs as the single managed goroutine of one scheduler execution: a blocked Pop
	// shows up as "nothing enabled" instead of a hang, and select choices are explicit
	var m *queue.DecodedSSVMessage
	returned := true
	isPop := false
	x := vsched.Execute(func() {
		switch o.kind {
		case "push":
			added = mk(o.k)
			l.kind[added] = o.k
			l.q.Push(added)
			res.label = "pushed"
		case "trypush":
			nm := mk(o.k)
			l.kind[nm] = o.k
			ok := l.q.TryPush(nm)
			full := len(s.inbox) >= e.capacity
			if ok == full {
				res.viol, res.what = "trypush-result", fmt.Sprintf("TryPush returned %v with inbox %d/%d", ok, len(s.inbox), e.capacity)
			}
			if ok {
				added = nm
				res.label = "trypush-ok"
			} else {
				res.label = "trypush-full"
			}
		case "advance":
			vtime.Advance(2 * time.Millisecond)
			res.label = "advance"
		case "trypop":
			isPop = true
			m = l.q.TryPop(prios[o.p], filters[o.f].f)
		case "pop", "popcancel":
			isPop = true
			ctx, cancel := context.WithCancel(context.Background())
			defer cancel()
			if o.kind == "popcancel" {
				cancel()
			}
			returned = false
			m = l.q.Pop(ctx, prios[o.p], filters[o.f].f)
			returned = true
		}
	}, func(p vsched.PointInfo) int {
		if p.Kind == vsched.Choice && o.c < p.N {
			return o.c
		}
		return 0
	})
	if x.Err != "" {
		ev.Fatal("scheduler: %s (op %s in state %s)", x.Err, o, s.key())
	}
	if isPop {
		f := filters[o.f].f
		// scope = messages this pop has looked at: list, plus inbox if it was read
		scope := all
		if (o.kind == "pop" || o.kind == "popcancel") && s.fresh && m != nil {
			inList := false
			for _, x := range l.list {
				if x == m {
					inList = true
				}
			}
			if inList {
				scope = l.list // served from the list before the inbox was due to be read
			}
		}
		var admissible []*queue.DecodedSSVMessage
		for _, x := range scope {
			if f(x) {
				admissible = append(admissible, x)
			}
		}
		switch {
		case !returned:
			res.viol, res.what = "pop-blocks-with-admissible", "Pop blocked although an admissible message was queued"
		case m == nil && len(admissible) > 0:
			res.viol, res.what = "pop-nil-with-admissible", fmt.Sprintf("%s returned nil although admissible %s was queued", o.kind, kindNames[l.kind[admissible[0]]])
		case m != nil && !f(m):
			res.viol, res.what = "pop-returned-inadmissible", "returned a message the filter rejects"
		case m != nil:
			found := false
			for _, x := range all {
				if x == m {
					found = true
				}
			}
			if !found {
				res.viol, res.what = "pop-returned-unknown", "returned a message that was not queued"
			}
			for _, x := range admissible {
				if x != m && prios[o.p].Prior(x, m) && !prios[o.p].Prior(m, x) {
					res.viol, res.what = "pop-not-maximal", fmt.Sprintf("returned %s although admissible %s is strictly prior", kindNames[l.kind[m]], kindNames[l.kind[x]])
				}
				// the documented order itself, judged without the package's comparison functions:
				// duty start, then timeout, then traffic of the current height / slot, then the rest
				if x != m && docClass(x) < docClass(m) {
					res.viol, res.what = "pop-not-maximal-in-documented-order", fmt.Sprintf("returned %s (%s) although admissible %s (%s) is queued", kindNames[l.kind[m]], docClassNames[docClass(m)], kindNames[l.kind[x]], docClassNames[docClass(x)])
				}
			}
		}
		expectRemoved = m
		if m == nil {
			res.label = o.kind + "-nil"
		} else {
			res.label = o.kind + "-" + kindNames[l.kind[m]]
		}
	}
	// conservation: content after == content before + added - returned, as a set of identities
	a, b := queue.VerifDump(l.q)
	after := map[*queue.DecodedSSVMessage]int{}
	for _, m := range append(a, b...) {
		after[m]++
	}
	want := map[*queue.DecodedSSVMessage]int{}
	for _, m := range all {
		want[m]++
	}
	if added != nil {
		want[added]++
	}
	if expectRemoved != nil {
		want[expectRemoved]--
		if want[expectRemoved] == 0 {
			delete(want, expectRemoved)
		}
	}
	if res.viol == "" {
		for m, n := range want {
			if after[m] != n {
				res.viol = "message-lost"
				res.what = fmt.Sprintf("%s was queued and not returned, but is gone after %s", kindNames[l.kind[m]], o)
			}
		}
		for m, n := range after {
			if want[m] != n {
				res.viol = "message-duplicated-or-retained"
				res.what = fmt.Sprintf("%s present %d times after %s, expected %d", kindNames[l.kind[m]], n, o, want[m])
			}
		}
		if l.q.Len() != len(a)+len(b) || l.q.Empty() != (len(a)+len(b) == 0) {
			res.viol, res.what = "len-mismatch", "Len()/Empty() disagree with content"
		}
	}
	res.next = l.observe()
	return res
}

type node struct {
	s    state
	path []string
}

func (e *explorer) run() (states, transitions int, complete bool) {
	init := state{fresh: true}
	seen := map[string]bool{init.key(): true}
	frontier := []node{{s: init}}
	complete = true
	for d := 0; d < e.depth && len(frontier) > 0; d++ {
		var next []node
		for _, n := range frontier {
			if e.r.Expired() {
				e.r.CapHit(fmt.Sprintf("deadline at depth %d (capacity %d)", d, e.capacity))
				return len(seen), transitions, false
			}
			for _, o := range e.ops(n.s) {
				res := e.apply(n.s, o)
				transitions++
				e.outcomes[res.label]++
				if res.viol != "" {
					trace := append(append([]string{}, n.path...), o.String())
					sig := fmt.Sprintf("%s %s f=%s", res.viol, o.kind, filters[o.f].name)
					e.r.Violate(sig, res.what, "c14-seq", map[string]interface{}{"capacity": e.capacity, "state": n.s.key(), "ops_from_empty": trace}, res.label, nil)
					continue
				}
				k := res.next.key()
				if !seen[k] {
					seen[k] = true
					next = append(next, node{s: res.next, path: append(append([]string{}, n.path...), o.String())})
					if len(seen)%50000 == 0 {
						e.r.Sample(map[string]interface{}{"ops": next[len(next)-1].path, "state": k})
					}
				}
			}
		}
		frontier = next
	}
	return len(seen), transitions, complete
}

func main() {
	r := ev.Start("C14", "model_checking")
	if r.Replay != "" {
		replay(r)
		return
	}
	type cfg struct{ capacity, nk, depth int }
	cfgs := []cfg{{1, 8, 6}, {3, 8, 6}, {3, 10, 5}} // (the last one: all message kinds, incl. partial signatures and earlier-round traffic of the current height)
	if r.Thorough() {
		cfgs = []cfg{{1, 10, 7}, {3, 10, 7}, {2, 8, 8}}
	}
	outcomes := map[string]int{}
	exhaustive := true
	var bounds []string
	for _, c := range cfgs {
		e := &explorer{r: r, capacity: c.capacity, nk: c.nk, depth: c.depth, outcomes: outcomes}
		st, tr, ok := e.run()
		r.Add("states", st)
		r.Add("transitions", tr)
		exhaustive = exhaustive && ok
		bounds = append(bounds, fmt.Sprintf("capacity=%d kinds=%d depth=%d: states=%d transitions=%d complete=%v", c.capacity, c.nk, c.depth, st, tr, ok))
	}
	r.Set("traces_validated_against_impl", r.Get("transitions"))
	r.Set("seq_bounds", bounds)
	r.Set("distinct_outcomes", len(outcomes))
	r.Set("outcome_histogram", outcomes)
	r.Sample(map[string]interface{}{"ops": []string{"push(prepare)", "push(execDuty)", "trypop(idle,onlyExecuteDuty)"}, "note": "every op sequence up to the depth bound is explored by state"})
	r.Assume("sequential half: single consumer, as the queue documents", "state = (list, inbox, inbox-read freshness) read from the real object through an overlay-added accessor",
		"maximality is asserted among the messages the pop has drained (a Pop inside inboxReadFrequency serves the list first by design)")
	conc(r, &exhaustive)
	r.RaceReport(func(rep string) bool { return strings.Contains(rep, "ssv/queue.") })
	r.Finish(exhaustive)
}

func replay(r *ev.Run) {
	v, err := ev.LoadReplay(r.Replay)
	if err != nil {
		ev.Fatal("%v", err)
	}
	fmt.Printf("replay %s: %s\n", r.Replay, v.What)
	tr, _ := v.Trace.(map[string]interface{})
	fmt.Println("trace:", tr)
	if v.Harness != "c14-seq" {
		replayConc(r, v)
		return
	}
	// re-run the last op from the recorded state on a fresh real queue
	capacity := int(tr["capacity"].(float64))
	st := parseState(tr["state"].(string))
	opsAny := tr["ops_from_empty"].([]interface{})
	last := opsAny[len(opsAny)-1].(string)
	e := &explorer{r: r, capacity: capacity, nk: len(kindNames), depth: 1, outcomes: map[string]int{}}
	for _, o := range e.ops(st) {
		if o.String() == last {
			res := e.apply(st, o)
			fmt.Printf("state %s op %s -> %s ; violation=%q %s\n", st.key(), o, res.label, res.viol, res.what)
			if res.viol != "" {
				fmt.Printf("VIOLATION property=C14 replay=%s\n", r.Replay)
				r.Finish(false)
			}
			fmt.Println("not reproduced")
			r.Finish(false)
		}
	}
	ev.Fatal("op %s not enabled in state %s", last, st.key())
}

func parseState(s string) state {
	parts := strings.Split(s, "|")
	p := func(x string) []int {
		var out []int
		for _, f := range strings.Fields(strings.Trim(x, "[]")) {
			var n int
			fmt.Sscan(f, &n)
			out = append(out, n)
		}
		return out
	}
	return state{list: p(parts[0]), inbox: p(parts[1]), fresh: parts[2] == "true"}
}
