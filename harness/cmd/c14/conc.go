package main

// Concurrent half of C14: producers and one consumer as managed goroutines around the real,
// instrumented queue; every interleaving with <= B preemptions (and every ready-select choice).

import (
	"context"
	"fmt"
	"sort"
	"strings"
	"sync"
	"time"

	"github.com/bloxapp/ssv/protocol/v2/ssv/queue"
	"github.com/bloxapp/ssv/zzverif/vsched"
	"github.com/bloxapp/ssv/zzverif/vtime"

	"verifharness/lib/dfs"
	"verifharness/lib/ev"
)

type prodOp struct {
	try  bool
	kind int
}

type consOp struct {
	kind string // pop, trypop, popcancel
	f    int
}

type scenario struct {
	capacity  int
	producers [][]prodOp
	consumer  []consOp
}

func (s scenario) String() string {
	var ps []string
	for _, p := range s.producers {
		var o []string
		for _, x := range p {
			n := "Push"
			if x.try {
				n = "TryPush"
			}
			o = append(o, fmt.Sprintf("%s(%s)", n, kindNames[x.kind]))
		}
		ps = append(ps, "["+strings.Join(o, ",")+"]")
	}
	var cs []string
	for _, c := range s.consumer {
		cs = append(cs, fmt.Sprintf("%s(%s)", c.kind, filters[c.f].name))
	}
	return fmt.Sprintf("cap=%d producers=%s consumer=[%s]", s.capacity, strings.Join(ps, " "), strings.Join(cs, ","))
}

type concRun struct {
	sc       scenario
	q        queue.Queue
	pushed   map[*queue.DecodedSSVMessage]int // accepted pushes
	refused  int
	popped   []*queue.DecodedSSVMessage
	popF     []int
	nilPops  []string
	blocked  *consOp // consumer is inside a blocking Pop
	kindOf   map[*queue.DecodedSSVMessage]int
	consDone bool
	free     bool       // free-running (-race pass): blocking pops get a real deadline
	hmu      sync.Mutex // harness bookkeeping (only contended in the free-running pass)
}

func (r *concRun) body() {
	vtime.ResetClock()
	r.q = queue.New(r.sc.capacity)
	r.pushed = map[*queue.DecodedSSVMessage]int{}
	r.kindOf = map[*queue.DecodedSSVMessage]int{}
	for _, p := range r.sc.producers {
		ops := p
		vsched.Go(func() {
			for _, o := range ops {
				m := mk(o.kind)
				r.hmu.Lock()
				r.kindOf[m] = o.kind
				r.hmu.Unlock()
				if o.try {
					ok := r.q.TryPush(m)
					r.hmu.Lock()
					if ok {
						r.pushed[m]++
					} else {
						r.refused++
					}
					r.hmu.Unlock()
				} else {
					if r.free && len(ops) > 0 {
						// a blocking Push on a full inbox would never return if the consumer is done
						if !r.q.TryPush(m) {
							continue
						}
					} else {
						r.q.Push(m)
					}
					r.hmu.Lock()
					r.pushed[m]++
					r.hmu.Unlock()
				}
			}
		})
	}
	vsched.Go(func() {
		for i := range r.sc.consumer {
			o := r.sc.consumer[i]
			var m *queue.DecodedSSVMessage
			switch o.kind {
			case "trypop":
				m = r.q.TryPop(prios[0], filters[o.f].f)
			case "pop":
				r.blocked = &o
				ctx := context.Background()
				if r.free {
					c2, cancel := context.WithTimeout(ctx, 5*time.Millisecond)
					defer cancel()
					ctx = c2
				}
				m = r.q.Pop(ctx, prios[0], filters[o.f].f)
				r.blocked = nil
			case "popcancel":
				ctx, cancel := context.WithCancel(context.Background())
				cancel()
				m = r.q.Pop(ctx, prios[0], filters[o.f].f)
			case "tick":
				vtime.Advance(2_000_000) // 2ms: the next Pop reads the inbox first
				continue
			}
			r.hmu.Lock()
			if m == nil {
				r.nilPops = append(r.nilPops, o.kind)
			} else {
				r.popped = append(r.popped, m)
				r.popF = append(r.popF, o.f)
			}
			r.hmu.Unlock()
		}
		r.consDone = true
	})
}

func (r *concRun) oracle(x *vsched.Execution) (string, string) {
	list, inbox := queue.VerifDump(r.q)
	remaining := map[*queue.DecodedSSVMessage]int{}
	for _, m := range append(list, inbox...) {
		remaining[m]++
	}
	seen := map[*queue.DecodedSSVMessage]int{}
	for i, m := range r.popped {
		seen[m]++
		if !filters[r.popF[i]].f(m) {
			return "conc-pop-returned-inadmissible", fmt.Sprintf("a pop with filter %s returned %s", filters[r.popF[i]].name, kindNames[r.kindOf[m]])
		}
		if r.pushed[m] == 0 {
			return "conc-pop-returned-unknown", "a pop returned a message that was never pushed successfully"
		}
	}
	for m, n := range r.pushed {
		if seen[m]+remaining[m] != n {
			if seen[m]+remaining[m] < n {
				return "conc-message-lost", fmt.Sprintf("%s was pushed successfully, never returned by a pop, and is not queued any more", kindNames[r.kindOf[m]])
			}
			return "conc-message-duplicated", fmt.Sprintf("%s pushed once is returned/queued %d times", kindNames[r.kindOf[m]], seen[m]+remaining[m])
		}
	}
	for m := range remaining {
		if r.pushed[m] == 0 {
			return "conc-unknown-message-queued", "the queue holds a message that was never pushed successfully"
		}
	}
	if r.q.Len() != len(list)+len(inbox) {
		return "conc-len-mismatch", "Len() disagrees with the queue content"
	}
	// a blocked Pop must return once an admissible message is queued
	if !r.consDone && r.blocked != nil {
		for m := range remaining {
			if filters[r.blocked.f].f(m) {
				return "conc-pop-blocked-with-admissible", fmt.Sprintf("the consumer is blocked in Pop(%s) although admissible %s is queued", filters[r.blocked.f].name, kindNames[r.kindOf[m]])
			}
		}
	}
	// producers may only be blocked in Push on a full inbox
	return "", ""
}

func concScenarios(thorough bool) []scenario {
	var out []scenario
	kinds := []int{0, 2, 5} // execDuty, proposal, commitLowerH
	var prodScripts [][]prodOp
	for _, try := range []bool{false, true} {
		for _, k := range kinds {
			prodScripts = append(prodScripts, []prodOp{{try, k}})
		}
	}
	prodScripts = append(prodScripts, []prodOp{{false, 2}, {true, 0}}, []prodOp{{true, 5}, {false, 0}})
	consScripts := [][]consOp{
		{{"pop", 0}, {"trypop", 0}},
		{{"pop", 2}, {"trypop", 0}, {"trypop", 0}},
		{{"trypop", 2}, {"pop", 0}, {"popcancel", 0}},
		{{"popcancel", 2}, {"tick", 0}, {"pop", 0}, {"trypop", 0}},
		{{"trypop", 0}, {"trypop", 1}, {"popcancel", 0}, {"popcancel", 0}},
	}
	caps := []int{1, 2}
	for _, c := range caps {
		for i, p1 := range prodScripts {
			for j, p2 := range prodScripts {
				if j < i {
					continue // producers are symmetric
				}
				if !thorough && (i+j)%2 == 1 {
					continue
				}
				for _, cs := range consScripts {
					out = append(out, scenario{c, [][]prodOp{p1, p2}, cs})
				}
			}
		}
	}
	return out
}

func conc(r *ev.Run, exhaustive *bool) {
	bound := 2
	if r.Thorough() {
		bound = 3
	}
	scs := concScenarios(r.Thorough())
	outcomes := map[string]int{}
	schedules, maxPoints := 0, 0
	done := 0
	for _, sc := range scs {
		var cur *concRun
		e := &dfs.Explorer{Bound: bound, Stop: r.Expired,
			Body: func() {
				cur = &concRun{sc: sc}
				cur.body()
			},
			Check: func(x *vsched.Execution, choices []int) {
				sig, what := cur.oracle(x)
				var got []string
				for _, m := range cur.popped {
					got = append(got, kindNames[cur.kindOf[m]])
				}
				sort.Strings(got)
				key := fmt.Sprintf("popped=%v refused=%d nil=%d blockedAtEnd=%v", got, cur.refused, len(cur.nilPops), x.Deadlock)
				outcomes[key]++
				if sig != "" {
					r.Violate(sig, what+" ["+sc.String()+"]", "c14-conc", map[string]interface{}{"scenario": sc.String(), "scenario_index": done, "choices": choices}, key, nil)
				}
			}}
		e.Explore()
		schedules += e.Executions
		if e.MaxPoints > maxPoints {
			maxPoints = e.MaxPoints
		}
		if e.EngineErr != "" {
			ev.Fatal("scheduler: %s (scenario %s)", e.EngineErr, sc)
		}
		if e.Capped {
			*exhaustive = false
			r.CapHit(fmt.Sprintf("deadline: %d of %d concurrent scenarios explored", done, len(scs)))
			break
		}
		done++
	}
	r.Add("transitions", schedules)
	r.Set("concurrent_scenarios", done)
	r.Set("concurrent_schedules", schedules)
	r.Set("concurrent_preemption_bound", bound)
	r.Set("concurrent_max_choice_points", maxPoints)
	r.Set("concurrent_distinct_outcomes", len(outcomes))
	r.Set("traces_validated_against_impl", r.Get("transitions"))
	r.Sample(map[string]interface{}{"concurrent_scenario": scs[0].String(), "explored": fmt.Sprintf("every interleaving with <= %d preemptions and every ready-select choice", bound)})
	r.Assume("concurrent half: queue.go rewritten from /repo at check time (channel sends/receives and selects gated, time -> virtual clock); 2 producers x 1-2 pushes, one consumer x 2-4 pops, capacities 1 and 2; sequentially consistent memory at channel operations; data races left to a -race pass")
}

func replayConc(r *ev.Run, v ev.Violation) {
	t := v.Trace.(map[string]interface{})
	idx := int(t["scenario_index"].(float64))
	var sc scenario
	found := false
	for _, th := range []bool{false, true} {
		scs := concScenarios(th)
		if idx < len(scs) && scs[idx].String() == t["scenario"].(string) {
			sc, found = scs[idx], true
			break
		}
	}
	if !found {
		ev.Fatal("scenario not found")
	}
	var choices []int
	for _, c := range t["choices"].([]interface{}) {
		choices = append(choices, int(c.(float64)))
	}
	var cur *concRun
	e := &dfs.Explorer{Body: func() { cur = &concRun{sc: sc}; cur.body() }}
	x := e.Replay(choices)
	sig, what := cur.oracle(x)
	fmt.Println("scenario:", sc, "engine:", x.Err, "deadlock:", x.Deadlock, x.Blocked)
	if sig != "" {
		fmt.Printf("VIOLATION property=C14 replay=%s\n  %s: %s\n", r.Replay, sig, what)
	} else {
		fmt.Println("not reproduced")
	}
	r.Finish(false)
}
