package main

import "verifharness/lib/ev"

// concurrent half (E2) — added once the cooperative scheduler exists.
func conc(r *ev.Run, exhaustive *bool) {}

func replayConc(r *ev.Run, v ev.Violation) { ev.Fatal("no concurrent replay yet") }
