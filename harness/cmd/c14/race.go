package main

// Free-running pass for the race detector (built with -race by bin/verif in the thorough tier):
// the same producer/consumer bodies, no scheduler, real goroutines on the real (rewritten but
// inactive-shim) queue code.

import (
	"fmt"

	"github.com/bloxapp/ssv/zzverif/vsched"
)

func racePass() {
	scs := concScenarios(true)
	runs := 0
	for iter := 0; iter < 40; iter++ {
		for i, sc := range scs {
			if i%3 != iter%3 {
				continue
			}
			cur := &concRun{sc: sc, free: true}
			cur.body()
			vsched.WaitFree()
			runs++
		}
	}
	fmt.Printf("race pass: %d free-running producer/consumer runs completed\n", runs)
}
