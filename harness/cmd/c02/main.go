// C02 — every reported decision is backed by a verifiable quorum certificate.
// Half 1 (local decisions): the qnet deviation-bounded search with an independent certificate
// checker on every reported decision and every instance handed to the store.
// Half 2 (network decided messages): a forged-certificate grammar against real controllers in
// five pre-states.
package main

import (
	"bytes"
	"encoding/json"
	"fmt"
	"runtime"
	"sort"

	specqbft "github.com/bloxapp/ssv-spec/qbft"
	spectypes "github.com/bloxapp/ssv-spec/types"
	"github.com/herumi/bls-eth-go-binary/bls"

	"verifharness/lib/ev"
	"verifharness/lib/qnet"
)

// ---------- half 1 ----------

func checkLocal(r *ev.Run, w *qnet.World, reps []qnet.Report, hist map[string]int) bool {
	ok := true
	c := w.C
	for _, rep := range reps {
		o := w.Op(rep.Op)
		inst := o.Inst(c.Height)
		nowDecided := inst != nil && inst.State.Decided
		if rep.DecidedMsg != nil {
			if err := c.CertOK(rep.DecidedMsg); err != nil {
				r.Violate("local-decision-without-certificate", fmt.Sprintf("operator %d reported a decision whose certificate fails the independent check: %v", rep.Op, err), "c02-qnet", qnet.Artefact(w), nil, nil)
				ok = false
			}
			if qnet.ValueCheck(rep.DecidedMsg.FullData) != nil {
				r.Violate("local-decision-invalid-value", fmt.Sprintf("operator %d decided a value that fails its own value check", rep.Op), "c02-qnet", qnet.Artefact(w), nil, nil)
				ok = false
			}
			hist[fmt.Sprintf("decided signers=%d round=%d via=%s", len(rep.DecidedMsg.Signers), rep.DecidedMsg.Message.Round, via(w, rep))]++
		}
		if nowDecided && !rep.WasDecided {
			if rep.DecidedMsg == nil {
				r.Violate("decided-flag-without-report", fmt.Sprintf("operator %d became decided without returning a decided message", rep.Op), "c02-qnet", qnet.Artefact(w), nil, nil)
				ok = false
			} else if !bytes.Equal(inst.State.DecidedValue, rep.DecidedMsg.FullData) {
				r.Violate("decided-value-differs-from-certificate", fmt.Sprintf("operator %d: DecidedValue is not the certified value", rep.Op), "c02-qnet", qnet.Artefact(w), nil, nil)
				ok = false
			}
			// reached by counting commits itself: the value was proposed by the legitimate leader
			if rep.Event.Msg >= 0 && len(w.P.List[rep.Event.Msg].Signed.Signers) == 1 && rep.DecidedMsg != nil {
				p := inst.State.ProposalAcceptedForCurrentRound
				if err := c.ProposalOK(p, c.Height, rep.DecidedMsg.Message.Round, rep.DecidedMsg.Message.Root); err != nil {
					r.Violate("local-decision-without-leader-proposal", fmt.Sprintf("operator %d decided by counting commits but: %v", rep.Op, err), "c02-qnet", qnet.Artefact(w), nil, nil)
					ok = false
				}
			}
		}
		for _, s := range rep.Saves {
			if err := c.CertOK(s.Decided); err != nil {
				r.Violate("stored-instance-without-certificate", fmt.Sprintf("operator %d handed an instance to %s whose decided message fails the independent check: %v", rep.Op, s.Call, err), "c02-qnet", qnet.Artefact(w), nil, nil)
				ok = false
			}
			if s.State == nil || !s.State.Decided {
				r.Violate("stored-instance-not-decided", fmt.Sprintf("operator %d stored a non-decided instance with a decided message", rep.Op), "c02-qnet", qnet.Artefact(w), nil, nil)
				ok = false
			}
			hist["save "+s.Call]++
		}
	}
	return ok
}

func via(w *qnet.World, rep qnet.Report) string {
	if rep.Event.Msg < 0 {
		return "start"
	}
	if len(w.P.List[rep.Event.Msg].Signed.Signers) > 1 {
		return "decided-message"
	}
	return "own-commit-count"
}

type localOut struct {
	K                               int
	States, Transitions, Executions int
	Aborted                         bool
	Hist                            map[string]int
}

func runLocal(r *ev.Run, c *qnet.Cfg, k int) localOut {
	out := localOut{K: k, Hist: map[string]int{}}
	w, init := qnet.NewWorld(c, qnet.NewPool())
	s := &qnet.Search{K: k, Stop: r.Expired,
		OnStep: func(w *qnet.World, reps []qnet.Report) bool { return checkLocal(r, w, reps, out.Hist) }}
	s.Run(w, init)
	out.States, out.Transitions, out.Executions, out.Aborted = s.States, s.Transitions, s.Executions, s.Aborted
	return out
}

// ---------- half 2 ----------

type preState struct {
	name string
	op   func() *qnet.World // fresh world whose operator 1 is in the pre-state
}

const H = specqbft.Height(2)

func forgedCfg() *qnet.Cfg {
	c := &qnet.Cfg{N: 4, Height: H, Byz: 0, MaxRound: 3, Role: spectypes.BNRoleAttester}
	c.Init()
	c.Start = map[spectypes.OperatorID]byte{1: 'A', 2: 'A', 3: 'A', 4: 'A'}
	return c
}

// drive runs the canonical schedule until pred holds for operator 1 (or the schedule ends).
func drive(w *qnet.World, pred func(*qnet.World) bool) {
	for !pred(w) {
		e, ok := w.Default()
		if !ok {
			ev.Fatal("pre-state not reachable on the canonical schedule")
		}
		w.Apply(e)
	}
}

func preStates(c *qnet.Cfg) []preState {
	mk := func(pred func(*qnet.World) bool) func() *qnet.World {
		return func() *qnet.World {
			w, _ := qnet.NewWorld(c, qnet.NewPool())
			drive(w, pred)
			return w
		}
	}
	inst := func(w *qnet.World) *specqbft.State { return w.Op(1).Inst(H).State }
	return []preState{
		{"fresh-controller", func() *qnet.World {
			cc := *c
			w := &qnet.World{C: &cc, P: qnet.NewPool()}
			w.Ops = append(w.Ops, qnet.NewIdleOp(&cc, 1))
			return w
		}},
		{"running-undecided", mk(func(w *qnet.World) bool { return inst(w).ProposalAcceptedForCurrentRound != nil })},
		{"locally-decided", mk(func(w *qnet.World) bool { return inst(w).Decided })},
		{"decided-by-3-from-network", func() *qnet.World {
			w, _ := qnet.NewWorld(c, qnet.NewPool())
			drive(w, func(w *qnet.World) bool { return inst(w).ProposalAcceptedForCurrentRound != nil })
			cert := w.C.Certificate(H, 1, 'A', []spectypes.OperatorID{2, 3, 4})
			if _, err := w.Op(1).Ctrl.ProcessMsg(qnet.Log, cert); err != nil {
				ev.Fatal("honest certificate refused: %v", err)
			}
			return w
		}},
		{"decided-all-4", mk(func(w *qnet.World) bool {
			s, _ := inst(w).CommitContainer.LongestUniqueSignersForRoundAndRoot(1, qnet.RootOf('A'))
			return inst(w).Decided && len(s) == 4
		})},
	}
}

type forged struct {
	signers  []spectypes.OperatorID
	sigKind  int
	dataKind int
	height   specqbft.Height
	round    specqbft.Round
	otherID  bool
	msgType  specqbft.MessageType
}

var sigKinds = []string{"aggregate-of-listed-distinct-members", "aggregate-with-multiplicity", "aggregate-of-another-subset", "single-share", "garbage-point", "zero", "aggregate-of-the-listed-committee-members-only"}
var dataKinds = []string{"matching", "other-value", "empty"}

func signerLists(thorough bool) [][]spectypes.OperatorID {
	var out [][]spectypes.OperatorID
	var rec func(cur []spectypes.OperatorID, n int, alphabet []spectypes.OperatorID)
	rec = func(cur []spectypes.OperatorID, n int, alphabet []spectypes.OperatorID) {
		if len(cur) == n {
			out = append(out, append([]spectypes.OperatorID(nil), cur...))
			return
		}
		for _, a := range alphabet {
			rec(append(cur, a), n, alphabet)
		}
	}
	full := []spectypes.OperatorID{0, 1, 2, 3, 4, 5}
	maxFull := 2
	if thorough {
		maxFull = 3
	}
	for n := 0; n <= maxFull; n++ {
		rec(nil, n, full)
	}
	members := []spectypes.OperatorID{1, 2, 3, 4}
	if !thorough {
		rec(nil, 3, members)
	}
	rec(nil, 4, members)
	for pos := 0; pos < 4; pos++ {
		for _, bad := range []spectypes.OperatorID{0, 5} {
			l := []spectypes.OperatorID{1, 2, 3, 4}
			l[pos] = bad
			out = append(out, l)
		}
	}
	// quorum-sized lists padded with one foreign / zero id at every position
	for _, pair := range [][2]spectypes.OperatorID{{1, 2}, {2, 3}, {3, 4}, {4, 1}} {
		for _, bad := range []spectypes.OperatorID{0, 5, 99} {
			out = append(out, []spectypes.OperatorID{pair[0], pair[1], bad}, []spectypes.OperatorID{pair[0], bad, pair[1]}, []spectypes.OperatorID{bad, pair[0], pair[1]})
		}
	}
	if thorough {
		out = append(out, []spectypes.OperatorID{1, 2, 3, 4, 4}, []spectypes.OperatorID{1, 2, 3, 4, 5}, []spectypes.OperatorID{1, 1, 2, 2, 3})
	}
	return out
}

func (f forged) String() string {
	return fmt.Sprintf("signers=%v sig=%s data=%s height=%d round=%d otherValidator=%v type=%d", f.signers, sigKinds[f.sigKind], dataKinds[f.dataKind], f.height, f.round, f.otherID, f.msgType)
}

func build(c *qnet.Cfg, f forged) *specqbft.SignedMessage {
	id := c.Identifier
	if f.otherID {
		o := spectypes.NewMsgID(spectypes.DomainType{0x9, 0x9, 0x9, 0x9}, c.KeySet.ValidatorPK.Serialize(), spectypes.BNRoleProposer)
		id = o[:]
	}
	m := &specqbft.Message{MsgType: f.msgType, Height: f.height, Round: f.round, Identifier: id, Root: qnet.RootOf('A')}
	var data []byte
	switch f.dataKind {
	case 0:
		data = qnet.ValA
	case 1:
		data = qnet.ValB
	}
	share := func(s spectypes.OperatorID) *bls.Sign {
		if _, ok := c.KeySet.Shares[s]; !ok {
			s = 4 // a foreign / zero id is signed for by member 4
		}
		sm := c.SignMsg(s, nil, m, nil)
		var sig bls.Sign
		sig.Deserialize(sm.Signature)
		return &sig
	}
	var sig []byte
	agg := func(ids []spectypes.OperatorID) []byte {
		if len(ids) == 0 {
			return make([]byte, 96)
		}
		var a bls.Sign
		for i, s := range ids {
			if i == 0 {
				a = *share(s)
			} else {
				a.Add(share(s))
			}
		}
		return a.Serialize()
	}
	switch f.sigKind {
	case 0:
		seen := map[spectypes.OperatorID]bool{}
		var d []spectypes.OperatorID
		for _, s := range f.signers {
			if !seen[s] {
				seen[s] = true
				d = append(d, s)
			}
		}
		sig = agg(d)
	case 1:
		sig = agg(f.signers)
	case 2:
		sig = agg([]spectypes.OperatorID{2, 3, 4})
		if len(f.signers) == 3 && f.signers[0] == 2 && f.signers[1] == 3 && f.signers[2] == 4 {
			sig = agg([]spectypes.OperatorID{1, 2, 3})
		}
	case 3:
		sig = agg([]spectypes.OperatorID{1})
	case 4:
		sig = c.SignMsg(1, nil, &specqbft.Message{MsgType: 7, Identifier: id}, nil).Signature // a valid point, unrelated message
	case 5:
		sig = make([]byte, 96)
	case 6:
		// only the genuine committee members among the listed ids sign (foreign / zero ids are
		// padding): what a sub-quorum of real members can produce
		seen := map[spectypes.OperatorID]bool{}
		var d []spectypes.OperatorID
		for _, s := range f.signers {
			if _, member := c.KeySet.Shares[s]; member && !seen[s] {
				seen[s] = true
				d = append(d, s)
			}
		}
		sig = agg(d)
	}
	return &specqbft.SignedMessage{Message: *m, Signers: f.signers, Signature: sig, FullData: data}
}

type forgedOut struct {
	Samples     []interface{}
	Evaluations int
	Hist        map[string]int
	Accepted    int
}

func runForged(r *ev.Run, c *qnet.Cfg, ps preState, lists [][]spectypes.OperatorID, shard func(i int) bool) forgedOut {
	out := forgedOut{Hist: map[string]int{}}
	base := ps.op()
	i := -1
	for _, l := range lists {
		for sk := range sigKinds {
			for dk := range dataKinds {
				for _, h := range []specqbft.Height{H - 1, H, H + 1} {
					for _, rd := range []specqbft.Round{0, 1, 2} {
						for _, other := range []bool{false, true} {
							for _, mt := range []specqbft.MessageType{specqbft.CommitMsgType, specqbft.PrepareMsgType} {
								i++
								if !shard(i) {
									continue
								}
								if rd == 0 && (dk != 0 || other) {
									continue // round 0 only in the main line
								}
								if r.Expired() {
									r.CapHit("deadline in forged-certificate enumeration")
									return out
								}
								f := forged{l, sk, dk, h, rd, other, mt}
								evalForged(r, c, ps.name, base, f, &out)
							}
						}
					}
				}
			}
		}
	}
	return out
}

func evalForged(r *ev.Run, c *qnet.Cfg, psName string, base *qnet.World, f forged, out *forgedOut) {
	msg := build(c, f)
	w := base.Clone()
	o := w.Op(1)
	before := map[specqbft.Height]bool{}
	for _, in := range o.Ctrl.StoredInstances {
		before[in.State.Height] = in.State.Decided
	}
	ctrlHeight := o.Ctrl.Height
	var ret *specqbft.SignedMessage
	var err error
	func() {
		defer func() {
			if p := recover(); p != nil {
				err = fmt.Errorf("panic: %v", p)
				r.Violate("panic-on-decided-message", fmt.Sprintf("Controller.ProcessMsg panicked: %v", p), "c02-forged", map[string]interface{}{"pre_state": psName, "input": f.String()}, nil, nil)
			}
		}()
		ret, err = o.Ctrl.ProcessMsg(qnet.Log, msg)
	}()
	saves := o.TakeSaves()
	out.Evaluations++
	certErr := c.CertOK(msg)
	wellFormed := certErr == nil && !f.otherID
	newlyDecided := false
	for _, in := range o.Ctrl.StoredInstances {
		if in.State.Height == f.height && in.State.Decided && !before[in.State.Height] {
			newlyDecided = true
		}
	}
	accepted := ret != nil || newlyDecided || len(saves) > 0 || o.Ctrl.Height != ctrlHeight
	class := "refused"
	if accepted {
		class = "accepted"
		out.Accepted++
	} else if err == nil {
		class = "no-effect"
	}
	out.Hist[fmt.Sprintf("%s certOK=%v %s", psName, certErr == nil, class)]++
	tr := map[string]interface{}{"pre_state": psName, "input": f.String()}
	if accepted && !wellFormed {
		r.Violate("forged-certificate-accepted "+classify(f, certErr), fmt.Sprintf("controller in state %s decided/saved/advanced on a message that is not a valid certificate (%v): %s", psName, certErr, f), "c02-forged", tr, class, "refused")
	}
	if wellFormed && err != nil {
		r.Violate("valid-certificate-refused", fmt.Sprintf("controller in state %s refused a well-formed certificate: %v : %s", psName, err, f), "c02-forged", tr, err.Error(), "accepted")
	}
	for _, s := range saves {
		if e := c.CertOK(s.Decided); e != nil {
			r.Violate("stored-forged-certificate", fmt.Sprintf("%s stored a decided message that fails the independent check: %v", s.Call, e), "c02-forged", tr, nil, nil)
		}
	}
	if out.Evaluations%40000 == 1 {
		out.Samples = append(out.Samples, map[string]interface{}{"pre_state": psName, "input": f.String(), "controller": class, "independent_check": fmt.Sprint(certErr)})
	}
}

func classify(f forged, certErr error) string {
	if f.otherID {
		return "other-validator"
	}
	if certErr != nil {
		s := certErr.Error()
		for _, k := range []string{"not a committee member", "not a commit", "repeated", "quorum", "does not deserialize", "does not verify", "does not hash"} {
			if bytes.Contains([]byte(s), []byte(k)) {
				return k
			}
		}
	}
	return "other"
}

// ---------- main ----------

type jobOut struct {
	Local  *localOut
	Forged *forgedOut
}

func main() {
	r := ev.Start("C02", "model_checking")
	bls.Init(bls.BLS12_381)
	if r.Replay != "" {
		replay(r)
		return
	}
	cfgs := qnet.Configs(4, 3, []specqbft.Height{0})
	fc := forgedCfg()
	lists := signerLists(r.Thorough())
	pss := preStates(fc)
	nw := runtime.NumCPU()
	if idx, n, ok := r.IsWorker(); ok {
		for i, c := range cfgs {
			if r.Mine(i) && !r.Expired() {
				k := 1
				if r.Thorough() && i%3 == 0 {
					k = 2
				}
				o := runLocal(r, c, k)
				r.Emit(jobOut{Local: &o})
			}
		}
		for _, ps := range pss {
			o := runForged(r, fc, ps, lists, func(i int) bool { return i%n == idx })
			r.Emit(jobOut{Forged: &o})
		}
		r.WorkerDone()
	}
	hist := map[string]int{}
	aborted := 0
	r.Cov["states"], r.Cov["transitions"], r.Cov["executions"], r.Cov["forged_inputs"], r.Cov["forged_accepted_as_valid"] = 0, 0, 0, 0, 0
	r.Spawn(nw, nil, func(raw []byte) {
		var o jobOut
		if err := json.Unmarshal(raw, &o); err != nil {
			ev.Fatal("%v", err)
		}
		if o.Local != nil {
			r.Add("states", o.Local.States)
			r.Add("transitions", o.Local.Transitions)
			r.Add("executions", o.Local.Executions)
			if o.Local.Aborted {
				aborted++
			}
			for k, v := range o.Local.Hist {
				hist[k] += v
			}
		}
		if o.Forged != nil {
			for _, smp := range o.Forged.Samples {
				r.Sample(smp)
			}
			r.Add("forged_inputs", o.Forged.Evaluations)
			r.Add("forged_accepted_as_valid", o.Forged.Accepted)
			r.Add("transitions", o.Forged.Evaluations)
			for k, v := range o.Forged.Hist {
				hist[k] += v
			}
		}
	})
	if aborted > 0 {
		r.CapHit(fmt.Sprintf("deadline: %d local configurations not completed", aborted))
	}
	r.Add("states", len(pss))
	r.Set("traces_validated_against_impl", r.Get("executions")+r.Get("forged_inputs"))
	r.Set("distinct_outcomes", len(hist))
	keys := make([]string, 0, len(hist))
	for k := range hist {
		keys = append(keys, k)
	}
	sort.Strings(keys)
	oh := map[string]int{}
	for _, k := range keys {
		oh[k] = hist[k]
	}
	r.Set("outcome_histogram", oh)
	r.Set("signer_lists", len(lists))
	r.Set("pre_states", len(pss))
	r.Sample(map[string]interface{}{"half": "local", "what": "every decision reported in the qnet deviation-bounded search (k<=1; thorough k<=2 for a third) is checked by the independent certificate checker"})
	r.Assume("independent checker = herumi BLS + ssv-spec signing root, no ssv code", "forged grammar: signer lists x 6 signature kinds x 3 full-data kinds x heights {h-1,h,h+1} x rounds {0,1,2} x {own,other} identifier x {commit,prepare} against 5 controller pre-states built by real calls (light node)",
		"n=4; local half inherits the bounds of the C01 search")
	r.Finish(aborted == 0)
}

func replay(r *ev.Run) {
	v, err := ev.LoadReplay(r.Replay)
	if err != nil {
		ev.Fatal("%v", err)
	}
	if v.Harness == "c02-qnet" {
		c, evs, err := qnet.FromArtefact(v.Trace.(map[string]interface{}))
		if err != nil {
			ev.Fatal("%v", err)
		}
		h := map[string]int{}
		w, init := qnet.NewWorld(c, qnet.NewPool())
		checkLocal(r, w, init, h)
		for _, e := range evs {
			checkLocal(r, w, w.Apply(e), h)
		}
		fmt.Println(w.Summary())
		r.Finish(false)
	}
	// forged: re-enumerate and evaluate the recorded input
	t := v.Trace.(map[string]interface{})
	fc := forgedCfg()
	for _, ps := range preStates(fc) {
		if ps.name != t["pre_state"].(string) {
			continue
		}
		base := ps.op()
		out := forgedOut{Hist: map[string]int{}}
		for _, l := range signerLists(true) {
			for sk := range sigKinds {
				for dk := range dataKinds {
					for _, h := range []specqbft.Height{H - 1, H, H + 1} {
						for _, rd := range []specqbft.Round{0, 1, 2} {
							for _, other := range []bool{false, true} {
								for _, mt := range []specqbft.MessageType{specqbft.CommitMsgType, specqbft.PrepareMsgType} {
									f := forged{l, sk, dk, h, rd, other, mt}
									if f.String() == t["input"].(string) {
										evalForged(r, fc, ps.name, base, f, &out)
										fmt.Println(out.Hist)
										r.Finish(false)
									}
								}
							}
						}
					}
				}
			}
		}
	}
	ev.Fatal("input not found")
}
