// C10 — messages produced by correct operators are never rejected by correct peers.
// Emission sequences of real controllers (qnet, every operator honest or one silent) are
// enumerated by the deviation-bounded search; every complete emission log is fed, in emission
// order and at instants inside each message's round window, to a fresh real messageValidator.
package main

import (
	"context"
	"crypto/sha256"
	"encoding/binary"
	"encoding/hex"
	"encoding/json"
	"flag"
	"fmt"
	"runtime"
	"sort"
	"strconv"
	"strings"
	"time"

	eth2apiv1 "github.com/attestantio/go-eth2-client/api/v1"
	"github.com/attestantio/go-eth2-client/spec/phase0"
	specqbft "github.com/bloxapp/ssv-spec/qbft"
	spectypes "github.com/bloxapp/ssv-spec/types"
	"github.com/herumi/bls-eth-go-binary/bls"
	pubsub "github.com/libp2p/go-libp2p-pubsub"
	pspb "github.com/libp2p/go-libp2p-pubsub/pb"

	"github.com/bloxapp/ssv/message/validation"

	"verifharness/lib/ev"
	"verifharness/lib/qnet"
	"verifharness/lib/valenv"
)

var env *valenv.Env

func subnetOf(pk []byte) uint64 {
	v, _ := strconv.ParseUint(hex.EncodeToString(pk)[:10], 16, 64)
	return v % 128
}

// roundWindow returns the first and last instant (offset from the slot start) of round r for the
// role, from the round timer's constants: deadline(r) = base(role) + cumulative allowance.
func roundWindow(role spectypes.BeaconRole, r specqbft.Round) (time.Duration, time.Duration) {
	slot := 12 * time.Second
	var base time.Duration
	switch role {
	case spectypes.BNRoleAttester, spectypes.BNRoleSyncCommittee:
		base = slot / 3
	case spectypes.BNRoleAggregator, spectypes.BNRoleSyncCommitteeContribution:
		base = slot / 3 * 2
	default:
		base = 0 // proposer: 2s (quick) per round from the moment it is armed
	}
	deadline := func(r specqbft.Round) time.Duration {
		if r <= 8 {
			return base + time.Duration(r)*2*time.Second
		}
		return base + 8*2*time.Second + time.Duration(r-8)*2*time.Minute
	}
	start := time.Duration(0)
	if r > 1 {
		start = deadline(r - 1)
	}
	return start, deadline(r) - time.Millisecond
}

type verdict struct {
	res    pubsub.ValidationResult
	reason string
}

// item is one emitted message as it travels: the consensus message of the qnet log, or a
// pre-/post-consensus partial-signature message of the duty runner around it.
type item struct {
	payload []byte // encoded SSVMessage
	from    spectypes.OperatorID
	round   specqbft.Round // round window it is sent in
	desc    string
	msgID   int32 // qnet pool id for consensus messages, -1 otherwise
	decided bool  // emitter was already decided when it sent it
}

func partialSig(c *qnet.Cfg, op spectypes.OperatorID, typ spectypes.PartialSigMsgType, round specqbft.Round) item {
	slot := phase0.Slot(c.Height)
	sk := c.KeySet.Shares[op]
	root := sha256.Sum256([]byte(fmt.Sprintf("c10 duty object %d %d", typ, slot)))
	pm := spectypes.PartialSignatureMessages{Type: typ, Slot: slot, Messages: []*spectypes.PartialSignatureMessage{{
		PartialSignature: sk.SignByte(root[:]).Serialize(), SigningRoot: root, Signer: op}}}
	r, err := spectypes.ComputeSigningRoot(pm, spectypes.ComputeSignatureDomain(c.Domain, spectypes.PartialSignatureType))
	if err != nil {
		ev.Fatal("%v", err)
	}
	signed := &spectypes.SignedPartialSignatureMessage{Message: pm, Signature: sk.SignByte(r[:]).Serialize(), Signer: op}
	data, err := signed.Encode()
	if err != nil {
		ev.Fatal("%v", err)
	}
	payload, err := (&spectypes.SSVMessage{MsgType: spectypes.SSVPartialSignatureMsgType, MsgID: spectypes.MessageIDFromBytes(c.Identifier), Data: data}).Encode()
	if err != nil {
		ev.Fatal("%v", err)
	}
	kind := "post-consensus"
	if typ != spectypes.PostConsensusPartialSig {
		kind = "pre-consensus"
	}
	return item{payload: payload, from: op, round: round, desc: fmt.Sprintf("%s partial signature by %d", kind, op), msgID: -1}
}

func preType(role spectypes.BeaconRole) (spectypes.PartialSigMsgType, bool) {
	switch role {
	case spectypes.BNRoleProposer:
		return spectypes.RandaoPartialSig, true
	case spectypes.BNRoleAggregator:
		return spectypes.SelectionProofPartialSig, true
	case spectypes.BNRoleSyncCommitteeContribution:
		return spectypes.ContributionProofs, true
	}
	return 0, false
}

// items turns one execution into what the correct operators emitted, in order: pre-consensus
// partial signatures when the duty starts (roles that have them), the consensus messages of the
// qnet log, and each operator's post-consensus partial signature right after the first emission
// it made as a decided operator (its decision) - or at the end if it decided silently.
func items(c *qnet.Cfg, p *qnet.Pool, w *qnet.World) []item {
	var out []item
	if pt, ok := preType(c.Role); ok {
		for _, h := range c.Honest {
			out = append(out, partialSig(c, h, pt, 1))
		}
	}
	posted := map[spectypes.OperatorID]bool{}
	for i, id := range w.LogIDs {
		m := p.List[id]
		data, err := m.Signed.Encode()
		if err != nil {
			ev.Fatal("%v", err)
		}
		payload, err := (&spectypes.SSVMessage{MsgType: spectypes.SSVConsensusMsgType, MsgID: spectypes.MessageIDFromBytes(c.Identifier), Data: data}).Encode()
		if err != nil {
			ev.Fatal("%v", err)
		}
		out = append(out, item{payload: payload, from: w.LogFrom[i], round: m.Signed.Message.Round, desc: p.Describe(id), msgID: id, decided: w.LogDecided[i]})
		// the aggregated decided message is the first thing an operator emits upon deciding
		if len(m.Signed.Signers) > 1 && !posted[w.LogFrom[i]] {
			posted[w.LogFrom[i]] = true
			out = append(out, partialSig(c, w.LogFrom[i], spectypes.PostConsensusPartialSig, m.Signed.Message.Round))
		}
	}
	for _, o := range w.Ops {
		if s := o.Inst(c.Height).State; s.Decided && !posted[o.ID] {
			out = append(out, partialSig(c, o.ID, spectypes.PostConsensusPartialSig, s.Round))
		}
	}
	return out
}

// validateLog feeds the emitted items to a fresh validator. late selects the last instant of each
// message's round window instead of the first. Returns the per-item verdicts.
func validateLog(c *qnet.Cfg, its []item, post, late bool) []verdict {
	mv, rec := env.NewValidator(post)
	return validateItems(mv, rec, c, its, post, late, 0)
}

// validateItems feeds the items of one duty (at slot CurSlot+slotDelta) to the given validator.
func validateItems(mv validation.MessageValidator, rec *valenv.Recorder, c *qnet.Cfg, its []item, post, late bool, slotDelta int) []verdict {
	topic := fmt.Sprintf("ssv.v2.%d", subnetOf(c.KeySet.ValidatorPK.Serialize()))
	out := make([]verdict, 0, len(its))
	for _, it := range its {
		a, b := roundWindow(c.Role, it.round)
		off := a
		if late {
			off = b
		}
		env.SetClock(slotDelta, off)
		wire := it.payload
		if post {
			sig := env.Sign(int(it.from), it.payload)
			wire = make([]byte, 0, 264+len(it.payload))
			wire = append(wire, sig...)
			var le [8]byte
			binary.LittleEndian.PutUint64(le[:], uint64(it.from))
			wire = append(wire, le[:]...)
			wire = append(wire, it.payload...)
		}
		t := topic
		rec.Last = ""
		res := mv.ValidatePubsubMessage(context.Background(), "peer", &pubsub.Message{Message: &pspb.Message{Topic: &t, Data: wire}})
		out = append(out, verdict{res, rec.Last})
	}
	return out
}

type jobOut struct {
	K                               int
	States, Transitions, Executions int
	Logs, Messages                  int
	Aborted                         bool
	Hist                            map[string]int
	Samples                         []interface{}
}

var (
	cfgFilter = flag.String("cfg", "", "debug: configuration filter")
	kFlag     = flag.Int("k", -1, "debug: deviation bound")
)

func describe(its []item, vs []verdict) []string {
	var out []string
	for i, it := range its {
		s := it.desc
		if vs != nil {
			s += "  => " + vs[i].reason
		}
		out = append(out, s)
	}
	return out
}

func runJob(r *ev.Run, c *qnet.Cfg, k int, faultFree bool) jobOut {
	out := jobOut{K: k, Hist: map[string]int{}}
	pool := qnet.NewPool()
	w, init := qnet.NewWorld(c, pool)
	seenLogs := map[[32]byte]bool{}
	check := func(w *qnet.World) {
		// emission log = everything the correct operators put on the network, in order
		h := sha256.New()
		for _, id := range w.LogIDs {
			var x [4]byte
			binary.LittleEndian.PutUint32(x[:], uint32(id))
			h.Write(x[:])
		}
		var key [32]byte
		copy(key[:], h.Sum(nil))
		if seenLogs[key] {
			return
		}
		seenLogs[key] = true
		out.Logs++
		its := items(c, pool, w)
		for _, post := range []bool{false, true} {
			for _, late := range []bool{false, true} {
				vs := validateLog(c, its, post, late)
				out.Messages += len(vs)
				for i, v := range vs {
					it := its[i]
					kind := "partial-signature"
					round := it.round
					if it.msgID >= 0 {
						m := pool.List[it.msgID].Signed
						kind = [...]string{"proposal", "prepare", "commit", "round-change"}[m.Message.MsgType]
						if len(m.Signers) > 1 {
							kind = "decided"
						}
						if m.Message.MsgType == specqbft.RoundChangeMsgType && m.Message.RoundChangePrepared() {
							kind = "round-change(prepared)"
						}
						if m.Message.MsgType == specqbft.ProposalMsgType && m.Message.Round > 1 {
							kind = "proposal(justified)"
						}
					} else if strings.HasPrefix(it.desc, "pre-") {
						kind = "pre-consensus partial-signature"
					} else {
						kind = "post-consensus partial-signature"
					}
					out.Hist[kind+" r"+fmt.Sprint(round)+" -> "+v.reason]++
					art := func() map[string]interface{} {
						return map[string]interface{}{"net": qnet.Artefact(w), "post_fork": post, "late": late, "message_index": i, "emission_log": describe(its, vs)}
					}
					if v.res == pubsub.ValidationReject {
						who := "honest "
						if it.decided {
							who = "already-decided operator's "
						}
						sig := who + kind + " rejected: " + strings.TrimPrefix(v.reason, "reject: ")
						r.Violate(sig, fmt.Sprintf("a message emitted by correct operator %d (%s) is classified reject by a correct peer's validator: %s", it.from, it.desc, v.reason),
							"c10-qnet", art(), v.reason, "accept or ignore")
					}
					if faultFree && len(w.Trace) > 0 && v.res != pubsub.ValidationAccept && noDeviation(w) {
						r.Violate("fault-free message not accepted: "+kind+" "+v.reason, fmt.Sprintf("fault-free in-order timely run: %s is not accepted: %s", it.desc, v.reason),
							"c10-qnet", art(), v.reason, "accept")
					}
				}
				if out.Logs%200 == 1 && !post && !late && len(out.Samples) < 2 {
					out.Samples = append(out.Samples, map[string]interface{}{"configuration": c.String(), "emission_log_with_verdicts": describe(its, vs)})
				}
			}
		}
	}
	s := &qnet.Search{K: k, Stop: r.Expired, OnEnd: check,
		Extra: func(w *qnet.World) []byte {
			// two paths with equal instance states but different emission histories are both kept
			b := make([]byte, 0, 4*len(w.LogIDs))
			for _, id := range w.LogIDs {
				b = append(b, byte(id), byte(id>>8), byte(id>>16), byte(id>>24))
			}
			return b
		},
		AllowDeviation: func(w *qnet.World, e qnet.Event, budget int) bool {
			return e.Kind != qnet.Redeliver // a duplicate delivery does not change what is emitted later
		}}
	s.Run(w, init)
	out.States, out.Transitions, out.Executions, out.Aborted = s.States, s.Transitions, s.Executions, s.Aborted
	return out
}

// dutyChains: the validator keeps per-signer state across duties (slot, epoch, duties per epoch),
// so fault-free duties are also validated in sequence by ONE validator: for every role, duties at
// CurSlot+d for several gap patterns (next epoch less than an epoch later, exactly an epoch
// later, twice in one epoch), each run to completion on the canonical schedule, every emitted
// message delivered in order inside its window. Everything must be accepted.
func dutyChains(r *ev.Run, hist map[string]int) (chains, messages int) {
	patterns := [][]int{{0, 20, 45}, {0, 32, 64}, {0, 7}, {0, 7, 39}}
	roles := []spectypes.BeaconRole{spectypes.BNRoleAttester, spectypes.BNRoleProposer, spectypes.BNRoleAggregator, spectypes.BNRoleSyncCommittee, spectypes.BNRoleSyncCommitteeContribution}
	// the duty store the validator consults knows the proposer duties of the chain's slots
	for _, pat := range patterns {
		for _, d := range pat {
			sl := valenv.CurSlot + phase0.Slot(d)
			env.Duties.Proposer.Add(env.Beacon.EstimatedEpochAtSlot(sl), sl, valenv.ValidatorIndex, &eth2apiv1.ProposerDuty{}, true)
		}
	}
	for _, role := range roles {
		for _, pat := range patterns {
			for _, post := range []bool{false, true} {
				mv, rec := env.NewValidator(post)
				chains++
				var logLines []string
				for di, d := range pat {
					c := &qnet.Cfg{N: 4, Height: specqbft.Height(int(valenv.CurSlot) + d), MaxRound: 3, Role: role, Domain: env.NetPre.Domain}
					c.Init()
					c.Start = map[spectypes.OperatorID]byte{}
					for _, h := range c.Honest {
						c.Start[h] = 'A'
					}
					pool := qnet.NewPool()
					w, _ := qnet.NewWorld(c, pool)
					for {
						e, ok := w.Default()
						if !ok {
							break
						}
						w.Apply(e)
					}
					its := items(c, pool, w)
					vs := validateItems(mv, rec, c, its, post, false, d)
					messages += len(vs)
					for i, v := range vs {
						logLines = append(logLines, fmt.Sprintf("duty %d (slot +%d): %s => %s", di+1, d, its[i].desc, v.reason))
						hist[fmt.Sprintf("duty chain %s: %s", role.String(), v.reason)]++
						if v.res != pubsub.ValidationAccept {
							cls := "not accepted"
							if v.res == pubsub.ValidationReject {
								cls = "rejected"
							}
							r.Violate(fmt.Sprintf("fault-free duty chain: message of duty %d %s: %s", di+1, cls, strings.TrimPrefix(strings.TrimPrefix(v.reason, "reject: "), "ignore: ")),
								fmt.Sprintf("%s duties at slots +%v validated by one validator, fault-free, in order, in time: %s of duty %d is %s: %s", role.String(), pat, its[i].desc, di+1, cls, v.reason),
								"c10-chain", map[string]interface{}{"role": role.String(), "slots": pat, "post_fork": post, "log": append([]string{}, logLines...)}, v.reason, "accept")
						}
					}
				}
			}
		}
	}
	return
}

func noDeviation(w *qnet.World) bool {
	for _, e := range w.Trace {
		if e.Deviation() {
			return false
		}
	}
	return true
}

type jobSpec struct {
	c         *qnet.Cfg
	k         int
	faultFree bool
}

func jobs(r *ev.Run) []jobSpec {
	var out []jobSpec
	roles := []spectypes.BeaconRole{spectypes.BNRoleAttester}
	if r.Thorough() {
		roles = append(roles, spectypes.BNRoleProposer, spectypes.BNRoleAggregator, spectypes.BNRoleSyncCommittee, spectypes.BNRoleSyncCommitteeContribution)
	}
	for ri, role := range roles {
		for byz := 0; byz <= 4; byz++ {
			base := &qnet.Cfg{N: 4, Height: specqbft.Height(valenv.CurSlot), Byz: spectypes.OperatorID(byz), MaxRound: 3, Role: role, Domain: env.NetPre.Domain}
			base.Init()
			for si, st := range qnet.StartAssignments(base.Honest) {
				c := *base
				c.Start = st
				k := 2
				if r.Thorough() {
					k = 3
					if ri > 0 {
						k = 2
					}
				}
				if *kFlag >= 0 {
					k = *kFlag
				}
				if *cfgFilter != "" && !strings.Contains(c.String(), *cfgFilter) {
					continue
				}
				out = append(out, jobSpec{&c, k, byz == 0})
				// gossip gives no order between senders: the same search with the OVERTAKE deviation
				// (the newest message of an inbox, e.g. a peer's decided message, is delivered ahead
				// of the single messages still waiting there), committee without a silent member
				if byz == 0 && *kFlag < 0 {
					o := c
					o.Overtake = true
					out = append(out, jobSpec{&o, 2, false})
				}
				// canonical extension to the role's higher rounds: silent leaders, k<=1
				if si == 0 && (byz == 0 || byz == 1) {
					e := c
					e.MaxRound = 6
					if r.Thorough() && role == spectypes.BNRoleAttester {
						e.MaxRound = 10
					}
					out = append(out, jobSpec{&e, 1, false})
				}
			}
		}
	}
	return out
}

func main() {
	r := ev.Start("C10", "model_checking")
	bls.Init(bls.BLS12_381)
	var err error
	env, err = valenv.New()
	if err != nil {
		ev.Fatal("validator environment: %v", err)
	}
	if r.Replay != "" {
		replay(r)
		return
	}
	js := jobs(r)
	sort.SliceStable(js, func(a, b int) bool { return js[a].k > js[b].k })
	if _, _, ok := r.IsWorker(); ok {
		for i, j := range js {
			if !r.Mine(i) {
				continue
			}
			if r.Expired() {
				r.Emit(jobOut{Aborted: true})
				continue
			}
			r.Emit(runJob(r, j.c, j.k, j.faultFree))
		}
		r.WorkerDone()
	}
	hist := map[string]int{}
	aborted := 0
	for _, k := range []string{"states", "transitions", "executions", "distinct_emission_logs", "messages_validated"} {
		r.Cov[k] = 0
	}
	byK := map[int]int{}
	r.Spawn(runtime.NumCPU(), []string{"--cfg", *cfgFilter, "--k", fmt.Sprint(*kFlag)}, func(raw []byte) {
		var o jobOut
		if err := json.Unmarshal(raw, &o); err != nil {
			ev.Fatal("%v", err)
		}
		r.Add("states", o.States)
		r.Add("transitions", o.Transitions)
		r.Add("executions", o.Executions)
		r.Add("distinct_emission_logs", o.Logs)
		r.Add("messages_validated", o.Messages)
		for k, v := range o.Hist {
			hist[k] += v
		}
		for _, s := range o.Samples {
			r.Sample(s)
		}
		if o.Aborted {
			aborted++
		} else {
			byK[o.K]++
		}
	})
	if aborted > 0 {
		r.CapHit(fmt.Sprintf("deadline: %d of %d configurations not completed", aborted, len(js)))
	}
	chains, chainMsgs := dutyChains(r, hist)
	r.Set("duty_chains", chains)
	r.Add("messages_validated", chainMsgs)
	r.Set("traces_validated_against_impl", r.Get("distinct_emission_logs")*4)
	r.Set("configurations", len(js))
	r.Set("configurations_completed_by_deviation_bound", byK)
	r.Set("distinct_outcomes", len(hist))
	r.Set("verdict_histogram", hist)
	r.Assume("a message is validated inside the round it was sent in (first and last instant of the round window computed from the round timer constants), before and after the signed-envelope fork",
		"correct operators only (n=4; all honest or one silent), heights = a real slot, values {A,B}; deviation-bounded: DROP/DEFER/TIMEOUT/ISOLATE placements <= k around the FIFO schedule",
		"duty chains: for each of 5 roles, fault-free duties at CurSlot+{0,20,45}, +{0,32,64}, +{0,7}, +{0,7,39} validated in sequence by one validator (per-signer slot / epoch / duties-per-epoch state carried over), before and after the fork; everything must be accepted",
		"the validating peer sees every emitted message, in emission order (a peer that misses some messages keeps less per-signer state, which can only remove limit-type verdicts)")
	r.Finish(aborted == 0)
}

func replay(r *ev.Run) {
	v, err := ev.LoadReplay(r.Replay)
	if err != nil {
		ev.Fatal("%v", err)
	}
	t := v.Trace.(map[string]interface{})
	if v.Harness == "c10-chain" {
		// the chains are few and deterministic: run them all again
		fmt.Println("replaying every fault-free duty chain")
		dutyChains(r, map[string]int{})
		r.Finish(false)
		return
	}
	c, evs, err := qnet.FromArtefact(t["net"].(map[string]interface{}))
	if err != nil {
		ev.Fatal("%v", err)
	}
	c.Height, c.Domain = specqbft.Height(valenv.CurSlot), env.NetPre.Domain
	c.Init()
	start := map[spectypes.OperatorID]byte{}
	for i, h := range c.Honest {
		start[h] = t["net"].(map[string]interface{})["start"].(string)[i]
	}
	c.Start = start
	pool := qnet.NewPool()
	w, _ := qnet.NewWorld(c, pool)
	for _, e := range evs {
		w.Apply(e)
	}
	its := items(c, pool, w)
	vs := validateLog(c, its, t["post_fork"].(bool), t["late"].(bool))
	for _, l := range describe(its, vs) {
		fmt.Println(l)
	}
	for i, x := range vs {
		if x.res == pubsub.ValidationReject {
			fmt.Printf("VIOLATION property=C10 replay=%s (message %d rejected: %s)\n", r.Replay, i, x.reason)
		}
	}
	_ = phase0.Slot(0)
	r.Finish(false)
}
