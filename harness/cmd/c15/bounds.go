package main

// One exploration per (node kind, slice of the alphabet, depth bound); sequences explored by state.
// The full node has about twice the successors per state (two DB writes per save = four crash
// variants), hence its own bound. Sized by measurement: about 3 ms CPU per transition.
type planItem struct {
	slice      string // full | certs | local (see sliceOf)
	depthLight int
	depthFull  int
}

var quickPlan = []planItem{{"full", 4, 4}, {"certs", 5, 5}, {"local", 7, 7}}

var thoroughPlan = []planItem{{"full", 5, 4}, {"certs", 6, 4}, {"local", 9, 9}}
