package main

// One exploration per (node kind, slice of the alphabet, depth bound); sequences explored by state.
type planItem struct {
	slice string // full | certs | local (see sliceOf)
	depth int
}

var quickPlan = []planItem{{"full", 4}, {"certs", 5}, {"local", 7}}

var thoroughPlan = []planItem{{"full", 6}, {"certs", 7}, {"local", 9}}
