// C15 — a duty height once started or decided is never run again, even after restart.
// Explicit-state search (E1) over the real attester runner + qbft controller + validator.Validator
// on the real ibft/storage over a real in-memory badger, for a full and a light node, with
// Restart (throw every object away, rebuild on the same DB, Validator.Start → LoadHighestInstance)
// as an event and with crash points (E3) before/after every DB write call of every event.
package main

import (
	"crypto/sha256"
	"encoding/json"
	"flag"
	"fmt"
	"os"
	"runtime/pprof"
	"sort"
	"strings"
	"time"

	"github.com/attestantio/go-eth2-client/spec/phase0"
	specqbft "github.com/bloxapp/ssv-spec/qbft"
	spectypes "github.com/bloxapp/ssv-spec/types"

	ibftstorage "github.com/bloxapp/ssv/ibft/storage"
	"github.com/bloxapp/ssv/protocol/v2/ssv/runner"
	ssvtypes "github.com/bloxapp/ssv/protocol/v2/types"

	"verifharness/lib/ev"
	"verifharness/lib/runh"
)

const role = spectypes.BNRoleAttester

type kind int

const (
	kStart kind = iota
	kCert
	kPrepared // proposal + the three foreign prepares of a height, delivered back to back
	kCommit
	kRestart
	// kStartInst: Controller.StartNewInstance called directly - what a runner's decide() does once
	// its pre-consensus quorum arrives (proposer, aggregator, contribution duties), possibly long
	// after StartNewDuty's own guard was passed
	kStartInst
)

type evDef struct {
	name    string
	kind    kind
	h       int // slot / height
	signers int
	round   int
	wires   []*runh.Wire
}

type cfgT struct {
	name     string
	fullNode bool
	events   []evDef // the whole alphabet
	evs      []int   // the slice of it being explored (indices into events)
	depth    int
	noFaults bool // no crash / write-error variants (the committee-of-7 configuration)
}

// slices of the alphabet (every sequence over a slice is a sequence over the whole alphabet):
// "full" everything; "certs" duty starts, certificates, restart (+ crash points);
// "local" two heights decided message by message plus the certificates for them.
func sliceOf(events []evDef, which string) []int {
	var out []int
	for i, e := range events {
		switch which {
		case "full":
			out = append(out, i)
		case "certs":
			if e.kind == kStart || e.kind == kCert || e.kind == kRestart || e.kind == kStartInst {
				out = append(out, i)
			}
		case "local":
			if e.kind == kRestart || (e.h <= 2 && (e.kind == kStart || e.kind == kStartInst || e.kind == kPrepared || e.kind == kCommit || (e.kind == kCert && e.round == 1 && e.signers == 4))) {
				out = append(out, i)
			}
		}
	}
	return out
}

// committee size of this process (4; 7 in the worker that explores the larger committee)
var committee = 4

// n7Slice: certificates of heights 1 and 2 (three signer-set sizes, two rounds) and restart.
func n7Slice(events []evDef) []int {
	var out []int
	for i, e := range events {
		if e.kind == kRestart || (e.kind == kCert && e.h <= 2) {
			out = append(out, i)
		}
	}
	return out
}

func leader(h int) spectypes.OperatorID { return spectypes.OperatorID(h%committee + 1) }

func buildEvents(rounds []int) []evDef {
	id := runh.Identifier(role)
	var out []evDef
	val := func(h int) []byte { return runh.ConsensusValue(role, phase0.Slot(h), runh.Valid) }
	for h := 1; h <= 3; h++ {
		out = append(out, evDef{name: fmt.Sprintf("startDuty(%d)", h), kind: kStart, h: h})
	}
	sets := [][]spectypes.OperatorID{{1, 2, 3}, {1, 2, 4}, {1, 2, 3, 4}}
	others := []spectypes.OperatorID{2, 3, 4}
	if committee == 7 {
		// three certificate sizes: quorum (5), 6 and 7 signers
		sets = [][]spectypes.OperatorID{{1, 2, 3, 4, 5}, {1, 2, 3, 4, 5, 6}, {1, 2, 3, 4, 5, 6, 7}}
		others = []spectypes.OperatorID{2, 3, 4, 5, 6}
	}
	certs := func(rd int) {
		for h := 1; h <= 3; h++ {
			for _, s := range sets {
				m := runh.QBFTMsg(id[:], specqbft.CommitMsgType, specqbft.Height(h), specqbft.Round(rd), val(h), true, s...)
				out = append(out, evDef{name: fmt.Sprintf("cert(h%d,%v,r%d)", h, s, rd), kind: kCert, h: h, signers: len(s), round: rd, wires: []*runh.Wire{runh.WireQBFT(id, m)}})
			}
		}
	}
	certs(1)
	for h := 1; h <= 3; h++ {
		e := evDef{name: fmt.Sprintf("proposal+prepares(h%d)", h), kind: kPrepared, h: h}
		e.wires = append(e.wires, runh.WireQBFT(id, runh.QBFTMsg(id[:], specqbft.ProposalMsgType, specqbft.Height(h), 1, val(h), true, leader(h))))
		for _, i := range others {
			e.wires = append(e.wires, runh.WireQBFT(id, runh.QBFTMsg(id[:], specqbft.PrepareMsgType, specqbft.Height(h), 1, val(h), false, i)))
		}
		out = append(out, e)
		for _, i := range others {
			m := runh.QBFTMsg(id[:], specqbft.CommitMsgType, specqbft.Height(h), 1, val(h), false, i)
			out = append(out, evDef{name: fmt.Sprintf("commit(h%d,op%d)", h, i), kind: kCommit, h: h, wires: []*runh.Wire{runh.WireQBFT(id, m)}})
		}
	}
	out = append(out, evDef{name: "restart", kind: kRestart})
	// later rounds go last, so that event indices of the round-1 alphabet stay valid (replay artefacts)
	for _, rd := range rounds {
		if rd > 1 {
			certs(rd)
		}
	}
	for h := 1; h <= 3; h++ {
		out = append(out, evDef{name: fmt.Sprintf("startInstance(%d)", h), kind: kStartInst, h: h})
	}
	return out
}

// ---- live system + reference model ----

type stored struct{ h, signers int }

type sys struct {
	c     *cfgT
	wdb   *runh.WorkerDB
	proxy *runh.DBProxy
	w     *runh.World
	// reference model: two integers and a map (+ what was last seen in the store)
	started int // highest slot started in this incarnation
	learned int // highest height learned as decided (volatile knowledge, reloaded from the store on restart)
	// writeFailed: the database has refused a write since the last (re)start. What is known in
	// memory then need not be in the store any more (nothing retries the write), so the durability
	// clause (E) is suspended until the next restart; every other clause stays in force.
	writeFailed bool
	best        map[int]int // height -> signers of the historical record last seen stored for it
	hi          *stored     // last observed highest-instance record
	// caches, valid while the proxy has seen no further write
	readAt, dumpAt int
	readHi         *stored
	readHist       map[int]int
	dumpDig        [32]byte
}

var workerDBs [64]runh.WorkerDB

func (c *cfgT) newSys(worker int) runh.Sys {
	s := &sys{c: c, wdb: &workerDBs[worker], best: map[int]int{}}
	s.proxy = s.wdb.Fresh()
	s.boot()
	return s
}

// boot builds every object afresh on the (surviving) database and starts the validator, the way
// the node does at start-up.
func (s *sys) boot() {
	s.w = runh.BuildWorld(runh.Options{DB: s.proxy, Roles: []spectypes.BeaconRole{role}, FullNode: s.c.fullNode})
	if _, err := s.w.V.Start(s.w.Log); err != nil {
		ev.Fatal("validator start: %v", err)
	}
}

func (s *sys) Close() { s.w.Discard() }

func (s *sys) runner() runner.Runner { return s.w.Runners[role] }

// readStore reads the durable records through a fresh ibft/storage object on the real database.
func (s *sys) readStore() (*stored, map[int]int) {
	if s.readHist != nil && s.readAt == s.proxy.TotalWrites {
		return s.readHi, s.readHist
	}
	hi, hist := s.readStoreNow()
	s.readAt, s.readHi, s.readHist = s.proxy.TotalWrites, hi, hist
	return hi, hist
}

func (s *sys) readStoreNow() (*stored, map[int]int) {
	st := ibftstorage.New(s.proxy.Database, role.String())
	id := runh.Identifier(role)
	var hi *stored
	if inst, err := st.GetHighestInstance(id[:]); err != nil {
		ev.Fatal("GetHighestInstance: %v", err)
	} else if inst != nil {
		hi = &stored{int(inst.State.Height), len(inst.DecidedMessage.Signers)}
	}
	hist := map[int]int{}
	for h := 1; h <= 3; h++ {
		if inst, err := st.GetInstance(id[:], specqbft.Height(h)); err != nil {
			ev.Fatal("GetInstance: %v", err)
		} else if inst != nil {
			hist[h] = len(inst.DecidedMessage.Signers)
		}
	}
	return hi, hist
}

func (s *sys) runnerDigest() [32]byte {
	h := sha256.New()
	runh.WriteRunnerState(h, s.runner())
	var out [32]byte
	copy(out[:], h.Sum(nil))
	return out
}

func (s *sys) Hash() [32]byte {
	h := sha256.New()
	runh.WriteRunnerState(h, s.runner())
	if s.dumpAt != s.proxy.TotalWrites+1 {
		hd := sha256.New()
		for _, o := range runh.DumpDB(s.proxy.Database) {
			fmt.Fprintf(hd, "|%d:", len(o.Key))
			hd.Write(o.Key)
			fmt.Fprintf(hd, "=%d:", len(o.Value))
			hd.Write(o.Value)
		}
		copy(s.dumpDig[:], hd.Sum(nil))
		s.dumpAt = s.proxy.TotalWrites + 1
	}
	h.Write(s.dumpDig[:])
	fmt.Fprintf(h, "|model %d %d %v %v|", s.started, s.learned, s.hi, s.writeFailed)
	var hs []int
	for k := range s.best {
		hs = append(hs, k)
	}
	sort.Ints(hs)
	for _, k := range hs {
		fmt.Fprintf(h, "%d:%d,", k, s.best[k])
	}
	var out [32]byte
	copy(out[:], h.Sum(nil))
	return out
}

func maxi(a, b int) int {
	if a > b {
		return a
	}
	return b
}

func (s *sys) decidedAt(h int) bool {
	inst := s.runner().GetBaseRunner().QBFTController.StoredInstances.FindInstance(specqbft.Height(h))
	return inst != nil && inst.State != nil && inst.State.Decided
}

func (s *sys) Apply(st runh.Step) (string, []runh.Viol, int) {
	e := &s.c.events[s.c.evs[st.E]]
	var viols []runh.Viol
	node := "light"
	if s.c.fullNode {
		node = "full"
	}
	bad := func(sig, what string, obs, exp interface{}) {
		viols = append(viols, runh.Viol{Signature: node + ": " + sig, What: what, Observed: obs, Expected: exp})
	}
	ctrl := s.runner().GetBaseRunner().QBFTController
	heightBefore := int(ctrl.Height)
	out := ""

	s.proxy.ResetCounters()
	crashed := false
	if st.V > 0 {
		s.proxy.CrashAt, s.proxy.CrashMode = faultOf(st.V)
	}
	writeError := st.V > 0 && s.proxy.CrashMode == "error" // the write fails, the process goes on

	var startErr error
	probed := false
	decidedNew := 0 // height newly learned as decided by this (completed) event
	var digBefore [32]byte
	if e.kind == kStart {
		digBefore = s.runnerDigest()
	}
	wasDecided := e.kind == kCommit && s.decidedAt(e.h)

	func() {
		defer func() {
			if r := recover(); r != nil {
				if _, ok := r.(runh.CrashSentinel); ok && st.V > 0 {
					crashed = true
					return
				}
				panic(r)
			}
		}()
		switch e.kind {
		case kStart:
			startErr = s.w.V.StartDuty(s.w.Log, runh.Duty(role, phase0.Slot(e.h)))
		case kStartInst:
			// a probe: only for heights the controller must refuse (a refusal has no side effects).
			// Above the limit the call would start an instance behind the runner's back - a state the
			// node cannot be in (decide() runs with a running duty), e.g. a local decision nobody saves.
			if e.h <= maxi(s.started, s.learned) {
				probed = true
				startErr = ctrl.StartNewInstance(s.w.Log, specqbft.Height(e.h), runh.ConsensusValue(role, phase0.Slot(e.h), runh.Valid))
			}
		case kRestart:
			// handled below
		default:
			for _, w := range e.wires {
				_ = s.w.V.ProcessMessage(s.w.Log, w.Decode())
			}
		}
	}()
	writes := s.proxy.Writes
	s.proxy.CrashAt = 0
	if writeError && !s.proxy.Injected {
		ev.Fatal("%s: write-error variant %d of %s did not reach its DB call (non-deterministic write sequence)", s.c.name, st.V, e.name)
	}
	if st.V > 0 && !crashed && !writeError {
		ev.Fatal("%s: crash variant %d of %s did not reach its DB call (non-deterministic write sequence)", s.c.name, st.V, e.name)
	}

	restarted := false
	if crashed || e.kind == kRestart {
		// every in-memory object is lost; the database survives
		s.w.Discard()
		s.boot()
		restarted = true
		ctrl = s.runner().GetBaseRunner().QBFTController
	}

	// ---- oracle ----
	hi, hist := s.readStore()

	// (A) the highest-instance record only moves up: higher height, or same height with at least as many signers
	if s.hi != nil {
		switch {
		case hi == nil:
			bad("stored highest instance disappeared", fmt.Sprintf("%s: highest-instance record gone", e.name), nil, *s.hi)
		case hi.h < s.hi.h:
			bad("stored highest instance replaced by a lower height", fmt.Sprintf("%s: highest decided went from height %d to %d", e.name, s.hi.h, hi.h), *hi, *s.hi)
		case hi.h == s.hi.h && hi.signers < s.hi.signers:
			bad(fmt.Sprintf("stored highest instance replaced by a certificate with fewer signers (%s)", certClass(e)), fmt.Sprintf("%s: highest decided of height %d went from %d to %d signers", e.name, hi.h, s.hi.signers, hi.signers), *hi, *s.hi)
		}
	}
	// (B) historical records: same height, never fewer signers, never lost
	for h, n := range s.best {
		got, ok := hist[h]
		if !ok {
			bad("stored historical instance disappeared", fmt.Sprintf("%s: instance of height %d gone", e.name, h), nil, n)
		} else if got < n {
			bad(fmt.Sprintf("stored historical instance replaced by a certificate with fewer signers (%s)", certClass(e)), fmt.Sprintf("%s: stored instance of height %d went from %d to %d signers", e.name, h, n, got), got, n)
		}
	}

	if !crashed {
		switch e.kind {
		case kStart:
			limit := maxi(s.started, s.learned)
			if e.h <= limit {
				if startErr == nil {
					bad("duty accepted for a slot at or below the highest started/decided height", fmt.Sprintf("%s accepted although started=%d learned-decided=%d", e.name, s.started, s.learned), "nil error", "refused")
				} else if s.runnerDigest() != digBefore {
					bad("refused duty (slot at or below the highest started/decided height) still reset the runner state", fmt.Sprintf("%s returned %q but re-initialised the duty state (started=%d learned-decided=%d)", e.name, startErr, s.started, s.learned), "runner state changed", "no effect")
				}
				out = "start:refused"
			} else if startErr == nil {
				out = "start:ok"
			} else {
				out = "start:refused-above-limit"
			}
			if startErr == nil {
				s.started = maxi(s.started, e.h)
			}
		case kStartInst:
			switch {
			case !probed:
				out = "startInstance:above-limit(not probed)"
			case startErr == nil:
				bad("consensus instance started for a height at or below the highest started/decided height", fmt.Sprintf("%s accepted although started=%d learned-decided=%d", e.name, s.started, s.learned), "nil error", "refused")
				out = "startInstance:accepted-below-limit"
			default:
				out = "startInstance:refused"
			}
		case kCert:
			decidedNew = e.h
			out = "cert"
		case kCommit:
			out = "commit"
			if !wasDecided && s.decidedAt(e.h) {
				decidedNew = e.h
				out = "commit:decides"
			}
		case kPrepared:
			out = "prepared-macro"
		}
		if decidedNew > 0 {
			s.learned = maxi(s.learned, decidedNew)
			// (E) the highest decided instance must be durable when the step returns (unless the
			// database refused the write: then it is known in memory only, and still binds the
			// duty-start clause until the next restart)
			if writeError {
				s.writeFailed = true
			}
			switch {
			case s.writeFailed:
				out += "+after-write-error"
			case hi != nil && hi.h >= decidedNew:
				if decidedNew >= heightBefore {
					out += "+persisted"
				} else {
					out += "+past"
				}
			case decidedNew >= heightBefore:
				bad("decided height >= controller height not persisted as highest instance", fmt.Sprintf("%s: decided height %d (controller height before: %d) but stored highest is %v", e.name, decidedNew, heightBefore, hi), hi, decidedNew)
			default:
				bad("decided height below the controller height but above the stored highest is not persisted as highest instance (lost on restart)", fmt.Sprintf("%s: decided height %d (controller height before: %d) but stored highest is %v", e.name, decidedNew, heightBefore, hi), hi, decidedNew)
			}
		}
	}
	if restarted {
		// (D) after a restart the controller resumes at the stored highest decided height
		want := 0
		if hi != nil {
			want = hi.h
		}
		if int(ctrl.Height) != want {
			bad("after restart the controller height is not the stored highest decided height", fmt.Sprintf("%s: controller height %d, stored highest decided %d", e.name, ctrl.Height, want), int(ctrl.Height), want)
		}
		s.started = 0
		s.learned = want
		s.writeFailed = false
		if crashed {
			out = fmt.Sprintf("crash-%s-write+restart", s.proxy.CrashMode)
		} else {
			out = "restart"
		}
		if hi != nil {
			out += ":resumes-at-stored"
		} else {
			out += ":empty-store"
		}
	}
	s.hi = hi
	for h, n := range hist {
		s.best[h] = n // what is stored now (a reported decrease is reported once)
	}
	variants := 0
	if st.V == 0 && e.kind != kRestart && !s.c.noFaults {
		variants = 3 * writes
	}
	return out, viols, variants
}

// faultOf decodes a step variant: the k-th DB write call of the event, and what happens there.
func faultOf(v int) (int, string) {
	return (v + 2) / 3, [...]string{"before", "after", "error"}[(v-1)%3]
}

// certClass names the kind of step that caused a replacement (part of the violation signature).
func certClass(e *evDef) string {
	switch e.kind {
	case kCert:
		return fmt.Sprintf("by a round-%d certificate", e.round)
	case kCommit:
		return "by a local decision"
	case kStart:
		return "by startDuty"
	case kStartInst:
		return "by startInstance"
	case kPrepared:
		return "by proposal+prepares"
	}
	return "by restart"
}

func (c *cfgT) config() *runh.Config {
	return &runh.Config{
		Name: c.name, NumEvents: len(c.evs), Depth: c.depth, Workers: 16,
		EventName: func(s runh.Step) string {
			n := c.events[c.evs[s.E]].name
			if s.V > 0 {
				k, mode := faultOf(s.V)
				if mode == "error" {
					n += fmt.Sprintf(" !db-write#%d fails with an error", k)
				} else {
					n += fmt.Sprintf(" !crash-%s-db-write#%d then restart", mode, k)
				}
			}
			return n
		},
		New:       c.newSys,
		MaxStates: 8_000_000,
	}
}

type n7Out struct {
	States, Transitions, Replays int
	Complete                     bool
	Outcomes                     map[string]int
	Bound                        string
}

func main() {
	prof := flag.String("cpuprofile", "", "write a CPU profile (diagnostics)")
	r := ev.Start("C15", "model_checking")
	r.DefaultBudget(8*time.Minute, 60*time.Minute) // three fault variants per DB write: ~2 min quick on an idle box
	if *prof != "" {
		f, _ := os.Create(*prof)
		_ = pprof.StartCPUProfile(f)
		go func() { time.Sleep(20 * time.Second); pprof.StopCPUProfile(); f.Close() }()
	}
	ssvtypes.SetDefaultDomain(runh.Domain)
	if _, _, ok := r.IsWorker(); ok {
		// the worker process explores the committee of 7 (key set chosen by the environment the
		// parent set): certificates with 5, 6 and 7 signers in two rounds, duty starts, restart
		committee = 7
		c := &cfgT{name: "c15-full-n7/certs", fullNode: true, depth: 4, noFaults: true}
		if r.Thorough() {
			c.depth = 5
		}
		c.events = buildEvents([]int{1, 2})
		c.evs = n7Slice(c.events)
		res := runh.Explore(r, c.config())
		r.Emit(n7Out{States: res.States, Transitions: res.Transitions, Replays: res.Replays, Complete: res.Complete, Outcomes: res.Outcomes,
			Bound: fmt.Sprintf("%s (committee of 7, full node): events=%d rounds=[1 2] depth<=%d states=%d transitions=%d complete=%v", c.name, len(c.evs), c.depth, res.States, res.Transitions, res.Complete)})
		r.WorkerDone()
	}
	rounds, plan := []int{1}, quickPlan
	if r.Thorough() {
		rounds, plan = []int{1, 2}, thoroughPlan
	}
	var cfgs []*cfgT
	for _, p := range plan {
		for _, full := range []bool{false, true} {
			name, depth := "c15-light/"+p.slice, p.depthLight
			if full {
				name, depth = "c15-full/"+p.slice, p.depthFull
			}
			cfgs = append(cfgs, &cfgT{name: name, fullNode: full, depth: depth})
		}
	}
	if r.Replay != "" {
		v, err := ev.LoadReplay(r.Replay)
		if err != nil {
			ev.Fatal("%v", err)
		}
		if v.Harness == "c15-full-n7/certs" {
			os.Setenv("VERIF_RUNH_N", "7")
			committee = 7
			c := &cfgT{name: v.Harness, fullNode: true, noFaults: true}
			c.events = buildEvents([]int{1, 2})
			c.evs = n7Slice(c.events)
			fmt.Printf("replay %s on fresh real objects (%s): %s\n", r.Replay, c.name, v.What)
			if runh.ReplayArtefactByName(c.config(), v) {
				fmt.Printf("VIOLATION property=C15 replay=%s\n", r.Replay)
			} else {
				fmt.Println("not reproduced")
			}
			r.Finish(false)
		}
		for _, full := range []bool{false, true} {
			for _, which := range []string{"full", "certs", "local"} {
				c := &cfgT{name: "c15-light/" + which, fullNode: full}
				if full {
					c.name = "c15-full/" + which
				}
				if c.name != v.Harness {
					continue
				}
				// events are looked up by name (indices depend on tier and slice)
				rs := []int{1, 2}
				c.events = buildEvents(rs)
				c.evs = sliceOf(c.events, which)
				fmt.Printf("replay %s on fresh real objects (%s): %s\n", r.Replay, c.name, v.What)
				if runh.ReplayArtefactByName(c.config(), v) {
					fmt.Printf("VIOLATION property=C15 replay=%s\n", r.Replay)
				} else {
					fmt.Println("not reproduced")
				}
				r.Finish(false)
			}
		}
		ev.Fatal("unknown harness %q", v.Harness)
	}
	exhaustive := true
	var bounds []string
	hist := map[string]int{}
	for _, c := range cfgs {
		c.events = buildEvents(rounds)
		c.evs = sliceOf(c.events, c.name[strings.Index(c.name, "/")+1:])
		res := runh.Explore(r, c.config())
		r.Add("states", res.States)
		r.Add("transitions", res.Transitions)
		r.Add("replayed_worlds", res.Replays)
		exhaustive = exhaustive && res.Complete
		bounds = append(bounds, fmt.Sprintf("%s: events=%d (+3 fault variants per DB write of every event: crash before, crash after, write error) rounds=%v depth<=%d states=%d transitions=%d new-states-per-depth=%v complete=%v", c.name, len(c.evs), rounds, c.depth, res.States, res.Transitions, res.Levels, res.Complete))
		for k, v := range res.Outcomes {
			hist[c.name+" "+k] += v
		}
	}
	// committee of 7 in a process of its own (the key set is per process)
	os.Setenv("VERIF_RUNH_N", "7")
	r.Spawn(1, nil, func(raw []byte) {
		var o n7Out
		if err := json.Unmarshal(raw, &o); err != nil {
			ev.Fatal("%v", err)
		}
		r.Add("states", o.States)
		r.Add("transitions", o.Transitions)
		r.Add("replayed_worlds", o.Replays)
		exhaustive = exhaustive && o.Complete
		bounds = append(bounds, o.Bound)
		for k, v := range o.Outcomes {
			hist["c15-full-n7/certs "+k] += v
		}
	})
	os.Unsetenv("VERIF_RUNH_N")
	var names []string
	for _, e := range cfgs[0].events {
		names = append(names, e.name)
	}
	r.Set("alphabet", names)
	r.Set("traces_validated_against_impl", r.Get("transitions"))
	r.Set("bounds", bounds)
	r.Set("outcome_histogram", hist)
	r.Set("distinct_outcomes", len(hist))
	r.Assume(
		"messages are routed through the real validator.Validator.ProcessMessage as queue.DecodedSSVMessage (decoded from bytes per delivery), duties through Validator.StartDuty; boot and Restart go through Validator.Start (LoadHighestInstance); the queue-consumer goroutine Start spawns stays idle (nothing is pushed to the queues)",
		"attester runner + controller constructed like operator/validator.SetupRunners (RoundRobinProposer, signature verification on), real ibft/storage on a real in-memory badger (storage/kv) behind a recording proxy; FullNode true and false",
		"Restart = every validator/runner/controller/storage object is thrown away and rebuilt on the same database; a crash point is a panic raised by the proxy immediately before or after a DB write call (Set/Delete/...), recovered by the harness, followed by Restart; badger's own atomicity/durability is trusted",
		"all certificates are valid quorum certificates over the value the testing beacon node yields for the slot; 'proposal+prepares(h)' delivers the leader's proposal and the prepares of operators 2,3,4 back to back (one event), commits are delivered one by one; no round timeouts (inert timer), so local decisions happen in round 1",
		"reference model: started (volatile), learned-decided (volatile, re-read from the store on restart), per-height best signer count; the runner's state and the store are observed after every step through fresh ibft/storage objects",
	)
	r.Finish(exhaustive)
}
