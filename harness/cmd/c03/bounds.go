package main

import spectypes "github.com/bloxapp/ssv-spec/types"

// One exploration = (role, slice of the alphabet, depth bound). Sequences are explored by state.
type planItem struct {
	role  spectypes.BeaconRole
	slice string // full | local | cert (see roleCfg.slice)
	depth int
}

var quickPlan = []planItem{
	{spectypes.BNRoleAttester, "full", 5},
	{spectypes.BNRoleAttester, "local", 10},
	{spectypes.BNRoleAttester, "cert", 8}, // 8: start, decided, 3 post-consensus shares (finished), 2 evicting certificates, replayed certificate
	{spectypes.BNRoleProposer, "full", 5},
	{spectypes.BNRoleProposer, "local", 9},
	{spectypes.BNRoleProposer, "cert", 6},
}

var thoroughPlan = func() []planItem {
	var out []planItem
	for _, role := range []spectypes.BeaconRole{spectypes.BNRoleAttester, spectypes.BNRoleProposer, spectypes.BNRoleAggregator,
		spectypes.BNRoleSyncCommittee, spectypes.BNRoleSyncCommitteeContribution} {
		local := 12
		if role != spectypes.BNRoleAttester && role != spectypes.BNRoleSyncCommittee {
			local = 11 // roles with a pre-consensus phase: 16 events, the 12th level alone has 1.9e5 new states
		}
		out = append(out, planItem{role, "full", 6}, planItem{role, "local", local}, planItem{role, "cert", 8})
	}
	return out
}()
