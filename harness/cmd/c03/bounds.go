package main

import spectypes "github.com/bloxapp/ssv-spec/types"

// One exploration = (role, slice of the alphabet, depth bound). Sequences are explored by state.
type planItem struct {
	role  spectypes.BeaconRole
	slice string // full | local | cert (see roleCfg.slice)
	depth int
}

var quickPlan = []planItem{
	{spectypes.BNRoleAttester, "full", 5},
	{spectypes.BNRoleAttester, "local", 10},
	{spectypes.BNRoleAttester, "cert", 7},
	{spectypes.BNRoleProposer, "full", 5},
	{spectypes.BNRoleProposer, "local", 9},
	{spectypes.BNRoleProposer, "cert", 6},
}

var thoroughPlan = func() []planItem {
	var out []planItem
	for _, role := range []spectypes.BeaconRole{spectypes.BNRoleAttester, spectypes.BNRoleProposer, spectypes.BNRoleAggregator,
		spectypes.BNRoleSyncCommittee, spectypes.BNRoleSyncCommitteeContribution} {
		out = append(out, planItem{role, "full", 6}, planItem{role, "local", 12}, planItem{role, "cert", 8})
	}
	return out
}()
