// C03 — duty signatures are released only over the decided, validated duty data.
// Explicit-state search (E1) over real duty runners behind the real validator.Validator
// (ProcessMessage / StartDuty), real qbft controller + instance, real ibft/storage (on a map-backed
// basedb.Database: the storage engine is not the subject here), around a RECORDING key manager; the oracle is evaluated on every signer call.
package main

import (
	"crypto/sha256"
	"encoding/hex"
	"flag"
	"fmt"
	"os"
	"runtime/pprof"
	"sort"
	"strings"
	"time"

	"github.com/attestantio/go-eth2-client/spec/phase0"
	specqbft "github.com/bloxapp/ssv-spec/qbft"
	spectypes "github.com/bloxapp/ssv-spec/types"
	"github.com/bloxapp/ssv-spec/types/testingutils"

	ssvtypes "github.com/bloxapp/ssv/protocol/v2/types"

	"verifharness/lib/ev"
	"verifharness/lib/runh"
)

const (
	s0 phase0.Slot = 11 // stale
	s1 phase0.Slot = 12 // the duty (operator 1 leads round 1 of height 12)
	s2 phase0.Slot = 13 // later duty / future height (operator 2 leads)
	s3 phase0.Slot = 14 // a second future height (two higher instances evict the duty's one from the controller)
)

type kind int

const (
	kStart kind = iota
	kCons
	kPartial
	kEvent // an ExecuteDuty event message handed to ProcessMessage (what the duty scheduler queues)
)

type evDef struct {
	name     string
	kind     kind
	slot     phase0.Slot     // kStart: duty slot; kPartial: slot in the message
	height   specqbft.Height // kCons
	root     [32]byte        // kCons: the root the message's signers signed
	msgType  specqbft.MessageType
	wire     *runh.Wire
	otherVal bool // envelope addressed to another validator
	otherRol bool // envelope (or whole message) addressed to another role
	local    bool // belongs to the "local consensus" slice
	cert     bool // belongs to the "certificate" slice
}

type roleCfg struct {
	role, other spectypes.BeaconRole
	events      []evDef
	valCheck    specqbft.ProposedValueCheckF // independent instance of the role's value check
	name        string
}

var otherOf = map[spectypes.BeaconRole]spectypes.BeaconRole{
	spectypes.BNRoleAttester:                  spectypes.BNRoleAggregator,
	spectypes.BNRoleProposer:                  spectypes.BNRoleAttester,
	spectypes.BNRoleAggregator:                spectypes.BNRoleAttester,
	spectypes.BNRoleSyncCommittee:             spectypes.BNRoleAttester,
	spectypes.BNRoleSyncCommitteeContribution: spectypes.BNRoleSyncCommittee,
}

func leader(h specqbft.Height) spectypes.OperatorID {
	// specqbft.RoundRobinProposer for round 1 of a 4-operator committee with ids 1..4
	return spectypes.OperatorID(uint64(h)%4 + 1)
}

func buildRole(role spectypes.BeaconRole) *roleCfg {
	c := &roleCfg{role: role, other: otherOf[role], name: "c03-" + role.String()}
	id := runh.Identifier(role)
	idOther := runh.Identifier(c.other)
	wrongVal := spectypes.NewMsgID(ssvtypes.GetDefaultDomain(), testingutils.TestingWrongValidatorPubKey[:], role)
	others := []spectypes.OperatorID{2, 3, 4}
	val := func(s phase0.Slot, v runh.Variant) []byte { return runh.ConsensusValue(role, s, v) }
	h0, h1, h2, h3 := specqbft.Height(s0), specqbft.Height(s1), specqbft.Height(s2), specqbft.Height(s3)
	add := func(e evDef) { c.events = append(c.events, e) }
	cons := func(name string, envelope spectypes.MessageID, m *specqbft.SignedMessage) evDef {
		return evDef{name: name, kind: kCons, height: m.Message.Height, root: m.Message.Root, msgType: m.Message.MsgType, wire: runh.WireQBFT(envelope, m)}
	}

	add(evDef{name: "startDuty(s1)", kind: kStart, slot: s1})
	add(evDef{name: "startDuty(s2)", kind: kStart, slot: s2})
	add(evDef{name: "startDuty(s0)", kind: kStart, slot: s0})

	// height s1
	add(cons("proposal(h1)", id, runh.QBFTMsg(id[:], specqbft.ProposalMsgType, h1, 1, val(s1, runh.Valid), true, leader(h1))))
	for _, i := range others {
		add(cons(fmt.Sprintf("prepare(h1,op%d)", i), id, runh.QBFTMsg(id[:], specqbft.PrepareMsgType, h1, 1, val(s1, runh.Valid), false, i)))
	}
	for _, i := range others {
		add(cons(fmt.Sprintf("commit(h1,op%d)", i), id, runh.QBFTMsg(id[:], specqbft.CommitMsgType, h1, 1, val(s1, runh.Valid), false, i)))
	}
	decidedValid := runh.QBFTMsg(id[:], specqbft.CommitMsgType, h1, 1, val(s1, runh.Valid), true, 2, 3, 4)
	add(cons("decided(h1,{2,3,4})", id, decidedValid))
	add(cons("decided(h1,{1,2,3,4})", id, runh.QBFTMsg(id[:], specqbft.CommitMsgType, h1, 1, val(s1, runh.Valid), true, 1, 2, 3, 4)))
	add(cons("decidedOtherValidValue(h1)", id, runh.QBFTMsg(id[:], specqbft.CommitMsgType, h1, 1, val(s1, runh.Alt), true, 2, 3, 4)))
	// a genuine quorum commit over H(valid value) relayed with its (unsigned) full data swapped for
	// another valid value
	swapped := runh.QBFTMsg(id[:], specqbft.CommitMsgType, h1, 1, val(s1, runh.Valid), true, 2, 3, 4)
	swapped.FullData = val(s1, runh.Alt)
	add(cons("decidedRootOfValidDataOfOtherValue(h1)", id, swapped))
	add(cons("decidedInvalidValue(h1)", id, runh.QBFTMsg(id[:], specqbft.CommitMsgType, h1, 1, val(s1, runh.Invalid), true, 2, 3, 4)))

	// stale height s0, future height s2
	add(cons("proposal(h0)", id, runh.QBFTMsg(id[:], specqbft.ProposalMsgType, h0, 1, val(s0, runh.Valid), true, leader(h0))))
	add(cons("decided(h0)", id, runh.QBFTMsg(id[:], specqbft.CommitMsgType, h0, 1, val(s0, runh.Valid), true, 2, 3, 4)))
	add(cons("proposal(h2)", id, runh.QBFTMsg(id[:], specqbft.ProposalMsgType, h2, 1, val(s2, runh.Valid), true, leader(h2))))
	add(cons("commit(h2,op2)", id, runh.QBFTMsg(id[:], specqbft.CommitMsgType, h2, 1, val(s2, runh.Valid), false, 2)))
	add(cons("decided(h2)", id, runh.QBFTMsg(id[:], specqbft.CommitMsgType, h2, 1, val(s2, runh.Valid), true, 2, 3, 4)))
	add(cons("decided(h3)", id, runh.QBFTMsg(id[:], specqbft.CommitMsgType, h3, 1, val(s3, runh.Valid), true, 2, 3, 4)))

	// post-consensus partial signatures
	postValid, err := runh.PostConsensusRoots(role, val(s1, runh.Valid))
	if err != nil {
		ev.Fatal("post roots: %v", err)
	}
	postAlt, _ := runh.PostConsensusRoots(role, val(s1, runh.Alt))
	part := func(name string, envelope spectypes.MessageID, m *spectypes.SignedPartialSignatureMessage) evDef {
		return evDef{name: name, kind: kPartial, slot: m.Message.Slot, wire: runh.WirePartial(envelope, m)}
	}
	for _, i := range others {
		add(part(fmt.Sprintf("post(s1,op%d)", i), id, runh.PartialSigMsg(i, spectypes.PostConsensusPartialSig, s1, postValid.Roots)))
	}
	add(part("postWrongSlot(s2,op2)", id, runh.PartialSigMsg(2, spectypes.PostConsensusPartialSig, s2, postValid.Roots)))
	add(part("postOtherRoot(s1,op2)", id, runh.PartialSigMsg(2, spectypes.PostConsensusPartialSig, s1, postAlt.Roots)))

	// other validator / other role
	e := cons("decided(h1)->otherValidator", wrongVal, decidedValid)
	e.otherVal = true
	add(e)
	e = cons("decided(h1)->otherRoleEnvelope", idOther, decidedValid)
	e.otherRol = true
	add(e)
	e = cons("decided(h1) of otherRole", idOther, runh.QBFTMsg(idOther[:], specqbft.CommitMsgType, h1, 1, runh.ConsensusValue(c.other, s1, runh.Valid), true, 2, 3, 4))
	e.otherRol = true
	add(e)
	e = part("post(s1,op2)->otherRoleEnvelope", idOther, runh.PartialSigMsg(2, spectypes.PostConsensusPartialSig, s1, postValid.Roots))
	e.otherRol = true
	add(e)

	// ExecuteDuty events as the scheduler queues them: for this validator, and addressed to
	// another validator (message id and duty name the other key)
	add(evDef{name: "execDutyEvent(s2)", kind: kEvent, slot: s2, wire: runh.WireExecuteDuty(id, runh.Duty(role, s2))})
	for _, sl := range []phase0.Slot{s1, s2} {
		d := *runh.Duty(role, sl)
		copy(d.PubKey[:], testingutils.TestingWrongValidatorPubKey[:])
		e := evDef{name: fmt.Sprintf("execDutyEvent(s%d)->otherValidator", sl-s1+1), kind: kEvent, slot: sl, wire: runh.WireExecuteDuty(wrongVal, &d)}
		e.otherVal = true
		add(e)
	}

	// pre-consensus partial signatures
	if pre := runh.PreConsensusRoots(role, s1); pre != nil {
		for _, i := range others {
			add(part(fmt.Sprintf("pre(s1,op%d)", i), id, runh.PartialSigMsg(i, pre.PSType, s1, pre.Roots)))
		}
		add(part("preWrongSlot(s2,op2)", id, runh.PartialSigMsg(2, pre.PSType, s2, pre.Roots)))
	}

	for i := range c.events {
		e := &c.events[i]
		n := e.name
		has := func(subs ...string) bool {
			for _, x := range subs {
				if strings.HasPrefix(n, x) {
					return true
				}
			}
			return false
		}
		e.local = has("startDuty(s1)", "startDuty(s2)", "proposal(h1)", "prepare(h1", "commit(h1", "decided(h1,{2,3,4})", "post(s1,op", "pre(s1,op") && !e.otherRol && !e.otherVal
		e.cert = !has("proposal(", "prepare(", "commit(")
	}

	// independent value check: the spec function of the role over its own (non-recording) signer
	share := testingutils.TestingShare(runh.KeySet())
	c.valCheck = runh.ValueCheck(role, testingutils.NewTestingKeyManager(), share)
	// sanity of the alphabet itself (engine error, not a verdict)
	for _, v := range []runh.Variant{runh.Valid, runh.Alt} {
		if err := c.valCheck(val(s1, v)); err != nil {
			ev.Fatal("%s: variant %d should pass the value check: %v", c.name, v, err)
		}
	}
	if c.valCheck(val(s1, runh.Invalid)) == nil {
		ev.Fatal("%s: the invalid variant passes the value check", c.name)
	}
	if hex.EncodeToString(postValid.Roots[0][:]) == hex.EncodeToString(postAlt.Roots[0][:]) {
		ev.Fatal("%s: Alt value has the same duty object as Valid", c.name)
	}
	return c
}

// ---- the live system ----

type sys struct {
	c *roleCfg
	w *runh.World
	// oracle state: beacon roots signed post-consensus per duty slot; number of duties started
	post       map[phase0.Slot]map[[32]byte]bool
	otherDig   [32]byte
	otherValid bool
	evs        []int // indices into c.events (the slice of the alphabet being explored)
}

var myPKHex = hex.EncodeToString(runh.SharePK(1))

func (c *roleCfg) newSys(worker int, evs []int) runh.Sys {
	w := runh.BuildWorld(runh.Options{DB: runh.NewMemDB(), Roles: []spectypes.BeaconRole{c.role, c.other}})
	return &sys{c: c, w: w, post: map[phase0.Slot]map[[32]byte]bool{}, evs: evs}
}

func (s *sys) Close() { s.w.Discard() }

func (s *sys) Hash() [32]byte {
	h := sha256.New()
	runh.WriteRunnerState(h, s.w.Runners[s.c.role])
	if !s.otherValid { // only events addressed to the other role can change its runner
		ho := sha256.New()
		runh.WriteRunnerState(ho, s.w.Runners[s.c.other])
		copy(s.otherDig[:], ho.Sum(nil))
		s.otherValid = true
	}
	h.Write(s.otherDig[:])
	d := s.w.KM.LogDigest()
	h.Write(d[:])
	slots := make([]int, 0, len(s.post))
	for sl := range s.post {
		slots = append(slots, int(sl))
	}
	sort.Ints(slots)
	for _, sl := range slots {
		var roots []string
		for r := range s.post[phase0.Slot(sl)] {
			roots = append(roots, string(r[:]))
		}
		sort.Strings(roots)
		fmt.Fprintf(h, "|%d", sl)
		for _, r := range roots {
			h.Write([]byte(r))
		}
	}
	var out [32]byte
	copy(out[:], h.Sum(nil))
	return out
}

func hx(r [32]byte) string { return hex.EncodeToString(r[:8]) }

func (s *sys) Apply(st runh.Step) (string, []runh.Viol, int) {
	e := &s.c.events[s.evs[st.E]]
	if e.otherRol {
		s.otherValid = false
	}
	r := s.w.Runners[s.c.role]
	km := s.w.KM
	before := len(km.Log)

	// classification of the event relative to the state before it
	class := ""
	pre := r.GetBaseRunner().State
	preFinished := pre != nil && pre.Finished
	switch e.kind {
	case kStart:
		class = "start"
	case kEvent:
		class = "start-event"
		if e.otherVal {
			class = "start-event-other-validator"
		}
	case kPartial:
		class = "partial"
		if e.otherRol {
			class = "partial-other-role"
		}
	case kCons:
		switch {
		case e.otherVal:
			class = "cons-other-validator"
		case e.otherRol:
			class = "cons-other-role"
		case pre == nil:
			class = "cons-no-duty"
		case pre.Finished:
			class = "cons-finished-duty"
		case e.height != specqbft.Height(pre.StartingDuty.Slot):
			class = "cons-other-height"
		default:
			class = "cons-current"
		}
	}

	var err error
	switch e.kind {
	case kStart:
		err = s.w.V.StartDuty(s.w.Log, runh.Duty(s.c.role, e.slot))
	default:
		err = s.w.V.ProcessMessage(s.w.Log, e.wire.Decode())
	}

	var viols []runh.Viol
	bad := func(sig, what string, obs, exp interface{}) {
		viols = append(viols, runh.Viol{Signature: s.c.role.String() + ": " + sig, What: what, Observed: obs, Expected: exp})
	}
	post := r.GetBaseRunner().State
	nBeacon, nQBFT := 0, 0
	var beaconThisEvent [][32]byte
	preSeen := map[[32]byte]bool{}
	myPK := myPKHex
	for _, c := range km.Log[before:] {
		if c.Kind == "root" {
			if c.SigType == spectypes.QBFTSignatureType {
				nQBFT++ // consensus-protocol message signature (domain-separated), not a duty signature
				continue
			}
			// container of partial signatures: must wrap exactly the duty signatures of this event
			if fmt.Sprint(c.Inner) != fmt.Sprint(beaconThisEvent) {
				bad("partial-signature container does not wrap the signatures just made ("+class+")", "SignRoot(PartialSignatureType) over roots that were not signed in the same step", fmt.Sprint(c.Inner), fmt.Sprint(beaconThisEvent))
			}
			continue
		}
		nBeacon++
		beaconThisEvent = append(beaconThisEvent, c.Root)
		if c.PK != myPK {
			bad("signature with a foreign key", "SignBeaconObject asked for a key that is not this operator's share", c.PK, myPK)
		}
		switch {
		case e.kind == kStart || (e.kind == kEvent && !e.otherVal):
			exp := runh.PreConsensusRoots(s.c.role, e.slot)
			ok := err == nil && exp != nil && c.DomainType == exp.DomainType && !preSeen[c.Root]
			if ok {
				ok = false
				for _, x := range exp.Roots {
					if x == c.Root {
						ok = true
					}
				}
			}
			preSeen[c.Root] = true
			if !ok {
				bad("validator-key signature in StartDuty that is not a pre-consensus proof of the started slot", fmt.Sprintf("%s signed %s (StartDuty error: %v)", e.name, c, err), c.String(), "one signature per selection/randao root of the slot, only when the duty starts")
			}
		case class == "cons-current":
			// (iv) at most once per decided object (evaluated whatever else is wrong)
			if pre != nil && pre.StartingDuty != nil {
				slot := pre.StartingDuty.Slot
				if s.post[slot] == nil {
					s.post[slot] = map[[32]byte]bool{}
				}
				if s.post[slot][c.Root] {
					bad("duty object signed twice for one duty", fmt.Sprintf("%s caused another signature of root %s for the duty of slot %d", e.name, hx(c.Root), slot), c.String(), "at most once per decided object")
				}
				s.post[slot][c.Root] = true
			}
			// (i) the running instance is decided for the height of the started duty
			if post == nil || post.StartingDuty == nil || post.RunningInstance == nil || post.RunningInstance.State == nil ||
				!post.RunningInstance.State.Decided || post.RunningInstance.State.Height != specqbft.Height(post.StartingDuty.Slot) || e.height != post.RunningInstance.State.Height {
				bad("duty signature while the running instance is not decided for the duty's height", fmt.Sprintf("%s caused %s", e.name, c), c.String(), "running instance decided at height = started slot")
				continue
			}
			dv := post.RunningInstance.State.DecidedValue
			// (i') what the instance calls decided hashes to the root the commit quorum signed (the full
			// data travels unsigned next to it)
			if e.msgType == specqbft.CommitMsgType {
				if hr, herr := specqbft.HashDataRoot(dv); herr != nil || hr != e.root {
					bad("duty signature over a value that does not hash to the root the commit quorum signed", fmt.Sprintf("%s caused %s: the decided value kept by the instance hashes to %s, the commits are over %s", e.name, c, hx(hr), hx(e.root)), c.String(), "no signature")
					continue
				}
			}
			// (ii) the decided value passes the role's value check (independent instance)
			if verr := s.c.valCheck(dv); verr != nil {
				bad("duty signature over a decided value that fails the value check", fmt.Sprintf("%s caused %s although the decided value is invalid: %v", e.name, c, verr), c.String(), "no signature")
				continue
			}
			// (iii) the signed root is a duty object of the decided value
			exp, derr := runh.PostConsensusRoots(s.c.role, dv)
			in := false
			if derr == nil && exp.DomainType == c.DomainType {
				for _, x := range exp.Roots {
					if x == c.Root {
						in = true
					}
				}
			}
			if !in {
				bad("duty signature over an object that is not in the decided value", fmt.Sprintf("%s caused %s", e.name, c), c.String(), fmt.Sprint(exp))
			}
		default:
			bad("validator-key signature caused by a message of class "+class, fmt.Sprintf("%s (%s) caused %s", e.name, class, c), c.String(), "zero signer calls")
		}
	}
	out := class
	if err != nil {
		out += ":err"
	} else {
		out += ":ok"
	}
	if nBeacon > 0 {
		out += fmt.Sprintf("+sign%d", nBeacon)
	}
	if nQBFT > 0 {
		out += "+qbftmsg"
	}
	if post != nil && post.Finished && !(preFinished && pre == post) {
		out += "+finished"
	}
	return out, viols, 0
}

// slice selects a sub-alphabet: "full" = every event; "local" = the duty's own consensus run
// message by message; "cert" = decided certificates, partial signatures and all foreign traffic.
// Every sequence over a slice is a sequence over the full alphabet; the slices reach deeper.
func (c *roleCfg) slice(which string) []int {
	var out []int
	for i, e := range c.events {
		if which == "full" || (which == "local" && e.local) || (which == "cert" && e.cert) {
			out = append(out, i)
		}
	}
	return out
}

func (c *roleCfg) config(which string, depth int) *runh.Config {
	evs := c.slice(which)
	return &runh.Config{
		Name: c.name + "/" + which, NumEvents: len(evs), Depth: depth, Workers: 16,
		EventName: func(s runh.Step) string { return c.events[evs[s.E]].name },
		New:       func(worker int) runh.Sys { return c.newSys(worker, evs) },
		MaxStates: 8_000_000,
	}
}

func main() {
	prof := flag.String("cpuprofile", "", "write a CPU profile (diagnostics)")
	r := ev.Start("C03", "model_checking")
	if *prof != "" {
		f, _ := os.Create(*prof)
		_ = pprof.StartCPUProfile(f)
		go func() { time.Sleep(20 * time.Second); pprof.StopCPUProfile(); f.Close() }()
	}
	// the node is configured for the network whose domain the spec testing key manager signs under
	ssvtypes.SetDefaultDomain(runh.Domain)
	plan := quickPlan
	if r.Thorough() {
		plan = thoroughPlan
	}
	if r.Replay != "" {
		v, err := ev.LoadReplay(r.Replay)
		if err != nil {
			ev.Fatal("%v", err)
		}
		for _, role := range runh.AllRoles {
			c := buildRole(role)
			for _, which := range []string{"full", "local", "cert"} {
				cfg := c.config(which, 0)
				if cfg.Name != v.Harness {
					continue
				}
				fmt.Printf("replay %s on fresh real objects (%s): %s\n", r.Replay, cfg.Name, v.What)
				if runh.ReplayArtefactByName(cfg, v) {
					fmt.Printf("VIOLATION property=C03 replay=%s\n", r.Replay)
				} else {
					fmt.Println("not reproduced")
				}
				r.Finish(false)
			}
		}
		ev.Fatal("unknown harness %q", v.Harness)
	}

	exhaustive := true
	var bounds []string
	hist := map[string]int{}
	cfgs := map[spectypes.BeaconRole]*roleCfg{}
	for _, p := range plan {
		c := cfgs[p.role]
		if c == nil {
			c = buildRole(p.role)
			cfgs[p.role] = c
			var names []string
			for _, e := range c.events {
				names = append(names, e.name)
			}
			r.Set("alphabet_"+p.role.String(), names)
		}
		cfg := c.config(p.slice, p.depth)
		res := runh.Explore(r, cfg)
		r.Add("states", res.States)
		r.Add("transitions", res.Transitions)
		r.Add("replayed_worlds", res.Replays)
		exhaustive = exhaustive && res.Complete
		bounds = append(bounds, fmt.Sprintf("%s: events=%d depth<=%d states=%d transitions=%d new-states-per-depth=%v complete=%v", cfg.Name, cfg.NumEvents, p.depth, res.States, res.Transitions, res.Levels, res.Complete))
		for k, v := range res.Outcomes {
			hist[p.role.String()+" "+k] += v
		}
	}
	r.Set("traces_validated_against_impl", r.Get("transitions"))
	r.Set("bounds", bounds)
	r.Set("outcome_histogram", hist)
	r.Set("distinct_outcomes", len(hist))
	signing := 0
	for k, v := range hist {
		if len(k) > 0 && containsSign(k) {
			signing += v
		}
	}
	r.Set("transitions_with_duty_signature", signing)
	r.Assume(
		"messages are routed through the real validator.Validator.ProcessMessage as queue.DecodedSSVMessage (decoded from bytes per delivery); duties through Validator.StartDuty; the validator is not Start()ed (no queue consumer goroutines)",
		"runners/controllers are constructed like operator/validator.SetupRunners (RoundRobinProposer, signature verification on, real ibft/storage on a map-backed basedb.Database); substituted environment: spec TestingBeaconNode, spec TestingKeyManager behind the recording wrapper, capturing network, inert round timer (no timeouts in the alphabet, so round 1 only)",
		"operator 1 of the 4-operator spec key set; its own broadcasts are not looped back, the other operators' messages (2,3,4) are the alphabet",
		"canonical state = for the runner under test and the second role: runner State + controller height + every controller instance in the implementation's own JSON encoding (the constant parts of runner.GetRoot() left out) + ordered signer log + the oracle's per-duty set of signed roots; a step that leaves it unchanged is followed on the same objects, otherwise fresh objects + replay",
		"SignRoot calls of type QBFTSignatureType (consensus-protocol messages, domain-separated from beacon objects) are logged and part of the state but are not duty signatures and are not judged; SignRoot(PartialSignatureType) must wrap exactly the beacon signatures of the same step",
		"BLS sign/verify memoised by overlay (pure functions); threshold reconstruction and aggregation run unmodified",
	)
	r.Finish(exhaustive)
}

func containsSign(k string) bool {
	for i := 0; i+5 <= len(k); i++ {
		if k[i:i+5] == "+sign" {
			return true
		}
	}
	return false
}
