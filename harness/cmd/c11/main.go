// C11 — registry state is a deterministic function of the contract event log.
//
// Explicit-state search (E1) over the real eventhandler.EventHandler + operator/storage +
// registry/storage + ekm on in-memory badger, fed with ABI-encoded logs through the real
// eventparser. A search node is (committed blocks, open block); from every node every event of
// the alphabet is applied twice on fresh real objects: appended to the open block ("same
// block") and as the first event of a new block ("new block") — so every sequence is explored
// under every batching, by state. After every block the real state (getters, raw database,
// in-memory views, a restarted node) is compared with a boring Go reference model of the
// registration rules, and the two batchings are compared with each other.
package main

import (
	"crypto/sha256"
	"fmt"
	"math/big"
	"os"
	"sort"
	"strings"
	"sync"

	ethtypes "github.com/ethereum/go-ethereum/core/types"

	"github.com/bloxapp/ssv/storage/kv"

	"verifharness/lib/ev"
	"verifharness/lib/reg"
)

type node struct {
	blocks  [][]int      // committed blocks (event indexes)
	pending []int        // open block
	mS, mR  *reg.Model   // model after the committed blocks / after the open block as well
	sS, sR  reg.Snapshot // complete database content at the same two points
	keyS    string
	keyR    string
}

func (n *node) key() string { return n.keyS + "|" + n.keyR }

func (n *node) names(fx *reg.Fixture) []string {
	var out []string
	for _, b := range n.blocks {
		out = append(out, "["+evNames(fx, b)+"]")
	}
	if len(n.pending) > 0 {
		out = append(out, "["+evNames(fx, n.pending)+"]")
	}
	return out
}

func evNames(fx *reg.Fixture, l []int) string {
	var s []string
	for _, i := range l {
		s = append(s, fx.Events[i].Name)
	}
	return strings.Join(s, ", ")
}

type finding struct {
	sig, what string
	trace     map[string]interface{}
	observed  interface{}
	expected  interface{}
}

var reopenEvery = 200

type worker struct {
	fx    *reg.Fixture
	cfg   reg.Config
	db    *kv.BadgerDB
	cur   reg.Snapshot // current content of db
	uses  int
	views *sync.Map // real states that passed the full oracle -> their description
}

// outcome of applying one block on a live node
type blockResult struct {
	key      string
	snap     reg.Snapshot
	kmLine   string
	findings []finding
}

func catOf(line string) string {
	line = strings.TrimPrefix(strings.TrimPrefix(line, "observed: "), "expected: ")
	f := strings.Fields(line)
	if len(f) == 0 {
		return "?"
	}
	return strings.TrimSuffix(f[0], ":")
}

func cats(diff []string) string {
	m := map[string]bool{}
	for _, d := range diff {
		m[catOf(d)] = true
	}
	var l []string
	for k := range m {
		l = append(l, k)
	}
	sort.Strings(l)
	return strings.Join(l, ",")
}

var kindName = map[reg.Kind]string{reg.OpAdd: "OperatorAdded", reg.OpRemove: "OperatorRemoved", reg.VAdd: "ValidatorAdded", reg.VRemove: "ValidatorRemoved",
	reg.VExit: "ValidatorExited", reg.Liquidate: "ClusterLiquidated", reg.Reactivate: "ClusterReactivated", reg.FeeRecipient: "FeeRecipientAddressUpdated"}

// stateKey is the canonical form of a real state: raw registry dump without the block number,
// what the key manager holds, and the in-memory views.
func stateKey(dump reg.Snapshot, km reg.KMView, mem []string) string {
	h := sha256.New()
	for _, kv := range dump {
		if !strings.HasPrefix(kv.K, reg.RegistryPrefix) || strings.HasSuffix(kv.K, "/syncOffset") {
			continue
		}
		fmt.Fprintf(h, "%d:%s=%d:%s;", len(kv.K), kv.K, len(kv.V), kv.V)
	}
	fmt.Fprintf(h, "km=%v;", km.Usable)
	var ks []string
	for k := range km.HighAtt {
		ks = append(ks, "a"+k)
	}
	for k := range km.HighProp {
		ks = append(ks, "p"+k)
	}
	for k, c := range km.Accounts {
		ks = append(ks, fmt.Sprintf("r%s=%d", k, c))
	}
	sort.Strings(ks)
	fmt.Fprintf(h, "sp=%v;mem=%v", ks, mem)
	return fmt.Sprintf("%x", h.Sum(nil)[:16])
}

// start builds a fresh real node on the given database content (empty snapshot = first start).
func (w *worker) start(s reg.Snapshot) *reg.Node {
	w.uses++
	if w.uses%reopenEvery == 0 { // badger keeps every version of a key in its memtable: start afresh regularly
		old := w.db
		go old.Close()
		w.db, w.cur = reg.NewDB(), nil
	}
	reg.Restore(w.db, w.cur, s)
	w.cur = nil // unknown until the next snapshot
	n, err := reg.NewNode(w.fx, w.cfg, w.db, &reg.Clock{Slot: reg.StartSlot}, nil)
	if err != nil {
		ev.Fatal("node start failed: %v", err)
	}
	return n
}

// lastBlockLine renders the last processed block as stored in a snapshot.
func lastBlockLine(dump reg.Snapshot) string {
	for _, e := range dump {
		if e.K == reg.RegistryPrefix+"syncOffset" {
			return fmt.Sprintf("lastBlock: %d", new(big.Int).SetBytes([]byte(e.V)).Uint64())
		}
	}
	return "lastBlock: none"
}

// applyBlock runs one block of events on the live node, advances the model, and evaluates the
// oracle. Real states that already passed the full oracle (same raw dump, key-manager content and
// in-memory views) are only compared with the model; new ones get the full treatment: getters,
// raw database, in-memory views, restarted node.
func (w *worker) applyBlock(n *reg.Node, m *reg.Model, evs []int, blk uint64) blockResult {
	fx := w.fx
	var logs []ethtypes.Log
	var wantTasks []string
	for _, i := range evs {
		e := fx.Events[i]
		logs = append(logs, fx.Log(e, m.NextNonce(e.Owner)))
		wantTasks = append(wantTasks, m.Apply(fx, e, blk)...)
	}
	m.EndBlock(blk)
	tasks, err := n.ProcessBlock(reg.Block(blk, logs))
	var res blockResult
	last := fx.Events[evs[len(evs)-1]]
	add := func(class string, diff []string, what string, obs, exp interface{}) {
		res.findings = append(res.findings, finding{
			sig:      fmt.Sprintf("%s last=%s diff=%s", class, kindName[last.Kind], cats(diff)),
			what:     what,
			observed: obs, expected: exp})
	}
	if err != nil {
		add("handler-error", nil, fmt.Sprintf("block %d refused without any fault: %v", blk, err), err.Error(), nil)
	}
	if !reg.Equal(tasks, wantTasks) {
		add("tasks", []string{"tasks"}, fmt.Sprintf("tasks handed to the executor differ from the rules: got %v want %v", tasks, wantTasks), tasks, wantTasks)
	}
	km := n.ObserveKM(false)
	dump := reg.TakeSnapshot(w.db)
	mem := n.DescribeMemory()
	key := stateKey(dump, km, mem)
	want := m.Describe(true)
	wantState, wantBlock := want[:len(want)-1], want[len(want)-1]
	if got := lastBlockLine(dump); got != wantBlock {
		add("database-vs-rules", []string{"lastBlock"}, fmt.Sprintf("last processed block in the database: %s, expected %s", got, wantBlock), got, wantBlock)
	}
	if cached, ok := w.views.Load(key); ok {
		if d := reg.Diff(cached.([]string), wantState); len(d) > 0 {
			add("getters-vs-rules", d, "state read through the storage getters differs from the registration rules: "+strings.Join(d, " ; "), cached, wantState)
		}
	} else {
		before := len(res.findings)
		getters := n.DescribeGetters(true, km.Line())
		if d := reg.Diff(getters, want); len(d) > 0 {
			add("getters-vs-rules", d, "state read through the storage getters differs from the registration rules: "+strings.Join(d, " ; "), getters, want)
		}
		rawView := reg.DescribeRaw(fx, dump, w.cfg.OwnKey, n.Net.Domain, km.Line(), true)
		if d := reg.Diff(rawView, want); len(d) > 0 {
			add("database-vs-rules", d, "raw database content differs from the registration rules: "+strings.Join(d, " ; "), rawView, want)
		}
		if d := reg.Diff(mem, reg.MemoryLines(rawView)); len(d) > 0 {
			add("memory-vs-database", d, "in-memory view differs from the database: "+strings.Join(d, " ; "), mem, reg.MemoryLines(rawView))
		}
		// restart: a node rebuilt on the same database must present the same in-memory views and keys
		n2, err := reg.NewNode(fx, w.cfg, w.db, &reg.Clock{Slot: reg.StartSlot}, nil)
		if err != nil {
			add("restart", []string{"restart"}, "restart on the database failed: "+err.Error(), err.Error(), nil)
		} else {
			after := append(n2.DescribeMemory(), n2.ObserveKM(false).Line())
			bef := append(append([]string{}, mem...), km.Line())
			if d := reg.Diff(after, bef); len(d) > 0 {
				add("restart", d, "a restarted node presents another state: "+strings.Join(d, " ; "), after, bef)
			}
		}
		if len(res.findings) == before {
			w.views.Store(key, getters[:len(getters)-1])
		}
	}
	// environment: beacon metadata arrives after the block
	if len(n.SetMetadata()) > 0 {
		dump = reg.TakeSnapshot(w.db)
		key = stateKey(dump, km, n.DescribeMemory())
	}
	m.SetMetadata()
	res.key, res.snap, res.kmLine = key, dump, km.Line()
	w.cur = dump
	return res
}

// lines renders a result for messages (from its snapshot, no database needed).
func (w *worker) lines(r blockResult) []string {
	return reg.DescribeRaw(w.fx, r.snap, w.cfg.OwnKey, reg.NetConfig(&reg.Clock{}).Domain, r.kmLine, false)
}

type child struct {
	n        *node
	res      blockResult
	findings []finding
	event    int
}

func (w *worker) trace(n *node) map[string]interface{} {
	return map[string]interface{}{"own_key": fmt.Sprintf("K%d", w.cfg.OwnKey), "blocks": n.names(w.fx)}
}

// expandSame applies every event appended to the open block of p (committed | pending+e), each
// on a fresh real node.
func (w *worker) expandSame(p *node, nEvents int) (out []child) {
	for e := 0; e < nEvents; e++ {
		same := append(append([]int{}, p.pending...), e)
		m := p.mS.Clone()
		rs := w.applyBlock(w.start(p.sS), m, same, uint64(len(p.blocks)+1))
		c := child{n: &node{blocks: p.blocks, pending: same, mS: p.mS, mR: m, sS: p.sS, sR: rs.snap, keyS: p.keyS, keyR: rs.key}, res: rs, findings: rs.findings, event: e}
		for i := range c.findings {
			c.findings[i].trace = w.trace(c.n)
		}
		out = append(out, c)
	}
	return out
}

// expandNew applies every event as a new block after the open block of p has been committed
// (committed + pending | e). The result only depends on the state after the open block.
func (w *worker) expandNew(p *node, nEvents int) (out []child) {
	blocks2 := append(append([][]int{}, p.blocks...), p.pending)
	for e := 0; e < nEvents; e++ {
		m2 := p.mR.Clone()
		rn := w.applyBlock(w.start(p.sR), m2, []int{e}, uint64(len(blocks2)+1))
		c := child{n: &node{blocks: blocks2, pending: []int{e}, mS: p.mR, mR: m2, sS: p.sR, sR: rn.snap, keyS: p.keyR, keyR: rn.key}, res: rn, findings: rn.findings, event: e}
		for i := range c.findings {
			c.findings[i].trace = w.trace(c.n)
		}
		out = append(out, c)
	}
	return out
}

// newRes is what is kept of a "new block" transition: the resulting state and its rendering.
type newRes struct {
	keyR  string
	lines []string
}

const chunkSize = 1024

type search struct {
	r        *ev.Run
	fx       *reg.Fixture
	cfg      reg.Config
	prefix   []int
	depth    int
	workers  []*worker
	outcomes map[string]int
	pairs    int
}

// parallel runs f(worker, i) for i in [0,n) on the worker pool; false if the deadline hit.
func (s *search) parallel(n int, f func(w *worker, i int)) bool {
	idx := make(chan int, n)
	for i := 0; i < n; i++ {
		idx <- i
	}
	close(idx)
	var wg sync.WaitGroup
	var mu sync.Mutex
	ok := true
	for _, w := range s.workers {
		wg.Add(1)
		go func(w *worker) {
			defer wg.Done()
			for i := range idx {
				if s.r.Expired() {
					mu.Lock()
					ok = false
					mu.Unlock()
					return
				}
				f(w, i)
			}
		}(w)
	}
	wg.Wait()
	return ok
}

func (s *search) run() (states, nodes, transitions, doneDepth int, complete bool) {
	fx := s.fx
	nEvents := len(fx.Events)
	// root: the prefix (if any) as one committed block
	w0 := s.workers[0]
	var blocks [][]int
	n0 := w0.start(nil)
	m := reg.NewModel(s.cfg.OwnKey)
	snap := reg.TakeSnapshot(w0.db)
	key := stateKey(snap, n0.ObserveKM(false), n0.DescribeMemory())
	if len(s.prefix) > 0 {
		blocks = [][]int{s.prefix}
		r0 := w0.applyBlock(n0, m, s.prefix, 1)
		for _, f := range r0.findings {
			s.r.Violate(f.sig, f.what, "c11", map[string]interface{}{"own_key": fmt.Sprintf("K%d", s.cfg.OwnKey), "blocks": []string{"[" + evNames(fx, s.prefix) + "]"}}, f.observed, f.expected)
		}
		key, snap = r0.key, r0.snap
	}
	root := &node{blocks: blocks, mS: m, mR: m, sS: snap, sR: snap, keyS: key, keyR: key}
	seen := map[string]bool{root.key(): true}
	distinct := map[string]bool{key: true}
	newFrom := map[string][]newRes{} // state after the open block -> result of every event as a new block
	frontier := []*node{root}
	var next []*node
	handle := func(parentKeyR string, c child) {
		e := fx.Events[c.event]
		if len(c.findings) > 0 {
			for _, f := range c.findings {
				s.outcomes["VIOLATION "+strings.SplitN(f.sig, " ", 2)[0]]++
				s.r.Violate(f.sig, f.what, "c11", f.trace, f.observed, f.expected)
			}
			return
		}
		changed := "unchanged"
		if c.n.keyR != parentKeyR {
			changed = "changed"
		}
		s.outcomes[kindName[e.Kind]+" state "+changed]++
		distinct[c.n.keyR] = true
		if k := c.n.key(); !seen[k] {
			seen[k] = true
			next = append(next, c.n)
			if n := len(seen); n == 5 || n == 200 || n%2000 == 0 {
				s.r.Sample(map[string]interface{}{"own_key": fmt.Sprintf("K%d", s.cfg.OwnKey), "blocks": c.n.names(fx), "state": c.n.mR.Describe(true)})
			}
		}
	}
	for d := 0; d < s.depth && len(frontier) > 0; d++ {
		next = nil
		level := frontier
		// the level is processed in chunks to bound the memory held by un-merged results
		for start := 0; start < len(level); start += chunkSize {
			end := start + chunkSize
			if end > len(level) {
				end = len(level)
			}
			frontier := level[start:end]
			// phase 1: every event appended to the open block of every frontier node
			same := make([][]child, len(frontier))
			ok := s.parallel(len(frontier), func(w *worker, i int) { same[i] = w.expandSame(frontier[i], nEvents) })
			// phase 2: every event as a new block, once per distinct state after the open block
			var reps []*node
			repOf := map[string]bool{}
			for _, p := range frontier {
				if len(p.pending) > 0 && newFrom[p.keyR] == nil && !repOf[p.keyR] {
					repOf[p.keyR] = true
					reps = append(reps, p)
				}
			}
			fresh := make([][]child, len(reps))
			if ok {
				ok = s.parallel(len(reps), func(w *worker, i int) { fresh[i] = w.expandNew(reps[i], nEvents) })
			}
			if !ok {
				for _, l := range same {
					transitions += len(l)
				}
				for _, l := range fresh {
					transitions += len(l)
				}
				s.r.CapHit(fmt.Sprintf("deadline at depth %d (own key K%d, prefix %d)", d, s.cfg.OwnKey, len(s.prefix)))
				return len(distinct), len(seen), transitions, d, false
			}
			// phase 3 (sequential, deterministic order): merge
			for i, p := range reps {
				transitions += len(fresh[i])
				var l []newRes
				for _, c := range fresh[i] {
					handle(p.keyR, c)
					l = append(l, newRes{keyR: c.n.keyR, lines: w0.lines(c.res)})
				}
				newFrom[p.keyR] = l
			}
			for i, p := range frontier {
				transitions += len(same[i])
				for _, c := range same[i] {
					handle(p.keyR, c)
					if len(p.pending) == 0 {
						continue // an empty open block: the two batchings coincide
					}
					// the two batchings of the same sequence must end in the same state
					cn := newFrom[p.keyR][c.event]
					s.pairs++
					if c.n.keyR != cn.keyR {
						l1, l2 := w0.lines(c.res), cn.lines
						dd := reg.Diff(l1, l2)
						last := fx.Events[c.event]
						two := append(append([]string{}, p.names(fx)...), "["+last.Name+"]")
						s.outcomes["VIOLATION batching-dependence"]++
						s.r.Violate(fmt.Sprintf("batching-dependence last=%s diff=%s", kindName[last.Kind], cats(dd)),
							fmt.Sprintf("the same event sequence ends in different states when %s is put in the same block or in a new block: %s", last.Name, strings.Join(dd, " ; ")),
							"c11", map[string]interface{}{"own_key": fmt.Sprintf("K%d", s.cfg.OwnKey), "one_block": c.n.names(fx), "two_blocks": two},
							map[string]interface{}{"one_block": l1, "two_blocks": l2}, nil)
					}
				}
			}
		}
		frontier = next
	}
	return len(distinct), len(seen), transitions, s.depth, true
}

func main() {
	r := ev.Start("C11", "model_checking")
	fx := reg.NewFixture()
	if r.Replay != "" {
		replay(r, fx)
		return
	}
	nWorkers := 16
	if v := os.Getenv("C11_WORKERS"); v != "" {
		fmt.Sscan(v, &nWorkers)
	}
	if v := os.Getenv("C11_REOPEN"); v != "" {
		fmt.Sscan(v, &reopenEvery)
	}
	opsPrefix := []int{fx.ByName["opAdd(1,K1)"], fx.ByName["opAdd(2,K2)"], fx.ByName["opAdd(3,K3)"], fx.ByName["opAdd(4,K4)"]}
	opsPrefix5 := append(append([]int{}, opsPrefix...), fx.ByName["opAdd(5,K5)"])
	type cfg struct {
		own    int
		prefix []int
		depth  int
	}
	// measured (transitions executed on the real handler): member/prefix depth 3: 4.0k, 5: 82.7k, 6: 261k;
	// empty depth 3: 8.1k, 4: 49.9k, 5: 211k; not-a-member depth 3: 2.8k, 4: 11.5k, 5: 34.7k
	// (~200 transitions/s/core on a busy box, ~3200/s on 16 quiet cores)
	cfgs := []cfg{{1, opsPrefix, 4}, {1, nil, 3}, {5, opsPrefix5, 3}}
	if r.Thorough() {
		cfgs = []cfg{{1, opsPrefix, 7}, {1, nil, 6}, {5, opsPrefix5, 6}}
	}
	if v := os.Getenv("C11_DEPTH"); v != "" {
		var d int
		fmt.Sscan(v, &d)
		for i := range cfgs {
			cfgs[i].depth = d
		}
	}
	outcomes := map[string]int{}
	exhaustive := true
	var bounds []string
	for _, c := range cfgs {
		s := &search{r: r, fx: fx, cfg: reg.Config{OwnKey: c.own}, prefix: c.prefix, depth: c.depth, outcomes: outcomes}
		views := &sync.Map{}
		for i := 0; i < nWorkers; i++ {
			s.workers = append(s.workers, &worker{fx: fx, cfg: s.cfg, db: reg.NewDB(), views: views})
		}
		st, nodes, tr, done, ok := s.run()
		for _, w := range s.workers {
			w.db.Close()
		}
		r.Add("states", st)
		r.Add("search_nodes", nodes)
		r.Add("transitions", tr)
		r.Add("batching_pairs_compared", s.pairs)
		exhaustive = exhaustive && ok
		bounds = append(bounds, fmt.Sprintf("own=K%d prefix=[%s] depth=%d (completed: %d) alphabet=%d: states=%d nodes(state,open block)=%d transitions=%d complete=%v",
			c.own, evNames(fx, c.prefix), c.depth, done, len(fx.Events), st, nodes, tr, ok))
	}
	r.Set("traces_validated_against_impl", r.Get("transitions"))
	r.Set("bounds", bounds)
	r.Set("alphabet", len(fx.Events))
	r.Set("distinct_outcomes", len(outcomes))
	r.Set("outcome_histogram", outcomes)
	r.Assume("operator RSA keys are generated per run; validator BLS keys, owners and recipients are fixed",
		"beacon metadata of stored shares is set by the harness after every block (the node's metadata updater), so ValidatorExited has an observable effect (exit task)",
		"states are merged by (committed state, state after the open block) = raw registry dump without block number + key-manager content + in-memory views",
		"badger transactions are atomic (trusted base)")
	r.Finish(exhaustive)
}

func replay(r *ev.Run, fx *reg.Fixture) {
	v, err := ev.LoadReplay(r.Replay)
	if err != nil {
		ev.Fatal("%v", err)
	}
	fmt.Printf("replay %s: %s\n", r.Replay, v.What)
	tr, _ := v.Trace.(map[string]interface{})
	own := 1
	fmt.Sscanf(fmt.Sprint(tr["own_key"]), "K%d", &own)
	parse := func(x interface{}) [][]int {
		var out [][]int
		l, _ := x.([]interface{})
		for _, b := range l {
			s := strings.Trim(fmt.Sprint(b), "[]")
			var blk []int
			for _, name := range strings.Split(s, ", ") {
				i, ok := fx.ByName[name]
				if !ok {
					ev.Fatal("unknown event %q", name)
				}
				blk = append(blk, i)
			}
			out = append(out, blk)
		}
		return out
	}
	w := &worker{fx: fx, cfg: reg.Config{OwnKey: own}, db: reg.NewDB(), views: &sync.Map{}}
	runOne := func(label string, blocks [][]int) ([]string, bool) {
		n := w.start(nil)
		m := reg.NewModel(own)
		var res blockResult
		fmt.Printf("%s: %v\n", label, blocks)
		for i, b := range blocks {
			res = w.applyBlock(n, m, b, uint64(i+1))
			fmt.Printf("  after block %d [%s]:\n", i+1, evNames(fx, b))
			for _, l := range w.lines(res) {
				fmt.Println("     ", l)
			}
			for _, f := range res.findings {
				fmt.Printf("    finding: %s\n      %s\n", f.sig, f.what)
			}
		}
		return w.lines(res), len(res.findings) > 0
	}
	bad := false
	if tr["blocks"] != nil {
		_, bad = runOne("blocks", parse(tr["blocks"]))
	} else {
		a, b1 := runOne("one_block", parse(tr["one_block"]))
		b, b2 := runOne("two_blocks", parse(tr["two_blocks"]))
		bad = b1 || b2 || !reg.Equal(a, b)
		if !reg.Equal(a, b) {
			fmt.Println("  the two batchings differ:", reg.Diff(a, b))
		}
	}
	if bad {
		fmt.Printf("VIOLATION property=C11 replay=%s\n", r.Replay)
		os.Exit(1)
	}
	fmt.Println("not reproduced")
	r.Finish(false)
}
