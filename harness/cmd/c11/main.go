// C11 — registry state is a deterministic function of the contract event log.
//
// Explicit-state search (E1) over the real eventhandler.EventHandler + operator/storage +
// registry/storage + ekm on in-memory badger, fed with ABI-encoded logs through the real
// eventparser. A search node is (committed blocks, open block); from every node every event of
// the alphabet is applied twice on fresh real objects: appended to the open block ("same
// block") and as the first event of a new block ("new block") — so every sequence is explored
// under every batching, by state. After every block the real state (getters, raw database,
// in-memory views, a restarted node) is compared with a boring Go reference model of the
// registration rules, and the two batchings are compared with each other.
package main

import (
	"crypto/sha256"
	"fmt"
	"os"
	"runtime/pprof"
	"time"
	"sort"
	"strings"
	"sync"

	ethtypes "github.com/ethereum/go-ethereum/core/types"

	"github.com/bloxapp/ssv/storage/kv"

	"verifharness/lib/ev"
	"verifharness/lib/reg"
)

type node struct {
	blocks  [][]int // committed blocks (event indexes)
	pending []int   // open block
	mS, mR  *reg.Model   // model after the committed blocks / after the open block as well
	sS, sR  reg.Snapshot // complete database content at the same two points
	keyS    string
	keyR    string
}

func (n *node) key() string { return n.keyS + "|" + n.keyR }

func (n *node) names(fx *reg.Fixture) []string {
	var out []string
	for _, b := range n.blocks {
		out = append(out, "["+evNames(fx, b)+"]")
	}
	if len(n.pending) > 0 {
		out = append(out, "["+evNames(fx, n.pending)+"]")
	}
	return out
}

func evNames(fx *reg.Fixture, l []int) string {
	var s []string
	for _, i := range l {
		s = append(s, fx.Events[i].Name)
	}
	return strings.Join(s, ", ")
}

type finding struct {
	sig, what string
	trace     map[string]interface{}
	observed  interface{}
	expected  interface{}
}

var reopenEvery = 200

type worker struct {
	fx   *reg.Fixture
	cfg  reg.Config
	db   *kv.BadgerDB
	cur  reg.Snapshot // current content of db
	uses int
}

// outcome of applying one block on a live node
type blockResult struct {
	key      string
	snap     reg.Snapshot
	findings []finding
	lines    []string // getters view without block number
}

func catOf(line string) string {
	line = strings.TrimPrefix(strings.TrimPrefix(line, "observed: "), "expected: ")
	f := strings.Fields(line)
	if len(f) == 0 {
		return "?"
	}
	return strings.TrimSuffix(f[0], ":")
}

func cats(diff []string) string {
	m := map[string]bool{}
	for _, d := range diff {
		m[catOf(d)] = true
	}
	var l []string
	for k := range m {
		l = append(l, k)
	}
	sort.Strings(l)
	return strings.Join(l, ",")
}

var kindName = map[reg.Kind]string{reg.OpAdd: "OperatorAdded", reg.OpRemove: "OperatorRemoved", reg.VAdd: "ValidatorAdded", reg.VRemove: "ValidatorRemoved",
	reg.VExit: "ValidatorExited", reg.Liquidate: "ClusterLiquidated", reg.Reactivate: "ClusterReactivated", reg.FeeRecipient: "FeeRecipientAddressUpdated"}

// stateKey is the canonical form of a real state: raw registry dump without the block number,
// what the key manager holds, and the in-memory views.
func stateKey(n *reg.Node, dump reg.Snapshot, km reg.KMView) string {
	h := sha256.New()
	for _, kv := range dump {
		if !strings.HasPrefix(kv.K, reg.RegistryPrefix) || strings.HasSuffix(kv.K, "/syncOffset") {
			continue
		}
		fmt.Fprintf(h, "%d:%s=%d:%s;", len(kv.K), kv.K, len(kv.V), kv.V)
	}
	fmt.Fprintf(h, "km=%v;", km.Usable)
	var ks []string
	for k := range km.HighAtt {
		ks = append(ks, "a"+k)
	}
	for k := range km.HighProp {
		ks = append(ks, "p"+k)
	}
	for k, c := range km.Accounts {
		ks = append(ks, fmt.Sprintf("r%s=%d", k, c))
	}
	sort.Strings(ks)
	fmt.Fprintf(h, "sp=%v;mem=%v", ks, n.DescribeMemory())
	return fmt.Sprintf("%x", h.Sum(nil)[:16])
}

// start builds a fresh real node on the given database content (empty snapshot = first start).
func (w *worker) start(s reg.Snapshot) *reg.Node {
	w.uses++
	if w.uses%reopenEvery == 0 { // badger keeps every version of a key in its memtable: start afresh regularly
		old := w.db
		go old.Close()
		w.db, w.cur = reg.NewDB(), nil
	}
	reg.Restore(w.db, w.cur, s)
	w.cur = nil // unknown until the next snapshot
	n, err := reg.NewNode(w.fx, w.cfg, w.db, &reg.Clock{Slot: reg.StartSlot}, nil)
	if err != nil {
		ev.Fatal("node start failed: %v", err)
	}
	return n
}

// applyBlock runs one block of events on the live node, advances the model, and evaluates the
// oracle.
func (w *worker) applyBlock(n *reg.Node, m *reg.Model, evs []int, blk uint64) blockResult {
	fx := w.fx
	var logs []ethtypes.Log
	var wantTasks []string
	for _, i := range evs {
		e := fx.Events[i]
		logs = append(logs, fx.Log(e, m.NextNonce(e.Owner)))
		wantTasks = append(wantTasks, m.Apply(fx, e, blk)...)
	}
	m.EndBlock(blk)
	tasks, err := n.ProcessBlock(reg.Block(blk, logs))
	var res blockResult
	last := fx.Events[evs[len(evs)-1]]
	add := func(class string, diff []string, what string, obs, exp interface{}) {
		res.findings = append(res.findings, finding{
			sig:      fmt.Sprintf("%s last=%s diff=%s", class, kindName[last.Kind], cats(diff)),
			what:     what,
			observed: obs, expected: exp})
	}
	if err != nil {
		add("handler-error", nil, fmt.Sprintf("block %d refused without any fault: %v", blk, err), err.Error(), nil)
	}
	if !reg.Equal(tasks, wantTasks) {
		add("tasks", []string{"tasks"}, fmt.Sprintf("tasks handed to the executor differ from the rules: got %v want %v", tasks, wantTasks), tasks, wantTasks)
	}
	km := n.ObserveKM(false)
	want := m.Describe(true)
	getters := n.DescribeGetters(true, km.Line())
	if d := reg.Diff(getters, want); len(d) > 0 {
		add("getters-vs-rules", d, "state read through the storage getters differs from the registration rules: "+strings.Join(d, " ; "), getters, want)
	}
	dump := reg.TakeSnapshot(w.db)
	rawView := reg.DescribeRaw(fx, dump, w.cfg.OwnKey, n.Net.Domain, km.Line(), true)
	if d := reg.Diff(rawView, want); len(d) > 0 {
		add("database-vs-rules", d, "raw database content differs from the registration rules: "+strings.Join(d, " ; "), rawView, want)
	}
	mem := n.DescribeMemory()
	if d := reg.Diff(mem, reg.MemoryLines(rawView)); len(d) > 0 {
		add("memory-vs-database", d, "in-memory view differs from the database: "+strings.Join(d, " ; "), mem, reg.MemoryLines(rawView))
	}
	// restart: a node rebuilt on the same database must present the same in-memory views and keys
	n2, err := reg.NewNode(fx, w.cfg, w.db, &reg.Clock{Slot: reg.StartSlot}, nil)
	if err != nil {
		add("restart", []string{"restart"}, "restart on the database failed: "+err.Error(), err.Error(), nil)
	} else {
		after := append(n2.DescribeMemory(), n2.ObserveKM(false).Line())
		before := append(mem, km.Line())
		if d := reg.Diff(after, before); len(d) > 0 {
			add("restart", d, "a restarted node presents another state: "+strings.Join(d, " ; "), after, before)
		}
	}
	// environment: beacon metadata arrives after the block
	if len(n.SetMetadata()) > 0 {
		getters = n.DescribeGetters(true, km.Line())
		dump = reg.TakeSnapshot(w.db)
	}
	m.SetMetadata()
	res.key = stateKey(n, dump, km)
	res.lines = getters[:len(getters)-1] // without the block number
	res.snap = dump
	w.cur = dump
	return res
}

type child struct {
	n        *node
	findings []finding
	event    int
}

// expand applies every event to the node, in both batchings, each on a fresh real node.
func (w *worker) expand(p *node, nEvents int) (out []child, transitions int) {
	fx := w.fx
	own := fmt.Sprintf("K%d", w.cfg.OwnKey)
	for e := 0; e < nEvents; e++ {
		// same block: committed | pending+e
		same := append(append([]int{}, p.pending...), e)
		m := p.mS.Clone()
		rs := w.applyBlock(w.start(p.sS), m, same, uint64(len(p.blocks)+1))
		transitions++
		cs := child{n: &node{blocks: p.blocks, pending: same, mS: p.mS, mR: m, sS: p.sS, sR: rs.snap, keyS: p.keyS, keyR: rs.key}, findings: rs.findings, event: e}
		for i := range cs.findings {
			cs.findings[i].trace = map[string]interface{}{"own_key": own, "blocks": cs.n.names(fx)}
		}
		out = append(out, cs)
		if len(p.pending) == 0 {
			continue // an empty open block: the two batchings coincide
		}
		// new block: committed + pending | e
		blocks2 := append(append([][]int{}, p.blocks...), p.pending)
		m2 := p.mR.Clone()
		rnew := w.applyBlock(w.start(p.sR), m2, []int{e}, uint64(len(blocks2)+1))
		transitions++
		cn := child{n: &node{blocks: blocks2, pending: []int{e}, mS: p.mR, mR: m2, sS: p.sR, sR: rnew.snap, keyS: p.keyR, keyR: rnew.key}, findings: rnew.findings, event: e}
		for i := range cn.findings {
			cn.findings[i].trace = map[string]interface{}{"own_key": own, "blocks": cn.n.names(fx)}
		}
		// the two batchings of the same sequence must end in the same state
		if rs.key != rnew.key {
			d := reg.Diff(rs.lines, rnew.lines)
			last := fx.Events[e]
			cn.findings = append(cn.findings, finding{
				sig:      fmt.Sprintf("batching-dependence last=%s diff=%s", kindName[last.Kind], cats(d)),
				what:     fmt.Sprintf("the same event sequence ends in different states when %s is put in the same block or in a new block: %s", last.Name, strings.Join(d, " ; ")),
				trace:    map[string]interface{}{"own_key": own, "one_block": cs.n.names(fx), "two_blocks": cn.n.names(fx)},
				observed: map[string]interface{}{"one_block": rs.lines, "two_blocks": rnew.lines}})
		}
		out = append(out, cn)
	}
	return out, transitions
}

type search struct {
	r        *ev.Run
	fx       *reg.Fixture
	cfg      reg.Config
	prefix   []int
	depth    int
	workers  []*worker
	outcomes map[string]int
}

func (s *search) run() (states, nodes, transitions int, complete bool) {
	fx := s.fx
	nEvents := len(fx.Events)
	// root: the prefix (if any) as one committed block
	w0 := s.workers[0]
	var blocks [][]int
	n0 := w0.start(nil)
	m := reg.NewModel(s.cfg.OwnKey)
	snap := reg.TakeSnapshot(w0.db)
	key := stateKey(n0, snap, n0.ObserveKM(false))
	if len(s.prefix) > 0 {
		blocks = [][]int{s.prefix}
		r0 := w0.applyBlock(n0, m, s.prefix, 1)
		for _, f := range r0.findings {
			s.r.Violate(f.sig, f.what, "c11", map[string]interface{}{"own_key": fmt.Sprintf("K%d", s.cfg.OwnKey), "blocks": []string{"[" + evNames(fx, s.prefix) + "]"}}, f.observed, f.expected)
		}
		key, snap = r0.key, r0.snap
	}
	root := &node{blocks: blocks, mS: m, mR: m, sS: snap, sR: snap, keyS: key, keyR: key}
	seen := map[string]bool{root.key(): true}
	distinct := map[string]bool{key: true}
	frontier := []*node{root}
	complete = true
	for d := 0; d < s.depth && len(frontier) > 0; d++ {
		results := make([][]child, len(frontier))
		trans := make([]int, len(frontier))
		idx := make(chan int, len(frontier))
		for i := range frontier {
			idx <- i
		}
		close(idx)
		var wg sync.WaitGroup
		expired := false
		var mu sync.Mutex
		for _, w := range s.workers {
			wg.Add(1)
			go func(w *worker) {
				defer wg.Done()
				for i := range idx {
					if s.r.Expired() {
						mu.Lock()
						expired = true
						mu.Unlock()
						return
					}
					results[i], trans[i] = w.expand(frontier[i], nEvents)
				}
			}(w)
		}
		wg.Wait()
		var next []*node
		for i := range frontier {
			transitions += trans[i]
			for _, c := range results[i] {
				e := fx.Events[c.event]
				if len(c.findings) > 0 {
					for _, f := range c.findings {
						s.outcomes["VIOLATION "+strings.SplitN(f.sig, " ", 2)[0]]++
						s.r.Violate(f.sig, f.what, "c11", f.trace, f.observed, f.expected)
					}
					continue
				}
				changed := "unchanged"
				if c.n.keyR != frontier[i].keyR {
					changed = "changed"
				}
				s.outcomes[kindName[e.Kind]+" state "+changed]++
				distinct[c.n.keyR] = true
				if k := c.n.key(); !seen[k] {
					seen[k] = true
					next = append(next, c.n)
					if len(seen)%5000 == 0 {
						s.r.Sample(map[string]interface{}{"own_key": fmt.Sprintf("K%d", s.cfg.OwnKey), "blocks": c.n.names(fx), "state": c.n.mR.Describe(true)})
					}
				}
			}
		}
		if expired {
			s.r.CapHit(fmt.Sprintf("deadline at depth %d (own key K%d, prefix %d)", d, s.cfg.OwnKey, len(s.prefix)))
			return len(distinct), len(seen), transitions, false
		}
		frontier = next
	}
	return len(distinct), len(seen), transitions, complete
}

func main() {
	r := ev.Start("C11", "model_checking")
	if pf := os.Getenv("C11_CPUPROFILE"); pf != "" {
		f, _ := os.Create(pf)
		pprof.StartCPUProfile(f)
		go func() {
			time.Sleep(40 * time.Second)
			pprof.StopCPUProfile()
			f.Close()
			h, _ := os.Create(pf + ".heap")
			pprof.Lookup("allocs").WriteTo(h, 0)
			h.Close()
		}()
	}
	fx := reg.NewFixture()
	if r.Replay != "" {
		replay(r, fx)
		return
	}
	nWorkers := 16
	if v := os.Getenv("C11_WORKERS"); v != "" {
		fmt.Sscan(v, &nWorkers)
	}
	if v := os.Getenv("C11_REOPEN"); v != "" {
		fmt.Sscan(v, &reopenEvery)
	}
	depth := 4
	if r.Thorough() {
		depth = 5
	}
	opsPrefix := []int{fx.ByName["opAdd(1,K1)"], fx.ByName["opAdd(2,K2)"], fx.ByName["opAdd(3,K3)"], fx.ByName["opAdd(4,K4)"]}
	opsPrefix5 := append(append([]int{}, opsPrefix...), fx.ByName["opAdd(5,K5)"])
	type cfg struct {
		own    int
		prefix []int
		depth  int
	}
	cfgs := []cfg{{1, nil, depth}, {1, opsPrefix, depth}, {5, opsPrefix5, depth - 1}}
	outcomes := map[string]int{}
	exhaustive := true
	var bounds []string
	for _, c := range cfgs {
		s := &search{r: r, fx: fx, cfg: reg.Config{OwnKey: c.own}, prefix: c.prefix, depth: c.depth, outcomes: outcomes}
		for i := 0; i < nWorkers; i++ {
			s.workers = append(s.workers, &worker{fx: fx, cfg: s.cfg, db: reg.NewDB()})
		}
		st, nodes, tr, ok := s.run()
		for _, w := range s.workers {
			w.db.Close()
		}
		r.Add("states", st)
		r.Add("search_nodes", nodes)
		r.Add("transitions", tr)
		exhaustive = exhaustive && ok
		bounds = append(bounds, fmt.Sprintf("own=K%d prefix=[%s] depth=%d alphabet=%d: states=%d nodes(state,open block)=%d transitions=%d complete=%v",
			c.own, evNames(fx, c.prefix), c.depth, len(fx.Events), st, nodes, tr, ok))
	}
	r.Set("traces_validated_against_impl", r.Get("transitions"))
	r.Set("bounds", bounds)
	r.Set("alphabet", len(fx.Events))
	r.Set("distinct_outcomes", len(outcomes))
	r.Set("outcome_histogram", outcomes)
	r.Assume("operator RSA keys are generated per run; validator BLS keys, owners and recipients are fixed",
		"beacon metadata of stored shares is set by the harness after every block (the node's metadata updater), so ValidatorExited has an observable effect (exit task)",
		"states are merged by (committed state, state after the open block) = raw registry dump without block number + key-manager content + in-memory views",
		"badger transactions are atomic (trusted base)")
	r.Finish(exhaustive)
}

func replay(r *ev.Run, fx *reg.Fixture) {
	v, err := ev.LoadReplay(r.Replay)
	if err != nil {
		ev.Fatal("%v", err)
	}
	fmt.Printf("replay %s: %s\n", r.Replay, v.What)
	tr, _ := v.Trace.(map[string]interface{})
	own := 1
	fmt.Sscanf(fmt.Sprint(tr["own_key"]), "K%d", &own)
	parse := func(x interface{}) [][]int {
		var out [][]int
		l, _ := x.([]interface{})
		for _, b := range l {
			s := strings.Trim(fmt.Sprint(b), "[]")
			var blk []int
			for _, name := range strings.Split(s, ", ") {
				i, ok := fx.ByName[name]
				if !ok {
					ev.Fatal("unknown event %q", name)
				}
				blk = append(blk, i)
			}
			out = append(out, blk)
		}
		return out
	}
	w := &worker{fx: fx, cfg: reg.Config{OwnKey: own}, db: reg.NewDB()}
	runOne := func(label string, blocks [][]int) ([]string, bool) {
		n := w.start(nil)
		m := reg.NewModel(own)
		var res blockResult
		fmt.Printf("%s: %v\n", label, blocks)
		for i, b := range blocks {
			res = w.applyBlock(n, m, b, uint64(i+1))
			fmt.Printf("  after block %d [%s]:\n", i+1, evNames(fx, b))
			for _, l := range res.lines {
				fmt.Println("     ", l)
			}
			for _, f := range res.findings {
				fmt.Printf("    finding: %s\n      %s\n", f.sig, f.what)
			}
		}
		return res.lines, len(res.findings) > 0
	}
	bad := false
	if tr["blocks"] != nil {
		_, bad = runOne("blocks", parse(tr["blocks"]))
	} else {
		a, b1 := runOne("one_block", parse(tr["one_block"]))
		b, b2 := runOne("two_blocks", parse(tr["two_blocks"]))
		bad = b1 || b2 || !reg.Equal(a, b)
		if !reg.Equal(a, b) {
			fmt.Println("  the two batchings differ:", reg.Diff(a, b))
		}
	}
	if bad {
		fmt.Printf("VIOLATION property=C11 replay=%s\n", r.Replay)
		os.Exit(1)
	}
	fmt.Println("not reproduced")
	r.Finish(false)
}
