// C17 — round timeouts fire once per armed round, never early, never for stale rounds.
// Timer half: the real RoundTimer, instrumented for the cooperative scheduler (sync, atomic, time,
// go, select rewritten from /repo's working tree), on a virtual clock; every schedule with <= B
// preemptions of every harness script. Controller half: stale / other-height / decided timeout
// events on every state of a qnet search change nothing.
package main

import (
	"bytes"
	"context"
	"encoding/json"
	"fmt"
	"sort"
	"strings"
	"time"

	"github.com/attestantio/go-eth2-client/spec/phase0"
	specqbft "github.com/bloxapp/ssv-spec/qbft"
	spectypes "github.com/bloxapp/ssv-spec/types"
	"github.com/herumi/bls-eth-go-binary/bls"

	"github.com/bloxapp/ssv/protocol/v2/qbft/roundtimer"
	ssvtypes "github.com/bloxapp/ssv/protocol/v2/types"
	"github.com/bloxapp/ssv/zzverif/vsched"
	"github.com/bloxapp/ssv/zzverif/vtime"

	"verifharness/lib/dfs"
	"verifharness/lib/ev"
	"verifharness/lib/qnet"
)

var t0 = time.Unix(1_700_000_000, 0)

const height = specqbft.Height(1000)

type fakeBeacon struct{}

func (fakeBeacon) GetSlotStartTime(slot phase0.Slot) time.Time {
	return t0.Add(time.Duration(int64(slot)-int64(height)) * 12 * time.Second)
}
func (fakeBeacon) SlotDurationSec() time.Duration { return 12 * time.Second }

// deadline of an arming, recomputed independently of RoundTimeout: slot start + role base +
// cumulative allowance for slot-bound roles; armed-at + per-round allowance for the proposer.
func deadline(role spectypes.BeaconRole, r specqbft.Round, armedAt time.Time) time.Time {
	var base time.Duration
	switch role {
	case spectypes.BNRoleAttester, spectypes.BNRoleSyncCommittee:
		base = 4 * time.Second
	case spectypes.BNRoleAggregator, spectypes.BNRoleSyncCommitteeContribution:
		base = 8 * time.Second
	default:
		if r <= 8 {
			return armedAt.Add(2 * time.Second)
		}
		return armedAt.Add(2 * time.Minute)
	}
	add := time.Duration(r) * 2 * time.Second
	if r > 8 {
		add = 8*2*time.Second + time.Duration(r-8)*2*time.Minute
	}
	return t0.Add(base + add)
}

// ---- scripts ----

type op struct {
	kind string // arm, before, at, after, latest, cancel
	skip int    // arm: round increment
}

func (o op) String() string {
	if o.kind == "arm" {
		return fmt.Sprintf("arm(+%d)", o.skip)
	}
	return o.kind
}

type arming struct {
	round    specqbft.Round
	armedAt  time.Time // clock when TimeoutForRound returned
	deadline time.Time
	fired    int
}

type callback struct {
	round specqbft.Round
	at    time.Time
}

type run struct {
	role      spectypes.BeaconRole
	first     specqbft.Round
	script    []op
	armings   []*arming
	callbacks []callback
	cancelled bool
	cancelAt  time.Time
	applied   []string
}

func (r *run) pendingEarliest() (time.Time, bool) {
	var best time.Time
	ok := false
	for _, a := range r.armings {
		if a.fired == 0 && a.deadline.After(vtime.Now()) && (!ok || a.deadline.Before(best)) {
			best, ok = a.deadline, true
		}
	}
	return best, ok
}

// body is the harness thread (managed goroutine 0).
func (r *run) body() {
	vtime.ResetClock()
	vtime.Set(t0.Add(100 * time.Millisecond))
	// (no cancel at the end of the body: pending expiries must be able to run; goroutines that
	// wait for a deadline the clock never reaches are unwound by the scheduler)
	ctx, cancel := context.WithCancel(context.Background())
	tm := roundtimer.New(ctx, fakeBeacon{}, r.role, func(round specqbft.Round) {
		r.callbacks = append(r.callbacks, callback{round, vtime.Now()})
	})
	next := r.first
	for _, o := range r.script {
		switch o.kind {
		case "arm":
			round := next + specqbft.Round(o.skip-1)
			next = round + 1
			before := vtime.Now()
			tm.TimeoutForRound(height, round)
			r.armings = append(r.armings, &arming{round: round, armedAt: vtime.Now(), deadline: deadline(r.role, round, before)})
			r.applied = append(r.applied, fmt.Sprintf("arm(round %d)", round))
		case "before", "at", "after":
			d, ok := r.pendingEarliest()
			if !ok {
				continue
			}
			target := d
			if o.kind == "before" {
				target = d.Add(-time.Millisecond)
			} else if o.kind == "after" {
				target = d.Add(time.Millisecond)
			}
			if target.After(vtime.Now()) {
				vtime.Set(target)
				r.applied = append(r.applied, fmt.Sprintf("clock:=%s-deadline(%v)", o.kind, d.Sub(t0)))
			}
		case "latest":
			if len(r.armings) > 0 {
				d := r.armings[len(r.armings)-1].deadline
				if d.After(vtime.Now()) {
					vtime.Set(d)
					r.applied = append(r.applied, fmt.Sprintf("clock:=latest-deadline(%v)", d.Sub(t0)))
				}
			}
		case "cancel":
			if !r.cancelled {
				r.cancelled, r.cancelAt = true, vtime.Now()
				cancel()
				r.applied = append(r.applied, "cancel")
			}
		}
		vsched.Point(nil, "harness-step")
	}
}

// oracle evaluates one finished execution; returns "" or (signature, description).
func (r *run) oracle(final time.Time) (string, string) {
	for _, cb := range r.callbacks {
		var match *arming
		for _, a := range r.armings {
			if a.round == cb.round && a.fired == 0 {
				match = a
				break
			}
		}
		if match == nil {
			n := 0
			for _, a := range r.armings {
				if a.round == cb.round {
					n++
				}
			}
			if n == 0 {
				return "callback-for-unarmed-round", fmt.Sprintf("callback for round %d which was never armed", cb.round)
			}
			return "callback-twice-for-one-arming", fmt.Sprintf("round %d: more callbacks than armings", cb.round)
		}
		match.fired++
		if cb.at.Before(match.deadline) {
			return "callback-before-deadline", fmt.Sprintf("callback for round %d at +%v, deadline +%v", cb.round, cb.at.Sub(t0), match.deadline.Sub(t0))
		}
		// superseded: a later arming completed before the clock reached this arming's deadline
		for _, a := range r.armings {
			if a.round > cb.round && a.armedAt.Before(match.deadline) {
				return "callback-for-superseded-round", fmt.Sprintf("callback for round %d although round %d was armed at +%v, before round %d's deadline +%v", cb.round, a.round, a.armedAt.Sub(t0), cb.round, match.deadline.Sub(t0))
			}
		}
	}
	if len(r.armings) > 0 {
		last := r.armings[len(r.armings)-1]
		due := !final.Before(last.deadline)
		if due && !r.cancelled && last.fired != 1 {
			return "latest-arming-did-not-fire", fmt.Sprintf("round %d (latest) deadline +%v passed (clock +%v), context alive, fired %d times", last.round, last.deadline.Sub(t0), final.Sub(t0), last.fired)
		}
		if !due && last.fired != 0 {
			return "callback-before-deadline", fmt.Sprintf("round %d fired although its deadline was never reached", last.round)
		}
		// after a cancellation of the parent context the property promises nothing beyond
		// "not early, at most once" (checked above): a pending expiry may or may not be delivered
	}
	return "", ""
}

func scripts(maxLen int, thorough bool) [][]op {
	alpha := []op{{"arm", 1}, {"before", 0}, {"at", 0}, {"after", 0}, {"latest", 0}, {"cancel", 0}}
	if thorough {
		alpha = append(alpha, op{"arm", 2})
	}
	var out [][]op
	var rec func(cur []op, arms int, cancelled bool)
	rec = func(cur []op, arms int, cancelled bool) {
		if len(cur) > 0 {
			out = append(out, append([]op(nil), cur...))
		}
		if len(cur) == maxLen {
			return
		}
		for _, o := range alpha {
			if len(cur) == 0 && o.kind != "arm" {
				continue // nothing to observe before the first arming
			}
			if o.kind == "cancel" && cancelled {
				continue
			}
			if o.kind != "arm" && len(cur) > 0 && cur[len(cur)-1].kind == o.kind && o.kind != "after" {
				continue // repeating the same clock target is a no-op
			}
			a := arms
			if o.kind == "arm" {
				a++
			}
			rec(append(cur, o), a, cancelled || o.kind == "cancel")
		}
	}
	rec(nil, 0, false)
	// only maximal-length scripts and their prefixes are the same executions: keep all (prefix
	// scripts end earlier and exercise the end-of-run clause at other points)
	return out
}

type timerOut struct {
	Scripts, Executions, MaxPoints int
	Outcomes                       map[string]int
	Capped                         bool
}

func timerHalf(r *ev.Run, bound, maxLen int) timerOut {
	out := timerOut{Outcomes: map[string]int{}}
	type cfg struct {
		role   spectypes.BeaconRole
		first  specqbft.Round
		maxLen int // 0 = every script; otherwise only scripts up to this length
	}
	cfgs := []cfg{{spectypes.BNRoleAttester, 1, 0}, {spectypes.BNRoleProposer, 1, 0}, {spectypes.BNRoleAttester, 8, 0}}
	// every other role (each has its own base deadline) and a slow starting round, with the short
	// scripts: arm, clock just before / at / after the deadline
	for _, role := range []spectypes.BeaconRole{spectypes.BNRoleAggregator, spectypes.BNRoleSyncCommittee, spectypes.BNRoleSyncCommitteeContribution, spectypes.BNRoleValidatorRegistration, spectypes.BNRoleVoluntaryExit} {
		cfgs = append(cfgs, cfg{role, 1, 3}, cfg{role, 9, 3})
	}
	if r.Thorough() {
		cfgs = append(cfgs, cfg{spectypes.BNRoleAggregator, 1, 0}, cfg{spectypes.BNRoleProposer, 8, 0}, cfg{spectypes.BNRoleSyncCommitteeContribution, 1, 0})
	}
	scs := scripts(maxLen, r.Thorough())
	idx := 0
	for _, c := range cfgs {
		for _, sc := range scs {
			if c.maxLen > 0 && len(sc) > c.maxLen {
				continue
			}
			idx++
			if !r.Mine(idx) {
				continue
			}
			var cur *run
			e := &dfs.Explorer{Bound: bound, Stop: r.Expired,
				Body: func() {
					cur = &run{role: c.role, first: c.first, script: sc}
					cur.body()
				},
				Check: func(x *vsched.Execution, choices []int) {
					sig, what := cur.oracle(vtime.Now())
					key := fmt.Sprintf("callbacks=%d/armings=%d", len(cur.callbacks), len(cur.armings))
					if cur.cancelled {
						key += "/cancelled"
					}
					out.Outcomes[key]++
					if sig != "" {
						r.Violate("timer "+sig, what, "c17-timer", map[string]interface{}{"role": int(c.role), "first_round": int(c.first), "script": fmt.Sprint(sc), "applied": cur.applied, "choices": choices}, fmt.Sprint(cur.callbacks), nil)
					}
				}}
			e.Explore()
			out.Scripts++
			out.Executions += e.Executions
			if e.MaxPoints > out.MaxPoints {
				out.MaxPoints = e.MaxPoints
			}
			if e.EngineErr != "" {
				ev.Fatal("scheduler: %s (script %v)", e.EngineErr, sc)
			}
			if e.Capped {
				out.Capped = true
				return out
			}
		}
	}
	return out
}

// ---- controller half ----

type ctrlOut struct {
	States, Transitions, Checks int
	Classes                     map[string]int
	Aborted                     bool
}

func timeoutEvent(h specqbft.Height, r specqbft.Round) ssvtypes.EventMsg {
	d, _ := json.Marshal(&ssvtypes.TimeoutData{Height: h, Round: r})
	return ssvtypes.EventMsg{Type: ssvtypes.Timeout, Data: d}
}

func controllerHalf(r *ev.Run, cfgIdx int, c *qnet.Cfg) ctrlOut {
	out := ctrlOut{Classes: map[string]int{}}
	w, init := qnet.NewWorld(c, qnet.NewPool())
	s := &qnet.Search{K: 1, Stop: r.Expired,
		OnState: func(w *qnet.World, _ int) {
			for _, o := range w.Ops {
				inst := o.Inst(c.Height)
				cur := inst.State.Round
				for _, h := range []specqbft.Height{c.Height - 1, c.Height, c.Height + 1} {
					for _, rd := range []specqbft.Round{cur - 1, cur, cur + 1} {
						if rd == 0 {
							continue
						}
						class := ""
						switch {
						case h != c.Height:
							class = "other-height"
						case inst.State.Decided:
							class = "decided-instance"
						case rd < cur:
							class = "earlier-round"
						default:
							continue // a live timeout: C07 checks what it must do
						}
						w2 := w.Clone()
						o2 := w2.Op(o.ID)
						var before, after bytes.Buffer
						w2.HashState(&before, o2.Inst(c.Height).State, nil, true)
						pend := len(w2.Pending)
						logLen := len(w2.LogIDs)
						_ = o2.Ctrl.OnTimeout(qnet.Log, timeoutEvent(h, rd))
						w2.Collect(o2)
						w2.HashState(&after, o2.Inst(c.Height).State, nil, true)
						out.Checks++
						out.Classes[class]++
						if !bytes.Equal(before.Bytes(), after.Bytes()) || len(w2.Pending) != pend || len(w2.LogIDs) != logLen || o2.Ctrl.Height != o.Ctrl.Height {
							r.Violate("controller stale-timeout-changes-state "+class, fmt.Sprintf("a timeout event (height %d, round %d) of class %q changed operator %d (round %d, decided=%v) or made it broadcast", h, rd, class, o.ID, cur, inst.State.Decided),
								"c17-controller", qnet.Artefact(w), nil, "no change")
						}
					}
				}
			}
		}}
	s.Run(w, init)
	out.States, out.Transitions, out.Aborted = s.States, s.Transitions, s.Aborted
	return out
}

type jobOut struct {
	Timer *timerOut
	Ctrl  *ctrlOut
}

func main() {
	r := ev.Start("C17", "exploration")
	bls.Init(bls.BLS12_381)
	if r.Replay != "" {
		replay(r)
		return
	}
	bound, maxLen := 2, 5
	if r.Thorough() {
		bound, maxLen = 3, 6
	}
	var ccfgs []*qnet.Cfg
	for i, c := range qnet.Configs(4, 3, []specqbft.Height{2}) {
		if c.Policy == nil || (r.Thorough() && i%4 == 0) {
			ccfgs = append(ccfgs, c)
		}
	}
	if _, _, ok := r.IsWorker(); ok {
		t := timerHalf(r, bound, maxLen)
		r.Emit(jobOut{Timer: &t})
		for i, c := range ccfgs {
			if r.Mine(i) && !r.Expired() {
				o := controllerHalf(r, i, c)
				r.Emit(jobOut{Ctrl: &o})
			}
		}
		r.WorkerDone()
	}
	outcomes := map[string]int{}
	for _, k := range []string{"scripts", "schedules", "controller_states", "controller_checks"} {
		r.Cov[k] = 0
	}
	capped := false
	maxPoints := 0
	r.Spawn(16, nil, func(raw []byte) {
		var o jobOut
		if err := json.Unmarshal(raw, &o); err != nil {
			ev.Fatal("%v", err)
		}
		if o.Timer != nil {
			r.Add("scripts", o.Timer.Scripts)
			r.Add("schedules", o.Timer.Executions)
			for k, v := range o.Timer.Outcomes {
				outcomes["timer "+k] += v
			}
			capped = capped || o.Timer.Capped
			if o.Timer.MaxPoints > maxPoints {
				maxPoints = o.Timer.MaxPoints
			}
		}
		if o.Ctrl != nil {
			r.Add("controller_states", o.Ctrl.States)
			r.Add("controller_checks", o.Ctrl.Checks)
			for k, v := range o.Ctrl.Classes {
				outcomes["controller "+k+": unchanged"] += v
			}
			capped = capped || o.Ctrl.Aborted
		}
	})
	glueExhaustive := true
	glue(r, &glueExhaustive)
	capped = capped || !glueExhaustive
	if capped {
		r.CapHit("deadline before all scripts / controller configurations were explored")
	}
	r.Set("evaluations", r.Get("schedules")+r.Get("controller_checks")+r.Get("glue_callbacks"))
	keys := make([]string, 0, len(outcomes))
	for k := range outcomes {
		keys = append(keys, k)
	}
	sort.Strings(keys)
	r.Set("distinct_nontrivial", len(outcomes))
	r.Set("outcome_histogram", outcomes)
	r.Set("rule", fmt.Sprintf("timer: every script over {arm next round, clock to just-before/at/after the earliest pending deadline, clock to the latest deadline, cancel} up to length %d for roles x starting rounds, every schedule with <= %d preemptions (max %d choice points per execution); controller: every (height, round) in {h-1,h,h+1}x{r-1,r,r+1} of class other-height / decided / earlier-round on every state of a k<=1 qnet search; distinct_nontrivial = distinct observed outcome classes", maxLen, bound, maxPoints))
	r.Set("preemption_bound", bound)
	r.Sample(map[string]interface{}{"script": "arm(round 1), clock:=before-deadline, arm(round 2), clock:=after-deadline", "explored": "all interleavings of the harness thread with the waitForRound goroutines, <= bound preemptions"})
	r.Assume("the RoundTimer source is rewritten from /repo at check time (sync->vsync, sync/atomic->vatomic, time->vtime, go -> vsched.Go, select -> vsched.Select); memory is sequentially consistent at those points; plain data races are left to a -race pass",
		"an expiry already in flight when the next arming arrives may or may not fire (both accepted); expiry racing with cancellation: both accepted",
		"virtual time: deadlines are recomputed independently from the slot start, the role base and the per-round allowances")
	r.Finish(!capped)
}

func replay(r *ev.Run) {
	v, err := ev.LoadReplay(r.Replay)
	if err != nil {
		ev.Fatal("%v", err)
	}
	t := v.Trace.(map[string]interface{})
	if v.Harness != "c17-timer" {
		ev.Fatal("controller artefacts: re-run the check (the trace lists the qnet events)")
	}
	var sc []op
	for _, f := range strings.Fields(strings.Trim(t["script"].(string), "[]")) {
		switch {
		case strings.HasPrefix(f, "arm(+"):
			var n int
			fmt.Sscanf(f, "arm(+%d)", &n)
			sc = append(sc, op{"arm", n})
		default:
			sc = append(sc, op{f, 0})
		}
	}
	var choices []int
	for _, c := range t["choices"].([]interface{}) {
		choices = append(choices, int(c.(float64)))
	}
	var cur *run
	e := &dfs.Explorer{Body: func() {
		cur = &run{role: spectypes.BeaconRole(t["role"].(float64)), first: specqbft.Round(t["first_round"].(float64)), script: sc}
		cur.body()
	}}
	x := e.Replay(choices)
	fmt.Println("applied:", cur.applied, "callbacks:", cur.callbacks, "engine:", x.Err)
	sig, what := cur.oracle(vtime.Now())
	if sig != "" {
		fmt.Printf("VIOLATION property=C17 replay=%s\n  %s: %s\n", r.Replay, sig, what)
	} else {
		fmt.Println("not reproduced")
	}
	r.Finish(false)
}
