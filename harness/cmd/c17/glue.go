package main

// Third half of C17: the glue between the round timer's callback and the controller -
// validator.onTimeout / createTimerMessage (protocol/v2/ssv/validator/timer.go). A real Validator
// with a real attester runner and controller (lib/runh) starts a duty; the callback the runner
// registers on the round timer (BaseRunner.TimeoutF) is invoked for every sequence of rounds
// (<= the instance's round, i.e. on time or late/duplicate) and heights (the duty's, an older one)
// up to a depth, each event popped from the real queue and processed. Oracle per callback:
//   - a callback for the instance's round moves it to the next round and announces it;
//   - a callback for an earlier round, or for another height, changes nothing and sends nothing;
//   - exactly one event is queued per callback while the duty runs.

import (
	"fmt"

	"github.com/attestantio/go-eth2-client/spec/phase0"
	specqbft "github.com/bloxapp/ssv-spec/qbft"
	spectypes "github.com/bloxapp/ssv-spec/types"

	ssvtypes "github.com/bloxapp/ssv/protocol/v2/types"

	"verifharness/lib/ev"
	"verifharness/lib/runh"
)

type cbStep struct {
	round   int
	oldDuty bool // the callback of an arming made for an older height
}

func (c cbStep) String() string {
	if c.oldDuty {
		return fmt.Sprintf("callback(height-1, round %d)", c.round)
	}
	return fmt.Sprintf("callback(round %d)", c.round)
}

func glue(r *ev.Run, exhaustive *bool) {
	ssvtypes.SetDefaultDomain(runh.Domain)
	role := spectypes.BNRoleAttester
	const slot = phase0.Slot(12)
	depth := 4
	if r.Thorough() {
		depth = 6
	}
	sequences, callbacks := 0, 0
	hist := map[string]int{}
	var explore func(path []cbStep)
	explore = func(path []cbStep) {
		if r.Expired() {
			*exhaustive = false
			return
		}
		// replay the path on fresh real objects
		w := runh.BuildWorld(runh.Options{DB: runh.NewMemDB(), Roles: []spectypes.BeaconRole{role}})
		defer w.Discard()
		w.V.VerifMarkStarted()
		if err := w.V.StartDuty(w.Log, runh.Duty(role, slot)); err != nil {
			ev.Fatal("glue: StartDuty: %v", err)
		}
		w.V.VerifDrain(w.Log, role)
		br := w.Runners[role].GetBaseRunner()
		inst := br.State.RunningInstance
		if inst == nil {
			ev.Fatal("glue: no running instance after StartDuty")
		}
		id := runh.Identifier(role)
		height := inst.State.Height
		sequences++
		for i, st := range path {
			h := height
			if st.oldDuty {
				h = height - 1
			}
			before := inst.State.Round
			sent := len(w.Net.Broadcasts)
			br.TimeoutF(w.Log, id, h)(specqbft.Round(st.round))
			n, errs := w.V.VerifDrain(w.Log, role)
			callbacks++
			after := inst.State.Round
			newMsgs := len(w.Net.Broadcasts) - sent
			trace := func() map[string]interface{} {
				var names []string
				for _, x := range path[:i+1] {
					names = append(names, x.String())
				}
				return map[string]interface{}{"role": role.String(), "slot": uint64(slot), "callbacks": names}
			}
			if n != 1 {
				r.Violate("glue timeout-event-count", fmt.Sprintf("%s while the duty runs queued %d events, expected exactly one", st, n), "c17-glue", trace(), n, 1)
				return
			}
			switch {
			case st.oldDuty || specqbft.Round(st.round) < before:
				cls := "earlier-round"
				if st.oldDuty {
					cls = "other-height"
				}
				hist["stale callback ("+cls+"): no effect"]++
				if after != before || newMsgs != 0 {
					r.Violate("glue stale-callback-changes-state "+cls, fmt.Sprintf("%s reached the instance in round %d (errors: %v): round is now %d, %d message(s) were broadcast", st, before, errs, after, newMsgs),
						"c17-glue", trace(), fmt.Sprintf("round %d, %d broadcasts", after, newMsgs), "no change")
					return
				}
			default:
				hist["callback for the current round: next round announced"]++
				if after != before+1 || newMsgs != 1 {
					r.Violate("glue timeout-does-not-advance", fmt.Sprintf("%s reached the instance in round %d (errors: %v): round is now %d, %d message(s) were broadcast", st, before, errs, after, newMsgs),
						"c17-glue", trace(), fmt.Sprintf("round %d, %d broadcasts", after, newMsgs), fmt.Sprintf("round %d, one round-change", before+1))
					return
				}
			}
		}
		if len(path) == depth {
			return
		}
		cur := int(inst.State.Round)
		for c := 1; c <= cur; c++ {
			explore(append(append([]cbStep{}, path...), cbStep{round: c}))
		}
		explore(append(append([]cbStep{}, path...), cbStep{round: cur, oldDuty: true}))
	}
	explore(nil)
	r.Set("glue_sequences", sequences)
	r.Set("glue_callbacks", callbacks)
	r.Set("glue_depth", depth)
	r.Set("glue_outcomes", hist)
	r.Assume("glue half: real validator.Validator (marked started, queue drained by the harness in priority order), real attester runner, controller and instance; every sequence of timer callbacks for rounds <= the instance's round and for the duty's / an older height up to the stated depth")
}
