// C18 — publisher, subscriber and validator agree on topic and envelope for every key.
//
// Engine E4 (bounded-exhaustive enumeration). For every key of a finite alphabet the three
// independently written call sites are executed on real code and compared:
//   - publisher : a real p2pNetwork (package constructor + overlay accessor that plugs a recording
//     topics.Controller in) runs Broadcast(msg) — the recorded (topic, bytes) is what would
//     go on the wire;
//   - subscriber: the same network runs Subscribe(pk) — the recorded topic is what the node joins;
//   - validator : the real messageValidator runs ValidatePubsubMessage on exactly the recorded
//     bytes, once on the full name of the published topic (must get past the topic check)
//     and once on the neighbouring subnet's topic (must fail with "topic not found").
//
// Plus the codec laws: Decode(Encode(m,id,sig)) = (m,id,sig); GetTopicBaseName(GetTopicFullName(x))
// = x; Subnets FromString(String(v)) = v; every topic lies in the advertised range (commons.Topics
// = what SubscribeAll joins).
package main

import (
	"bytes"
	"context"
	"encoding/hex"
	"fmt"
	"io"
	"math"
	"os"
	"sort"
	"strconv"
	"strings"
	"sync"
	"time"

	specqbft "github.com/bloxapp/ssv-spec/qbft"
	spectypes "github.com/bloxapp/ssv-spec/types"
	pubsub "github.com/libp2p/go-libp2p-pubsub"
	pspb "github.com/libp2p/go-libp2p-pubsub/pb"
	"github.com/libp2p/go-libp2p/core/peer"
	"go.uber.org/zap"

	"github.com/bloxapp/ssv/network"
	"github.com/bloxapp/ssv/network/commons"
	p2pv1 "github.com/bloxapp/ssv/network/p2p"
	"github.com/bloxapp/ssv/network/records"
	"github.com/bloxapp/ssv/networkconfig"
	operatordatastore "github.com/bloxapp/ssv/operator/datastore"
	registrystorage "github.com/bloxapp/ssv/registry/storage"

	"verifharness/lib/enum"
	"verifharness/lib/ev"
	"verifharness/lib/valenv"
)

// recorder is the topics.Controller at the seam: it records what the network layer asks for.
type recorder struct {
	subscribed []string
	published  []pub
	failOnce   map[string]bool // the next Subscribe of this topic fails (a transient join failure)
	live       map[string]bool // topics with a subscription that succeeded and was not removed
}
type pub struct {
	topic string
	data  []byte
}

func (r *recorder) Subscribe(_ *zap.Logger, name string) error {
	if r.failOnce[name] {
		delete(r.failOnce, name)
		return fmt.Errorf("c18: could not join topic %s", name)
	}
	r.subscribed = append(r.subscribed, name)
	if r.live == nil {
		r.live = map[string]bool{}
	}
	r.live[name] = true
	return nil
}
func (r *recorder) Unsubscribe(_ *zap.Logger, name string, _ bool) error {
	delete(r.live, name)
	return nil
}
func (r *recorder) Peers(string) ([]peer.ID, error) { return nil, nil }
func (r *recorder) Topics() []string                { return nil }
func (r *recorder) Broadcast(name string, data []byte, _ time.Duration) error {
	r.published = append(r.published, pub{name, append([]byte{}, data...)})
	return nil
}
func (r *recorder) Close() error { return nil }

var _ io.Closer = (*recorder)(nil)

type node struct {
	rec *recorder
	net network.P2PNetwork
}

func newNode(env *valenv.Env, cfg networkconfig.NetworkConfig, opID uint64) *node {
	rec := &recorder{}
	var signer = env.OpKeys[1]
	if opID >= 1 && opID <= 4 {
		signer = env.OpKeys[opID]
	}
	ods := operatordatastore.New(&registrystorage.OperatorData{ID: opID})
	return &node{rec: rec, net: p2pv1.VerifNewNetwork(rec, cfg, signer, ods)}
}

type result struct {
	outcomes   map[string]int
	violations []viol
	evals      int
	keys       int
	subnets    map[int]int
	samples    []interface{}
}

type viol struct {
	sig, what string
	trace     map[string]interface{}
	observed  interface{}
	expected  interface{}
}

func (r *result) bad(sig, what string, trace map[string]interface{}, obs, exp interface{}) {
	for _, v := range r.violations {
		if v.sig == sig {
			return
		}
	}
	r.violations = append(r.violations, viol{sig, what, trace, obs, exp})
}

var advertised = func() map[string]bool {
	m := map[string]bool{}
	for _, t := range commons.Topics() {
		m[t] = true
	}
	return m
}()

// honest proposal for (pk, attester) at the frozen slot; accepted for the known validator
func honestMsg(env *valenv.Env, pk []byte) *spectypes.SSVMessage {
	var pk48 [48]byte
	copy(pk48[:], pk)
	id := spectypes.NewMsgID(env.NetPre.Domain, pk48[:], spectypes.BNRoleAttester)
	full := []byte("verif-c18")
	root, _ := specqbft.HashDataRoot(full)
	sm := &specqbft.SignedMessage{Signature: bytes.Repeat([]byte{1}, 96), Signers: []spectypes.OperatorID{1}, FullData: full,
		Message: specqbft.Message{MsgType: specqbft.ProposalMsgType, Height: specqbft.Height(env.Cur), Round: 1, Identifier: id[:], Root: root}}
	data, err := sm.Encode()
	if err != nil {
		ev.Fatal("encode: %v", err)
	}
	return &spectypes.SSVMessage{MsgType: spectypes.SSVConsensusMsgType, MsgID: id, Data: data}
}

var peerA = peer.ID("verif-peer")

// checkKey runs the three call sites for one key. post selects the signed-envelope epoch.
func checkKey(env *valenv.Env, nd *node, post bool, pk []byte, label string, res *result) {
	res.keys++
	trace := map[string]interface{}{"key": hex.EncodeToString(pk), "how": label, "post_envelope_epoch": post}
	pkHex := hex.EncodeToString(pk)
	want := commons.ValidatorTopicID(pk)
	subnet := commons.ValidatorSubnet(pkHex)
	res.subnets[subnet]++
	res.evals++
	// range
	if len(pk) >= 5 {
		if subnet < 0 || subnet >= commons.Subnets() {
			res.bad("subnet-out-of-range", fmt.Sprintf("ValidatorSubnet = %d for %s", subnet, label), trace, subnet, "0..127")
		}
		for _, t := range want {
			if !advertised[commons.GetTopicFullName(t)] {
				res.bad("topic-not-advertised", fmt.Sprintf("topic %q of %s is not one of commons.Topics()", t, label), trace, t, "one of the 128 advertised topics")
			}
			if n, err := strconv.Atoi(t); err != nil || n != subnet {
				res.bad("topic-name-not-subnet", fmt.Sprintf("topic %q is not the decimal subnet %d", t, subnet), trace, t, subnet)
			}
		}
	} else if len(want) != 1 || want[0] != commons.UnknownSubnet {
		res.bad("short-key-topic", fmt.Sprintf("key of %d bytes maps to %v", len(pk), want), trace, want, commons.UnknownSubnet)
	}
	// subscriber
	nd.rec.subscribed = nd.rec.subscribed[:0]
	if err := nd.net.Subscribe(pk); err != nil {
		res.bad("subscribe-error", fmt.Sprintf("Subscribe failed: %v", err), trace, err.Error(), nil)
	}
	sub := append([]string{}, nd.rec.subscribed...)
	res.evals++
	if !equalStrings(sub, want) {
		res.bad("subscribed-topic-differs", fmt.Sprintf("Subscribe joined %v, commons.ValidatorTopicID gives %v (%s)", sub, want, label), trace, sub, want)
	}
	// (no Unsubscribe here: keys are distinct, and nothing in the node ever calls
	// p2pNetwork.Unsubscribe — see the final report for what happens if one does)
	res.outcomes["subscribe: "+strings.Join(sub, ",")+" == mapping"]++
	if len(pk) != 48 {
		res.outcomes[fmt.Sprintf("malformed key len<5=%v: subscribe agrees with mapping", len(pk) < 5)]++
		return // a message id always carries 48 key bytes: no publisher / validator side
	}
	// publisher
	msg := honestMsg(env, pk)
	nd.rec.published = nd.rec.published[:0]
	if err := nd.net.Broadcast(msg); err != nil {
		res.bad("broadcast-error", fmt.Sprintf("Broadcast failed: %v", err), trace, err.Error(), nil)
		return
	}
	res.evals++
	var pubTopics []string
	for _, p := range nd.rec.published {
		pubTopics = append(pubTopics, p.topic)
	}
	if !equalStrings(pubTopics, sub) {
		res.bad("published-topic-differs", fmt.Sprintf("Broadcast published on %v, Subscribe joined %v (%s)", pubTopics, sub, label), trace, pubTopics, sub)
	}
	if len(nd.rec.published) == 0 {
		return
	}
	wire := nd.rec.published[0]
	// envelope on the wire
	encoded, _ := commons.EncodeNetworkMsg(msg)
	if post {
		m, id, sig, err := commons.DecodeSignedSSVMessage(wire.data)
		if err != nil || !bytes.Equal(m, encoded) || id != 1 || !bytes.Equal(sig, env.Sign(1, encoded)) {
			res.bad("wire-envelope-differs", "the bytes Broadcast publishes do not decode to (message, own operator id, signature)", trace, fmt.Sprintf("err=%v id=%d", err, id), "message, 1, RSA signature")
		}
	} else if !bytes.Equal(wire.data, encoded) {
		res.bad("wire-message-differs", "before the envelope epoch Broadcast must publish the plain SSVMessage encoding", trace, len(wire.data), len(encoded))
	}
	// validator, on exactly the published bytes
	// topics handed to the validator: the published one, its neighbour, and - for the first key of
	// every subnet each worker meets - every other advertised topic (a validator that accepts a key on
	// any topic but its own, e.g. one whose number merely ends in the same digits, is caught here)
	cands := []int{-1, (subnet + 1) % commons.Subnets()}
	if res.subnets[subnet] == 1 {
		for t := 0; t < commons.Subnets(); t++ {
			if t != subnet && t != (subnet+1)%commons.Subnets() {
				cands = append(cands, t)
			}
		}
	}
	for _, cand := range cands {
		neighbour := cand >= 0
		base := wire.topic
		if neighbour {
			base = commons.SubnetTopicID(cand)
		}
		full := commons.GetTopicFullName(base)
		v, rec := env.NewValidator(post) // the clock was frozen once by valenv.New (1 s into the current slot)
		pm := &pubsub.Message{Message: &pspb.Message{Data: wire.data, Topic: &full, From: []byte("16Uiu2HAkyWQyCb6reWXGQeBUt9EXArk6h3aq3PsFMwLNq3pPGH1r")}, ReceivedFrom: peerA}
		var r pubsub.ValidationResult
		if p := enum.Guard(func() { r = v.ValidatePubsubMessage(context.Background(), peerA, pm) }); p != nil {
			res.bad("panic ValidatePubsubMessage "+p.Frame, "validator panicked: "+p.Value, trace, p, nil)
			continue
		}
		res.evals++
		reason := rec.Last
		if r == pubsub.ValidationAccept {
			reason = "accept"
		}
		notFound := strings.HasSuffix(reason, "topic not found")
		if neighbour {
			res.outcomes["validator on another advertised topic: "+reason]++
			if !notFound {
				res.bad("validator-accepts-wrong-topic", fmt.Sprintf("validator does not refuse topic %s for a key published on %s (%s): %s", full, wire.topic, label, reason), trace, reason, "reject: topic not found")
			}
		} else {
			res.outcomes["validator on published topic: "+reason]++
			if notFound {
				res.bad("validator-refuses-published-topic", fmt.Sprintf("validator answers 'topic not found' for topic %s on which the publisher sent the message (%s)", full, label), trace, reason, "passes the topic check")
			}
			if bytes.Equal(pk, env.PKs[valenv.VKnown]) && reason != "accept" {
				res.bad("honest-message-not-accepted", fmt.Sprintf("honest proposal of the known validator, published by Broadcast, is not accepted: %s", reason), trace, reason, "accept")
			}
		}
	}
	if res.keys%9973 == 1 && len(res.samples) < 3 {
		res.samples = append(res.samples, map[string]interface{}{"key": pkHex, "how": label, "subnet": subnet, "published_on": pubTopics, "subscribed": sub, "wire_bytes": len(wire.data)})
	}
}

func equalStrings(a, b []string) bool {
	if len(a) != len(b) {
		return false
	}
	for i := range a {
		if a[i] != b[i] {
			return false
		}
	}
	return true
}

type keyCase struct {
	pk    []byte
	label string
}

// the key alphabet (DESIGN §3 C18)
func keyAlphabet(env *valenv.Env, thorough bool) (keys []keyCase, bounds []string) {
	bases := [][]byte{env.PKs[valenv.VKnown], env.PKs[valenv.VUnknown], make([]byte, 48), bytes.Repeat([]byte{0xff}, 48)}
	names := []string{"known validator key", "unknown valid BLS key", "zero key", "ff key"}
	n0 := len(keys)
	for bi, b := range bases {
		keys = append(keys, keyCase{append([]byte{}, b...), names[bi]})
		for pos := 0; pos < 48; pos++ {
			for v := 0; v < 256; v++ {
				if byte(v) == b[pos] {
					continue
				}
				k := append([]byte{}, b...)
				k[pos] = byte(v)
				keys = append(keys, keyCase{k, fmt.Sprintf("%s, byte %d := %02x", names[bi], pos, v)})
			}
		}
	}
	bounds = append(bounds, fmt.Sprintf("4 base keys x every single-byte variation at each of 48 positions: %d keys", len(keys)-n0))
	n0 = len(keys)
	for v := 0; v < 1<<16; v++ {
		k := append([]byte{}, bases[0]...)
		k[3], k[4] = byte(v>>8), byte(v)
		keys = append(keys, keyCase{k, fmt.Sprintf("known validator key, bytes 3-4 := %04x", v)})
	}
	bounds = append(bounds, fmt.Sprintf("all 2^16 values of bytes 3-4 of the known key: %d keys", len(keys)-n0))
	n0 = len(keys)
	for l := 0; l <= 49; l++ {
		if l == 48 {
			continue
		}
		k := bytes.Repeat([]byte{0xab}, l)
		keys = append(keys, keyCase{k, fmt.Sprintf("malformed key of %d bytes", l)})
	}
	bounds = append(bounds, fmt.Sprintf("malformed keys of length 0..47 and 49: %d keys", len(keys)-n0))
	if thorough {
		n0 = len(keys)
		for bi := 1; bi < 4; bi++ {
			for v := 0; v < 1<<16; v++ {
				k := append([]byte{}, bases[bi]...)
				k[3], k[4] = byte(v>>8), byte(v)
				keys = append(keys, keyCase{k, fmt.Sprintf("%s, bytes 3-4 := %04x", names[bi], v)})
			}
		}
		for v := 0; v < 1<<16; v++ {
			k := append([]byte{}, bases[0]...)
			k[4], k[5] = byte(v>>8), byte(v)
			keys = append(keys, keyCase{k, fmt.Sprintf("known validator key, bytes 4-5 := %04x", v)})
		}
		bounds = append(bounds, fmt.Sprintf("thorough: bytes 3-4 of the three other base keys and bytes 4-5 of the known key: %d keys", len(keys)-n0))
	}
	// the enumerations overlap (a byte-3 variation is also a bytes-3-4 value): keep the first
	seen := map[string]bool{}
	out := keys[:0]
	for _, k := range keys {
		if !seen[string(k.pk)] {
			seen[string(k.pk)] = true
			out = append(out, k)
		}
	}
	bounds = append(bounds, fmt.Sprintf("distinct keys after removing overlaps between the enumerations: %d", len(out)))
	return out, bounds
}

func main() {
	r := ev.Start("C18", "exploration")
	env, err := valenv.New()
	if err != nil {
		ev.Fatal("environment: %v", err)
	}
	if r.Replay != "" {
		replay(r, env)
		return
	}
	total := &result{outcomes: map[string]int{}, subnets: map[int]int{}}
	exhaustive := true
	var bounds []string

	// ---- 1. keys: publisher / subscriber / validator
	keys, kb := keyAlphabet(env, r.Thorough())
	bounds = append(bounds, kb...)
	const nw = 16
	parts := make([]*result, nw)
	var wg sync.WaitGroup
	for w := 0; w < nw; w++ {
		wg.Add(1)
		go func(w int) {
			defer wg.Done()
			res := &result{outcomes: map[string]int{}, subnets: map[int]int{}}
			parts[w] = res
			nd := newNode(env, env.NetPre, 1)
			ndPost := newNode(env, env.NetPost, 1)
			for i := (w + r.Seed) % nw; i < len(keys); i += nw {
				if i%4096 < nw && r.Expired() {
					r.CapHit("deadline in the key stage")
					return
				}
				checkKey(env, nd, false, keys[i].pk, keys[i].label, res)
				// signed-envelope epoch (one RSA signature per key): every 16th key in quick, all in thorough
				if len(keys[i].pk) == 48 && (r.Thorough() || i%16 == 0) {
					checkKey(env, ndPost, true, keys[i].pk, keys[i].label+" [signed envelope]", res)
				}
			}
		}(w)
	}
	wg.Wait()
	for _, p := range parts {
		total.evals += p.evals
		total.keys += p.keys
		for k, v := range p.outcomes {
			total.outcomes[k] += v
		}
		for k, v := range p.subnets {
			total.subnets[k] += v
		}
		total.violations = append(total.violations, p.violations...)
		total.samples = append(total.samples, p.samples...)
	}
	distinctKeys := len(keys)

	// ---- 2. advertised range = what SubscribeAll joins
	{
		nd := newNode(env, env.NetPre, 1)
		if err := nd.net.SubscribeAll(zap.NewNop()); err != nil {
			total.bad("subscribe-all-error", err.Error(), nil, nil, nil)
		}
		var full []string
		for _, s := range nd.rec.subscribed {
			full = append(full, commons.GetTopicFullName(s))
		}
		total.evals++
		if !equalStrings(full, commons.Topics()) || len(full) != 128 {
			total.bad("subscribe-all-differs", "SubscribeAll does not join exactly commons.Topics()", map[string]interface{}{"joined": nd.rec.subscribed}, len(full), 128)
		}
		bounds = append(bounds, "SubscribeAll joins exactly the 128 advertised topics")
	}

	// ---- 2b. a validator that starts is subscribed to its topic whatever the node advertises:
	// for every subnet, (i) the subnet is advertised and was joined at start, (ii) it is advertised
	// but joining it failed at start (subscribeToSubnets only warns), (iii) another subnet is
	// advertised. After Subscribe(pk) returns nil the topics controller must hold a live
	// subscription of the validator's topic.
	{
		known := env.PKs[valenv.VKnown]
		for sn := 0; sn < commons.Subnets(); sn++ {
			pk := append([]byte{}, known...)
			found := false
			for b := 0; b < 256 && !found; b++ {
				pk[4] = byte(b)
				found = commons.ValidatorSubnet(hex.EncodeToString(pk)) == sn
			}
			if !found {
				continue
			}
			topic := commons.ValidatorTopicID(pk)[0]
			for _, sc := range []string{"advertised-and-joined", "advertised-join-failed-at-start", "other-subnet-advertised"} {
				nd := newNode(env, env.NetPre, 1)
				switch sc {
				case "advertised-and-joined":
					p2pv1.VerifAdvertise(nd.net, sn)
				case "advertised-join-failed-at-start":
					p2pv1.VerifAdvertise(nd.net, sn)
					nd.rec.failOnce = map[string]bool{topic: true}
				case "other-subnet-advertised":
					p2pv1.VerifAdvertise(nd.net, (sn+1)%commons.Subnets())
				}
				_ = p2pv1.VerifSubscribeToSubnets(nd.net)
				err := nd.net.Subscribe(pk)
				total.evals++
				total.outcomes[fmt.Sprintf("subscribe with %s: err=%v live=%v", sc, err != nil, nd.rec.live[topic])]++
				if err == nil && !nd.rec.live[topic] {
					total.bad("validator-started-without-subscription "+sc, fmt.Sprintf("Subscribe(pk) returned nil for a validator of subnet %d (%s) but the topics controller holds no subscription of %s", sn, sc, topic),
						map[string]interface{}{"key": hex.EncodeToString(pk), "subnet": sn, "scenario": sc}, nd.rec.subscribed, topic)
				}
			}
		}
		bounds = append(bounds, "Subscribe(pk) leaves a live subscription of the validator's topic: 128 subnets x {advertised and joined, advertised but join failed at start, another subnet advertised}")
	}

	// ---- 3. topic name round trip
	{
		var names []string
		for i := -1; i <= 128; i++ {
			names = append(names, commons.SubnetTopicID(i))
		}
		names = append(names, "", "unknown", "ssv.v2", "ssv.v2.", "ssv.v2.5", "5.ssv.v2.", "a.b", "ssv.v2.ssv.v2.1", ".")
		for _, x := range names {
			total.evals++
			if got := commons.GetTopicBaseName(commons.GetTopicFullName(x)); got != x {
				total.bad("topic-name-roundtrip", fmt.Sprintf("GetTopicBaseName(GetTopicFullName(%q)) = %q", x, got), map[string]interface{}{"name": x}, got, x)
			}
		}
		total.outcomes["topic name round trips"] += len(names)
		bounds = append(bounds, fmt.Sprintf("GetTopicBaseName∘GetTopicFullName on %d names (subnets -1..128 and 9 adversarial names)", len(names)))
	}

	// ---- 4. envelope codec
	nCodec := 0
	{
		lens := []int{0, 1, 255, 256, 257, 4096}
		ids := []uint64{0, 1, 1 << 32, math.MaxUint64}
		sigs := [][]byte{make([]byte, 256), bytes.Repeat([]byte{0xff}, 256), fixedBytes(256, 7)}
		if r.Thorough() {
			lens = append(lens, 2, 7, 8, 9, 263, 264, 265, 65535, 65536, 1<<20+1)
			ids = append(ids, 2, 255, 256, 1<<32-1, 1<<63, 0x0102030405060708)
			sigs = append(sigs, fixedBytes(256, 9), append(make([]byte, 255), 1), append([]byte{1}, make([]byte, 255)...))
		}
		for _, l := range lens {
			for _, fill := range []int{0, 1} {
				payload := fixedBytes(l, byte(3+fill))
				if fill == 0 {
					payload = make([]byte, l)
				}
				for _, id := range ids {
					for si, sig := range sigs {
						nCodec++
						total.evals++
						enc := commons.EncodeSignedSSVMessage(payload, id, sig)
						m, gid, gsig, err := commons.DecodeSignedSSVMessage(enc)
						if err != nil || !bytes.Equal(m, payload) || gid != id || !bytes.Equal(gsig, sig) || len(enc) != 256+8+l {
							total.bad("envelope-roundtrip", fmt.Sprintf("Decode(Encode(m,id,sig)) != (m,id,sig) for len(m)=%d id=%d sig#%d", l, id, si),
								map[string]interface{}{"payload_len": l, "payload_fill": fill, "operator_id": strconv.FormatUint(id, 10), "signature": si, "codec": true},
								fmt.Sprintf("err=%v len(m)=%d id=%d sigEqual=%v", err, len(m), gid, bytes.Equal(gsig, sig)), "the three parts unchanged")
						}
					}
				}
			}
		}
		total.outcomes["envelope round trips"] += nCodec
		bounds = append(bounds, fmt.Sprintf("envelope codec: %d payload lengths x 2 fills x %d operator ids x %d signatures = %d round trips", len(lens), len(ids), len(sigs), nCodec))
		// the publisher's own operator id inside the envelope it publishes
		for _, op := range []uint64{0, 1, 2, 4, 1 << 32, math.MaxUint64} {
			nd := newNode(env, env.NetPost, op)
			msg := honestMsg(env, env.PKs[valenv.VKnown])
			err := nd.net.Broadcast(msg)
			total.evals++
			if op == 0 {
				if err == nil {
					total.bad("broadcast-without-operator-id", "Broadcast succeeded without an operator id", nil, nil, "error")
				}
				total.outcomes["broadcast with operator id 0: refused"]++
				continue
			}
			if err != nil || len(nd.rec.published) != 1 {
				total.bad("broadcast-error", fmt.Sprintf("Broadcast as operator %d: %v", op, err), nil, nil, nil)
				continue
			}
			_, gid, _, derr := commons.DecodeSignedSSVMessage(nd.rec.published[0].data)
			if derr != nil || gid != op {
				total.bad("wire-operator-id-differs", fmt.Sprintf("published envelope carries operator id %d, own id is %d", gid, op), map[string]interface{}{"operator_id": strconv.FormatUint(op, 10)}, gid, op)
			}
			total.outcomes["broadcast envelope carries own operator id"]++
		}
	}

	// ---- 5. subnet vectors
	nVec := 0
	{
		check := func(v []byte, how string) {
			nVec++
			total.evals++
			s := records.Subnets(v).String()
			back, err := records.Subnets{}.FromString(s)
			if err != nil || !bytes.Equal(back, v) {
				total.bad("subnets-roundtrip", fmt.Sprintf("FromString(String(v)) != v for %s", how), map[string]interface{}{"vector": hex.EncodeToString(v), "how": how, "subnets": true},
					fmt.Sprintf("err=%v string=%s back=%x", err, s, back), fmt.Sprintf("%x", v))
			}
			if len(s) != 32 {
				total.bad("subnets-string-length", fmt.Sprintf("String() has %d characters for %s", len(s), how), map[string]interface{}{"vector": hex.EncodeToString(v), "subnets": true}, len(s), 32)
			}
			// the prefixed form is accepted too
			if back2, err := (records.Subnets{}).FromString("0x" + s); err != nil || !bytes.Equal(back2, v) {
				total.bad("subnets-roundtrip-0x", fmt.Sprintf("FromString(\"0x\"+String(v)) != v for %s", how), map[string]interface{}{"vector": hex.EncodeToString(v), "subnets": true}, nil, nil)
			}
		}
		for _, base := range []byte{0, 1} {
			v := bytes.Repeat([]byte{base}, 128)
			check(v, fmt.Sprintf("all %d", base))
			for i := 0; i < 128; i++ {
				w := append([]byte{}, v...)
				w[i] ^= 1
				check(w, fmt.Sprintf("all %d except bit %d", base, i))
				for j := i + 1; j < 128; j++ {
					x := append([]byte{}, w...)
					x[j] ^= 1
					check(x, fmt.Sprintf("all %d except bits %d,%d", base, i, j))
				}
			}
		}
		for pos := 0; pos < 32; pos++ {
			for nib := 0; nib < 16; nib++ {
				v := make([]byte, 128)
				for b := 0; b < 4; b++ {
					if nib>>b&1 == 1 {
						v[pos*4+b] = 1
					}
				}
				check(v, fmt.Sprintf("nibble %d = %x", pos, nib))
			}
		}
		if r.Thorough() {
			for a := 0; a < 128; a++ {
				for b := a + 1; b < 128; b++ {
					for c := b + 1; c < 128; c++ {
						v := make([]byte, 128)
						v[a], v[b], v[c] = 1, 1, 1
						check(v, fmt.Sprintf("bits %d,%d,%d", a, b, c))
					}
				}
			}
		}
		// the well-known constants
		if z, _ := (records.Subnets{}).FromString(records.ZeroSubnets); !bytes.Equal(z, make([]byte, 128)) {
			total.bad("zero-subnets-constant", "FromString(ZeroSubnets) is not 128 zeros", nil, nil, nil)
		}
		if a, _ := (records.Subnets{}).FromString(records.AllSubnets); !bytes.Equal(a, bytes.Repeat([]byte{1}, 128)) {
			total.bad("all-subnets-constant", "FromString(AllSubnets) is not 128 ones", nil, nil, nil)
		}
		total.outcomes["subnet vector round trips"] += nVec
		bounds = append(bounds, fmt.Sprintf("subnet vectors: all with <= 2 bits set or cleared, all 16 nibble patterns at each of 32 positions%s: %d vectors",
			map[bool]string{true: ", all with 3 bits set", false: ""}[r.Thorough()], nVec))
	}

	// ---- evidence
	sort.Slice(total.violations, func(i, j int) bool { return total.violations[i].sig < total.violations[j].sig })
	for _, v := range total.violations {
		r.Violate(v.sig, v.what, "c18", v.trace, v.observed, v.expected)
	}
	r.Add("evaluations", total.evals)
	// distinct non-trivial cases: distinct keys + codec triples + vectors + names, all distinct by construction
	subnetsHit := 0
	for s := range total.subnets {
		if s >= 0 {
			subnetsHit++
		}
	}
	r.Set("distinct_nontrivial", distinctKeys+nCodec+nVec)
	r.Set("rule", "Cases are enumerated, never sampled. A case is a validator key (all three call sites executed and compared; 48-byte keys also through Broadcast and the validator, before the envelope epoch for every key and in the signed-envelope epoch for every 16th key in quick / every key in thorough), an (payload, operator id, signature) triple for the envelope codec, or a 128-entry subnet vector. distinct_nontrivial = number of distinct keys + distinct codec triples + distinct vectors of the alphabet (distinct by construction: each differs from its base in the enumerated positions); evaluations = number of call-site executions compared. subnets_hit is the number of distinct subnets the key alphabet maps to.")
	r.Set("keys", distinctKeys)
	r.Set("key_checks", total.keys)
	r.Set("subnets_hit", subnetsHit)
	r.Set("bounds", bounds)
	r.Set("distinct_outcomes", len(total.outcomes))
	r.Set("outcome_histogram", collapse(total.outcomes))
	for _, s := range total.samples {
		r.Sample(s)
	}
	r.Sample(map[string]interface{}{"envelope": "Decode(Encode(4096 bytes, 2^64-1, ff..ff))", "vector": "all 0 except bits 5,77"})
	r.Assume(
		"decides the listed key/payload/vector alphabet, not all 2^384 keys; the subnet depends only on the low 7 bits of key byte 4 (first 10 hex digits mod 128), all values of bytes 3-4 are covered",
		"publisher and subscriber are the real p2pNetwork.Broadcast / Subscribe / SubscribeAll built by the package constructor; an overlay-added file sets topicsCtrl to a recording topics.Controller and the state to ready (no libp2p host, no sockets); the real controller's GetTopicFullName step is applied by the harness when the published topic is handed to the validator",
		"validator: real messageValidator.ValidatePubsubMessage on exactly the bytes Broadcast handed to the controller, virtual clock, real RSA verification in the signed-envelope epoch",
		"malformed keys (not 48 bytes) cannot be put into a message id; for them only Subscribe and the mapping are compared (keys shorter than 5 bytes map to the topic 'unknown' at both, by design of commons.UnknownSubnet)",
	)
	if r.Expired() {
		exhaustive = false
	}
	r.Finish(exhaustive)
}

// collapse keeps the histogram readable: "subscribe: N == mapping" lines are folded per topic count
func collapse(m map[string]int) map[string]int {
	out := map[string]int{}
	for k, v := range m {
		if strings.HasPrefix(k, "subscribe: ") {
			out["subscribe joins exactly the mapped topic"] += v
			continue
		}
		out[k] += v
	}
	return out
}

func fixedBytes(n int, seed byte) []byte {
	b := make([]byte, n)
	x := uint32(seed)*2654435761 + 12345
	for i := range b {
		x = x*1664525 + 1013904223
		b[i] = byte(x >> 24)
	}
	return b
}

func replay(r *ev.Run, env *valenv.Env) {
	v, err := ev.LoadReplay(r.Replay)
	if err != nil {
		ev.Fatal("%v", err)
	}
	fmt.Printf("replay %s\n  %s\n", r.Replay, v.What)
	tr, _ := v.Trace.(map[string]interface{})
	res := &result{outcomes: map[string]int{}, subnets: map[int]int{}}
	switch {
	case tr["key"] != nil:
		pk, _ := hex.DecodeString(tr["key"].(string))
		post, _ := tr["post_envelope_epoch"].(bool)
		cfg := env.NetPre
		if post {
			cfg = env.NetPost
		}
		checkKey(env, newNode(env, cfg, 1), post, pk, fmt.Sprint(tr["how"]), res)
	case tr["codec"] != nil:
		l := int(tr["payload_len"].(float64))
		id, _ := strconv.ParseUint(tr["operator_id"].(string), 10, 64)
		payload := fixedBytes(l, 3)
		sig := fixedBytes(256, 7)
		m, gid, gsig, err := commons.DecodeSignedSSVMessage(commons.EncodeSignedSSVMessage(payload, id, sig))
		if err != nil || !bytes.Equal(m, payload) || gid != id || !bytes.Equal(gsig, sig) {
			res.bad("envelope-roundtrip", "round trip differs", nil, nil, nil)
		}
	case tr["subnets"] != nil:
		vec, _ := hex.DecodeString(tr["vector"].(string))
		s := records.Subnets(vec).String()
		back, err := records.Subnets{}.FromString(s)
		fmt.Printf("  String=%s back=%x err=%v\n", s, back, err)
		if err != nil || !bytes.Equal(back, vec) {
			res.bad("subnets-roundtrip", "round trip differs", nil, nil, nil)
		}
	default:
		fmt.Println("  (this violation has no per-input trace; re-run the check)")
	}
	for k, n := range res.outcomes {
		fmt.Printf("  %s: %d\n", k, n)
	}
	for _, x := range res.violations {
		fmt.Printf("VIOLATION property=C18 replay=%s\n  signature: %s\n  %s\n", r.Replay, x.sig, x.what)
	}
	if len(res.violations) == 0 {
		fmt.Println("not reproduced")
		return
	}
	os.Exit(1)
}
