package main

import (
	"bytes"
	"context"
	"crypto/sha256"
	"encoding/binary"
	"encoding/hex"
	"errors"
	"fmt"
	"github.com/bloxapp/ssv/operator/keys"
	"regexp"
	"strings"
	"time"

	specqbft "github.com/bloxapp/ssv-spec/qbft"
	spectypes "github.com/bloxapp/ssv-spec/types"
	"github.com/ethereum/go-ethereum/p2p/enr"
	"github.com/ethereum/go-ethereum/rlp"
	pubsub "github.com/libp2p/go-libp2p-pubsub"
	pspb "github.com/libp2p/go-libp2p-pubsub/pb"
	"github.com/libp2p/go-libp2p/core/peer"

	"github.com/bloxapp/ssv/message/validation"
	"github.com/bloxapp/ssv/network/commons"
	"github.com/bloxapp/ssv/network/peers"
	"github.com/bloxapp/ssv/network/records"
	"github.com/bloxapp/ssv/protocol/v2/ssv/queue"

	"verifharness/lib/enum"
	"verifharness/lib/valenv"
)

// Entry points (DESIGN §3 C08).
const (
	ePubsub       = "ValidatePubsubMessage"
	eSSV          = "ValidateSSVMessage"
	eDecSigned    = "commons.DecodeSignedSSVMessage"
	eDecNet       = "commons.DecodeNetworkMsg+queue.DecodeSSVMessage"
	eQueueDec     = "queue.DecodeSSVMessage"
	eNIUnmarshal  = "records.NodeInfo.UnmarshalRecord"
	eNIConsume    = "records.NodeInfo.Consume"
	eSNIUnmarshal = "records.SignedNodeInfo.UnmarshalRecord"
	eSNIConsume   = "records.SignedNodeInfo.Consume"
	eSubnetsStr   = "records.Subnets.FromString+String"
	eSubnetsEntry = "records.GetSubnetsEntry"
	// the handshake's use of a peer's NodeInfo.Metadata.Subnets, re-composed from its exported parts:
	// handshaker.updateNodeSubnets (FromString -> SubnetsIndex.UpdatePeerSubnets), then
	// connHandler.sharesEnoughSubnets / connManager (GetPeerSubnets -> records.SharedSubnets)
	eHandshakeSubnets = "handshake subnets: FromString->SubnetsIndex.UpdatePeerSubnets->SharedSubnets"
	// the parser of the handshake's peer-supplied SenderPublicKey (connections.SignatureCheckFilter)
	// and of the operator keys the registry contract hands the node (signature verification of
	// signed envelopes): keys.PublicKeyFromString, then Verify
	eSenderKey = "keys.PublicKeyFromString+Verify (handshake sender key / registered operator key)"
)

var allSubnets = bytes.Repeat([]byte{1}, 128)

// Case is one evaluation: an entry point, an input, the envelope epoch and a history. It is
// self-contained and JSON-serialisable: a replay artefact is a Case.
type Case struct {
	Entry string `json:"entry"`
	Post  bool   `json:"post_envelope_epoch"` // signed envelopes active
	Hist  int    `json:"history"`             // 0 empty, 1 one accepted proposal, 2 full accepted round, 3 full round in the previous slot then slot advance
	HRole int    `json:"history_role"`        // beacon role the history messages are for
	Into  int    `json:"ms_into_slot"`        // virtual clock: ms after the start of the current slot

	// structured input (eSSV, eQueueDec, and ePubsub when Raw is nil)
	MsgType uint64 `json:"msg_type,omitempty"`
	MsgID   string `json:"msg_id,omitempty"` // hex, 56 bytes
	DataHex string `json:"data,omitempty"`
	// raw input (decoders, and ePubsub with arbitrary bytes as pubsub data)
	RawHex string `json:"raw,omitempty"`
	Fill   int    `json:"fill,omitempty"`            // that many bytes FillB appended to data/raw (large inputs)
	FillB  byte   `json:"fill_byte,omitempty"`       //
	Topic  string `json:"topic,omitempty"`           // ePubsub: full topic name
	Signer int    `json:"envelope_signer,omitempty"` // ePubsub structured + Post: 0 = dummy signature, k = real RSA signature of operator k
	NoMsg  bool   `json:"nil_pubsub_message,omitempty"`
	Label  string `json:"label"` // how the enumeration produced it

	data []byte // decoded DataHex/RawHex (+fill)
}

// materialise fills the hex fields from data (only violations and samples are ever written out).
func (c *Case) materialise() *Case {
	d := c.data
	if c.Fill > 0 && len(d) >= c.Fill {
		d = d[:len(d)-c.Fill]
	}
	if c.isRaw() {
		c.RawHex = hex.EncodeToString(d)
		c.DataHex = ""
	} else {
		c.DataHex = hex.EncodeToString(d)
		c.RawHex = ""
	}
	return c
}

// load rebuilds data from the hex fields (replay).
func (c *Case) load() error {
	h := c.DataHex
	if c.isRaw() {
		h = c.RawHex
	}
	b, err := hex.DecodeString(h)
	if err != nil {
		return err
	}
	if c.Fill > 0 {
		b = append(b, bytes.Repeat([]byte{c.FillB}, c.Fill)...)
	}
	c.data = b
	return nil
}

func (c *Case) isRaw() bool {
	switch c.Entry {
	case eSSV, eQueueDec:
		return false
	case ePubsub:
		return c.MsgID == ""
	}
	return true
}

func (c *Case) msgID() (id spectypes.MessageID) {
	b, _ := hex.DecodeString(c.MsgID)
	copy(id[:], b)
	return
}

// identity of the input (entry point + bytes), independent of epoch mode and history
func (c *Case) inputHash() uint64 {
	h := sha256.New()
	h.Write([]byte(c.Entry))
	h.Write([]byte{0})
	if !c.isRaw() {
		var t [8]byte
		binary.LittleEndian.PutUint64(t[:], c.MsgType)
		h.Write(t[:])
		h.Write([]byte(c.MsgID))
	}
	h.Write([]byte(c.Topic))
	h.Write([]byte{0})
	h.Write(c.data)
	return binary.LittleEndian.Uint64(h.Sum(nil)[:8])
}

// Result of one evaluation.
type Result struct {
	Class    string          // outcome class, e.g. "accept", "reject: signer is not leader", "error: …", "ok"
	Beyond   bool            // got past the size/decoding guards of its entry point
	Panic    *enum.PanicInfo // recovered panic
	BadValue string          // result outside accept/ignore/reject
	Alloc    uint64          // heap bytes allocated by the call
	InputLen int
	CallUs   int64 // wall time of the call itself (reported; the only time-based oracle is the 10 s hang detector)
}

var digits = strings.NewReplacer("0", "#", "1", "#", "2", "#", "3", "#", "4", "#", "5", "#", "6", "#", "7", "#", "8", "#", "9", "#")

var quoted = regexp.MustCompile(`'(\\.|[^'\\]){1,8}'|"(\\.|[^"\\])*"`)

// normalise an error text into a class: quoted input fragments and digits blanked, cut to 90 chars.
func errClass(s string) string {
	s = quoted.ReplaceAllString(s, "<q>")
	s = digits.Replace(s)
	for strings.Contains(s, "##") {
		s = strings.ReplaceAll(s, "##", "#")
	}
	if len(s) > 90 {
		s = s[:90]
	}
	return s
}

// guardTexts are the validator's own size/decoding guards: an outcome in this set means the input
// never reached the rule checks.
var guardTexts = map[string]bool{
	validation.ErrPubSubMessageHasNoData.Text(): true,
	validation.ErrPubSubDataTooBig.Text():       true,
	validation.ErrMalformedPubSubMessage.Text(): true,
	validation.ErrMalformedSignedMessage.Text(): true,
	validation.ErrEmptyPubSubMessage.Text():     true,
	validation.ErrEmptyData.Text():              true,
	validation.ErrSSVDataTooBig.Text():          true,
	validation.ErrMalformedMessage.Text():       true,
	validation.ErrUnknownSSVMessageType.Text():  true,
}

func classifyErr(err error) (class string, beyond bool) {
	if err == nil {
		return "accept", true
	}
	var ve validation.Error
	if errors.As(err, &ve) {
		k := "ignore: "
		if ve.Reject() {
			k = "reject: "
		}
		return k + ve.Text(), !guardTexts[ve.Text()]
	}
	return "ignore: (other) " + errClass(err.Error()), true
}

type runner struct {
	env *valenv.Env
	// hang detector: wall-clock start (unix nano) of the call in flight, 0 when idle
	inFlight func(start bool)
}

var peerA = peer.ID("verif-peer-A")

// history returns the SSV messages of history h for the known validator and beacon role, with
// the slot they are for (relative to the current slot).
type histStep struct {
	msg       *spectypes.SSVMessage
	slotDelta int
}

func (rn *runner) history(h, role int) []histStep {
	if h == 0 {
		return nil
	}
	e := rn.env
	delta := 0
	if h == 3 {
		delta = -1
	}
	slot := uint64(int64(e.Cur) + int64(delta))
	id := spectypes.NewMsgID(e.NetPre.Domain, e.PKs[valenv.VKnown], spectypes.BeaconRole(role))
	var out []histStep
	add := func(t spectypes.MsgType, data []byte) {
		out = append(out, histStep{&spectypes.SSVMessage{MsgType: t, MsgID: id, Data: data}, delta})
	}
	sig := dummySig(1)
	switch spectypes.BeaconRole(role) {
	case spectypes.BNRoleValidatorRegistration, spectypes.BNRoleVoluntaryExit:
		pt := uint64(spectypes.ValidatorRegistrationPartialSig)
		if spectypes.BeaconRole(role) == spectypes.BNRoleVoluntaryExit {
			pt = uint64(spectypes.VoluntaryExitPartialSig)
		}
		n := 4
		if h == 1 {
			n = 1
		}
		for s := 1; s <= n; s++ {
			add(spectypes.SSVPartialSignatureMsgType, rawSignedPartial{Type: pt, Slot: slot, Sig: sig, Signer: uint64(s),
				Msgs: []rawPartial{{Sig: sig, Root: [32]byte{1}, Signer: uint64(s)}}}.enc())
		}
		return out
	}
	full := []byte("verif-full-data-A")
	root, _ := specqbft.HashDataRoot(full)
	leader := uint64(e.Shares[valenv.VKnown].Committee[slot%4].OperatorID)
	cons := func(mt specqbft.MessageType, signers []uint64, fd []byte) {
		m := rawMsg{MsgType: uint64(mt), Height: slot, Round: 1, Identifier: id[:], Root: root}
		add(spectypes.SSVConsensusMsgType, rawSigned{Sig: sig, Signers: signers, Msg: m.enc(), FullData: fd}.enc())
	}
	cons(specqbft.ProposalMsgType, []uint64{leader}, full)
	if h == 1 {
		return out
	}
	for s := uint64(1); s <= 4; s++ {
		cons(specqbft.PrepareMsgType, []uint64{s}, nil)
	}
	for s := uint64(1); s <= 4; s++ {
		cons(specqbft.CommitMsgType, []uint64{s}, nil)
	}
	cons(specqbft.CommitMsgType, []uint64{1, 2, 3}, full)
	for s := uint64(1); s <= 4; s++ {
		add(spectypes.SSVPartialSignatureMsgType, rawSignedPartial{Type: uint64(spectypes.PostConsensusPartialSig), Slot: slot, Sig: sig, Signer: s,
			Msgs: []rawPartial{{Sig: sig, Root: [32]byte{1}, Signer: s}}}.enc())
	}
	return out
}

func dummySig(b byte) []byte { return bytes.Repeat([]byte{b}, 96) }

// prepare builds a fresh validator, replays the history (every step must be accepted) and sets
// the clock for the input. A panic inside a history step is reported like any other.
func (rn *runner) prepare(c *Case) (validation.MessageValidator, *valenv.Recorder, *enum.PanicInfo, error) {
	v, rec := rn.env.NewValidator(c.Post)
	for i, st := range rn.history(c.Hist, c.HRole) {
		rn.env.SetClock(st.slotDelta, time.Second)
		var err error
		p := enum.Guard(func() { _, _, err = v.ValidateSSVMessage(st.msg) })
		if p != nil {
			return nil, nil, p, nil
		}
		if err != nil {
			return nil, nil, nil, fmt.Errorf("history %d role %d step %d not accepted: %v", c.Hist, c.HRole, i, err)
		}
	}
	rn.env.SetClock(0, time.Duration(c.Into)*time.Millisecond)
	return v, rec, nil, nil
}

func needsValidator(entry string) bool { return entry == ePubsub || entry == eSSV }

// run evaluates one case on the real code.
func (rn *runner) run(c *Case) (res Result, engineErr error) {
	res.InputLen = len(c.data)
	var v validation.MessageValidator
	var rec *valenv.Recorder
	if needsValidator(c.Entry) {
		var p *enum.PanicInfo
		v, rec, p, engineErr = rn.prepare(c)
		if engineErr != nil {
			return
		}
		if p != nil {
			res.Panic = p
			res.Class = "panic(history)"
			return
		}
	}
	var call func()
	switch c.Entry {
	case ePubsub:
		var pm *pubsub.Message
		switch {
		case c.NoMsg:
			pm = &pubsub.Message{}
		default:
			data := c.data
			if !c.isRaw() {
				data = rawSSV(c.MsgType, c.msgID(), c.data)
				if c.Post {
					var sig []byte
					if c.Signer > 0 {
						sig = rn.env.Sign(c.Signer, data)
					} else {
						sig = bytes.Repeat([]byte{1}, 256)
					}
					op := uint64(c.Signer)
					if op == 0 {
						op = 1
					}
					data = commons.EncodeSignedSSVMessage(data, op, sig)
				}
				res.InputLen = len(data)
			}
			topic := c.Topic
			pm = &pubsub.Message{Message: &pspb.Message{Data: data, Topic: &topic, From: []byte("16Uiu2HAkyWQyCb6reWXGQeBUt9EXArk6h3aq3PsFMwLNq3pPGH1r")}, ReceivedFrom: peerA}
		}
		call = func() {
			r := v.ValidatePubsubMessage(context.Background(), peerA, pm)
			switch r {
			case pubsub.ValidationAccept:
				res.Class = "accept"
			case pubsub.ValidationIgnore, pubsub.ValidationReject:
				res.Class = rec.Last
			default:
				res.BadValue = fmt.Sprintf("ValidationResult(%d)", int(r))
				res.Class = "bad-result"
				return
			}
			want := map[pubsub.ValidationResult]string{pubsub.ValidationAccept: "accept", pubsub.ValidationIgnore: "ignore", pubsub.ValidationReject: "reject"}[r]
			if !strings.HasPrefix(rec.Last, want) {
				res.BadValue = fmt.Sprintf("result %s but the validator reported %q", want, rec.Last)
			}
			txt := strings.TrimPrefix(strings.TrimPrefix(res.Class, "ignore: "), "reject: ")
			res.Beyond = !guardTexts[txt]
			if res.Class != "accept" {
				res.Class = errClass(res.Class)
			}
		}
	case eSSV:
		m := &spectypes.SSVMessage{MsgType: spectypes.MsgType(c.MsgType), MsgID: c.msgID(), Data: c.data}
		call = func() {
			_, _, err := v.ValidateSSVMessage(m)
			res.Class, res.Beyond = classifyErr(err)
		}
	case eDecSigned:
		call = func() {
			msg, id, sig, err := commons.DecodeSignedSSVMessage(c.data)
			if err != nil {
				res.Class = "error: " + errClass(err.Error())
				return
			}
			// the decoder is the inverse of the encoder on everything it accepts
			if len(c.data) < 1<<20 && !bytes.Equal(commons.EncodeSignedSSVMessage(msg, id, sig), c.data) {
				res.BadValue = "Encode(Decode(x)) != x"
			}
			res.Class, res.Beyond = "ok", true
		}
	case eDecNet:
		call = func() {
			m, err := commons.DecodeNetworkMsg(c.data)
			if err != nil {
				res.Class = "error: " + errClass(err.Error())
				return
			}
			_, err = queue.DecodeSSVMessage(m)
			if err != nil {
				res.Class = "net ok, body error: " + errClass(err.Error())
				return
			}
			res.Class, res.Beyond = "ok", true
		}
	case eQueueDec:
		m := &spectypes.SSVMessage{MsgType: spectypes.MsgType(c.MsgType), MsgID: c.msgID(), Data: c.data}
		call = func() {
			_, err := queue.DecodeSSVMessage(m)
			if err != nil {
				res.Class = "error: " + errClass(err.Error())
				return
			}
			res.Class, res.Beyond = "ok", true
		}
	case eNIUnmarshal, eNIConsume, eSNIUnmarshal, eSNIConsume:
		call = func() {
			var err error
			switch c.Entry {
			case eNIUnmarshal:
				err = (&records.NodeInfo{}).UnmarshalRecord(c.data)
			case eNIConsume:
				err = (&records.NodeInfo{}).Consume(c.data)
			case eSNIUnmarshal:
				err = (&records.SignedNodeInfo{}).UnmarshalRecord(c.data)
			case eSNIConsume:
				err = (&records.SignedNodeInfo{}).Consume(c.data)
			}
			if err != nil {
				res.Class = "error: " + errClass(err.Error())
				return
			}
			res.Class, res.Beyond = "ok", true
		}
	case eSubnetsStr:
		call = func() {
			s, err := records.Subnets{}.FromString(string(c.data))
			if err != nil {
				res.Class = "error: " + errClass(err.Error())
				return
			}
			_ = s.String()
			_ = s.Active()
			_ = s.Clone()
			res.Class, res.Beyond = fmt.Sprintf("ok len=%d", len(s)), true
		}
	case eSenderKey:
		call = func() {
			pk, err := keys.PublicKeyFromString(string(c.data))
			if err != nil {
				res.Class = "error: " + errClass(err.Error())
				return
			}
			if err := pk.Verify([]byte("c08"), make([]byte, 256)); err != nil {
				res.Class, res.Beyond = "ok: key parsed, dummy signature refused", true
				return
			}
			res.Class, res.Beyond = "ok", true
		}
	case eHandshakeSubnets:
		call = func() {
			s, err := records.Subnets{}.FromString(string(c.data))
			if err != nil {
				res.Class = "error: " + errClass(err.Error())
				return
			}
			idx := peers.NewSubnetsIndex(commons.Subnets())
			idx.UpdatePeerSubnets(peerA, s)
			ps := idx.GetPeerSubnets(peerA)
			if len(ps) == 0 {
				res.Class, res.Beyond = "ok: no subnets recorded for the peer", true
				return
			}
			_ = records.SharedSubnets(allSubnets, ps, 1)               // connHandler.sharesEnoughSubnets
			_ = records.SharedSubnets(ps, allSubnets, len(allSubnets)) // connManager's peer log
			_ = idx.GetSubnetsStats()
			res.Class, res.Beyond = fmt.Sprintf("ok len=%d", len(ps)), true
		}
	case eSubnetsEntry:
		call = func() {
			var r enr.Record
			if err := rlp.DecodeBytes(c.data, &r); err != nil {
				res.Class = "error: (enr rlp) " + errClass(err.Error())
				return
			}
			s, err := records.GetSubnetsEntry(&r)
			if err != nil {
				res.Class, res.Beyond = "error: "+errClass(err.Error()), true
				return
			}
			res.Class, res.Beyond = fmt.Sprintf("ok len=%d", len(s)), true
		}
	default:
		return res, fmt.Errorf("unknown entry point %q", c.Entry)
	}
	rn.inFlight(true)
	t0 := time.Now()
	a0 := enum.AllocBytes()
	res.Panic = enum.Guard(call)
	res.Alloc = enum.AllocBytes() - a0
	res.CallUs = time.Since(t0).Microseconds()
	rn.inFlight(false)
	if res.Panic != nil {
		res.Class = "panic"
		res.Beyond = true
	}
	return
}

const allocSlack = 4 << 20

func allocBound(inputLen int) uint64 { return uint64(64*inputLen + allocSlack) }
