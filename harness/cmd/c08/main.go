// C08 — no network input can crash message validation or decoding.
//
// Engine E4 (bounded-exhaustive input enumeration) on the real messageValidator and the real
// decoders: every input of a finite, explicitly listed alphabet (gen.go) is evaluated on every
// entry point it is routed to, before and after the signed-envelope epoch and after each of four
// histories. Oracle per evaluation: the call returns normally with accept/ignore/reject (or a
// decoder error), no panic, no call longer than 60 s, heap allocation of the call at most
// 64*len(input)+4 MiB.
//
// The parent process spawns one worker process per core; a worker evaluates one case at a time,
// so allocation deltas are attributable, a hang is detected by a watchdog and a fatal runtime
// error (stack overflow, out of memory) kills only the worker and is reported with the case that
// was in flight.
package main

import (
	"encoding/binary"
	"encoding/json"
	"fmt"
	"os"
	"path/filepath"
	"regexp"
	"runtime"
	"runtime/pprof"
	"sort"
	"strings"
	"sync/atomic"
	"time"

	"verifharness/lib/enum"
	"verifharness/lib/ev"
	"verifharness/lib/valenv"
)

// hang detector: calls take micro- to milliseconds (a 9 MB input: tens of ms); 60 s leaves room for
// a machine that is heavily oversubscribed by other checks
const hangLimit = 60 * time.Second

var hrRe = regexp.MustCompile(`height=\d+ round=\d+`)

type violation struct {
	Signature string      `json:"signature"`
	What      string      `json:"what"`
	Case      *Case       `json:"case"`
	Observed  interface{} `json:"observed"`
	Expected  string      `json:"expected"`
}

type stageInfo struct {
	Name        string `json:"name"`
	Inputs      int    `json:"inputs"` // ordinals enumerated (all shards see the same number)
	Evaluations int    `json:"evaluations"`
	Complete    bool   `json:"complete"`
}

// shardResult is what a worker reports.
type shardResult struct {
	Evaluations int            `json:"evaluations"`
	Outcomes    map[string]int `json:"outcomes"` // "entry point | outcome class" -> evaluations
	Stages      []stageInfo    `json:"stages"`
	Violations  []violation    `json:"violations"`
	Samples     []*Case        `json:"samples"`
	Notes       map[string]int `json:"notes"`
	HashFile    string         `json:"hash_file"`
	Beyond      int            `json:"beyond"`        // evaluations that got past the size/decoding guards
	MaxAlloc    uint64         `json:"max_alloc"`     // largest per-call allocation seen
	MaxAllocPct float64        `json:"max_alloc_pct"` // largest allocation / bound, percent
	MaxCallUs   int64          `json:"max_call_us"`   // slowest call (wall, µs) — reported, not an oracle
	MaxCallWhat string         `json:"max_call_what"`
	PanicInputs map[string]int `json:"panic_inputs"` // "frame | height=.. round=.." -> evaluations (structured inputs only)
	CapHit      []string       `json:"cap_hit"`
	EngineErr   string         `json:"engine_err"`
}

type worker struct {
	rn       *runner
	r        *ev.Run
	thorough bool
	shard, n int
	ord      int
	stop     bool
	res      shardResult
	hashes   map[uint64]struct{}
	seenSig  map[string]bool
	stage    *stageInfo
	crumb    *os.File
	stageNo  int

	// watchdog
	startNano atomic.Int64
	curCase   atomic.Pointer[Case]

	// replay by ordinal
	onlyStage, onlyOrd int
}

func (w *worker) note(k string, v int) { w.res.Notes[k] = v }

func (w *worker) fatal(format string, a ...interface{}) {
	if w.res.EngineErr == "" {
		w.res.EngineErr = fmt.Sprintf(format, a...)
	}
	w.stop = true
}

func (w *worker) beginStage(name string) {
	w.stageNo++
	w.res.Stages = append(w.res.Stages, stageInfo{Name: name, Complete: true})
	w.stage = &w.res.Stages[len(w.res.Stages)-1]
	w.ord = 0
}

func (w *worker) endStage() {
	w.stage.Inputs = w.ord
	if w.stop {
		w.stage.Complete = false
	}
}

// own advances the ordinal and tells whether this worker evaluates it.
func (w *worker) own() bool {
	o := w.ord
	w.ord++
	if w.stop {
		return false
	}
	if w.onlyStage > 0 {
		return w.stageNo == w.onlyStage && o == w.onlyOrd
	}
	if o&1023 == 0 && w.r.Expired() {
		w.stop = true
		w.res.CapHit = append(w.res.CapHit, fmt.Sprintf("deadline in stage %q at input %d", w.stage.Name, o))
		return false
	}
	if o%w.n != w.shard {
		return false
	}
	if w.crumb != nil {
		var b [16]byte
		binary.LittleEndian.PutUint64(b[:8], uint64(w.stageNo))
		binary.LittleEndian.PutUint64(b[8:], uint64(o))
		w.crumb.WriteAt(b[:], 0)
	}
	return true
}

// eval runs one case and applies the oracle.
func (w *worker) eval(c *Case) Result {
	if w.stop {
		return Result{}
	}
	w.curCase.Store(c)
	res, err := w.rn.run(c)
	el := res.CallUs
	if err != nil {
		w.fatal("%v (case %s)", err, c.Label)
		return res
	}
	w.res.Evaluations++
	w.stage.Evaluations++
	if el > w.res.MaxCallUs {
		w.res.MaxCallUs = el
		w.res.MaxCallWhat = c.Entry + ": " + c.Label
	}
	w.res.Outcomes[c.Entry+" | "+res.Class]++
	if res.Beyond {
		w.res.Beyond++
		w.hashes[c.inputHash()] = struct{}{}
	}
	bound := allocBound(res.InputLen)
	if pct := 100 * float64(res.Alloc) / float64(bound); pct > w.res.MaxAllocPct {
		w.res.MaxAllocPct = pct
	}
	if res.Alloc > w.res.MaxAlloc {
		w.res.MaxAlloc = res.Alloc
	}
	switch {
	case res.Panic != nil:
		if hr := hrRe.FindString(c.Label); hr != "" {
			w.res.PanicInputs[res.Panic.Frame+" | "+hr]++
		}
		w.violate(c, fmt.Sprintf("panic %s %s", c.Entry, res.Panic.Frame),
			fmt.Sprintf("%s panics (%s) on: %s", c.Entry, res.Panic.Value, c.Label), res.Panic, "returns accept, ignore or reject")
	case res.BadValue != "":
		w.violate(c, fmt.Sprintf("bad-result %s", c.Entry), fmt.Sprintf("%s: %s on: %s", c.Entry, res.BadValue, c.Label), res.BadValue, "accept, ignore or reject, consistent with the reported reason")
	case res.Alloc > bound:
		w.violate(c, fmt.Sprintf("alloc %s %s", c.Entry, res.Class), fmt.Sprintf("%s allocates %d bytes for an input of %d bytes (bound %d) on: %s", c.Entry, res.Alloc, res.InputLen, bound, c.Label),
			map[string]interface{}{"allocated": res.Alloc, "input_len": res.InputLen, "bound": bound}, "allocation <= 64*len(input)+4MiB")
	}
	// a handful of samples of what was explored: the first evaluation of each of the first classes
	if len(w.res.Samples) < 6 && res.InputLen < 4096 && !w.seenSig["s:"+c.Entry+res.Class] && w.res.Evaluations%7 == 3 {
		w.seenSig["s:"+c.Entry+res.Class] = true
		cc := *c
		cc.Label = c.Label + " => " + res.Class
		w.res.Samples = append(w.res.Samples, cc.materialise())
	}
	return res
}

func (w *worker) violate(c *Case, sig, what string, observed interface{}, expected string) {
	if w.seenSig[sig] {
		return
	}
	w.seenSig[sig] = true
	cc := *c
	w.res.Violations = append(w.res.Violations, violation{Signature: sig, What: what, Case: cc.materialise(), Observed: observed, Expected: expected})
}

func (w *worker) stages() {
	w.stageShort()
	w.stageMutations()
	w.stageConsensus()
	w.stagePartial()
	w.stageEnvelope()
	w.stageLarge()
}

func newWorker(r *ev.Run, shard, n int) *worker {
	env, err := valenv.New()
	if err != nil {
		ev.Fatal("environment: %v", err)
	}
	if err := selfCheckSSZ(); err != nil {
		ev.Fatal("%v", err)
	}
	w := &worker{r: r, thorough: r.Thorough(), shard: shard, n: n, hashes: map[uint64]struct{}{}, seenSig: map[string]bool{}}
	w.res.Outcomes = map[string]int{}
	w.res.Notes = map[string]int{}
	w.res.PanicInputs = map[string]int{}
	w.rn = &runner{env: env, inFlight: func(start bool) {
		if start {
			w.startNano.Store(time.Now().UnixNano())
		} else {
			w.startNano.Store(0)
		}
	}}
	return w
}

func workerMain(r *ev.Run, shard, n int) {
	runtime.GOMAXPROCS(2) // one evaluating goroutine + watchdog/GC; evaluations are strictly sequential
	w := newWorker(r, shard, n)
	if p := os.Getenv("VERIF_C08_CRUMB"); p != "" {
		w.crumb, _ = os.OpenFile(fmt.Sprintf("%s.%d", p, shard), os.O_CREATE|os.O_RDWR|os.O_TRUNC, 0o644)
	}
	// hang detector
	go func() {
		for {
			time.Sleep(250 * time.Millisecond)
			if s := w.startNano.Load(); s != 0 && time.Since(time.Unix(0, s)) > hangLimit {
				c := *w.curCase.Load()
				b, _ := json.Marshal(c.materialise())
				fmt.Fprintf(os.Stderr, "\nVERIF-HANG %s\n", b)
				os.Exit(4)
			}
		}
	}()
	if pf := os.Getenv("VERIF_C08_PROFILE"); pf != "" {
		f, _ := os.Create(pf)
		pprof.StartCPUProfile(f)
		defer pprof.StopCPUProfile()
	}
	w.stages()
	pprof.StopCPUProfile()
	// distinct inputs beyond the guards: handed to the parent as a file of 8-byte hashes
	if dir := os.Getenv("VERIF_C08_TMP"); dir != "" {
		w.res.HashFile = filepath.Join(dir, fmt.Sprintf("hashes.%d", shard))
		buf := make([]byte, 0, 8*len(w.hashes))
		for h := range w.hashes {
			buf = binary.LittleEndian.AppendUint64(buf, h)
		}
		if err := os.WriteFile(w.res.HashFile, buf, 0o644); err != nil {
			w.res.EngineErr = err.Error()
		}
	}
	enum.Emit(&w.res)
	os.Exit(0)
}

func main() {
	r := ev.Start("C08", "exploration")
	if shard, n, isWorker := enum.Shard(); isWorker {
		workerMain(r, shard, n)
		return
	}
	if r.Replay != "" {
		replay(r)
		return
	}
	nw := runtime.NumCPU()
	if nw > 16 {
		nw = 16
	}
	if v := os.Getenv("VERIF_C08_WORKERS"); v != "" {
		fmt.Sscan(v, &nw)
	}
	tmp, err := os.MkdirTemp("", "C08-")
	if err != nil {
		ev.Fatal("%v", err)
	}
	defer os.RemoveAll(tmp)
	outs := enum.Spawn(nw, r.Seed, "VERIF_C08_TMP="+tmp, "VERIF_C08_CRUMB="+filepath.Join(tmp, "crumb"))

	exhaustive := true
	outcomes := map[string]int{}
	distinct := map[uint64]struct{}{}
	var stages []stageInfo
	notes := map[string]int{}
	panicInputs := map[string]int{}
	var maxAlloc uint64
	var maxPct float64
	var maxUs int64
	maxWhat := ""
	beyond := 0
	var samples []*Case
	for _, o := range outs {
		var sr shardResult
		if o.Err != nil || json.Unmarshal(o.Stdout, &sr) != nil {
			exhaustive = false
			r.CapHit(fmt.Sprintf("worker %d did not finish", o.Index))
			handleDeadWorker(r, o, tmp)
			continue
		}
		if sr.EngineErr != "" {
			os.RemoveAll(tmp)
			ev.Fatal("worker %d: %s", o.Index, sr.EngineErr)
		}
		r.Add("evaluations", sr.Evaluations)
		beyond += sr.Beyond
		for k, v := range sr.Outcomes {
			outcomes[k] += v
		}
		for k, v := range sr.Notes {
			notes[k] = v
		}
		for k, v := range sr.PanicInputs {
			panicInputs[k] += v
		}
		for _, c := range sr.CapHit {
			r.CapHit(c)
		}
		if sr.MaxAlloc > maxAlloc {
			maxAlloc = sr.MaxAlloc
		}
		if sr.MaxAllocPct > maxPct {
			maxPct = sr.MaxAllocPct
		}
		if sr.MaxCallUs > maxUs {
			maxUs, maxWhat = sr.MaxCallUs, sr.MaxCallWhat
		}
		for i, st := range sr.Stages {
			if i >= len(stages) {
				stages = append(stages, stageInfo{Name: st.Name, Inputs: st.Inputs, Complete: true})
			}
			stages[i].Evaluations += st.Evaluations
			stages[i].Complete = stages[i].Complete && st.Complete
			if st.Inputs > stages[i].Inputs {
				stages[i].Inputs = st.Inputs
			}
		}
		if b, err := os.ReadFile(sr.HashFile); err == nil {
			for i := 0; i+8 <= len(b); i += 8 {
				distinct[binary.LittleEndian.Uint64(b[i:])] = struct{}{}
			}
		}
		for _, v := range sr.Violations {
			r.Violate(v.Signature, v.What, "c08", v.Case, v.Observed, v.Expected)
		}
		if o.Index < 4 {
			for _, s := range sr.Samples {
				if len(samples) < 8 {
					samples = append(samples, s)
				}
			}
		}
	}
	for _, s := range samples {
		r.Sample(s)
	}
	inputs := 0
	var bounds []string
	for _, st := range stages {
		inputs += st.Inputs
		bounds = append(bounds, fmt.Sprintf("%s: inputs=%d evaluations=%d complete=%v", st.Name, st.Inputs, st.Evaluations, st.Complete))
		exhaustive = exhaustive && st.Complete
	}
	r.Set("inputs_enumerated", inputs)
	r.Set("bounds", bounds)
	r.Set("distinct_nontrivial", len(distinct))
	r.Set("evaluations_beyond_guards", beyond)
	r.Set("rule", "An input is (entry point, bytes) — for structured inputs (entry point, SSV message type, message id, topic, data). Inputs are enumerated, never sampled: every byte string of length <= 2; every truncation and every single-byte substitution (00,01,7f,80,ff) of each honest encoding; the cross products of the field alphabets listed in 'bounds'. Each input is evaluated on each entry point it is routed to, before/after the signed-envelope epoch and after each history (that is 'evaluations'). distinct_nontrivial counts DISTINCT inputs (sha256 of entry point + bytes, unioned over all workers) for which at least one evaluation got past the size/decoding guards of its entry point: for the validator, an outcome other than {no data, data too big, malformed pubsub/signed/SSV message, empty data, unknown SSV message type}; for a decoder, a successful decode. outcome_histogram lists every (entry point | outcome class) pair observed.")
	r.Set("distinct_outcome_classes", len(outcomes))
	r.Set("outcome_histogram", outcomes)
	r.Set("notes", notes)
	if len(panicInputs) > 0 {
		r.Set("panic_input_classes", panicInputs)
	}
	r.Set("workers", nw)
	r.Set("max_alloc_bytes_per_call", int(maxAlloc))
	r.Set("max_alloc_percent_of_bound", maxPct)
	r.Set("slowest_call_us", int(maxUs))
	r.Set("slowest_call", maxWhat)
	r.Assume(
		"decides the finite alphabet listed in coverage.bounds, not 'every byte string'",
		"real messageValidator (NewMessageValidator + node storage on in-memory badger, duty store, real RSA verifier), real decoders; BLS signatures inside QBFT/partial messages are placeholders (message validation does not verify them)",
		"the clock is virtual: netCfg.Beacon is a fake beacon network reading the harness clock and the `time` import of message/validation/validation.go is redirected to it by overlay (frozen 1 s into slot 6963320, thorough also 11.9 s)",
		"each evaluation runs on a fresh validator on which the history was replayed through ValidateSSVMessage (every history step must be accepted)",
		"allocation is the delta of /gc/heap/allocs:bytes around the call in a worker process that evaluates one case at a time; 60 s hang detector (observed calls take micro- to milliseconds, see slowest_call_us)",
		"records.GetSubnetsEntry is fed through go-ethereum's enr/rlp decoder (third party, trusted); libp2p envelope parsing inside Consume is third party",
	)
	os.RemoveAll(tmp)
	r.Finish(exhaustive)
}

// handleDeadWorker turns a worker that hung or died of a fatal runtime error into a violation
// that carries the case in flight.
func handleDeadWorker(r *ev.Run, o enum.ShardOutput, tmp string) {
	if i := strings.Index(o.Stderr, "VERIF-HANG "); i >= 0 {
		line := o.Stderr[i+len("VERIF-HANG "):]
		if j := strings.Index(line, "\n"); j >= 0 {
			line = line[:j]
		}
		var c Case
		json.Unmarshal([]byte(line), &c)
		r.Violate("hang "+c.Entry, fmt.Sprintf("%s did not return within %v on: %s", c.Entry, hangLimit, c.Label), "c08", &c, "no return", "returns")
		return
	}
	msg, frame := enum.FatalFrame(o.Stderr)
	trace := map[string]interface{}{"stderr": o.Stderr}
	if b, err := os.ReadFile(fmt.Sprintf("%s.%d", filepath.Join(tmp, "crumb"), o.Index)); err == nil && len(b) >= 16 {
		trace["stage"] = int(binary.LittleEndian.Uint64(b[:8]))
		trace["ordinal"] = int(binary.LittleEndian.Uint64(b[8:16]))
	}
	if msg == "worker died" && !strings.Contains(o.Stderr, "goroutine ") {
		ev.Fatal("worker %d failed without a Go crash report: %v\n%s", o.Index, o.Err, o.Stderr)
	}
	r.Violate("fatal "+frame, fmt.Sprintf("worker process died: %s (innermost implementation frame %s); input = stage/ordinal in the trace", msg, frame), "c08-ordinal", trace, msg, "returns accept, ignore or reject")
}

func replay(r *ev.Run) {
	v, err := ev.LoadReplay(r.Replay)
	if err != nil {
		ev.Fatal("%v", err)
	}
	fmt.Printf("replay %s\n  %s\n", r.Replay, v.What)
	w := newWorker(r, 0, 1)
	if v.Harness == "c08-ordinal" {
		tr, _ := v.Trace.(map[string]interface{})
		st, _ := tr["stage"].(float64)
		od, _ := tr["ordinal"].(float64)
		w.onlyStage, w.onlyOrd = int(st), int(od)
		fmt.Printf("  re-running stage %d input %d in this process (a fatal error will end it with Go's crash report)\n", w.onlyStage, w.onlyOrd)
		w.stages()
		report(r, w)
		return
	}
	b, _ := json.Marshal(v.Trace)
	var c Case
	if err := json.Unmarshal(b, &c); err != nil {
		ev.Fatal("trace is not a case: %v", err)
	}
	if err := c.load(); err != nil {
		ev.Fatal("%v", err)
	}
	w.beginStage("replay")
	done := make(chan Result, 1)
	go func() { done <- w.eval(&c) }()
	select {
	case res := <-done:
		fmt.Printf("  entry=%s post_envelope_epoch=%v history=%d input=%d bytes\n  outcome: %s", c.Entry, c.Post, c.Hist, len(c.data), res.Class)
		if res.Panic != nil {
			fmt.Printf(" value=%q\n  stack: %s", res.Panic.Value, strings.Join(res.Panic.Stack, "\n         "))
		}
		fmt.Printf("\n  allocated %d bytes (bound %d)\n", res.Alloc, allocBound(res.InputLen))
	case <-time.After(hangLimit):
		fmt.Printf("  no return within %v\n", hangLimit)
		w.violate(&c, "hang "+c.Entry, "did not return", nil, "returns")
	}
	report(r, w)
}

func report(r *ev.Run, w *worker) {
	if w.res.EngineErr != "" {
		ev.Fatal("%s", w.res.EngineErr)
	}
	sort.Slice(w.res.Violations, func(i, j int) bool { return w.res.Violations[i].Signature < w.res.Violations[j].Signature })
	for _, v := range w.res.Violations {
		fmt.Printf("VIOLATION property=C08 replay=%s\n  signature: %s\n", r.Replay, v.Signature)
	}
	if len(w.res.Violations) == 0 {
		fmt.Println("not reproduced")
		os.Exit(0)
	}
	os.Exit(1)
}
