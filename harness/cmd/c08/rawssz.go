package main

// A hand-written SSZ assembler for the four wire containers message validation decodes. The
// library encoders refuse out-of-range shapes (14 signers, 14 justifications, 14 partial
// signatures); a peer is not bound by them, so the enumeration builds the bytes itself. On
// in-range values the output is compared with the library encoders at start-up (selfCheckSSZ).

import (
	"bytes"
	"encoding/binary"
	"fmt"

	specqbft "github.com/bloxapp/ssv-spec/qbft"
	spectypes "github.com/bloxapp/ssv-spec/types"
)

func u64(dst []byte, v uint64) []byte { return binary.LittleEndian.AppendUint64(dst, v) }
func u32(dst []byte, v int) []byte    { return binary.LittleEndian.AppendUint32(dst, uint32(v)) }

type rawMsg struct {
	MsgType, Height, Round uint64
	Identifier             []byte
	Root                   [32]byte
	DataRound              uint64
	RCJ, PJ                [][]byte
}

func listOfBytes(dst []byte, l [][]byte) []byte {
	off := 4 * len(l)
	for _, e := range l {
		dst = u32(dst, off)
		off += len(e)
	}
	for _, e := range l {
		dst = append(dst, e...)
	}
	return dst
}

func listSize(l [][]byte) int {
	n := 0
	for _, e := range l {
		n += 4 + len(e)
	}
	return n
}

func (m rawMsg) enc() []byte {
	dst := make([]byte, 0, 76+len(m.Identifier)+listSize(m.RCJ)+listSize(m.PJ))
	off := 76
	dst = u64(dst, m.MsgType)
	dst = u64(dst, m.Height)
	dst = u64(dst, m.Round)
	dst = u32(dst, off)
	off += len(m.Identifier)
	dst = append(dst, m.Root[:]...)
	dst = u64(dst, m.DataRound)
	dst = u32(dst, off)
	off += listSize(m.RCJ)
	dst = u32(dst, off)
	dst = append(dst, m.Identifier...)
	dst = listOfBytes(dst, m.RCJ)
	dst = listOfBytes(dst, m.PJ)
	return dst
}

type rawSigned struct {
	Sig      []byte // 96
	Signers  []uint64
	Msg      []byte // encoded rawMsg
	FullData []byte
}

func (s rawSigned) enc() []byte {
	dst := make([]byte, 0, 108+8*len(s.Signers)+len(s.Msg)+len(s.FullData))
	off := 108
	dst = append(dst, s.Sig...)
	dst = u32(dst, off)
	off += 8 * len(s.Signers)
	dst = u32(dst, off)
	off += len(s.Msg)
	dst = u32(dst, off)
	for _, x := range s.Signers {
		dst = u64(dst, x)
	}
	dst = append(dst, s.Msg...)
	dst = append(dst, s.FullData...)
	return dst
}

type rawPartial struct {
	Sig    []byte // 96
	Root   [32]byte
	Signer uint64
}

func (p rawPartial) enc() []byte {
	dst := make([]byte, 0, 136)
	dst = append(dst, p.Sig...)
	dst = append(dst, p.Root[:]...)
	return u64(dst, p.Signer)
}

type rawSignedPartial struct {
	Type, Slot uint64
	Msgs       []rawPartial
	Sig        []byte // 96
	Signer     uint64
}

func (s rawSignedPartial) enc() []byte {
	dst := make([]byte, 0, 128+136*len(s.Msgs))
	dst = u32(dst, 108)
	dst = append(dst, s.Sig...)
	dst = u64(dst, s.Signer)
	dst = u64(dst, s.Type)
	dst = u64(dst, s.Slot)
	dst = u32(dst, 20)
	for _, m := range s.Msgs {
		dst = append(dst, m.enc()...)
	}
	return dst
}

// rawSSV assembles the SSVMessage container (what travels on pubsub before the envelope epoch).
func rawSSV(msgType uint64, msgID spectypes.MessageID, data []byte) []byte {
	dst := make([]byte, 0, 68+len(data))
	dst = u64(dst, msgType)
	dst = append(dst, msgID[:]...)
	dst = u32(dst, 68)
	return append(dst, data...)
}

// selfCheckSSZ compares the assembler with the library encoders on in-range values.
func selfCheckSSZ() error {
	id := bytes.Repeat([]byte{7}, 56)
	inner := rawSigned{Sig: bytes.Repeat([]byte{9}, 96), Signers: []uint64{2}, Msg: rawMsg{MsgType: 3, Height: 5, Round: 2, Identifier: id}.enc()}.enc()
	rm := rawMsg{MsgType: 0, Height: 5, Round: 2, Identifier: id, Root: [32]byte{1, 2}, DataRound: 1, RCJ: [][]byte{inner, inner}, PJ: [][]byte{inner}}
	rs := rawSigned{Sig: bytes.Repeat([]byte{3}, 96), Signers: []uint64{1, 2, 3}, Msg: rm.enc(), FullData: []byte{1, 2, 3}}
	lib := &specqbft.SignedMessage{Signature: rs.Sig, Signers: []spectypes.OperatorID{1, 2, 3}, FullData: []byte{1, 2, 3},
		Message: specqbft.Message{MsgType: 0, Height: 5, Round: 2, Identifier: id, Root: [32]byte{1, 2}, DataRound: 1,
			RoundChangeJustification: [][]byte{inner, inner}, PrepareJustification: [][]byte{inner}}}
	want, err := lib.Encode()
	if err != nil {
		return err
	}
	if !bytes.Equal(want, rs.enc()) {
		return fmt.Errorf("SignedMessage assembler differs from library encoder")
	}
	rp := rawSignedPartial{Type: 1, Slot: 77, Sig: bytes.Repeat([]byte{4}, 96), Signer: 3,
		Msgs: []rawPartial{{Sig: bytes.Repeat([]byte{5}, 96), Root: [32]byte{8}, Signer: 3}, {Sig: bytes.Repeat([]byte{6}, 96), Root: [32]byte{9}, Signer: 3}}}
	libp := &spectypes.SignedPartialSignatureMessage{Signature: rp.Sig, Signer: 3, Message: spectypes.PartialSignatureMessages{Type: 1, Slot: 77,
		Messages: []*spectypes.PartialSignatureMessage{{PartialSignature: rp.Msgs[0].Sig, SigningRoot: [32]byte{8}, Signer: 3}, {PartialSignature: rp.Msgs[1].Sig, SigningRoot: [32]byte{9}, Signer: 3}}}}
	wantp, err := libp.Encode()
	if err != nil {
		return err
	}
	if !bytes.Equal(wantp, rp.enc()) {
		return fmt.Errorf("SignedPartialSignatureMessage assembler differs from library encoder")
	}
	var mid spectypes.MessageID
	copy(mid[:], id)
	ssv := &spectypes.SSVMessage{MsgType: 1, MsgID: mid, Data: wantp}
	wants, err := ssv.Encode()
	if err != nil {
		return err
	}
	if !bytes.Equal(wants, rawSSV(1, mid, wantp)) {
		return fmt.Errorf("SSVMessage assembler differs from library encoder")
	}
	return nil
}
