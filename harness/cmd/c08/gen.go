package main

// The finite alphabet of C08 (DESIGN §3 C08 / §2.4), enumerated in a fixed order. Every input
// has an ordinal; a worker evaluates the ordinals of its shard, on every entry point / envelope
// epoch / history the input is routed to.

import (
	"bytes"
	"crypto/ecdsa"
	"crypto/ed25519"
	"crypto/elliptic"
	crand "crypto/rand"
	"crypto/rsa"
	"crypto/x509"
	"encoding/base64"
	"encoding/hex"
	"encoding/pem"
	"fmt"
	"math"
	"math/big"
	"strings"
	"time"

	specqbft "github.com/bloxapp/ssv-spec/qbft"
	spectypes "github.com/bloxapp/ssv-spec/types"
	"github.com/ethereum/go-ethereum/crypto"
	"github.com/ethereum/go-ethereum/p2p/enode"
	"github.com/ethereum/go-ethereum/p2p/enr"
	"github.com/ethereum/go-ethereum/rlp"
	libp2pcrypto "github.com/libp2p/go-libp2p/core/crypto"
	"github.com/libp2p/go-libp2p/core/peer"
	"github.com/prysmaticlabs/go-bitfield"

	"github.com/bloxapp/ssv/network/commons"
	"github.com/bloxapp/ssv/network/records"
	ssvmessage "github.com/bloxapp/ssv/protocol/v2/message"
	ssvtypes "github.com/bloxapp/ssv/protocol/v2/types"

	"verifharness/lib/enum"
	"verifharness/lib/valenv"
)

const defaultInto = 1000 // ms into the slot: estimated round 1, rounds 1..2 allowed

// target: where (and in which epoch mode / after which histories) an input is evaluated.
type target struct {
	entry   string
	post    bool
	hists   []int
	msgType uint64              // eSSV / eQueueDec / structured ePubsub
	msgID   spectypes.MessageID //
	structd bool                // ePubsub: input is SSVMessage.Data (wrapped by the harness), not raw pubsub data
	topic   string
}

func (w *worker) topicOf(pk []byte) string {
	return commons.GetTopicFullName(commons.ValidatorTopicID(pk)[0])
}

func (w *worker) msgIDOf(kind int, role int) spectypes.MessageID {
	return spectypes.NewMsgID(w.rn.env.NetPre.Domain, w.rn.env.PKs[kind], spectypes.BeaconRole(role))
}

// evalTargets evaluates one input on all its targets.
func (w *worker) evalTargets(data []byte, label string, into int, hrole int, ts []target) {
	for _, t := range ts {
		for _, h := range t.hists {
			c := &Case{Entry: t.entry, Post: t.post, Hist: h, HRole: hrole, Into: into, Label: label, Topic: t.topic, data: data}
			if t.entry == eSSV || t.entry == eQueueDec || (t.entry == ePubsub && t.structd) {
				c.MsgType = t.msgType
				c.MsgID = hex.EncodeToString(t.msgID[:])
			}
			res := w.eval(c)
			// signed-envelope epoch: a structured input that got as far as the RSA check with the
			// placeholder signature is evaluated again under a real operator signature
			if t.entry == ePubsub && t.structd && t.post && res.Class == "reject: signature verification" {
				c2 := *c
				c2.Signer = 1
				c2.Label = label + " (real RSA signature)"
				w.eval(&c2)
			}
		}
	}
}

// ---------------------------------------------------------------------------------------------
// honest encodings

type honest struct {
	name    string
	b       []byte
	targets []target
	hrole   int
}

func (w *worker) honestSet() []honest {
	e := w.rn.env
	cur := uint64(e.Cur)
	sig := dummySig(1)
	full := []byte("verif-full-data-B")
	root, _ := specqbft.HashDataRoot(full)
	var out []honest
	addMsg := func(name string, role int, mt uint64, data []byte) {
		id := w.msgIDOf(valenv.VKnown, role)
		topic := w.topicOf(e.PKs[valenv.VKnown])
		hs := []int{0, 1}
		if w.thorough {
			hs = []int{0, 1, 2, 3}
		}
		out = append(out, honest{name: name + "/data", b: data, hrole: role, targets: []target{
			{entry: eSSV, hists: hs, msgType: mt, msgID: id},
			{entry: eQueueDec, hists: []int{0}, msgType: mt, msgID: id},
		}})
		ssv := rawSSV(mt, id, data)
		out = append(out, honest{name: name + "/ssvmessage", b: ssv, hrole: role, targets: []target{
			{entry: ePubsub, hists: hs, topic: topic},
			{entry: eDecNet, hists: []int{0}},
		}})
		env := commons.EncodeSignedSSVMessage(ssv, 1, e.Sign(1, ssv))
		out = append(out, honest{name: name + "/envelope", b: env, hrole: role, targets: []target{
			{entry: ePubsub, post: true, hists: hs[:1], topic: topic},
			{entry: eDecSigned, hists: []int{0}},
		}})
	}
	cons := func(role int, mt specqbft.MessageType, round uint64, signers []uint64, fd []byte, dataRound uint64, rcj, pj [][]byte) []byte {
		id := w.msgIDOf(valenv.VKnown, role)
		m := rawMsg{MsgType: uint64(mt), Height: cur, Round: round, Identifier: id[:], Root: root, DataRound: dataRound, RCJ: rcj, PJ: pj}
		return rawSigned{Sig: sig, Signers: signers, Msg: m.enc(), FullData: fd}.enc()
	}
	att := int(spectypes.BNRoleAttester)
	c0 := uint64(spectypes.SSVConsensusMsgType)
	p0 := uint64(spectypes.SSVPartialSignatureMsgType)
	prepares := func(role int, round uint64) [][]byte {
		var l [][]byte
		for s := uint64(1); s <= 3; s++ {
			l = append(l, cons(role, specqbft.PrepareMsgType, round, []uint64{s}, nil, 0, nil, nil))
		}
		return l
	}
	preparedRCs := func(role int, round uint64) [][]byte {
		var l [][]byte
		for s := uint64(1); s <= 3; s++ {
			l = append(l, cons(role, specqbft.RoundChangeMsgType, round, []uint64{s}, nil, round-1, prepares(role, round-1), nil))
		}
		return l
	}
	addMsg("proposal-r1", att, c0, cons(att, specqbft.ProposalMsgType, 1, []uint64{1}, full, 0, nil, nil))
	addMsg("prepare", att, c0, cons(att, specqbft.PrepareMsgType, 1, []uint64{2}, nil, 0, nil, nil))
	addMsg("commit", att, c0, cons(att, specqbft.CommitMsgType, 1, []uint64{3}, nil, 0, nil, nil))
	addMsg("round-change-r2", att, c0, cons(att, specqbft.RoundChangeMsgType, 2, []uint64{4}, nil, 0, nil, nil))
	addMsg("round-change-r2-prepared", att, c0, cons(att, specqbft.RoundChangeMsgType, 2, []uint64{3}, full, 1, prepares(att, 1), nil))
	addMsg("decided", att, c0, cons(att, specqbft.CommitMsgType, 1, []uint64{1, 2, 3}, full, 0, nil, nil))
	addMsg("proposal-r2-justified", att, c0, cons(att, specqbft.ProposalMsgType, 2, []uint64{2}, full, 0, preparedRCs(att, 2), prepares(att, 1)))
	addMsg("proposal-proposer-role", int(spectypes.BNRoleProposer), c0, cons(int(spectypes.BNRoleProposer), specqbft.ProposalMsgType, 1, []uint64{1}, full, 0, nil, nil))
	addMsg("proposal-sync-committee-role", int(spectypes.BNRoleSyncCommittee), c0, cons(int(spectypes.BNRoleSyncCommittee), specqbft.ProposalMsgType, 1, []uint64{1}, full, 0, nil, nil))
	partial := func(pt spectypes.PartialSigMsgType, signer uint64, n int) []byte {
		p := rawSignedPartial{Type: uint64(pt), Slot: cur, Sig: sig, Signer: signer}
		for i := 0; i < n; i++ {
			p.Msgs = append(p.Msgs, rawPartial{Sig: sig, Root: [32]byte{byte(i + 1)}, Signer: signer})
		}
		return p.enc()
	}
	addMsg("post-consensus-attester", att, p0, partial(spectypes.PostConsensusPartialSig, 1, 1))
	addMsg("randao-proposer", int(spectypes.BNRoleProposer), p0, partial(spectypes.RandaoPartialSig, 2, 1))
	addMsg("selection-proof-aggregator", int(spectypes.BNRoleAggregator), p0, partial(spectypes.SelectionProofPartialSig, 3, 1))
	addMsg("contribution-proofs", int(spectypes.BNRoleSyncCommitteeContribution), p0, partial(spectypes.ContributionProofs, 4, 3))
	addMsg("validator-registration", int(spectypes.BNRoleValidatorRegistration), p0, partial(spectypes.ValidatorRegistrationPartialSig, 1, 1))
	addMsg("voluntary-exit", int(spectypes.BNRoleVoluntaryExit), p0, partial(spectypes.VoluntaryExitPartialSig, 2, 1))

	// an event message (internal type; must be refused from the network)
	evb, _ := (&ssvtypes.EventMsg{Type: ssvtypes.Timeout, Data: []byte(`{"Height":1,"Round":1}`)}).Encode()
	out = append(out, honest{name: "event/data", b: evb, hrole: att, targets: []target{
		{entry: eSSV, hists: []int{0}, msgType: uint64(ssvmessage.SSVEventMsgType), msgID: w.msgIDOf(valenv.VKnown, att)},
		{entry: eQueueDec, hists: []int{0}, msgType: uint64(ssvmessage.SSVEventMsgType), msgID: w.msgIDOf(valenv.VKnown, att)},
	}})

	// node records and handshake payloads
	ni := &records.NodeInfo{NetworkID: "testnet", Metadata: &records.NodeMetadata{NodeVersion: "v1.2.0", ExecutionNode: "geth/x", ConsensusNode: "prysm/x", Subnets: records.AllSubnets}}
	nib, err := ni.MarshalRecord()
	must(err)
	out = append(out, honest{name: "nodeinfo/record", b: nib, targets: []target{{entry: eNIUnmarshal, hists: []int{0}}}})
	nib2, err := (&records.NodeInfo{NetworkID: "testnet"}).MarshalRecord()
	must(err)
	out = append(out, honest{name: "nodeinfo-no-metadata/record", b: nib2, targets: []target{{entry: eNIUnmarshal, hists: []int{0}}}})
	netKey, _, err := libp2pcrypto.GenerateEd25519Key(bytes.NewReader(bytes.Repeat([]byte{42}, 64)))
	must(err)
	sealed, err := ni.Seal(netKey)
	must(err)
	out = append(out, honest{name: "nodeinfo/sealed-envelope", b: sealed, targets: []target{{entry: eNIConsume, hists: []int{0}}}})
	hd := records.HandshakeData{SenderPeerID: peer.ID("1.1.1.1"), RecipientPeerID: peer.ID("2.2.2.2"), Timestamp: time.Unix(1_700_000_000, 0), SenderPublicKey: []byte("c2VuZGVyLXB1YmxpYy1rZXk=")}
	sni := &records.SignedNodeInfo{NodeInfo: ni, HandshakeData: hd, Signature: e.Sign(1, hd.Encode())}
	snib, err := sni.MarshalRecord()
	must(err)
	out = append(out, honest{name: "signednodeinfo/record", b: snib, targets: []target{{entry: eSNIUnmarshal, hists: []int{0}}}})
	ssealed, err := sni.Seal(netKey)
	must(err)
	out = append(out, honest{name: "signednodeinfo/sealed-envelope", b: ssealed, targets: []target{{entry: eSNIConsume, hists: []int{0}}}})
	for _, s := range []string{records.ZeroSubnets, records.AllSubnets, "0x" + records.AllSubnets, "0123456789abcdef0123456789ABCDEF", records.AllSubnets + "ff"} {
		out = append(out, honest{name: fmt.Sprintf("subnets/%s(%d chars)", s[:6], len(s)), b: []byte(s), targets: []target{{entry: eSubnetsStr, hists: []int{0}}, {entry: eHandshakeSubnets, hists: []int{0}}}})
	}
	out = append(out, honest{name: "enr/with-subnets", b: enrWithSubnets(), targets: []target{{entry: eSubnetsEntry, hists: []int{0}}}})
	// (fresh key material per run: the behaviour class is what is recorded, the bytes of a violating
	// input are stored in its artefact)
	// public keys as a peer or the registry contract may supply them: base64(PEM(...)) of an RSA key
	// (PKIX, what operators register), and of well-formed keys of other algorithms / encodings
	pemB64 := func(typ string, der []byte) []byte {
		return []byte(base64.StdEncoding.EncodeToString(pem.EncodeToMemory(&pem.Block{Type: typ, Bytes: der})))
	}
	rsaKey, err := rsa.GenerateKey(crand.Reader, 2048)
	must(err)
	rsaPKIX, err := x509.MarshalPKIXPublicKey(&rsaKey.PublicKey)
	must(err)
	ecKey, err := ecdsa.GenerateKey(elliptic.P256(), crand.Reader)
	must(err)
	ecPKIX, err := x509.MarshalPKIXPublicKey(&ecKey.PublicKey)
	must(err)
	edPub, _, err := ed25519.GenerateKey(crand.Reader)
	must(err)
	edPKIX, err := x509.MarshalPKIXPublicKey(edPub)
	must(err)
	for _, k := range []struct {
		name string
		b    []byte
	}{
		{"rsa-pkix", pemB64("RSA PUBLIC KEY", rsaPKIX)},
		{"ecdsa-p256-pkix", pemB64("PUBLIC KEY", ecPKIX)},
		{"ed25519-pkix", pemB64("PUBLIC KEY", edPKIX)},
		{"rsa-pkcs1", pemB64("RSA PUBLIC KEY", x509.MarshalPKCS1PublicKey(&rsaKey.PublicKey))},
		{"pem-without-base64", pem.EncodeToMemory(&pem.Block{Type: "RSA PUBLIC KEY", Bytes: rsaPKIX})},
		{"base64-of-garbage", []byte(base64.StdEncoding.EncodeToString([]byte("not a pem block")))},
		{"empty", nil},
	} {
		out = append(out, honest{name: "senderkey/" + k.name, b: k.b, targets: []target{{entry: eSenderKey, hists: []int{0}}}})
	}
	return out
}

func must(err error) {
	if err != nil {
		panic(err)
	}
}

// enrWithSubnets: RLP of a signed ENR carrying a 128-bit "subnets" entry (fixed key, seq 1).
func enrWithSubnets() []byte {
	key := &ecdsa.PrivateKey{D: new(big.Int).SetBytes(bytes.Repeat([]byte{0x11}, 32))}
	key.PublicKey.Curve = crypto.S256()
	key.PublicKey.X, key.PublicKey.Y = crypto.S256().ScalarBaseMult(key.D.Bytes())
	var r enr.Record
	vec := bitfield.NewBitvector128()
	for _, i := range []uint64{0, 5, 64, 127} {
		vec.SetBitAt(i, true)
	}
	r.Set(enr.WithEntry("subnets", &vec))
	r.Set(enr.UDP(12000))
	r.SetSeq(1)
	must(enode.SignV4(&r, key))
	b, err := rlp.EncodeToBytes(&r)
	must(err)
	return b
}

// ---------------------------------------------------------------------------------------------
// stage A: every byte string of length <= 2 on every entry point

func (w *worker) stageShort() {
	w.beginStage("short-strings(len<=2) x all entry points")
	e := w.rn.env
	att := int(spectypes.BNRoleAttester)
	id := w.msgIDOf(valenv.VKnown, att)
	topic := w.topicOf(e.PKs[valenv.VKnown])
	ts := []target{
		{entry: ePubsub, hists: []int{0}, topic: topic},
		{entry: ePubsub, post: true, hists: []int{0}, topic: topic},
		{entry: eSSV, hists: []int{0}, msgType: uint64(spectypes.SSVConsensusMsgType), msgID: id},
		{entry: eSSV, hists: []int{0}, msgType: uint64(spectypes.SSVPartialSignatureMsgType), msgID: id},
		{entry: eSSV, hists: []int{0}, msgType: uint64(ssvmessage.SSVEventMsgType), msgID: id},
		{entry: eDecSigned, hists: []int{0}},
		{entry: eDecNet, hists: []int{0}},
		{entry: eQueueDec, hists: []int{0}, msgType: uint64(spectypes.SSVConsensusMsgType), msgID: id},
		{entry: eQueueDec, hists: []int{0}, msgType: uint64(spectypes.SSVPartialSignatureMsgType), msgID: id},
		{entry: eQueueDec, hists: []int{0}, msgType: uint64(ssvmessage.SSVEventMsgType), msgID: id},
		{entry: eNIUnmarshal, hists: []int{0}}, {entry: eNIConsume, hists: []int{0}},
		{entry: eSNIUnmarshal, hists: []int{0}}, {entry: eSNIConsume, hists: []int{0}},
		{entry: eSubnetsStr, hists: []int{0}}, {entry: eSubnetsEntry, hists: []int{0}},
		{entry: eHandshakeSubnets, hists: []int{0}},
	}
	enum.ShortStrings(2, func(m []byte) {
		if !w.own() {
			return
		}
		w.evalTargets(m, fmt.Sprintf("short string %x", m), defaultInto, att, ts)
	})
	// the degenerate pubsub message without an inner protobuf message
	if w.own() {
		for _, post := range []bool{false, true} {
			w.eval(&Case{Entry: ePubsub, Post: post, NoMsg: true, Into: defaultInto, Label: "pubsub.Message with nil inner message"})
		}
	}
	w.endStage()
}

// ---------------------------------------------------------------------------------------------
// stage B: honest encodings, every truncation, every single-byte substitution

func (w *worker) stageMutations() {
	w.beginStage("honest encodings x {identity, every truncation, every single-byte substitution by 00/01/7f/80/ff}")
	hs := w.honestSet()
	w.note("honest_encodings", len(hs))
	total := 0
	for _, h := range hs {
		total += len(h.b)
	}
	w.note("honest_encoding_bytes", total)
	for _, h := range hs {
		h := h
		if w.own() {
			// the honest input itself must get all the way: accept / decode ok
			for _, t := range h.targets {
				for _, hist := range t.hists[:1] {
					c := &Case{Entry: t.entry, Post: t.post, Hist: hist, HRole: h.hrole, Into: defaultInto, Label: "honest " + h.name, Topic: t.topic, data: h.b}
					if t.entry == eSSV || t.entry == eQueueDec {
						c.MsgType, c.MsgID = t.msgType, hex.EncodeToString(t.msgID[:])
					}
					res := w.eval(c)
					okClass := res.Class == "accept" || res.Class == "ok" || res.Class == "panic" || res.Class == "panic(history)" ||
						strings.HasPrefix(res.Class, "ok") || (h.name == "event/data" && t.entry == eSSV) ||
						(strings.HasPrefix(h.name, "senderkey/") && h.name != "senderkey/rsa-pkix") // well-formed keys of other kinds are bases for mutation, not accepted inputs
					if !okClass {
						w.fatal("honest encoding %s on %s is not accepted: %s", h.name, t.entry, res.Class)
					}
				}
			}
		}
		enum.Truncations(h.b, func(n int, m []byte) {
			if w.own() {
				w.evalTargets(m, fmt.Sprintf("%s truncated to %d of %d bytes", h.name, n, len(h.b)), defaultInto, h.hrole, h.targets)
			}
		})
		enum.Substitutions(h.b, enum.SubstValues, func(pos int, v byte, m []byte) {
			if w.own() {
				w.evalTargets(m, fmt.Sprintf("%s byte %d (of %d) := %02x", h.name, pos, len(h.b), v), defaultInto, h.hrole, h.targets)
			}
		})
	}
	w.endStage()
}

// ---------------------------------------------------------------------------------------------
// structured stages

var signerSets = [][]uint64{{}, {0}, {1}, {2}, {5}, {1, 1}, {2, 1}, {1, 2, 3}, {1, 2, 3, 4}, {1, 2, 3, 4, 5, 6, 7, 8, 9, 10, 11, 12, 13, 14}}

func (w *worker) structuredTargets(kind, role int, mt uint64) []target {
	id := w.msgIDOf(kind, role)
	topic := w.topicOf(w.rn.env.PKs[kind])
	// quick: ValidateSSVMessage after {empty, full round}, pubsub after the empty history;
	// thorough: ValidateSSVMessage after all four histories, pubsub after {empty, full round}
	all := []int{0, 2}
	two := []int{0}
	if w.thorough {
		all, two = []int{0, 1, 2, 3}, []int{0, 2}
	}
	if role > 6 || kind != valenv.VKnown {
		all, two = []int{0}, []int{0}
	}
	return []target{
		{entry: eSSV, hists: all, msgType: mt, msgID: id},
		{entry: ePubsub, structd: true, hists: two, msgType: mt, msgID: id, topic: topic},
		{entry: ePubsub, structd: true, post: true, hists: two, msgType: mt, msgID: id, topic: topic},
	}
}

func hrole(role int) int {
	if role > 6 {
		return 0
	}
	return role
}

// stage C: consensus messages, cross product of the field alphabets
func (w *worker) stageConsensus() {
	e := w.rn.env
	cur := uint64(e.Cur)
	types := []uint64{0, 1, 2, 3, 4, 5}
	// 2^63+cur and 2^63+cur+1 alias cur and cur+1 in the validator's slot-time arithmetic
	// (slot*12 wraps modulo 2^64), so they get past the early/late checks like an honest height
	// (0..3: every residue modulo a committee of 4 - the leader is (height%n + round - 1) % n)
	heights := []uint64{0, 1, 2, 3, cur - 22, cur, 1 << 63, 1<<63 + cur + 1, math.MaxUint64}
	rounds := []uint64{0, 1, 2, 12, 13, math.MaxInt64, math.MaxUint64}
	// (clock, signature byte) variants: 1 s into the slot with a non-zero signature; thorough adds
	// 11.9 s into the slot (estimated round 6) and the all-zero signature
	intos := []int{defaultInto}
	sigs := []byte{1}
	if w.thorough {
		heights = []uint64{0, 1, 2, 3, cur - 22, cur - 1, cur, cur + 1, math.MaxInt64, 1 << 63, 1<<63 + cur, 1<<63 + cur + 1, math.MaxUint64}
		rounds = []uint64{0, 1, 2, 6, 7, 12, 13, math.MaxInt32, 1 << 32, math.MaxInt64, 1 << 63, math.MaxUint64}
		intos = []int{defaultInto, 11900, defaultInto}
		sigs = []byte{1, 1, 0}
	}
	fds := 4   // match, mismatch, empty, same data as the history's proposal
	justs := 5 // none, valid, truncated, nested depth 3, 14 entries
	roles := 9
	dims := []int{len(intos), 1, roles, len(types), len(heights), len(rounds), len(signerSets), fds, justs}
	w.beginStage(fmt.Sprintf("consensus grammar: (ms into slot%v, signature byte%v) x role 0..8 x msgType%v x height%v x round%v x %d signer sets x fulldata{match,mismatch,empty,history's} x justifications{none,valid,truncated,nested-3,14 entries} = %d messages",
		intos, sigs, types, heights, rounds, len(signerSets), enum.Size(dims)))
	fullB := []byte("verif-full-data-B")
	fullA := []byte("verif-full-data-A")
	rootB, _ := specqbft.HashDataRoot(fullB)
	rootA, _ := specqbft.HashDataRoot(fullA)
	enum.Product(dims, func(ix []int) bool {
		if !w.own() {
			return !w.stop
		}
		into, sigb, role := intos[ix[0]], sigs[ix[0]], ix[2]
		mt, h, r, signers, fd, just := types[ix[3]], heights[ix[4]], rounds[ix[5]], signerSets[ix[6]], ix[7], ix[8]
		id := w.msgIDOf(valenv.VKnown, role)
		sig := dummySig(sigb)
		var full []byte
		root := rootB
		switch fd {
		case 0:
			full = fullB
		case 1:
			full, root = fullB, [32]byte{0xEE}
		case 2:
		case 3:
			full, root = fullA, rootA
		}
		dr := uint64(1)
		if r >= 2 && r < 1<<62 {
			dr = r - 1
		}
		inner := func(t specqbft.MessageType, round, dataRound uint64, s uint64, rcj [][]byte) []byte {
			m := rawMsg{MsgType: uint64(t), Height: h, Round: round, Identifier: id[:], Root: root, DataRound: dataRound, RCJ: rcj}
			return rawSigned{Sig: dummySig(1), Signers: []uint64{s}, Msg: m.enc()}.enc()
		}
		var rcj, pj [][]byte
		switch just {
		case 1, 2:
			for s := uint64(1); s <= 3; s++ {
				pj = append(pj, inner(specqbft.PrepareMsgType, dr, 0, s, nil))
			}
			for s := uint64(1); s <= 3; s++ {
				rcj = append(rcj, inner(specqbft.RoundChangeMsgType, r, dr, s, pj))
			}
			if just == 2 {
				rcj[2] = rcj[2][:len(rcj[2])/2]
				pj[0] = pj[0][:10]
			}
		case 3:
			d3 := inner(specqbft.RoundChangeMsgType, r, dr, 3, nil)
			d2 := inner(specqbft.RoundChangeMsgType, r, dr, 2, [][]byte{d3})
			for s := uint64(1); s <= 3; s++ {
				rcj = append(rcj, inner(specqbft.RoundChangeMsgType, r, dr, s, [][]byte{d2}))
			}
		case 4:
			for s := uint64(1); s <= 14; s++ {
				rcj = append(rcj, inner(specqbft.RoundChangeMsgType, r, 0, s, nil))
				pj = append(pj, inner(specqbft.PrepareMsgType, dr, 0, s, nil))
			}
		}
		m := rawMsg{MsgType: mt, Height: h, Round: r, Identifier: id[:], Root: root, DataRound: 0, RCJ: rcj, PJ: pj}
		if just == 1 || just == 2 {
			m.DataRound = dr
		}
		data := rawSigned{Sig: sig, Signers: signers, Msg: m.enc(), FullData: full}.enc()
		label := fmt.Sprintf("consensus{role=%d qbftType=%d height=%d round=%d signers=%v fulldata=%s justifications=%s signature=%02x..}", role, mt, h, r, signers,
			[]string{"match", "mismatch", "empty", "history's"}[fd], []string{"none", "valid", "truncated", "nested-3", "14 entries"}[just], sigb)
		w.evalTargets(data, label, into, hrole(role), w.structuredTargets(valenv.VKnown, role, uint64(spectypes.SSVConsensusMsgType)))
		return !w.stop
	})
	w.endStage()
}

// stage D: partial signature messages
func (w *worker) stagePartial() {
	e := w.rn.env
	cur := uint64(e.Cur)
	ptypes := 8 // 0..7 (6 and 7 undefined)
	slots := []uint64{0, cur, math.MaxUint64}
	if w.thorough {
		slots = []uint64{0, cur - 1, cur, cur + 1, math.MaxUint64}
	}
	ninner := 15   // 0..14
	signerVar := 4 // consistent, inner differs, outer 0, outer 5
	sigVar := 3    // fine, zero outer, zero inner
	dup := 2       // distinct roots, duplicated root
	roles := 9
	dims := []int{roles, ptypes, len(slots), ninner, signerVar, sigVar, dup}
	w.beginStage(fmt.Sprintf("partial-signature grammar: role 0..8 x type 0..7 x slot%v x 0..14 inner messages x signer{consistent,inner differs,0,5} x signature{ok,zero outer,zero inner} x roots{distinct,duplicated} = %d messages",
		slots, enum.Size(dims)))
	enum.Product(dims, func(ix []int) bool {
		if !w.own() {
			return !w.stop
		}
		role, pt, slot, n, sv, sg, dp := ix[0], uint64(ix[1]), slots[ix[2]], ix[3], ix[4], ix[5], ix[6]
		outer, innerS := uint64(1), uint64(1)
		switch sv {
		case 1:
			innerS = 2
		case 2:
			outer, innerS = 0, 0
		case 3:
			outer, innerS = 5, 5
		}
		osig, isig := dummySig(1), dummySig(1)
		if sg == 1 {
			osig = dummySig(0)
		}
		if sg == 2 {
			isig = dummySig(0)
		}
		p := rawSignedPartial{Type: pt, Slot: slot, Sig: osig, Signer: outer}
		for i := 0; i < n; i++ {
			rt := [32]byte{byte(i + 1)}
			if dp == 1 && i > 0 {
				rt = [32]byte{1}
			}
			s := outer
			if i == n-1 {
				s = innerS
			}
			p.Msgs = append(p.Msgs, rawPartial{Sig: isig, Root: rt, Signer: s})
		}
		label := fmt.Sprintf("partial{role=%d type=%d slot=%d inner=%d signer=%s signature=%s roots=%s}", role, pt, slot, n,
			[]string{"consistent", "inner-differs", "zero", "foreign(5)"}[sv], []string{"ok", "zero-outer", "zero-inner"}[sg], []string{"distinct", "duplicated"}[dp])
		w.evalTargets(p.enc(), label, defaultInto, hrole(role), w.structuredTargets(valenv.VKnown, role, uint64(spectypes.SSVPartialSignatureMsgType)))
		return !w.stop
	})
	w.endStage()
}

// stage E: the envelope around the body: validator kind x SSV message type x role x domain x body
func (w *worker) stageEnvelope() {
	e := w.rn.env
	cur := uint64(e.Cur)
	msgTypes := []uint64{0, 1, 2, 3, 4, 100, 200}
	sig := dummySig(1)
	full := []byte("verif-full-data-B")
	root, _ := specqbft.HashDataRoot(full)
	type body struct {
		name string
		b    func(id spectypes.MessageID) []byte
	}
	evb, _ := (&ssvtypes.EventMsg{Type: ssvtypes.ExecuteDuty, Data: []byte(`{}`)}).Encode()
	bodies := []body{
		{"empty", func(spectypes.MessageID) []byte { return nil }},
		{"one byte", func(spectypes.MessageID) []byte { return []byte{0} }},
		{"honest proposal", func(id spectypes.MessageID) []byte {
			return rawSigned{Sig: sig, Signers: []uint64{1}, FullData: full, Msg: rawMsg{MsgType: 0, Height: cur, Round: 1, Identifier: id[:], Root: root}.enc()}.enc()
		}},
		{"honest prepare", func(id spectypes.MessageID) []byte {
			return rawSigned{Sig: sig, Signers: []uint64{2}, Msg: rawMsg{MsgType: 1, Height: cur, Round: 1, Identifier: id[:], Root: root}.enc()}.enc()
		}},
		{"honest post-consensus partial signature", func(spectypes.MessageID) []byte {
			return rawSignedPartial{Type: 0, Slot: cur, Sig: sig, Signer: 1, Msgs: []rawPartial{{Sig: sig, Root: [32]byte{1}, Signer: 1}}}.enc()
		}},
		{"partial signature message of 1953 bytes (limit 1952)", func(spectypes.MessageID) []byte {
			p := rawSignedPartial{Type: 0, Slot: cur, Sig: sig, Signer: 1}
			for i := 0; i < 13; i++ {
				p.Msgs = append(p.Msgs, rawPartial{Sig: sig, Root: [32]byte{byte(i + 1)}, Signer: 1})
			}
			b := p.enc()
			return append(b, make([]byte, 1953-len(b))...)
		}},
		{"event message json", func(spectypes.MessageID) []byte { return evb }},
		{"json null", func(spectypes.MessageID) []byte { return []byte("null") }},
		{"100 bytes 0xff", func(spectypes.MessageID) []byte { return bytes.Repeat([]byte{0xff}, 100) }},
		{"200 zero bytes", func(spectypes.MessageID) []byte { return make([]byte, 200) }},
	}
	dims := []int{valenv.NumValidators, len(msgTypes), 9, 2, len(bodies)}
	w.beginStage(fmt.Sprintf("envelope: validator{known,liquidated,no-metadata,not-attesting,unknown} x ssvMsgType%v x role 0..8 x domain{right,wrong} x %d bodies = %d messages", msgTypes, len(bodies), enum.Size(dims)))
	enum.Product(dims, func(ix []int) bool {
		if !w.own() {
			return !w.stop
		}
		kind, mt, role, wrongDomain, bd := ix[0], msgTypes[ix[1]], ix[2], ix[3] == 1, bodies[ix[4]]
		id := w.msgIDOf(kind, role)
		ts := w.structuredTargets(kind, role, mt)
		if wrongDomain {
			id[0] ^= 0xff
			for i := range ts {
				ts[i].msgID = id
			}
		}
		label := fmt.Sprintf("envelope{validator=%s ssvMsgType=%d role=%d domain=%v body=%s}", valenv.ValidatorNames[kind], mt, role, map[bool]string{false: "right", true: "wrong"}[wrongDomain], bd.name)
		w.evalTargets(bd.b(id), label, defaultInto, hrole(role), ts)
		return !w.stop
	})
	// malformed validator public keys inside the message id (not a BLS point / zero key)
	for i, pk := range [][]byte{make([]byte, 48), bytes.Repeat([]byte{0xff}, 48)} {
		if !w.own() {
			continue
		}
		id := spectypes.NewMsgID(e.NetPre.Domain, pk, spectypes.BNRoleAttester)
		topic := w.topicOf(pk)
		ts := []target{{entry: eSSV, hists: []int{0}, msgType: 0, msgID: id}, {entry: ePubsub, structd: true, hists: []int{0}, msgType: 0, msgID: id, topic: topic}}
		w.evalTargets(bodies[2].b(id), fmt.Sprintf("envelope{validator key not a BLS point #%d}", i), defaultInto, 0, ts)
	}
	w.endStage()
}

// stage F: inputs at the size limits
func (w *worker) stageLarge() {
	w.beginStage("size limits: pubsub data / SSV data / FullData at and one past each limit")
	e := w.rn.env
	cur := uint64(e.Cur)
	att := int(spectypes.BNRoleAttester)
	id := w.msgIDOf(valenv.VKnown, att)
	topic := w.topicOf(e.PKs[valenv.VKnown])
	sig := dummySig(1)
	const maxMsgSize = 4 + 56 + 8388668
	const maxEncoded = maxMsgSize + maxMsgSize/10
	type big struct {
		label string
		pre   func() []byte // built only by the worker that owns the input
		fill  int
		ts    []target
	}
	proposalWith := func(n int) func() []byte {
		return func() []byte {
			full := make([]byte, n)
			root, _ := specqbft.HashDataRoot(full)
			return rawSigned{Sig: sig, Signers: []uint64{1}, FullData: full, Msg: rawMsg{MsgType: 0, Height: cur, Round: 1, Identifier: id[:], Root: root}.enc()}.enc()
		}
	}
	var cases []big
	for _, n := range []int{maxEncoded - 1, maxEncoded, maxEncoded + 1} {
		cases = append(cases, big{fmt.Sprintf("pubsub data of %d zero bytes (limit %d)", n, maxEncoded), nil, n, []target{{entry: ePubsub, hists: []int{0}, topic: topic}, {entry: ePubsub, post: true, hists: []int{0}, topic: topic}, {entry: eDecNet, hists: []int{0}}, {entry: eDecSigned, hists: []int{0}}}})
	}
	for _, n := range []int{8388608, 8388609} {
		cases = append(cases, big{fmt.Sprintf("SSVMessage.Data of %d bytes 0x01 (limit 8388608)", n), nil, n, []target{{entry: eSSV, hists: []int{0}, msgType: 0, msgID: id}, {entry: eQueueDec, hists: []int{0}, msgType: 0, msgID: id}}})
	}
	for _, n := range []int{6291829 - 300, 6291829 + 1, 5243144, 5243145} {
		cases = append(cases, big{fmt.Sprintf("honest proposal with %d bytes of FullData (SSZ limits: FullData 5243144, SSVMessage.Data 6291829)", n), proposalWith(n), n,
			[]target{{entry: eSSV, hists: []int{0, 1}, msgType: 0, msgID: id}, {entry: ePubsub, structd: true, hists: []int{0}, msgType: 0, msgID: id, topic: topic}, {entry: ePubsub, structd: true, post: true, hists: []int{0}, msgType: 0, msgID: id, topic: topic}}})
	}
	for _, c := range cases {
		if !w.own() {
			continue
		}
		var data []byte
		fillB := byte(0)
		if c.pre != nil {
			data = c.pre()
		} else {
			if c.ts[0].entry == eSSV {
				fillB = 1
			}
			data = bytes.Repeat([]byte{fillB}, c.fill)
		}
		for _, t := range c.ts {
			for _, h := range t.hists {
				cs := &Case{Entry: t.entry, Post: t.post, Hist: h, HRole: att, Into: defaultInto, Label: c.label, Topic: t.topic, data: data}
				cs.Fill, cs.FillB = c.fill, fillB // the fill (zero FullData / filler) is the tail of data
				if t.entry == eSSV || t.entry == eQueueDec || t.structd {
					cs.MsgType, cs.MsgID = t.msgType, hex.EncodeToString(t.msgID[:])
				}
				w.eval(cs)
			}
		}
	}
	w.endStage()
}
