module verifharness

go 1.20

require (
	github.com/aquasecurity/table v1.8.0
	github.com/attestantio/go-eth2-client v0.19.11-0.20240129201044-9d799aaab2bd
	github.com/bloxapp/eth2-key-manager v1.4.0
	github.com/bloxapp/ssv-spec v0.3.7
	github.com/btcsuite/btcd/btcec/v2 v2.3.2
	github.com/cespare/xxhash/v2 v2.2.0
	github.com/cornelk/hashmap v1.0.8
	github.com/dgraph-io/badger/v4 v4.1.0
	github.com/dgraph-io/ristretto v0.1.1
	github.com/ethereum/go-ethereum v1.13.5
	github.com/ferranbt/fastssz v0.1.3
	github.com/go-chi/chi/v5 v5.0.8
	github.com/go-chi/render v1.0.2
	github.com/golang/gddo v0.0.0-20200528160355-8d077c1d8f4c
	github.com/golang/mock v1.6.0
	github.com/google/uuid v1.3.0
	github.com/gorilla/websocket v1.5.0
	github.com/hashicorp/golang-lru/v2 v2.0.2
	github.com/herumi/bls-eth-go-binary v1.29.1
	github.com/ilyakaznacheev/cleanenv v1.4.2
	github.com/jellydator/ttlcache/v3 v3.0.1
	github.com/libp2p/go-libp2p v0.28.2
	github.com/libp2p/go-libp2p-kad-dht v0.23.0
	github.com/libp2p/go-libp2p-pubsub v0.9.3
	github.com/microsoft/go-crypto-openssl v0.2.8
	github.com/multiformats/go-multiaddr v0.12.1
	github.com/multiformats/go-multistream v0.4.1
	github.com/patrickmn/go-cache v2.1.0+incompatible
	github.com/pkg/errors v0.9.1
	github.com/prometheus/client_golang v1.16.0
	github.com/prysmaticlabs/go-bitfield v0.0.0-20210809151128-385d8c5e3fb7
	github.com/prysmaticlabs/prysm/v4 v4.0.8
	github.com/rs/zerolog v1.29.1
	github.com/sourcegraph/conc v0.3.0
	github.com/spf13/cobra v1.7.0
	github.com/stretchr/testify v1.8.4
	github.com/wealdtech/go-eth2-types/v2 v2.8.1
	github.com/wealdtech/go-eth2-util v1.8.1
	github.com/wealdtech/go-eth2-wallet-encryptor-keystorev4 v1.1.3
	go.uber.org/multierr v1.11.0
	go.uber.org/zap v1.24.0
	golang.org/x/exp v0.0.0-20230905200255-921286631fa9
	golang.org/x/mod v0.12.0
	golang.org/x/sync v0.3.0
	golang.org/x/text v0.14.0
	gopkg.in/natefinch/lumberjack.v2 v2.2.1
	gopkg.in/yaml.v3 v3.0.1
)

require (
	github.com/BurntSushi/toml v1.3.2 // indirect
	github.com/DataDog/zstd v1.5.2 // indirect
	github.com/Microsoft/go-winio v0.6.1 // indirect
	github.com/VictoriaMetrics/fastcache v1.12.1 // indirect
	github.com/ajg/form v1.5.1 // indirect
	github.com/aristanetworks/goarista v0.0.0-20200805130819-fd197cf57d96 // indirect
	github.com/benbjohnson/clock v1.3.5 // indirect
	github.com/beorn7/perks v1.0.1 // indirect
	github.com/bits-and-blooms/bitset v1.7.0 // indirect
	github.com/cockroachdb/errors v1.9.1 // indirect
	github.com/cockroachdb/logtags v0.0.0-20230118201751-21c54148d20b // indirect
	github.com/cockroachdb/pebble v0.0.0-20230928194634-aa077af62593 // indirect
	github.com/cockroachdb/redact v1.1.3 // indirect
	github.com/cockroachdb/tokenbucket v0.0.0-20230807174530-cc333fc44b06 // indirect
	github.com/consensys/bavard v0.1.13 // indirect
	github.com/consensys/gnark-crypto v0.12.1 // indirect
	github.com/containerd/cgroups v1.1.0 // indirect
	github.com/coreos/go-systemd/v22 v22.5.0 // indirect
	github.com/cpuguy83/go-md2man/v2 v2.0.2 // indirect
	github.com/crate-crypto/go-kzg-4844 v0.7.0 // indirect
	github.com/davecgh/go-spew v1.1.1 // indirect
	github.com/davidlazar/go-crypto v0.0.0-20200604182044-b73af7476f6c // indirect
	github.com/deckarep/golang-set/v2 v2.1.0 // indirect
	github.com/decred/dcrd/dcrec/secp256k1/v4 v4.2.0 // indirect
	github.com/docker/go-units v0.5.0 // indirect
	github.com/dustin/go-humanize v1.0.0 // indirect
	github.com/elastic/gosigar v0.14.2 // indirect
	github.com/ethereum/c-kzg-4844 v0.4.0 // indirect
	github.com/fatih/color v1.16.0 // indirect
	github.com/fjl/memsize v0.0.0-20190710130421-bcb5799ab5e5 // indirect
	github.com/flynn/noise v1.0.0 // indirect
	github.com/francoispqt/gojay v1.2.13 // indirect
	github.com/fsnotify/fsnotify v1.6.0 // indirect
	github.com/gballet/go-libpcsclite v0.0.0-20191108122812-4678299bea08 // indirect
	github.com/getsentry/sentry-go v0.18.0 // indirect
	github.com/go-logr/logr v1.2.4 // indirect
	github.com/go-logr/stdr v1.2.2 // indirect
	github.com/go-ole/go-ole v1.2.6 // indirect
	github.com/go-stack/stack v1.8.1 // indirect
	github.com/go-task/slim-sprig v0.0.0-20230315185526-52ccab3ef572 // indirect
	github.com/goccy/go-yaml v1.11.0 // indirect
	github.com/godbus/dbus/v5 v5.1.0 // indirect
	github.com/gofrs/flock v0.8.1 // indirect
	github.com/gogo/protobuf v1.3.2 // indirect
	github.com/golang-jwt/jwt/v4 v4.5.0 // indirect
	github.com/golang/glog v1.0.0 // indirect
	github.com/golang/groupcache v0.0.0-20210331224755-41bb18bfe9da // indirect
	github.com/golang/protobuf v1.5.3 // indirect
	github.com/golang/snappy v0.0.5-0.20220116011046-fa5810519dcb // indirect
	github.com/google/flatbuffers v1.12.1 // indirect
	github.com/google/go-cmp v0.5.9 // indirect
	github.com/google/gopacket v1.1.19 // indirect
	github.com/google/pprof v0.0.0-20230602150820-91b7bce49751 // indirect
	github.com/hashicorp/errwrap v1.1.0 // indirect
	github.com/hashicorp/go-bexpr v0.1.10 // indirect
	github.com/hashicorp/go-multierror v1.1.1 // indirect
	github.com/hashicorp/golang-lru v0.5.5-0.20210104140557-80c98217689d // indirect
	github.com/holiman/billy v0.0.0-20230718173358-1c7e68d277a7 // indirect
	github.com/holiman/bloomfilter/v2 v2.0.3 // indirect
	github.com/holiman/uint256 v1.2.4 // indirect
	github.com/huandu/go-clone v1.6.0 // indirect
	github.com/huin/goupnp v1.3.0 // indirect
	github.com/inconshreveable/mousetrap v1.1.0 // indirect
	github.com/ipfs/boxo v0.8.0 // indirect
	github.com/ipfs/go-cid v0.4.1 // indirect
	github.com/ipfs/go-datastore v0.6.0 // indirect
	github.com/ipfs/go-ipfs-util v0.0.2 // indirect
	github.com/ipfs/go-log v1.0.5 // indirect
	github.com/ipfs/go-log/v2 v2.5.1 // indirect
	github.com/ipld/go-ipld-prime v0.20.0 // indirect
	github.com/jackpal/go-nat-pmp v1.0.2 // indirect
	github.com/jbenet/go-temp-err-catcher v0.1.0 // indirect
	github.com/jbenet/goprocess v0.1.4 // indirect
	github.com/joho/godotenv v1.4.0 // indirect
	github.com/klauspost/compress v1.16.5 // indirect
	github.com/klauspost/cpuid/v2 v2.2.6 // indirect
	github.com/koron/go-ssdp v0.0.4 // indirect
	github.com/kr/pretty v0.3.1 // indirect
	github.com/kr/text v0.2.0 // indirect
	github.com/libp2p/go-buffer-pool v0.1.0 // indirect
	github.com/libp2p/go-cidranger v1.1.0 // indirect
	github.com/libp2p/go-flow-metrics v0.1.0 // indirect
	github.com/libp2p/go-libp2p-asn-util v0.3.0 // indirect
	github.com/libp2p/go-libp2p-kbucket v0.5.0 // indirect
	github.com/libp2p/go-libp2p-record v0.2.0 // indirect
	github.com/libp2p/go-msgio v0.3.0 // indirect
	github.com/libp2p/go-nat v0.2.0 // indirect
	github.com/libp2p/go-netroute v0.2.1 // indirect
	github.com/libp2p/go-reuseport v0.3.0 // indirect
	github.com/libp2p/go-yamux/v4 v4.0.0 // indirect
	github.com/libp2p/zeroconf/v2 v2.2.0 // indirect
	github.com/marten-seemann/tcp v0.0.0-20210406111302-dfbc87cc63fd // indirect
	github.com/mattn/go-colorable v0.1.13 // indirect
	github.com/mattn/go-isatty v0.0.20 // indirect
	github.com/mattn/go-runewidth v0.0.14 // indirect
	github.com/matttproud/golang_protobuf_extensions v1.0.4 // indirect
	github.com/miekg/dns v1.1.54 // indirect
	github.com/mikioh/tcpinfo v0.0.0-20190314235526-30a79bb1804b // indirect
	github.com/mikioh/tcpopt v0.0.0-20190314235656-172688c1accc // indirect
	github.com/minio/sha256-simd v1.0.1 // indirect
	github.com/mitchellh/mapstructure v1.5.0 // indirect
	github.com/mitchellh/pointerstructure v1.2.0 // indirect
	github.com/mmcloughlin/addchain v0.4.0 // indirect
	github.com/mr-tron/base58 v1.2.0 // indirect
	github.com/multiformats/go-base32 v0.1.0 // indirect
	github.com/multiformats/go-base36 v0.2.0 // indirect
	github.com/multiformats/go-multiaddr-dns v0.3.1 // indirect
	github.com/multiformats/go-multiaddr-fmt v0.1.0 // indirect
	github.com/multiformats/go-multibase v0.2.0 // indirect
	github.com/multiformats/go-multicodec v0.9.0 // indirect
	github.com/multiformats/go-multihash v0.2.2 // indirect
	github.com/multiformats/go-varint v0.0.7 // indirect
	github.com/olekukonko/tablewriter v0.0.5 // indirect
	github.com/onsi/ginkgo/v2 v2.9.7 // indirect
	github.com/opencontainers/runtime-spec v1.0.2 // indirect
	github.com/opentracing/opentracing-go v1.2.0 // indirect
	github.com/pbnjay/memory v0.0.0-20210728143218-7b4eea64cf58 // indirect
	github.com/pmezard/go-difflib v1.0.0 // indirect
	github.com/polydawn/refmt v0.89.0 // indirect
	github.com/prometheus/client_model v0.4.0 // indirect
	github.com/prometheus/common v0.42.0 // indirect
	github.com/prometheus/procfs v0.10.1 // indirect
	github.com/quic-go/qpack v0.4.0 // indirect
	github.com/quic-go/qtls-go1-19 v0.3.3 // indirect
	github.com/quic-go/qtls-go1-20 v0.2.3 // indirect
	github.com/quic-go/quic-go v0.33.0 // indirect
	github.com/quic-go/webtransport-go v0.5.3 // indirect
	github.com/r3labs/sse/v2 v2.10.0 // indirect
	github.com/raulk/go-watchdog v1.3.0 // indirect
	github.com/rivo/uniseg v0.4.3 // indirect
	github.com/rogpeppe/go-internal v1.11.0 // indirect
	github.com/rs/cors v1.7.0 // indirect
	github.com/russross/blackfriday/v2 v2.1.0 // indirect
	github.com/shirou/gopsutil v3.21.11+incompatible // indirect
	github.com/sirupsen/logrus v1.9.0 // indirect
	github.com/spaolacci/murmur3 v1.1.0 // indirect
	github.com/spf13/pflag v1.0.5 // indirect
	github.com/status-im/keycard-go v0.2.0 // indirect
	github.com/supranational/blst v0.3.11 // indirect
	github.com/syndtr/goleveldb v1.0.1-0.20220721030215-126854af5e6d // indirect
	github.com/tklauser/go-sysconf v0.3.12 // indirect
	github.com/tklauser/numcpus v0.6.1 // indirect
	github.com/tyler-smith/go-bip39 v1.1.0 // indirect
	github.com/urfave/cli/v2 v2.25.7 // indirect
	github.com/wealdtech/go-bytesutil v1.2.1 // indirect
	github.com/whyrusleeping/go-keyspace v0.0.0-20160322163242-5b898ac5add1 // indirect
	github.com/xrash/smetrics v0.0.0-20201216005158-039620a65673 // indirect
	github.com/yusufpapurcu/wmi v1.2.2 // indirect
	go.opencensus.io v0.24.0 // indirect
	go.opentelemetry.io/otel v1.16.0 // indirect
	go.opentelemetry.io/otel/metric v1.16.0 // indirect
	go.opentelemetry.io/otel/trace v1.16.0 // indirect
	go.uber.org/atomic v1.11.0 // indirect
	go.uber.org/dig v1.17.0 // indirect
	go.uber.org/fx v1.19.2 // indirect
	golang.org/x/crypto v0.18.0 // indirect
	golang.org/x/net v0.17.0 // indirect
	golang.org/x/sys v0.16.0 // indirect
	golang.org/x/term v0.16.0 // indirect
	golang.org/x/time v0.3.0 // indirect
	golang.org/x/tools v0.13.0 // indirect
	golang.org/x/xerrors v0.0.0-20231012003039-104605ab7028 // indirect
	gonum.org/v1/gonum v0.11.0 // indirect
	google.golang.org/protobuf v1.30.0 // indirect
	gopkg.in/cenkalti/backoff.v1 v1.1.0 // indirect
	gopkg.in/yaml.v2 v2.4.0 // indirect
	lukechampine.com/blake3 v1.2.1 // indirect
	olympos.io/encoding/edn v0.0.0-20201019073823-d3554ca0b0a3 // indirect
	rsc.io/tmplfunc v0.0.3 // indirect
)

replace github.com/google/flatbuffers => github.com/google/flatbuffers v1.11.0

replace github.com/dgraph-io/ristretto => github.com/dgraph-io/ristretto v0.1.1-0.20211108053508-297c39e6640f

replace github.com/attestantio/go-eth2-client => github.com/ssvlabs/go-eth2-client v0.0.0-20240702122821-2c345f4fc90f

require github.com/bloxapp/ssv v0.0.0

replace github.com/bloxapp/ssv => /repo
